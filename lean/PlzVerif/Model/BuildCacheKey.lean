import PlzVerif.Model.BuildCache
/-
The cached build step of `Model/BuildCache.lean` with the cache key as a FUNCTION of (label, stamp):
`keyOf : K × Stamp S N H → Q` stands for `mustShortTargetHash` = `CollapseHash(rule ++ postRule ++ config ++ source)`
together with the label the entry is filed under.  `BuildCache` idealises the key as the pair itself; here nothing
is assumed about `keyOf`, so that "the key separates distinct target states" becomes an explicit hypothesis
(`Function.Injective keyOf`) of the theorems instead of a property of the model's types.
-/
namespace PlzVerif.Build

variable {K A F N C S H Q : Type} [DecidableEq K] [DecidableEq S] [DecidableEq N] [DecidableEq H] [DecidableEq Q]

abbrev CacheK (Q C : Type) := Q → Option C

variable (keyOf : K × Stamp S N H → Q)
variable (fx : Facts) (mv : C → C → C) (rs : C → C → C) (exec : A → List (N × C) → C) (ruleSer : A → S) (pathSer : C → H)

/-- (plz-out, cache, ran?) after one `buildTarget` with the cache configured; lookups and stores go through `keyOf`. -/
def buildOneCK (r : Repo K A F N C) (out : Out K C S N H) (cache : CacheK Q C) (t : Target K A F) :
    Out K C S N H × CacheK Q C × Bool :=
  match inputs r out t with
  | none => (out, cache, false)
  | some ins =>
    let st : Stamp S N H := stampOf ruleSer pathSer t.attrs ins
    let upToDate := match out t.key with
      | some (_, st0) => stampEq fx st0 st
      | none => false
    if upToDate then (out, cache, false)
    else match cache (keyOf (t.key, st)) with
      | some c =>
        let placed := match out t.key with
          | some (c0, _) => rs c0 c
          | none => c
        (fun j => if j = t.key then some (placed, st) else out j, cache, false)
      | none =>
        let out' := (buildOne fx mv exec ruleSer pathSer r out t).1
        let cache' : CacheK Q C := fun q =>
          if q = keyOf (t.key, st) then (out' t.key).map Prod.fst else cache q
        (out', cache', true)

def buildListCK (r : Repo K A F N C) (sel : K → Bool) :
    List (Target K A F) → Out K C S N H → CacheK Q C → Out K C S N H × CacheK Q C × List K
  | [], out, cache => (out, cache, [])
  | t :: ts, out, cache =>
    if sel t.key then
      let (out', cache', ran) := buildOneCK keyOf fx mv rs exec ruleSer pathSer r out cache t
      let (out'', cache'', rs) := buildListCK r sel ts out' cache'
      (out'', cache'', if ran then t.key :: rs else rs)
    else buildListCK r sel ts out cache

def buildCK (r : Repo K A F N C) (sel : K → Bool) (out : Out K C S N H) (cache : CacheK Q C) :=
  buildListCK keyOf fx mv rs exec ruleSer pathSer r sel r.targets out cache

/-- History steps with a keyed cache: builds, removals from plz-out, eviction of arbitrary cache entries. -/
inductive HOpCK (K A F N C Q : Type) where
  | build (r : Repo K A F N C) (sel : K → Bool)
  | remove (keep : K → Bool)
  | evict (keep : Q → Bool)

def runHistCK : List (HOpCK K A F N C Q) → Out K C S N H × CacheK Q C → Out K C S N H × CacheK Q C
  | [], s => s
  | .build r sel :: ops, (out, cache) =>
      let res := buildCK keyOf fx mv rs exec ruleSer pathSer r sel out cache
      runHistCK ops (res.1, res.2.1)
  | .remove keep :: ops, (out, cache) => runHistCK ops (fun k => if keep k then out k else none, cache)
  | .evict keep :: ops, (out, cache) => runHistCK ops (out, fun q => if keep q then cache q else none)

end PlzVerif.Build
