import PlzVerif.Base.Proto
import PlzVerif.Model.RuleHash
/-!
Token syntax shared by the C07 / C08 / C10 drivers: `key=value` tokens describing a rule-hash context and target
(see harness/rulehash/rulehash.go), and the well-formedness check mirroring what the `BuildTarget` Add* API guarantees.
Byte strings hex ("-" empty), lists "," separated ("." empty), labels `sub|pkg|name`, maps `k:v`, groups `k:v1/v2`.
-/
namespace PlzVerif.RuleProto
open PlzVerif PlzVerif.RuleHash PlzVerif.Proto

def unhx (s : String) : Option Bytes :=
  if s = "-" then some [] else if s.isEmpty then none else bytesOfHex s

def decList (s : String) : Option (List Bytes) :=
  if s = "." then some [] else (s.splitOn ",").mapM unhx

def decLabel (s : String) : Option Label :=
  match s.splitOn "|" with
  | [a, b, c] => do pure ⟨← unhx a, ← unhx b, ← unhx c⟩
  | _ => none

def decLabels (sep : String) (s : String) : Option (List Label) :=
  if s = "." then some [] else (s.splitOn sep).mapM decLabel

def decKVs (s : String) : Option (List (Bytes × Bytes)) :=
  if s = "." then some [] else (s.splitOn ",").mapM fun p =>
    match p.splitOn ":" with
    | [k, v] => do pure (← unhx k, ← unhx v)
    | _ => none

def decGroups (s : String) : Option (List (Bytes × List Bytes)) :=
  if s = "." then some [] else (s.splitOn ",").mapM fun p =>
    match p.splitOn ":" with
    | [k, v] => do pure (← unhx k, ← (if v = "." then some [] else (v.splitOn "/").mapM unhx))
    | _ => none

def decPGroups (s : String) : Option (List (Bytes × List Label)) :=
  if s = "." then some [] else (s.splitOn ",").mapM fun p =>
    match p.splitOn ":" with
    | [k, v] => do pure (← unhx k, ← decLabels "/" v)
    | _ => none

def flagNames : List String := ["isBinary", "isSubrepo", "sandbox", "needsTransitiveDeps", "outputIsComplete", "stamp",
  "isFilegroup", "isTextFile", "isRemoteFile", "isLocal", "srcListFiles", "exitOnError", "preBuild", "postBuild",
  "testSandbox", "testNoOutput", "isTest"]

def setFlag (t : Target) : String → Option Target
  | "isBinary" => some { t with isBinary := true }
  | "isSubrepo" => some { t with isSubrepo := true }
  | "sandbox" => some { t with sandbox := true }
  | "needsTransitiveDeps" => some { t with needsTransitiveDeps := true }
  | "outputIsComplete" => some { t with outputIsComplete := true }
  | "stamp" => some { t with stamp := true }
  | "isFilegroup" => some { t with isFilegroup := true }
  | "isTextFile" => some { t with isTextFile := true }
  | "isRemoteFile" => some { t with isRemoteFile := true }
  | "isLocal" => some { t with isLocal := true }
  | "srcListFiles" => some { t with srcListFiles := true }
  | "exitOnError" => some { t with exitOnError := true }
  | "preBuild" => some { t with preBuild := true }
  | "postBuild" => some { t with postBuild := true }
  | "testSandbox" => some { t with testSandbox := true }
  | "testNoOutput" => some { t with testNoOutput := true }
  | "isTest" => some { t with isTest := true }
  | _ => none

def nodupS (l : List String) : Bool := match l with
  | [] => true
  | x :: r => !r.contains x && nodupS r

/-- One `key=value` token applied to the context / target. `ctxOK`/`tgtOK`: which of the two may be set. -/
def applyTok (ctxOK tgtOK : Bool) (st : Ctx × Target) (tok : String) : Option (Ctx × Target) :=
  let (c, t) := st
  match tok.splitOn "=" with
  | [k, v] =>
    let ctxKey := k = "runtime" || k = "config" || k = "fallback" || k = "environ" || k = "hashcheckers"
    if ctxKey then
      if !ctxOK then none else
      match k with
      | "runtime" => if v = "1" then some ({ c with runtime := true }, t) else none
      | "config" => (unhx v).map fun b => ({ c with config := b }, t)
      | "fallback" => (unhx v).map fun b => ({ c with fallback := b }, t)
      | "hashcheckers" => (decList v).map fun l => ({ c with hashCheckers := l }, t)
      | _ => (decKVs v).map fun m => ({ c with environ := m }, t)
    else if !tgtOK then none else
    match k with
    | "label" => (decLabel v).map fun x => (c, { t with label := x })
    | "deps" => (decLabels "," v).map fun x => (c, { t with deps := x })
    | "visibility" => (decLabels "," v).map fun x => (c, { t with visibility := x })
    | "hashes" => (decList v).map fun x => (c, { t with hashes := x })
    | "srcs" => (decList v).map fun x => (c, { t with srcs := x })
    | "namedSrcs" => (decGroups v).map fun x => (c, { t with namedSrcs := x })
    | "outs" => (decList v).map fun x => (c, { t with outs := x })
    | "namedOuts" => (decGroups v).map fun x => (c, { t with namedOuts := x })
    | "licences" => (decList v).map fun x => (c, { t with licences := x })
    | "optionalOuts" => (decList v).map fun x => (c, { t with optionalOuts := x })
    | "labels" => (decList v).map fun x => (c, { t with labels := x })
    | "secrets" => (decList v).map fun x => (c, { t with secrets := x })
    | "command" => (unhx v).map fun x => (c, { t with command := x })
    | "commands" => (decKVs v).map fun x => (c, { t with commands := some x })
    | "requires" => (decList v).map fun x => (c, { t with requires := x })
    | "provides" => (decPGroups v).map fun x => (c, { t with provides := x })
    | "passEnv" => (decList v).map fun x => (c, { t with passEnv := some x })
    | "outputDirs" => (decList v).map fun x => (c, { t with outputDirs := x })
    | "entryPoints" => (decKVs v).map fun x => (c, { t with entryPoints := x })
    | "env" => (decKVs v).map fun x => (c, { t with env := x })
    | "fileContent" => (unhx v).map fun x => (c, { t with fileContent := x })
    | "data" => (decList v).map fun x => (c, { t with data := x })
    | "namedData" => (decGroups v).map fun x => (c, { t with namedData := x })
    | "testOutputs" => (decList v).map fun x => (c, { t with testOutputs := x })
    | "testCommand" => (unhx v).map fun x => (c, { t with testCommand := x })
    | "testCommands" => (decKVs v).map fun x => (c, { t with testCommands := some x })
    | "testArgsPlaceholder" => (unhx v).map fun x => (c, { t with testArgsPlaceholder := x })
    | "tools" => (decList v).map fun x => (c, { t with tools := x })
    | "namedTools" => (decGroups v).map fun x => (c, { t with namedTools := x })
    | "namedSecrets" => (decGroups v).map fun x => (c, { t with namedSecrets := x })
    | "passUnsafeEnv" => (decList v).map fun x => (c, { t with passUnsafeEnv := some x })
    | "flags" =>
      let names := v.splitOn ","
      if !nodupS names then none else (names.foldlM setFlag t).map fun t' => (c, t')
    | _ => none
  | _ => none

def parseToks (ctxOK tgtOK : Bool) (c0 : Ctx) (toks : List String) : Option (Ctx × Target) :=
  let keys := toks.map fun t => (t.splitOn "=").headD ""
  if !nodupS keys then none else toks.foldlM (applyTok ctxOK tgtOK) (c0, {})

/-! well-formedness: what the Add* API guarantees (mirrors `wellFormed` in the harness) -/

def nodupB (l : List Bytes) : Bool := match l with
  | [] => true
  | x :: r => !r.contains x && nodupB r

def hasDotSlash : Bytes → Bool
  | 46 :: 47 :: _ => true
  | _ => false

def strictlySorted : List Bytes → Bool
  | [] => true
  | [x] => !x.isEmpty && !hasDotSlash x
  | x :: y :: r => !x.isEmpty && !hasDotSlash x && bytesLt x y && strictlySorted (y :: r)

def envNameOK (b : Bytes) : Bool := !b.isEmpty && !b.contains 61 && !b.contains 0

def isSpace (b : UInt8) : Bool := b == 32 || b == 9 || b == 10 || b == 11 || b == 12 || b == 13 || b == 0x85 || b == 0xA0

/-- `strings.TrimSpace(l) == l` for the byte strings the harness uses (ASCII white space at either end). -/
def trimmed (b : Bytes) : Bool :=
  match b, b.getLast? with
  | x :: _, some y => !(x == 32 || x == 9 || x == 10 || x == 11 || x == 12 || x == 13) &&
                      !(y == 32 || y == 9 || y == 10 || y == 11 || y == 12 || y == 13)
  | _, _ => true

def nodupL (l : List Label) : Bool := match l with
  | [] => true
  | x :: r => !r.contains x && nodupL r

def wellFormed (c : Ctx) (t : Target) : Bool :=
  strictlySorted t.outs && strictlySorted t.optionalOuts && strictlySorted t.testOutputs &&
  nodupB t.srcs && nodupB t.secrets && nodupB (t.namedSrcs.map (·.1)) && nodupB (t.namedOuts.map (·.1)) &&
  nodupB (t.namedData.map (·.1)) && nodupB (t.namedTools.map (·.1)) && nodupB (t.namedSecrets.map (·.1)) &&
  nodupB (t.entryPoints.map (·.1)) && nodupB (t.env.map (·.1)) && nodupB (c.environ.map (·.1)) &&
  t.namedOuts.all (fun g => strictlySorted g.2) && t.namedSrcs.all (fun g => nodupB g.2) &&
  t.namedSecrets.all (fun g => nodupB g.2) && nodupB (t.provides.map (·.1)) &&
  nodupL t.deps && !t.deps.contains t.label &&
  (t.commands.map fun m => nodupB (m.map (·.1))).getD true &&
  (t.testCommands.map fun m => nodupB (m.map (·.1))).getD true &&
  (t.passEnv.map fun l => l.all envNameOK).getD true &&
  c.environ.all (fun kv => envNameOK kv.1 && !kv.2.contains 0) &&
  t.licences.all trimmed && nodupB t.licences &&
  (t.isTest || (t.testOutputs.isEmpty && t.testCommand.isEmpty && t.testCommands.isNone &&
                t.testArgsPlaceholder.isEmpty && !t.testSandbox && !t.testNoOutput)) &&
  t.entryPoints.all (fun e => t.namedOuts.all fun g => e.1 != g.1) &&
  (!t.isFilegroup || t.entryPoints.all (fun e => t.namedSrcs.all fun g => e.1 != g.1)) &&
  t.label != ⟨[], [], []⟩ && t.label != ⟨[], [], originalName⟩


end PlzVerif.RuleProto
