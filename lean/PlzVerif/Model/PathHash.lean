/-!
Model of `fs.PathHasher.Hash` / `hash` (src/fs/hash.go) over `fs.WalkMode` (src/fs/walk.go, godirwalk).
Core Lean only.

What is modelled: the exact byte stream written into the hash object (the *pre-image*) for a path that
holds a file tree.  The digest itself is idealised as injective (DESIGN.md §3), so "two trees get the
same hash" is "two trees get the same pre-image".

* `Tree` is a file system tree; directory entries are kept in the order the walk visits them
  (godirwalk sorts the names of each directory bytewise unless `Unsorted` is set — regenerated fact
  `walkUnsorted`; `Tree.Sorted` is the corresponding well-formedness predicate).
* `walk` transcribes `godirwalk.Walk`: pre-order, the callback sees the directory itself, then each child;
  child path = parent ++ "/" ++ name; symlinks are not followed (fact `walkFollowsSymlinks`).
* What the callback / the three branches of `hash` write is *not* hard-wired: it is interpreted from the
  `Schema` regenerated from the body of `PathHasher.hash` on every run (`Generated.C09.schema`).
* `ensureRelative` transcribes `(*PathHasher).ensureRelative` (string prefix + TrimLeft "/").

Not modelled: memoisation (`memo`/`wait`), xattr read/store (switched off in the correspondence),
`timestamp` mode, I/O errors, special files (sockets, fifos, devices), permission bits.
-/
namespace PlzVerif.PathHash

abbrev Bytes := List UInt8

inductive Tree where
  | file (content : Bytes)
  | symlink (target : Bytes)
  | dir (entries : List (Bytes × Tree))
  deriving Repr, Inhabited

inductive Kind where
  | file | symlink | dir
  deriving DecidableEq, Repr

/-- One callback invocation of the walk. `data` = file content / symlink target / nothing. -/
structure Event where
  kind : Kind
  path : Bytes
  data : Bytes
  deriving DecidableEq, Repr

/-- Things a branch of `hash` can write into the hash object. -/
inductive Item where
  | marker      -- `h.Write(boolTrueHashValue)`
  | content     -- `hasher.fileHash(h, p)`: the whole file (for a symlink: the file it resolves to)
  | target      -- `h.Write([]byte(rel))`: the root-relative symlink destination
  | path        -- `h.Write([]byte(p))`: the path handed to the callback (not written today)
  deriving DecidableEq, Repr

/-- The condition that sends a top-level symlink into the "managed by the repo" branch, as a boolean
    expression over the three tests the code makes (regenerated from the `if` in `hash`). -/
inductive CondE where
  | relNeDest                  -- `rel != dest` (the root prefix was stripped from the destination)
  | absDest                    -- `filepath.IsAbs(dest)`
  | absPath                    -- `filepath.IsAbs(path)`
  | tt
  | not (a : CondE)
  | and (a b : CondE)
  | or (a b : CondE)
  deriving DecidableEq, Repr

/-- `(rel != dest || !filepath.IsAbs(dest)) && !filepath.IsAbs(path)`: the condition of the pinned code. -/
def stdCond : CondE := .and (.or .relNeDest (.not .absDest)) (.not .absPath)

/-- The write schema of `PathHasher.hash`, regenerated from the source. -/
structure Schema where
  marker : Bytes               -- value of `boolTrueHashValue`
  linkCond : CondE             -- when a top-level symlink counts as repo-managed
  topFile : List Item          -- final `else`: a plain file
  topLinkIn : List Item        -- top-level symlink whose destination is managed by the repo
  topLinkOut : List Item       -- top-level symlink to a system tool
  dirFile : List Item          -- walk callback, `!mode.IsDir()`
  dirLink : List Item          -- walk callback, `mode.IsSymlink()`
  dirDir : List Item           -- walk callback, directories (nothing today)
  deriving DecidableEq, Repr

def slash : UInt8 := 47

def isAbs : Bytes → Bool
  | c :: _ => c == slash
  | [] => false

def dropSlashes : Bytes → Bytes
  | c :: r => if c == slash then dropSlashes r else c :: r
  | [] => []

/-- `strings.HasPrefix(path, root)` -/
def hasPrefix : Bytes → Bytes → Bool
  | _, [] => true
  | [], _ :: _ => false
  | a :: s, b :: p => a == b && hasPrefix s p

/-- `ensureRelative`: `if strings.HasPrefix(path, root) { TrimLeft(TrimPrefix(path, root), "/") }`. -/
def ensureRelative (root path : Bytes) : Bytes :=
  if hasPrefix path root then dropSlashes (path.drop root.length) else path

mutual
/-- `godirwalk.Walk` from `path` over `t`: the sequence of callback invocations. -/
def walk (path : Bytes) : Tree → List Event
  | .file c => [⟨.file, path, c⟩]
  | .symlink t => [⟨.symlink, path, t⟩]
  | .dir es => ⟨.dir, path, []⟩ :: walkList path es
def walkList (path : Bytes) : List (Bytes × Tree) → List Event
  | [] => []
  | (n, t) :: r => walk (path ++ slash :: n) t ++ walkList path r
end

/-- Bytes one item contributes for one walk event. -/
def itemBytes (S : Schema) (e : Event) : Item → Bytes
  | .marker => S.marker
  | .content => if e.kind = .file then e.data else []
  | .target => if e.kind = .symlink then e.data else []
  | .path => e.path

def itemsOf (S : Schema) : Kind → List Item
  | .file => S.dirFile
  | .symlink => S.dirLink
  | .dir => S.dirDir

/-- What the walk callback inside `hash` writes for one event. -/
def serEvent (S : Schema) (e : Event) : Bytes := (itemsOf S e.kind).flatMap (itemBytes S e)

/-- Directory branch of `hash`: everything the callback wrote during the walk. -/
def serDir (S : Schema) (path : Bytes) (t : Tree) : Bytes := (walk path t).flatMap (serEvent S)

/-- Is the destination of a top-level symlink "inside the root of our repo"
    (`(rel != dest || !filepath.IsAbs(dest)) && !filepath.IsAbs(path)`)? -/
def linkManaged (root path dest : Bytes) : Bool :=
  (ensureRelative root dest != dest || !isAbs dest) && !isAbs path

def evalCond (root path dest : Bytes) : CondE → Bool
  | .relNeDest => ensureRelative root dest != dest
  | .absDest => isAbs dest
  | .absPath => isAbs path
  | .tt => true
  | .not a => !evalCond root path dest a
  | .and a b => evalCond root path dest a && evalCond root path dest b
  | .or a b => evalCond root path dest a || evalCond root path dest b

theorem evalCond_std (root path dest : Bytes) : evalCond root path dest stdCond = linkManaged root path dest := rfl

/-- `PathHasher.hash(path)` with `path` already relative: the pre-image.
    `ext` is the content of the file an out-of-repo symlink resolves to (only read in that branch). -/
def hashPre (S : Schema) (root path ext : Bytes) : Tree → Bytes
  | .symlink dest =>
    let rel := ensureRelative root dest
    if evalCond root path dest S.linkCond then
      S.topLinkIn.flatMap fun | .marker => S.marker | .target => rel | .content => ext | .path => path
    else
      S.topLinkOut.flatMap fun | .marker => S.marker | .target => rel | .content => ext | .path => path
  | .dir es => serDir S path (.dir es)
  | .file c => S.topFile.flatMap fun | .marker => S.marker | .target => [] | .content => c | .path => path

/-- `PathHasher.Hash(path, …)`: make the path root-relative, then hash. -/
def pathSer (S : Schema) (root path ext : Bytes) (t : Tree) : Bytes :=
  hashPre S root (ensureRelative root path) ext t

/-! ### The structure the current schema throws away (used to state exactly where the property fails) -/

/-- A leaf the directory walk meets: a regular file with its content, or a symlink. -/
inductive Leaf where
  | f (content : Bytes)
  | l
  deriving DecidableEq, Repr

mutual
/-- Leaves in walk order; names, nesting, empty directories and link targets are forgotten. -/
def leaves : Tree → List Leaf
  | .file c => [.f c]
  | .symlink _ => [.l]
  | .dir es => leavesList es
def leavesList : List (Bytes × Tree) → List Leaf
  | [] => []
  | (_, t) :: r => leaves t ++ leavesList r
end

/-- Concatenation of the leaves with the in-band symlink marker. -/
def flat (marker : Bytes) (ls : List Leaf) : Bytes :=
  ls.flatMap fun | .f c => c | .l => marker

/-! ### Well-formedness: what a directory on disk looks like after godirwalk sorted it -/

def bytesLt : Bytes → Bytes → Bool
  | [], [] => false
  | [], _ :: _ => true
  | _ :: _, [] => false
  | a :: s, b :: t => a < b || (a == b && bytesLt s t)

def validName (n : Bytes) : Bool :=
  !n.isEmpty && !n.contains slash && !n.contains 0 && n != [46] && n != [46, 46]

def namesSorted : List Bytes → Bool
  | a :: b :: r => bytesLt a b && namesSorted (b :: r)
  | _ => true

mutual
/-- Entry names valid, strictly increasing bytewise in every directory. -/
def Tree.sorted : Tree → Bool
  | .file _ => true
  | .symlink _ => true
  | .dir es => namesSorted (es.map (·.1)) && es.all (fun e => validName e.1) && sortedList es
def sortedList : List (Bytes × Tree) → Bool
  | [] => true
  | (_, t) :: r => t.sorted && sortedList r
end

/-! ### A framed encoder (the repair): kind tag, length-prefixed names / contents / targets, counted entries.
    `Props/C09` proves it injective; it is the reference for the fix sketch in the findings. -/

/-- Unary length header (any self-delimiting header works; an 8-byte big-endian length in Go). -/
def hdr : Nat → Bytes
  | 0 => [0]
  | n + 1 => 1 :: hdr n

def framed (b : Bytes) : Bytes := hdr b.length ++ b

mutual
def serFramed : Tree → Bytes
  | .file c => 1 :: framed c
  | .symlink t => 2 :: framed t
  | .dir es => 3 :: (hdr es.length ++ serFramedList es)
def serFramedList : List (Bytes × Tree) → Bytes
  | [] => []
  | (n, t) :: r => framed n ++ serFramed t ++ serFramedList r
end

end PlzVerif.PathHash
