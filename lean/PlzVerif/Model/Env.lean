import PlzVerif.Model.RuleHash
/-!
Model of the environment a build action receives (C10): `core.GeneralBuildEnvironment → TargetEnvironment →
BuildEnvironment → withUserProvidedEnv` (src/core/build_env.go), `Configuration.getBuildEnv` / `Hash`
(src/core/config.go), `fs.ExpandHomePath` (src/fs/home.go) and `os.Expand`.  Core Lean only.

* `Caller` is the environment of the invoking shell (`os.Getenv` / `os.LookupEnv`): the thing the property
  quantifies over.
* `Cfg` holds the configuration fields those functions read; `Target` is the rule-hash model's target;
  `Derived` holds the strings computed from the build graph (source / output / tool paths), which do not
  depend on the caller and are supplied by the harness from the real accessors.
* A Go `map[string]string` under construction is an association list with `set` (last write wins); the final
  `ToSlice()` sorts the `k=v` strings.
* Go maps that are *iterated* while writing (`config.BuildEnv`, named groups; `target.Env` unless the code sorts its
  keys first — fact `userEnvSorted`) are processed in list order, which stands for the arbitrary iteration order.
-/
namespace PlzVerif.Env
open PlzVerif.RuleHash

abbrev Env := List (Bytes × Bytes)
abbrev Caller := List (Bytes × Bytes)

def Env.set (e : Env) (k v : Bytes) : Env :=
  match e with
  | [] => [(k, v)]
  | (k', v') :: r => if k = k' then (k, v) :: r else (k', v') :: Env.set r k v

def Env.get? (e : Env) (k : Bytes) : Option Bytes := lookup k e

/-- `env.Add(that)`: every entry of `that` written over `env`. -/
def Env.add (e that : Env) : Env := that.foldl (fun acc kv => acc.set kv.1 kv.2) e

def getenv (c : Caller) (k : Bytes) : Bytes := (lookup k c).getD []

def join (sep : Bytes) : List Bytes → Bytes
  | [] => []
  | [x] => x
  | x :: r => x ++ sep ++ join sep r

def sp : Bytes := [32]
def colon : Bytes := [58]

def upperByte (b : UInt8) : UInt8 := if 97 ≤ b && b ≤ 122 then b - 32 else b
/-- `strings.ToUpper` on ASCII. -/
def upper (b : Bytes) : Bytes := b.map upperByte

structure Cfg where
  lang : Bytes := []
  nonce : Bytes := []
  licencesReject : List Bytes := []
  arch : Bytes := []
  os : Bytes := []
  xarch : Bytes := []
  xos : Bytes := []
  pkgConfigPath : Bytes := []
  buildEnv : List (Bytes × Bytes) := []       -- [buildenv] section (Go map)
  passEnv : List Bytes := []                  -- [build] passenv
  passUnsafeEnv : List Bytes := []            -- [build] passunsafeenv
  path : List Bytes := []                     -- [build] path
  location : Bytes := []                      -- config.Please.Location, resolved
  buildConfig : Bytes := []
  remote : Bool := false                      -- Remote.URL != ""
  sandboxDirs : List Bytes := []
  bazelCompat : Bool := false
  repoRoot : Bytes := []
  deriving DecidableEq, Repr

/-- Strings computed from the target and the build graph, independent of the caller. -/
structure Derived where
  pkgDir : Bytes := []
  sources : List Bytes := []                     -- target.AllSourcePaths(graph)
  outEnv : List Bytes := []                      -- target.GetTmpOutputAll(target.Outputs())
  outResolved : Bytes := []                      -- resolveOut(outEnv[0], tmpDir, sandbox) when there is one output
  namedSrcPaths : List (Bytes × List Bytes) := []
  namedOutTmp : List (Bytes × List Bytes) := []
  tmpDir : Bytes := []
  deriving DecidableEq, Repr

/-! ### `config.getBuildEnv` -/

/-- Key normalisation of the `[buildenv]` section: upper case, `-` → `_`. -/
def normKey (k : Bytes) : Bytes := (upper k).map fun b => if b == 45 then 95 else b

def pathKey : Bytes := [80, 65, 84, 72]

/-- `addEnv(vars)` inside `getBuildEnv`: returns the new env and whether PATH was passed through. -/
def addEnv (cfg : Cfg) (c : Caller) (vars : List Bytes) (st : Env × Bool) : Env × Bool :=
  vars.foldl (fun (st : Env × Bool) k =>
    match lookup k c with
    | some v => if k = pathKey then (st.1.set k (cfg.location ++ colon ++ v), false) else (st.1.set k v, st.2)
    | none => st) st

def getBuildEnv (cfg : Cfg) (c : Caller) (includePath includeUnsafe : Bool) : Env :=
  let env : Env := cfg.buildEnv.foldl (fun acc kv => acc.set (normKey kv.1) kv.2) []
  let st := (env, includePath)
  let st := if includeUnsafe then addEnv cfg c cfg.passUnsafeEnv st else st
  let st := addEnv cfg c cfg.passEnv st
  if st.2 then st.1.set pathKey (join colon (cfg.location :: cfg.path)) else st.1

/-! ### `fs.ExpandHomePath`: regexp `(?:^|:)(~(?:[/:]|$))`, every `~` of a match replaced by $HOME -/

/-- Does a match of `~(?:[/:]|$)` start here? Returns the matched bytes' tail length to consume after `~`. -/
def tildeHere : Bytes → Option (Option UInt8 × Bytes)
  | 126 :: [] => some (none, [])
  | 126 :: x :: r => if x == 47 || x == 58 then some (some x, r) else none
  | _ => none

/-- Left-to-right, non-overlapping (Go `ReplaceAllStringFunc`). `atStart`: are we at offset 0. -/
def expandHomeAux (home : Bytes) : Nat → Bool → Bytes → Bytes
  | 0, _, rest => rest
  | fuel + 1, atStart, rest =>
    match (if atStart then tildeHere rest else none) with
    | some (some x, r) => home ++ x :: expandHomeAux home fuel false r
    | some (none, r) => home ++ expandHomeAux home fuel false r
    | none =>
      match rest with
      | [] => []
      | 58 :: r' =>
        match tildeHere r' with
        | some (some x, r) => 58 :: (home ++ x :: expandHomeAux home fuel false r)
        | some (none, r) => 58 :: (home ++ expandHomeAux home fuel false r)
        | none => 58 :: expandHomeAux home fuel false r'
      | b :: r' => b :: expandHomeAux home fuel false r'

def expandHome (c : Caller) (p : Bytes) : Bytes := expandHomeAux (getenv c ([72, 79, 77, 69] : Bytes)) (p.length + 1) true p

def replaceColons (b : Bytes) : Bytes := b.map fun x => if x == 58 then 32 else x

/-! ### `os.Expand` -/

def isShellSpecialVar (c : UInt8) : Bool :=
  c == 42 || c == 35 || c == 36 || c == 64 || c == 33 || c == 63 || c == 45 || (48 ≤ c && c ≤ 57)

def isAlphaNum (c : UInt8) : Bool := c == 95 || (48 ≤ c && c ≤ 57) || (97 ≤ c && c ≤ 122) || (65 ≤ c && c ≤ 90)

/-- Scan to the closing brace; `r` is the text after `{`. -/
def braceScan (r : Bytes) : Bytes × Nat :=
  let i := r.idxOf 125
  if i < r.length then (if i = 0 then ([], 2) else (r.take i, i + 2)) else ([], 1)

/-- `getShellName(s)` for non-empty `s`: the name and how many bytes it spans. -/
def getShellName : Bytes → Bytes × Nat
  | 123 :: r =>
    match r with
    | x :: 125 :: _ => if isShellSpecialVar x then ([x], 3) else braceScan r
    | _ => braceScan r
  | x :: r =>
    if isShellSpecialVar x then ([x], 1)
    else
      let name := (x :: r).takeWhile isAlphaNum
      (name, name.length)
  | [] => ([], 0)

/-- `os.Expand(s, mapping)`. -/
def osExpandAux (mapping : Bytes → Bytes) : Nat → Bytes → Bytes
  | 0, rest => rest
  | fuel + 1, rest =>
    match rest with
    | [] => []
    | [x] => [x]
    | 36 :: r =>
      let (name, w) := getShellName r
      let out := if name.isEmpty && w > 0 then [] else if name.isEmpty then [36] else mapping name
      out ++ osExpandAux mapping fuel (r.drop w)
    | x :: r => x :: osExpandAux mapping fuel r

def osExpand (mapping : Bytes → Bytes) (b : Bytes) : Bytes := osExpandAux mapping (b.length + 1) b

/-! ### the three environment functions -/

def generalEnv (cfg : Cfg) (c : Caller) : Env :=
  let env : Env := [(([80, 76, 90, 95, 69, 78, 86] : Bytes), ([49] : Bytes)), (([76, 65, 78, 71] : Bytes), cfg.lang), (([65, 82, 67, 72] : Bytes), cfg.arch), (([79, 83] : Bytes), cfg.os),
                    (([88, 65, 82, 67, 72] : Bytes), cfg.xarch), (([88, 79, 83] : Bytes), cfg.xos)]
  let env := if cfg.pkgConfigPath ≠ [] then env.set ([80, 75, 71, 95, 67, 79, 78, 70, 73, 71, 95, 80, 65, 84, 72] : Bytes) cfg.pkgConfigPath else env
  env.add (getBuildEnv cfg c true true)

def targetEnv (cfg : Cfg) (t : Target) (d : Derived) (c : Caller) : Env :=
  let env := generalEnv cfg c
  let env := ((env.set ([80, 75, 71] : Bytes) t.label.pkg).set ([80, 75, 71, 95, 68, 73, 82] : Bytes) d.pkgDir).set ([78, 65, 77, 69] : Bytes) t.label.name
  let env := if !cfg.remote || t.isLocal then (env.set ([66, 85, 73, 76, 68, 95, 67, 79, 78, 70, 73, 71] : Bytes) cfg.buildConfig).set ([67, 79, 78, 70, 73, 71] : Bytes) cfg.buildConfig else env
  let env := match t.passUnsafeEnv with
    | some l => l.foldl (fun acc e => acc.set e (getenv c e)) env
    | none => env
  match t.passEnv with
  | some l => l.foldl (fun acc e => acc.set e (getenv c e)) env
  | none => env

/-- `withUserProvidedEnv`: entries of `target.Env` `$`-expanded against the environment built so far.
    `sorted` (regenerated fact): the keys are collected and sorted first; otherwise the entries are applied in the
    map's iteration order (the list's order stands for that arbitrary order). -/
def withUserEnv (sorted : Bool) (userEnv : List (Bytes × Bytes)) (env : Env) : Env :=
  (keysOrder sorted userEnv).foldl (fun acc kv =>
    let v := if kv.2.contains 36 then osExpand (fun k => match acc.get? k with | some x => x | none => 36 :: k) kv.2 else kv.2
    acc.set kv.1 v) env

/-- `BuildEnvironment` up to (not including) `withUserProvidedEnv`. -/
def preUserEnv (cfg : Cfg) (t : Target) (d : Derived) (c : Caller) : Env :=
  let env := targetEnv cfg t d c
  let env := (((env.set ([84, 77, 80, 95, 68, 73, 82] : Bytes) d.tmpDir).set ([84, 77, 80, 68, 73, 82] : Bytes) d.tmpDir).set ([79, 85, 84, 83] : Bytes) (join sp d.outEnv)).set ([72, 79, 77, 69] : Bytes) d.tmpDir
  let env := env.set ([80, 89, 84, 72, 79, 78, 72, 65, 83, 72, 83, 69, 69, 68] : Bytes) ([52, 50] : Bytes)
  let env := if d.outEnv.length = 1 then env.set ([79, 85, 84] : Bytes) d.outResolved else env
  let env := if !t.srcListFiles then
      let env := env.set ([83, 82, 67, 83] : Bytes) (join sp d.sources)
      let env := match d.sources with | [x] => env.set ([83, 82, 67] : Bytes) x | _ => env
      d.namedSrcPaths.foldl (fun acc g => acc.set (([83, 82, 67, 83, 95] : Bytes) ++ upper g.1) (join sp g.2)) env
    else env
  let env := d.namedOutTmp.foldl (fun acc g => acc.set (([79, 85, 84, 83, 95] : Bytes) ++ upper g.1) (join sp g.2)) env
  -- toolsEnv; system-file tools: `SystemFileLabel.Paths` is `ExpandHomePath(path)` (build_input.go:152)
  let toolPaths := (t.tools ++ (keysOrder true t.namedTools).flatMap (·.2)).map (expandHome c)       -- AllTools()
  let namedToolPaths := t.namedTools.map fun g => (g.1, g.2.map (expandHome c))
  let tools : Env := [(([84, 79, 79, 76, 83] : Bytes), join sp toolPaths)]
  let tools := match toolPaths with | [x] => tools.set ([84, 79, 79, 76] : Bytes) x | _ => tools
  let tools := namedToolPaths.foldl (fun acc g => acc.set (([84, 79, 79, 76, 83, 95] : Bytes) ++ upper g.1) (join sp g.2)) tools
  let env := env.add tools
  let env := if t.secrets.length > 0 then env.set ([83, 69, 67, 82, 69, 84, 83] : Bytes) (replaceColons (expandHome c (join colon t.secrets))) else env
  let env := t.namedSecrets.foldl (fun acc g => acc.set (([83, 69, 67, 82, 69, 84, 83, 95] : Bytes) ++ upper g.1) (replaceColons (expandHome c (join colon g.2)))) env
  let env := if t.sandbox && cfg.sandboxDirs.length > 0 then env.set ([83, 65, 78, 68, 66, 79, 88, 95, 68, 73, 82, 83] : Bytes) (join [44] cfg.sandboxDirs) else env
  let env := if cfg.bazelCompat then
      (env.set ([71, 69, 78, 68, 73, 82] : Bytes) (cfg.repoRoot ++ ([47, 112, 108, 122, 45, 111, 117, 116, 47, 103, 101, 110] : Bytes))).set ([66, 73, 78, 68, 73, 82] : Bytes) (cfg.repoRoot ++ ([47, 112, 108, 122, 45, 111, 117, 116, 47, 98, 105, 110] : Bytes))
    else env
  env

def buildEnvironment (sorted : Bool) (cfg : Cfg) (t : Target) (d : Derived) (c : Caller) : Env :=
  withUserEnv sorted t.env (preUserEnv cfg t d c)

/-- `BuildEnv.ToSlice()`: `k=v` strings, sorted. -/
def toSlice (e : Env) : List Bytes := isort bytesLt (e.map fun kv => kv.1 ++ [61] ++ kv.2)

/-! ### `Configuration.Hash()` pre-image -/

def hasPrefix : Bytes → Bytes → Bool
  | _, [] => true
  | [], _ :: _ => false
  | a :: x, b :: p => a == b && hasPrefix x p

def configSer (cfg : Cfg) (c : Caller) : Bytes :=
  let env := getBuildEnv cfg c false false
  cfg.lang ++ cfg.nonce ++ cfg.licencesReject.flatten ++
    ((isort (fun a b : Bytes × Bytes => bytesLt a.1 b.1) env).filter (fun kv => !hasPrefix kv.1 ([83, 69, 67, 82, 69, 84] : Bytes))).flatMap
      fun kv => kv.1 ++ [61] ++ kv.2

/-- The names through which the caller's environment may legitimately reach a build action. -/
def visible (cfg : Cfg) (t : Target) : List Bytes :=
  cfg.passEnv ++ cfg.passUnsafeEnv ++ t.passEnv.getD [] ++ t.passUnsafeEnv.getD []

end PlzVerif.Env
