import PlzVerif.Model.Walk
/-
Model of `fs.RecursiveCopyOrLinkFile` / `CopyOrLinkFile` / `copySymlink` / `CopyFile` + `WriteFile`
(src/fs/copy.go:11-82, src/fs/fs.go:83-120) over an abstract file system with inodes.  Core Lean only.

A file system object is a `Node`; regular files point into an inode table (`List Inode`, index = inode number), so
hard links are two `file i` nodes with the same `i`.  The copy is described *at the destination entry*: what
`filepath.Join(to, name[len(from):])` holds before and after each callback.  (That every callback touches only its own
destination path, and that `os.MkdirAll` has created the parents, is part of the correspondence, not of the theorems.)

`godirwalk` visits a directory before its children and the children in sorted order; symlinks are reported, never
followed; the first callback error stops the walk.
-/
namespace PlzVerif.Copy
open PlzVerif.Walk (Name nameLt)

structure Inode where
  content : List Nat        -- bytes
  perm : Nat                -- permission bits
  deriving DecidableEq, Repr

mutual
inductive Node
  | file (ino : Nat)
  | link (target : Name)            -- symbolic link, target verbatim
  | dir (es : Ents)
inductive Ents
  | nil
  | cons (n : Name) (x : Node) (rest : Ents)
end

mutual
def Node.beq : Node → Node → Bool
  | .file i, .file j => i == j
  | .link t, .link u => t == u
  | .dir es, .dir ds => Ents.beq es ds
  | _, _ => false
def Ents.beq : Ents → Ents → Bool
  | .nil, .nil => true
  | .cons n x rest, .cons m y rest' => n == m && Node.beq x y && Ents.beq rest rest'
  | _, _ => false
end
instance : BEq Node := ⟨Node.beq⟩

inductive Err | exists | notDir | isDir | noEnt | loop
  deriving DecidableEq, Repr

structure Facts where
  defaultMode : Nat                 -- `if mode == 0 { mode = 0664 }` in WriteFile
  tempThenRename : Bool             -- WriteFile stages a temporary file NEXT TO `to` and renames it over `to`: rename(2)
                                    -- stays on one file system, `to` is replaced, never written into
  topLevelSymlinkAware : Bool       -- false today: a non-directory `from` goes straight to CopyOrLinkFile
  linkRecreatesSymlink : Bool       -- CopyOrLinkFile with link=true recreates a symlink instead of hard-linking it
  fallbackUsesSourceMode : Bool     -- the copy after a failed hard link takes the source's mode

structure Params where
  mode : Nat
  link : Bool
  fallback : Bool

def Ents.find (n : Name) : Ents → Option Node
  | .nil => none
  | .cons m x rest => if m = n then some x else rest.find n

/-- Replace or append the entry `n`. -/
def Ents.set (n : Name) (x : Node) : Ents → Ents
  | .nil => .cons n x .nil
  | .cons m y rest => if m = n then .cons m x rest else .cons m y (rest.set n x)

def Ents.insertSorted (n : Name) (x : Node) : Ents → Ents
  | .nil => .cons n x .nil
  | .cons m y rest => if nameLt n m then .cons n x (.cons m y rest) else .cons m y (rest.insertSorted n x)

mutual
def Node.sort : Node → Node
  | .file i => .file i
  | .link t => .link t
  | .dir es => .dir es.sort
def Ents.sort : Ents → Ents
  | .nil => .nil
  | .cons n x rest => (rest.sort).insertSorted n x.sort
end

/-- `CopyFile(from, to, mode)` where `from` resolves to inode `i`.
    With `tempThenRename` (today's `WriteFile`): a new inode with the same bytes and the permission bits `mode`
    (`defaultMode` for 0) is renamed over whatever non-directory is at the destination -- no existing inode is written.
    Without it (`os.Create(to)` and copy): an existing destination *file* is truncated and rewritten in place, through
    its inode -- which may be shared with the source. -/
def copyFile (F : Facts) (inos : List Inode) (i : Nat) (mode : Nat) (cur : Option Node) : Except Err (Node × List Inode) :=
  match inos[i]? with
  | none => .error .noEnt
  | some src =>
    let fresh : Except Err (Node × List Inode) :=
      .ok (.file inos.length, inos ++ [{ content := src.content, perm := if mode = 0 then F.defaultMode else mode }])
    match cur with
    | some (.dir _) => .error .isDir                      -- rename(temp, dir) fails, so does os.Create on a directory
    | none => fresh
    | some (.link _) => if F.tempThenRename then fresh else .error .loop     -- writing through a symlink: not modelled
    | some (.file j) =>
      if F.tempThenRename then fresh
      else
        match inos[j]? with
        | none => .error .noEnt
        | some dst =>
          let truncated := inos.set j { dst with content := [] }             -- os.Create truncates ...
          match truncated[i]? with                                             -- ... and only then the source is read
          | none => .error .noEnt
          | some srcNow =>                                                     -- ... then chmod to the staged file's mode
            .ok (.file j, truncated.set j { content := srcNow.content, perm := if mode = 0 then F.defaultMode else mode })

/-- `CopyOrLinkFile(from, to, fromMode, toMode, link, fallback)` for a regular file with inode `i`. -/
def copyOrLinkRegular (F : Facts) (p : Params) (inos : List Inode) (i : Nat) (cur : Option Node) :
    Except Err (Node × List Inode) :=
  if p.link then
    match cur with
    | none => if i < inos.length then .ok (.file i, inos) else .error .noEnt       -- os.Link: same inode
    | some _ =>                                                                    -- os.Link: EEXIST
      if p.fallback then
        copyFile F inos i (if F.fallbackUsesSourceMode then (match inos[i]? with | some s => s.perm | none => 0) else p.mode) cur
      else .error .exists
  else copyFile F inos i p.mode cur

/-- `os.Symlink(target, dest)`. -/
def symlinkAt (t : Name) (cur : Option Node) : Except Err Node :=
  match cur with
  | none => .ok (.link t)
  | some _ => .error .exists

mutual
/-- The walk callback on one source entry and everything below it (children in the order listed: callers pass the
    sorted tree); `cur` is what the destination path holds. -/
def copyNode (F : Facts) (p : Params) : Node → Option Node → List Inode → Except Err (Node × List Inode)
  | .dir es, cur, inos =>
    match cur with
    | none => (copyEnts F p es .nil inos).map fun r => (.dir r.1, r.2)      -- os.MkdirAll creates it
    | some (.dir ds) => (copyEnts F p es ds inos).map fun r => (.dir r.1, r.2)   -- exists: fine
    | some _ => .error .notDir
  | .link t, cur, inos => (symlinkAt t cur).map fun n => (n, inos)                 -- copySymlink
  | .file i, cur, inos => copyOrLinkRegular F p inos i cur
/-- The children of a source directory, in order, into the destination directory's entries `ds`. -/
def copyEnts (F : Facts) (p : Params) : Ents → Ents → List Inode → Except Err (Ents × List Inode)
  | .nil, ds, inos => .ok (ds, inos)
  | .cons n x rest, ds, inos =>
    match copyNode F p x (ds.find n) inos with
    | .error e => .error e
    | .ok (y, inos') => copyEnts F p rest (ds.set n y) inos'
end

def splitSlash : List Char → List Name
  | [] => [[]]
  | c :: s =>
    match splitSlash s with
    | [] => [[c]]     -- unreachable
    | h :: t => if c = '/' then [] :: h :: t else (c :: h) :: t

def lookupPath : List Name → Ents → Option Node
  | [], _ => none
  | c :: cs, es =>
    match cs with
    | [] => es.find c
    | _ :: _ => match es.find c with | some (.dir ds) => lookupPath cs ds | _ => none

/-- Follow a top-level symlink: `os.Open(from)` resolves it relative to the directory `siblings` it lives in
    (targets are sibling-relative paths; at most `fuel` hops). -/
def resolve (siblings : Ents) : Nat → Node → Except Err Node
  | 0, _ => .error .loop
  | fuel + 1, .link t =>
    match lookupPath (splitSlash t) siblings with
    | none => .error .noEnt
    | some n => resolve siblings fuel n
  | _ + 1, n => .ok n

/-- `RecursiveCopyOrLinkFile(from, to, mode, link, fallback)`: `src` is what `os.Lstat(from)` sees, `siblings` the
    directory containing `from`, `cur` what is at `to`. -/
def copyTop (F : Facts) (p : Params) (siblings : Ents) (src : Node) (cur : Option Node) (inos : List Inode) :
    Except Err (Node × List Inode) :=
  match src with
  | .dir _ => copyNode F p src.sort cur inos
  | .file i => copyOrLinkRegular F p inos i cur
  | .link t =>
    if F.topLevelSymlinkAware || (p.link && F.linkRecreatesSymlink) then (symlinkAt t cur).map fun n => (n, inos)
    else
      -- CopyOrLinkFile -> (os.Link on the symlink is not modelled: linkRecreatesSymlink holds) -> CopyFile: os.Open follows the link
      match resolve siblings 8 src with
      | .error e => .error e
      | .ok (.file i) => copyFile F inos i p.mode cur
      | .ok _ => .error .isDir                      -- reading a directory fails

/-- Outcome comparison for concrete witnesses. -/
def sameOutcome : Except Err (Node × List Inode) → Except Err (Node × List Inode) → Bool
  | .ok (a, i), .ok (b, j) => a == b && i == j
  | .error e, .error f => e == f
  | _, _ => false

def Facts.canon : Facts where
  defaultMode := 0o664
  tempThenRename := true
  topLevelSymlinkAware := false
  linkRecreatesSymlink := true
  fallbackUsesSourceMode := true

/-! ### specification -/

mutual
/-- `dst` reproduces `src` (both listed in the same order): directories (also empty ones) entry for entry, symlink targets verbatim, files with the
    same bytes -- the same inode when hard-linking, a new inode with permission `perm` when copying. -/
def faithful (link : Bool) (perm : Nat) (old new : List Inode) : Node → Node → Bool
  | .dir es, .dir ds => faithfulEnts link perm old new es ds
  | .link t, .link u => t == u
  | .file i, .file j =>
    if link then i == j && i < old.length
    else old.length ≤ j &&
      (match old[i]?, new[j]? with
       | some a, some b => a.content == b.content && b.perm == perm
       | _, _ => false)
  | _, _ => false
def faithfulEnts (link : Bool) (perm : Nat) (old new : List Inode) : Ents → Ents → Bool
  | .nil, .nil => true
  | .cons n x rest, .cons m y rest' => n == m && faithful link perm old new x y && faithfulEnts link perm old new rest rest'
  | _, _ => false
end

/-- The destination reproduces the source, whatever order the two directory listings are in. -/
def Faithful (link : Bool) (perm : Nat) (old new : List Inode) (src dst : Node) : Bool :=
  faithful link perm old new src.sort dst.sort

mutual
/-- Every inode number in the tree is valid. -/
def Node.wf (k : Nat) : Node → Bool
  | .file i => i < k
  | .link _ => true
  | .dir es => es.wf k
def Ents.wf (k : Nat) : Ents → Bool
  | .nil => true
  | .cons _ x rest => x.wf k && rest.wf k
end

def Ents.names : Ents → List Name
  | .nil => []
  | .cons n _ rest => n :: rest.names

mutual
/-- No directory lists the same name twice. -/
def Node.nodup : Node → Bool
  | .dir es => es.nodup
  | _ => true
def Ents.nodup : Ents → Bool
  | .nil => true
  | .cons n x rest => !rest.names.contains n && x.nodup && rest.nodup
end

end PlzVerif.Copy
