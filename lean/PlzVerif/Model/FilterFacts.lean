import PlzVerif.Model.Filter
import PlzVerif.Model.LabelFacts
import PlzVerif.Generated.C36
/-! The `Filter.FFacts` record read from /repo on this run; shared by the C36 theorems and the C36 driver. -/
namespace PlzVerif.Filter

def generatedFFacts : FFacts :=
  { sep := Generated.C36.sep, star := Generated.C36.star, testLabel := Generated.C36.testLabel.toList,
    excludeLast := Generated.C36.loopOrder != ["excludes", "includes"],
    defaultInclude := Generated.C36.defaultInit == "len(INCLUDES) == 0" }

end PlzVerif.Filter
