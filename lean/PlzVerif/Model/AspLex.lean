import PlzVerif.Generated.C19
/-!
Byte-level model of the asp lexer (src/parse/asp/lexer.go).  Core Lean only.

The Go lexer reads `l.bytes[i]` without bounds checks of its own; an index past the buffer is a Go
`runtime error: index out of range`.  Every read of the model goes through `rd`, whose failure is the
explicit error `LexErr.oob` — `Props/C19.lean` proves that constructor unreachable.  `l.line`/`l.col` are
write-only in the Go code and are left out.  Every loop of the Go code is a function recursing on
`size - pos`; Lean's termination checker accepting them is the proof that lexing terminates.

What is taken from the regenerated facts (`Generated.C19`): the number of NUL sentinels appended by
`newLexer`, the byte classes of `nextToken`'s switch, and Go's `unicode.Letter`/`unicode.Nd` tables.
-/
namespace PlzVerif.AspLex
open PlzVerif.Generated

abbrev Bytes := Array UInt8

/-- Token types: the negative constants of lexer.go (`EOF = -1 … Unindent = -7`) or a literal byte. -/
inductive TokType where
  | eof | ident | int | string | lexOp | eol | unindent
  | lit (b : UInt8)
  deriving DecidableEq, Repr, Inhabited

structure Token where
  ty : TokType
  val : Bytes
  pos : Nat
  deriving DecidableEq, Repr, Inhabited

/-- The messages of the five `l.fail` call sites of lexer.go. -/
inductive FailMsg where
  | unexpectedIndent | tabs | unknownSymbol (b : UInt8) | unterminatedString | illegalUnicode (r : Nat)
  deriving DecidableEq, Repr

inductive LexErr where
  /-- Go: `runtime error: index out of range` on `l.bytes[idx]`. -/
  | oob (idx : Nat)
  /-- Go: `l.indents[len(l.indents)-1]` on an empty stack (index out of range [-1]). -/
  | emptyStack
  /-- `l.fail(pos, msg)`: the positioned error. -/
  | fail (pos : Nat) (msg : FailMsg)
  /-- model artefact: the driver loops ran out of fuel (proved unreachable). -/
  | outOfFuel
  deriving DecidableEq, Repr

/-- One read of `l.bytes[i]`. -/
@[inline] def rd (b : Bytes) (i : Nat) : Except LexErr UInt8 :=
  if h : i < b.size then .ok b[i] else .error (.oob i)

/-- The mutable fields of `lex` that influence tokens. -/
structure LexState where
  pos : Nat := 0
  indent : Nat := 0
  braces : Nat := 0
  unindents : Nat := 0
  /-- `l.indents`, top of the stack first. -/
  indents : List Nat := [0]
  lastEOL : Bool := false
  deriving DecidableEq, Repr, Inhabited

/-! ### the small loops -/

/-- `for l.bytes[l.pos] == ' ' { l.pos++ }` (stripSpaces, and the indent count after a newline). -/
def skipSpaces (b : Bytes) (pos : Nat) : Except LexErr Nat :=
  if h : pos < b.size then
    if b[pos] = 32 then skipSpaces b (pos + 1) else .ok pos
  else .error (.oob pos)
termination_by b.size - pos

/-- `for l.bytes[l.pos] != '\n' && l.bytes[l.pos] != 0 { l.pos++ }` (comment). -/
def skipComment (b : Bytes) (pos : Nat) : Except LexErr Nat :=
  if h : pos < b.size then
    if b[pos] ≠ 10 ∧ b[pos] ≠ 0 then skipComment b (pos + 1) else .ok pos
  else .error (.oob pos)
termination_by b.size - pos

def isDigit (c : UInt8) : Bool := 48 ≤ c && c ≤ 57

/-- consumeInteger's loop: append digits. -/
def consumeDigits (b : Bytes) (pos : Nat) (val : Bytes) : Except LexErr (Nat × Bytes) :=
  if h : pos < b.size then
    if isDigit b[pos] then consumeDigits b (pos + 1) (val.push b[pos]) else .ok (pos, val)
  else .error (.oob pos)
termination_by b.size - pos

/-- `[_a-zA-Z0-9]`: the big case of consumeIdent. -/
def isIdentByte (c : UInt8) : Bool :=
  c = 95 || (97 ≤ c && c ≤ 122) || (65 ≤ c && c ≤ 90) || (48 ≤ c && c ≤ 57)

/-- First byte test of nextToken: `[a-zA-Z_]` or `>= utf8.RuneSelf`. -/
def isIdentStart (c : UInt8) : Bool :=
  (97 ≤ c && c ≤ 122) || (65 ≤ c && c ≤ 90) || c = 95 || 128 ≤ c

def runeError : Nat := 0xFFFD

/-- Continuation byte at `i` within `[lo, hi]`, as `utf8.DecodeRune` checks it on the slice `l.bytes[l.pos:]`
    (a slice: running off its end is "too short", never a panic). -/
def contByte (b : Bytes) (i : Nat) (lo hi : Nat) : Option Nat :=
  match b[i]? with
  | some c => if lo ≤ c.toNat ∧ c.toNat ≤ hi then some (c.toNat % 64) else none
  | none => none

/-- `utf8.DecodeRune(l.bytes[pos:])` for a first byte `>= 0x80`: (rune, width), width ∈ 1..4. -/
def decodeRune (b : Bytes) (pos : Nat) (c0 : UInt8) : Nat × Nat :=
  let p0 := c0.toNat
  if 0xC2 ≤ p0 ∧ p0 ≤ 0xDF then
    match contByte b (pos + 1) 0x80 0xBF with
    | some b1 => ((p0 % 32) * 64 + b1, 2)
    | none => (runeError, 1)
  else if 0xE0 ≤ p0 ∧ p0 ≤ 0xEF then
    let lo := if p0 = 0xE0 then 0xA0 else 0x80
    let hi := if p0 = 0xED then 0x9F else 0xBF
    match contByte b (pos + 1) lo hi, contByte b (pos + 2) 0x80 0xBF with
    | some b1, some b2 => ((p0 % 16) * 4096 + b1 * 64 + b2, 3)
    | _, _ => (runeError, 1)
  else if 0xF0 ≤ p0 ∧ p0 ≤ 0xF4 then
    let lo := if p0 = 0xF0 then 0x90 else 0x80
    let hi := if p0 = 0xF4 then 0x8F else 0xBF
    match contByte b (pos + 1) lo hi, contByte b (pos + 2) 0x80 0xBF, contByte b (pos + 3) 0x80 0xBF with
    | some b1, some b2, some b3 => ((p0 % 8) * 262144 + b1 * 4096 + b2 * 64 + b3, 4)
    | _, _, _ => (runeError, 1)
  else (runeError, 1)

/-- Membership in a Go `unicode.RangeTable` given as (lo, hi, stride) triples. -/
def inRanges (r : Nat) : List (Nat × Nat × Nat) → Bool
  | [] => false
  | (lo, hi, st) :: rest => (lo ≤ r && r ≤ hi && (r - lo) % st == 0) || inRanges r rest

/-- `unicode.IsLetter(c) || unicode.IsDigit(c)`. -/
def isIdentRune (r : Nat) : Bool := inRanges r C19.letterRanges || inRanges r C19.digitRanges

/-- Copy `n` bytes starting at `pos` (the UTF-8 encoding of an accepted rune is its source bytes). -/
def pushRange (b : Bytes) (pos : Nat) : Nat → Bytes → Bytes
  | 0, v => v
  | n + 1, v => pushRange b (pos + 1) n (match b[pos]? with | some c => v.push c | none => v)

theorem decodeRune_width_pos (b : Bytes) (pos : Nat) (c0 : UInt8) : 1 ≤ (decodeRune b pos c0).2 := by
  unfold decodeRune
  simp only []
  repeat' split
  all_goals simp

/-- consumeIdent's loop.  `tokPos` is the token start (reported by the only `fail`). -/
def consumeIdent (b : Bytes) (tokPos : Nat) (pos : Nat) (val : Bytes) : Except LexErr (Nat × Bytes) :=
  if h : pos < b.size then
    let c := b[pos]
    if 128 ≤ c then
      match hd : decodeRune b pos c with
      | (r, n) =>
        if !isIdentRune r then .error (.fail tokPos (.illegalUnicode r))
        else consumeIdent b tokPos (pos + n) (pushRange b pos n val)   -- `l.pos += n`
    else if c = 32 then .ok (pos + 1, val)           -- the space is consumed
    else if isIdentByte c then consumeIdent b tokPos (pos + 1) (val.push c)
    else .ok (pos, val)                              -- `l.pos--`: not consumed
  else .error (.oob pos)
termination_by b.size - pos
decreasing_by
  · have := decodeRune_width_pos b pos b[pos]; rw [hd] at this; simp at this; omega
  · omega

/-- consumeString's loop. -/
def consumeString (b : Bytes) (quote : UInt8) (tokPos : Nat) (multiline raw : Bool)
    (pos : Nat) (val : Bytes) (escaped : Bool) : Except LexErr (Nat × Bytes) :=
  if h : pos < b.size then
    let next := b[pos]
    let pos1 := pos + 1
    if escaped then
      let val' :=
        if next = 110 then val.push 10                        -- \n
        else if next = 116 then val.push 9                    -- \t
        else if next = 10 && multiline then val               -- escaped newline in a multiline string
        else if next = 92 || next = 39 || next = 34 then val.push next
        else (val.push 92).push next
      consumeString b quote tokPos multiline raw pos1 val' false
    else if next = quote then
      if !multiline then .ok (pos1, val.push 34)
      else
        -- `l.bytes[l.pos] == quote && l.bytes[l.pos+1] == quote` (short-circuit)
        match rd b pos1 with
        | .error e => .error e
        | .ok c1 =>
          if c1 = quote then
            match rd b (pos1 + 1) with
            | .error e => .error e
            | .ok c2 =>
              if c2 = quote then .ok (pos1 + 2, val.push 34)
              else consumeString b quote tokPos multiline raw pos1 (val.push next) false
          else consumeString b quote tokPos multiline raw pos1 (val.push next) false
    else if next = 10 then
      if multiline then consumeString b quote tokPos multiline raw pos1 (val.push next) false
      else .error (.fail tokPos .unterminatedString)
    else if next = 0 then .error (.fail tokPos .unterminatedString)
    else if next = 92 && !raw then consumeString b quote tokPos multiline raw pos1 val true
    else consumeString b quote tokPos multiline raw pos1 (val.push next) false
  else .error (.oob pos)
termination_by b.size - pos

/-- Wrap the result of consumeString into the String token. -/
def strTok (tokPos : Nat) : Except LexErr (Nat × Bytes) → Except LexErr (Nat × Token)
  | .error e => .error e
  | .ok (p, v) => .ok (p, ⟨.string, v, tokPos⟩)

/-- consumePossiblyTripleQuotedString + the `f` prefix.  `pos` is just past the opening quote. -/
def consumeQuoted (b : Bytes) (quote : UInt8) (tokPos : Nat) (raw fstr : Bool) (pos : Nat) :
    Except LexErr (Nat × Token) :=
  let start : Bytes := if fstr then #[102, 34] else #[34]
  match rd b pos with
  | .error e => .error e
  | .ok c1 =>
    if c1 = quote then
      match rd b (pos + 1) with
      | .error e => .error e
      | .ok c2 =>
        if c2 = quote then strTok tokPos (consumeString b quote tokPos true raw (pos + 2) start false)
        else strTok tokPos (consumeString b quote tokPos false raw pos start false)
    else strTok tokPos (consumeString b quote tokPos false raw pos start false)

/-- The pop loop of the newline case: `for l.indents[top] > l.indent { l.unindents++; pop }`. -/
def popIndents : List Nat → Nat → Nat → Except LexErr (List Nat × Nat)
  | [], _, _ => .error .emptyStack
  | top :: rest, indent, un =>
    if top > indent then popIndents rest indent (un + 1) else .ok (top :: rest, un)

theorem skipSpaces_ge {b : Bytes} {pos p : Nat} (h : skipSpaces b pos = .ok p) : pos ≤ p := by
  fun_induction skipSpaces b pos with
  | case1 pos hlt heq ih => have := ih h; omega
  | case2 pos hlt hne => simp at h; omega
  | case3 pos hge => simp at h

theorem skipComment_ge {b : Bytes} {pos p : Nat} (h : skipComment b pos = .ok p) : pos ≤ p := by
  fun_induction skipComment b pos with
  | case1 pos hlt heq ih => have := ih h; omega
  | case2 pos hlt hne => simp at h; omega
  | case3 pos hge => simp at h

def single (c : UInt8) (pos : Nat) : Token := ⟨.lit c, #[c], pos⟩

/-- What the newline case of `nextToken` decides before it either emits EOL or calls itself again. -/
inductive NLStep where
  /-- the next line is empty: `return l.nextToken()` with `l.pos` at `q` (state otherwise untouched) -/
  | blank (q : Nat)
  /-- indentation bookkeeping done; EOL at `tokPos` unless suppressed (`braces > 0` or `lastEOL`) -/
  | line (tokPos : Nat) (s' : LexState)

/-- `case '\n'` of nextToken up to its last `if`; `p` is the index of the newline. -/
def newlineStep (b : Bytes) (s : LexState) (p : Nat) : Except LexErr NLStep :=
  match skipSpaces b (p + 1) with
  | .error e => .error e
  | .ok q =>
    match rd b q with
    | .error e => .error e
    | .ok c =>
      if c = 10 then .ok (.blank q)
      else
        let lastIndent := s.indent
        let indent := if s.braces = 0 then q - (p + 1) else s.indent
        if lastIndent > indent ∧ s.braces = 0 then
          -- `pos++`: the token (and the error) is reported one past the newline
          match popIndents s.indents indent s.unindents with
          | .error e => .error e
          | .ok (stack, un) =>
            match stack with
            | [] => .error .emptyStack
            | top :: _ =>
              if indent ≠ top then .error (.fail (p + 1) .unexpectedIndent)
              else .ok (.line (p + 1) { s with pos := q, indent := indent, indents := stack, unindents := un })
        else if lastIndent ≠ indent then
          .ok (.line p { s with pos := q, indent := indent, indents := indent :: s.indents })
        else .ok (.line p { s with pos := q, indent := indent })

theorem newlineStep_blank {b : Bytes} {s : LexState} {p q : Nat} (h : newlineStep b s p = .ok (.blank q)) : p < q := by
  unfold newlineStep at h
  split at h
  · cases h
  · rename_i q' hq
    have := skipSpaces_ge hq
    split at h
    · cases h
    · split at h
      · cases h; omega
      · simp only [] at h
        repeat' split at h
        all_goals first | cases h | skip

theorem newlineStep_line {b : Bytes} {s s' : LexState} {p tp : Nat} (h : newlineStep b s p = .ok (.line tp s')) :
    p < s'.pos := by
  unfold newlineStep at h
  split at h
  · cases h
  · rename_i q' hq
    have := skipSpaces_ge hq
    split at h
    · cases h
    · split at h
      · cases h
      · simp only [] at h
        repeat' split at h
        all_goals first | (cases h; simp; omega) | cases h

/-- The cases of nextToken's switch that produce a token (or fail) without calling nextToken again:
    everything except `\r`, `\n` and `#`.  `p` is the index of `next`. -/
def lexSimple (b : Bytes) (s : LexState) (p : Nat) (next : UInt8) : Except LexErr (Token × LexState) :=
  let p1 := p + 1
  if next = 0 then .ok (⟨.eof, #[], p⟩, { s with pos := p1 })
  else if next = 48 then
    match rd b p1 with
    | .error e => .error e
    | .ok c =>
      let p2 := if c = 111 then p1 + 1 else p1       -- `0o…`: the `o` is dropped
      match consumeDigits b p2 #[next] with
      | .error e => .error e
      | .ok (q, v) => .ok (⟨.int, v, p⟩, { s with pos := q })
  else if isDigit next then
    match consumeDigits b p1 #[next] with
    | .error e => .error e
    | .ok (q, v) => .ok (⟨.int, v, p⟩, { s with pos := q })
  else if next = 34 ∨ next = 39 then
    match consumeQuoted b next p false false p1 with
    | .error e => .error e
    | .ok (q, t) => .ok (t, { s with pos := q })
  else if C19.openBraces.contains next.toNat then
    .ok (single next p, { s with pos := p1, braces := s.braces + 1 })
  else if C19.closeBraces.contains next.toNat then
    .ok (single next p, { s with pos := p1, braces := s.braces - 1 })
  else if C19.eqOps.contains next.toNat then
    match rd b p1 with
    | .error e => .error e
    | .ok c =>
      if c = 61 then .ok (⟨.lexOp, #[next, c], p⟩, { s with pos := p1 + 1 })
      else .ok (single next p, { s with pos := p1 })
  else if C19.singles.contains next.toNat then .ok (single next p, { s with pos := p1 })
  else if next = 47 then
    match rd b p1 with
    | .error e => .error e
    | .ok c =>
      if c = 47 then .ok (⟨.lexOp, #[next, c], p⟩, { s with pos := p1 + 1 })
      else .ok (single next p, { s with pos := p1 })
  else if next = 45 then
    match rd b p1 with
    | .error e => .error e
    | .ok c =>
      if isDigit c then
        match consumeDigits b p1 #[next] with
        | .error e => .error e
        | .ok (q, v) => .ok (⟨.int, v, p⟩, { s with pos := q })
      else .ok (single next p, { s with pos := p1 })
  else if next = 9 then .error (.fail p .tabs)
  else .error (.fail p (.unknownSymbol next))

/-- `nextToken`.  The Go function is one `for { … }` whose four `continue`s (after `\\r`, after a blank line,
    after a suppressed end-of-line, after a comment — self-calls before the repair of the finding
    lexer-recursion-stack-overflow) start the next iteration at stripSpaces with the state as it is: these are
    the four recursive calls here. -/
def nextToken (b : Bytes) (s : LexState) : Except LexErr (Token × LexState) :=
  match hs : skipSpaces b s.pos with
  | .error e => .error e
  | .ok p =>
    if s.unindents > 0 then
      .ok (⟨.unindent, #[], p⟩, { s with pos := p, unindents := s.unindents - 1 })
    else if hp : p < b.size then
      let next := b[p]
      -- `next == 'r' && (l.bytes[l.pos+1] == '"' || …)`: the look-ahead is read only after an r / f
      let la : Except LexErr UInt8 := if next = 114 ∨ next = 102 then rd b (p + 1) else .ok 0
      match la with
      | .error e => .error e
      | .ok la =>
        let quoteFollows := la = 34 ∨ la = 39
        let raw := next = 114 ∧ quoteFollows
        let fstr := next = 102 ∧ quoteFollows
        if raw ∨ fstr then
          -- skip the prefix; `next` is now the quote, consumed by the `l.pos++` below the else-if
          match consumeQuoted b la p raw fstr (p + 2) with
          | .error e => .error e
          | .ok (q, t) => .ok (t, { s with pos := q })
        else if isIdentStart next then
          match consumeIdent b p p #[] with
          | .error e => .error e
          | .ok (q, v) => .ok (⟨.ident, v, p⟩, { s with pos := q })
        else if next = 13 then nextToken b { s with pos := p + 1 }
        else if next = 10 then
          match hn : newlineStep b s p with
          | .error e => .error e
          | .ok (.blank q) => nextToken b { s with pos := q }
          | .ok (.line tokPos s') =>
            if s'.braces = 0 ∧ !s'.lastEOL then .ok (⟨.eol, #[], tokPos⟩, s')
            else nextToken b s'
        else if next = 35 then
          match hq : skipComment b (p + 1) with
          | .error e => .error e
          | .ok q => nextToken b { s with pos := q }
        else lexSimple b s p next
    else .error (.oob p)
termination_by b.size - s.pos
decreasing_by
  all_goals simp_wf
  all_goals have h1 := skipSpaces_ge hs
  · omega
  · have := newlineStep_blank hn; omega
  · have := newlineStep_line hn; omega
  · have := skipComment_ge hq; omega

/-! ### `Next`, `newLexer`, and the token stream the parser sees -/

/-- The lexer object: state plus the one-token look-ahead `l.next`. -/
structure Lexer where
  st : LexState
  next : Token
  deriving Repr, Inhabited

/-- `Next()`: return `l.next`, compute the following token, set `lastEOL`. -/
def Lexer.advance (b : Bytes) (l : Lexer) : Except LexErr (Token × Lexer) :=
  match nextToken b l.st with
  | .error e => .error e
  | .ok (t, st) =>
    .ok (l.next, { st := { st with lastEOL := t.ty = .eol ∨ t.ty = .unindent }, next := t })

/-- The buffer of `newLexer`: newline fix-up, then the NUL sentinels. -/
def mkBuffer (data : Bytes) : Bytes :=
  let d := if C19.newlineFixup = true ∧ data.size > 0 ∧ data.back? ≠ some 10 then data.push 10 else data
  d ++ (Array.replicate C19.sentinels (0 : UInt8))

/-- `for l.Peek().Type == EOL { l.Next() }` with fuel. -/
def skipLeadingEOL (b : Bytes) : Nat → Lexer → Except LexErr Lexer
  | 0, _ => .error .outOfFuel
  | fuel + 1, l =>
    if l.next.ty = .eol then
      match l.advance b with
      | .error e => .error e
      | .ok (_, l') => skipLeadingEOL b fuel l'
    else .ok l

def fuelFor (b : Bytes) : Nat := 3 * b.size + 8

/-- `newLexer` on an already built buffer. -/
def newLexer (b : Bytes) : Except LexErr Lexer :=
  match ({ st := {}, next := ⟨.lit 0, #[], 0⟩ } : Lexer).advance b with
  | .error e => .error e
  | .ok (_, l) => skipLeadingEOL b (fuelFor b) l

/-- Drive `Next()` until it has returned the first EOF token (as the parser can at most do);
    tokens returned so far and how it ended. -/
def drain (b : Bytes) : Nat → Lexer → Array Token → Array Token × Option LexErr
  | 0, _, acc => (acc, some .outOfFuel)
  | fuel + 1, l, acc =>
    match l.advance b with
    | .error e => (acc, some e)
    | .ok (t, l') => if t.ty = .eof then (acc.push t, none) else drain b fuel l' (acc.push t)

/-- The whole token stream of an input, as `LexForVerif` reports it for the real lexer. -/
def lexAll (data : Bytes) : Array Token × Option LexErr :=
  let b := mkBuffer data
  match newLexer b with
  | .error e => (#[], some e)
  | .ok l => drain b (fuelFor b) l #[]

end PlzVerif.AspLex
