import PlzVerif.Model.Label
/-
Model of visibility and test_only enforcement (C33): `BuildLabel.CanSee` (src/core/build_label.go:490) and
`BuildTarget.CheckDependencyVisibility` (src/core/build_target.go:1042).  Core Lean only.
`Includes`, `Parent` and `isExperimental` come from `Model/Label.lean`.
-/
namespace PlzVerif.Visibility
open PlzVerif.Label

structure VFacts where
  /-- the same-package shortcut of `CanSee` also compares the `Subrepo` field (it does not on the pinned tree). -/
  samePkgChecksSubrepo : Bool

/-- A target as the visibility check sees it. -/
structure VTarget where
  label : Label
  visibility : List Label
  testOnly : Bool
  isTest : Bool

/-- `label.CanSee(state, dep)`; `dirs` is `config.Parse.ExperimentalDir`. -/
def canSee (lf : Label.Facts) (vf : VFacts) (dirs : List Str) (l : Label) (dep : VTarget) : Bool :=
  if l.pkg == dep.label.pkg && (!vf.samePkgChecksSubrepo || l.sub == dep.label.sub) then true
  else if isExperimental lf dirs dep.label && !isExperimental lf dirs l then false
  else
    let p := parent l
    if dep.visibility.any (fun v => includes lf v p) then true
    else if dep.label.pkg == p.pkg && (!vf.samePkgChecksSubrepo || p.sub == dep.label.sub) then true
    else if isExperimental lf dirs l then true
    else false

inductive Err where
  | notVisible
  | testOnly
deriving DecidableEq, Repr

def shift : Option (Nat × Err) → Option (Nat × Err)
  | none => none
  | some (i, e) => some (i + 1, e)

/-- `target.CheckDependencyVisibility(state)` over the declared dependencies in order: `none` = nil error,
    `some (i, e)` = the error is about dependency number `i`. -/
def checkDeps (lf : Label.Facts) (vf : VFacts) (dirs : List Str) (t : VTarget) : List VTarget → Option (Nat × Err)
  | [] => none
  | d :: ds =>
    if !canSee lf vf dirs t.label d then some (0, .notVisible)
    else if d.testOnly && !t.isTest && !t.testOnly then
      (if isExperimental lf dirs t.label then shift (checkDeps lf vf dirs t ds) else some (0, .testOnly))
    else shift (checkDeps lf vf dirs t ds)

/-! ### the declared restriction: explicit argument, package default, configuration default
(src/parse/asp/builtins.go `buildRule` / `defaultFromConfig`, targets.go `populateTarget`) -/

structure DFacts where
  /-- `defaultFromConfig` treats every FALSY argument (`[]`, `False`) as "not set" instead of only `nil`/`None`. -/
  unsetIsFalsy : Bool

/-- `visibility` after `defaultFromConfig` and `populateTarget`: `arg` is the rule's argument (`none` = omitted or
    `None`), `pkgDef` what `package(default_visibility = …)` set (`none` = the configuration default `None`).
    A value that is not a non-empty list gives the target no visibility entries. -/
def effVis (df : DFacts) (arg pkgDef : Option (List Label)) : List Label :=
  let v := match arg with
    | none => pkgDef
    | some l => if df.unsetIsFalsy && l.isEmpty then pkgDef else some l
  match v with
  | some l => l
  | none => []

/-- `test_only` likewise (`pkgDef = none` = the configuration default `False`). -/
def effTestOnly (df : DFacts) (arg pkgDef : Option Bool) : Bool :=
  let d := match pkgDef with | some b => b | none => false
  match arg with
  | none => d
  | some b => if df.unsetIsFalsy && !b then d else b

end PlzVerif.Visibility
