import PlzVerif.Model.PyRef
/-
Statement / expression evaluator of the Python reference (see `PyRef.lean` for the value layer).
-/
namespace PlzVerif.Py
open PlzVerif.Asp (BinOp UnOp Expr Stmt Program RVal Globals Tree OpsSem evalTree pyGroup pyPrec)

def isStrMethod (m : String) : Bool :=
  m ∈ ["join", "split", "replace", "startswith", "endswith", "upper", "lower", "find", "count", "strip",
       "lstrip", "rstrip", "removeprefix", "removesuffix"]

def strArg (fname : String) (v : Val) : PM String :=
  match v with
  | .str s => pure s
  | o => err s!"TypeError: {fname}: expected str, got {tyName o}"

/-- methods of `str` (positional arguments only) -/
def strMethod (m : String) (s : String) (args : List Val) : PM Val := do
  match m, args with
  | "join", [seq] => do
    let xs ← seqElems seq
    let rec strs : List Val → PM (List String)
      | [] => pure []
      | .str t :: r => do pure (t :: (← strs r))
      | _ :: _ => err "TypeError: sequence item: expected str instance"
    pure (.str (s.intercalate (← strs xs)))
  | "split", [] => newList ((splitWs s.toList []).map Val.str)
  | "split", [.none] => newList ((splitWs s.toList []).map Val.str)
  | "split", [sep] => do newList ((← pySplit s (← strArg m sep)).map Val.str)
  | "replace", [old, new] => do
    let o ← strArg m old
    let n ← strArg m new
    if o == "" then err "unsupported: replace of the empty string"
    else pure (.str (n.intercalate (← pySplit s o)))
  | "startswith", [x] => do pure (.bool ((← strArg m x).toList.isPrefixOf s.toList))
  | "endswith", [x] => do pure (.bool ((← strArg m x).toList.reverse.isPrefixOf s.toList.reverse))
  | "upper", [] => if asciiOnly s then pure (.str (String.ofList (s.toList.map upperC))) else err "unsupported: non-ASCII upper"
  | "lower", [] => if asciiOnly s then pure (.str (String.ofList (s.toList.map lowerC))) else err "unsupported: non-ASCII lower"
  | "find", [x] => do pure (.int (findStr s (← strArg m x)))
  | "count", [x] => do
    let t ← strArg m x
    if t == "" then pure (.int (s.length + 1)) else pure (.int (((← pySplit s t).length : Int) - 1))
  | "strip", [] => pure (.str (String.ofList (dropWs (dropWs s.toList).reverse).reverse))
  | "lstrip", [] => pure (.str (String.ofList (dropWs s.toList)))
  | "rstrip", [] => pure (.str (String.ofList (dropWs s.toList.reverse).reverse))
  | "strip", [c] => do
    let cut := (← strArg m c).toList
    pure (.str (String.ofList (dropWhileIn cut (dropWhileIn cut s.toList).reverse).reverse))
  | "lstrip", [c] => do pure (.str (String.ofList (dropWhileIn (← strArg m c).toList s.toList)))
  | "rstrip", [c] => do pure (.str (String.ofList (dropWhileIn (← strArg m c).toList s.toList.reverse).reverse))
  | "removeprefix", [p] => do
    let p ← strArg m p
    pure (.str (if p.toList.isPrefixOf s.toList then String.ofList (s.toList.drop p.length) else s))
  | "removesuffix", [p] => do
    let p ← strArg m p
    pure (.str (if p != "" && p.toList.reverse.isPrefixOf s.toList.reverse then String.ofList (s.toList.take (s.length - p.length)) else s))
  | _, _ => err s!"TypeError: str.{m}: bad arguments"

def dictMethod (m : String) (id : Nat) (args : List Val) : PM Val := do
  let kvs ← getDict id
  match m, args with
  | "get", [.str k] => pure ((assocGet kvs k).getD .none)
  | "get", [.str k, d] => pure ((assocGet kvs k).getD d)
  | "get", [.list _] | "get", [.list _, _] | "get", [.dict _] | "get", [.dict _, _] => err "TypeError: unhashable type"
  | "get", [_] => pure .none
  | "get", [_, d] => pure d
  | "keys", [] => newList (kvs.map fun e => .str e.1)
  | "values", [] => newList (kvs.map (·.2))
  | "items", [] => newList (kvs.map fun e => .tuple [.str e.1, e.2])
  | "copy", [] => newDict kvs
  | _, _ => err s!"unsupported: dict.{m}"

/-- live iteration source -/
inductive Iter
  | list (id : Nat)
  | vals (l : List Val)

def iterOf (v : Val) : PM Iter :=
  match v with
  | .list id => pure (.list id)
  | v => do pure (.vals (← seqElems v))

def iterGet (it : Iter) (i : Nat) : PM (Option Val) :=
  match it with
  | .list id => do pure ((← getList id)[i]?)
  | .vals l => pure l[i]?

def bindTargets (fr : Nat) (xs : List String) (v : Val) : PM Unit :=
  match xs with
  | [x] => bind fr x v
  | xs => do
    let vs ← seqElems v
    if vs.length != xs.length then err "ValueError: wrong number of values to unpack"
    else
      let rec go : List String → List Val → PM Unit
        | n :: ns, w :: ws => do bind fr n w; go ns ws
        | _, _ => pure ()
      go xs vs

def bestKeyed (isMin : Bool) (best : Val × Val) : List (Val × Val) → PM Val
  | [] => pure best.2
  | p :: r => do
    let better ← if isMin then pyLt 64 p.1 best.1 else pyLt 64 best.1 p.1
    if better then bestKeyed isMin p r else bestKeyed isMin best r

def bindAll (fr : Nat) : List (String × Option Val) → List Val → PM Unit
  | (p, _) :: ps, v :: vs => do bind fr p v; bindAll fr ps vs
  | _, _ => pure ()

def seqsOf : List (Option String × Val) → PM (List (List Val))
  | [] => pure []
  | a :: r => do pure ((← seqElems a.2) :: (← seqsOf r))

def rangeList (a b c : Int) : Nat → List Val
  | 0 => []
  | f + 1 => if (c > 0 ∧ a < b) ∨ (c < 0 ∧ a > b) then .int a :: rangeList (a + c) b c f else []

mutual
  def evalExpr : Nat → Nat → Expr → PM Val
    | 0, _, _ => err "fuel"
    | f + 1, fr, e =>
      match e with
      | .int n => pure (.int n)
      | .str s => pure (.str s)
      | .tru => pure (.bool true)
      | .fls => pure (.bool false)
      | .none => pure .none
      | .name x => lookup fr x
      | .list _ es => do newList (← evalExprs f fr es)
      | .dict kvs => do
        let d ← newDict []
        match d with
        | .dict id => do evalDictItems f fr id kvs; pure d
        | _ => err "ref: dict"
      | .paren e => evalExpr f fr e
      | .tuple es => do pure (.tuple (← evalExprs f fr es))
      | .call fn args => do
        let st ← get
        match lookupIn st.frames (st.frames.length + 1) fr fn with
        | .ok (.func id) => do
          let vs ← evalArgs f fr args
          callUser f id vs
        | .ok o => err s!"TypeError: '{tyName o}' object is not callable"
        | .error e =>
          if e.startsWith "UnboundLocalError" then err e
          else do
            let vs ← evalArgs f fr args
            callBuiltin f fn vs
      | .index a i => do
        let obj ← evalExpr f fr a
        let idx ← evalExpr f fr i
        subscript obj idx
      | .slice a lo hi => do
        let obj ← evalExpr f fr a
        let lo' ← match lo with
          | some e => do pure (some (← idxInt (← evalExpr f fr e)))
          | none => pure none
        let hi' ← match hi with
          | some e => do pure (some (← idxInt (← evalExpr f fr e)))
          | none => pure none
        match obj with
        | .list id => do newList (sliceList (← getList id) lo' hi')
        | .tuple vs => pure (.tuple (sliceList vs lo' hi'))
        | .str s => pure (.str (String.ofList (sliceList s.toList lo' hi')))
        | o => err s!"TypeError: '{tyName o}' object is not subscriptable"
      | .method a m args => do
        let obj ← evalExpr f fr a
        let vs ← evalArgs f fr args
        if vs.any (·.1.isSome) then err "unsupported: keyword arguments to a method"
        else
          let pos := vs.map (·.2)
          match obj with
          | .str s => if isStrMethod m then strMethod m s pos else err s!"AttributeError: str.{m}"
          | .dict id => dictMethod m id pos
          | .list id =>
            match m, pos with
            | "append", [x] => do setList id ((← getList id) ++ [x]); pure .none
            | "extend", [x] => do
              let xs ← seqElems x
              setList id ((← getList id) ++ xs); pure .none
            | _, _ => err s!"unsupported: list.{m}"
          | o => err s!"AttributeError: '{tyName o}' object has no attribute '{m}'"
      | .comp _ body vars iter cond => do
        let itv ← evalExpr f fr iter
        let it ← iterOf itv
        let cf ← newFrame (some fr) vars
        newList (← compLoop f cf body vars cond it 0)
      | .dcomp k v vars iter cond => do
        let itv ← evalExpr f fr iter
        let it ← iterOf itv
        let cf ← newFrame (some fr) vars
        let d ← newDict []
        match d with
        | .dict id => do dcompLoop f cf id k v vars cond it 0; pure d
        | _ => err "ref: dict"
      | .lam params body => do
        let st ← get
        let fn : Func := { name := "<lambda>", params := params.map (·, none), body := [Stmt.ret [body]],
                           locals := params, env := fr }
        set { st with funcs := st.funcs ++ [fn] }
        pure (.func st.funcs.length)
      | .chain hu head rest => do
        let S : OpsSem St String Val Expr :=
          { prec := pyPrec, truthy := truthSt, ev := fun x => evalExpr f fr x, un := unOp, bin := binOp }
        evalTree S (pyGroup hu head rest)
      | .ite t c e => do
        if ← truth (← evalExpr f fr c) then evalExpr f fr t else evalExpr f fr e

  def evalExprs : Nat → Nat → List Expr → PM (List Val)
    | 0, _, _ => err "fuel"
    | _ + 1, _, [] => pure []
    | f + 1, fr, e :: es => do
      let v ← evalExpr f fr e
      pure (v :: (← evalExprs f fr es))

  def evalArgs : Nat → Nat → List (Option String × Expr) → PM (List (Option String × Val))
    | 0, _, _ => err "fuel"
    | _ + 1, _, [] => pure []
    | f + 1, fr, (k, e) :: es => do
      let v ← evalExpr f fr e
      pure ((k, v) :: (← evalArgs f fr es))

  def evalDictItems : Nat → Nat → Nat → List (Expr × Expr) → PM Unit
    | 0, _, _, _ => err "fuel"
    | _ + 1, _, _, [] => pure ()
    | f + 1, fr, id, (k, v) :: r => do
      let kv ← evalExpr f fr k
      let vv ← evalExpr f fr v
      storeSubscript (.dict id) kv vv
      evalDictItems f fr id r

  def compLoop : Nat → Nat → Expr → List String → Option Expr → Iter → Nat → PM (List Val)
    | 0, _, _, _, _, _, _ => err "fuel"
    | f + 1, cf, body, vars, cond, it, i => do
      match ← iterGet it i with
      | none => pure []
      | some item => do
        bindTargets cf vars item
        let keep ← match cond with
          | some c => do truth (← evalExpr f cf c)
          | none => pure true
        if keep then do
          let v ← evalExpr f cf body
          pure (v :: (← compLoop f cf body vars cond it (i + 1)))
        else compLoop f cf body vars cond it (i + 1)

  def dcompLoop : Nat → Nat → Nat → Expr → Expr → List String → Option Expr → Iter → Nat → PM Unit
    | 0, _, _, _, _, _, _, _, _ => err "fuel"
    | f + 1, cf, id, k, v, vars, cond, it, i => do
      match ← iterGet it i with
      | none => pure ()
      | some item => do
        bindTargets cf vars item
        let keep ← match cond with
          | some c => do truth (← evalExpr f cf c)
          | none => pure true
        if keep then do
          let kv ← evalExpr f cf k
          let vv ← evalExpr f cf v
          storeSubscript (.dict id) kv vv
        dcompLoop f cf id k v vars cond it (i + 1)

  /-- call of a `def`/`lambda`: arguments are already evaluated -/
  def callUser : Nat → Nat → List (Option String × Val) → PM Val
    | 0, _, _ => err "fuel"
    | f + 1, id, args => do
      match (← get).funcs[id]? with
      | none => err "ref: bad function"
      | some fn => do
        let vals ← bindBuiltin fn.name fn.params 0 args
        let fr ← newFrame (some fn.env) fn.locals
        bindAll fr fn.params vals
        match ← execStmts f fr fn.body with
        | .ret v => pure v
        | _ => pure .none

  /-- call a function value with positional arguments (key functions) -/
  def callVal : Nat → Val → List Val → PM Val
    | 0, _, _ => err "fuel"
    | f + 1, fv, args =>
      match fv with
      | .func id => callUser f id (args.map (none, ·))
      | o => err s!"TypeError: '{tyName o}' object is not callable"

  def mapKeys : Nat → Val → List Val → PM (List (Val × Val))
    | 0, _, _ => err "fuel"
    | _ + 1, _, [] => pure []
    | f + 1, key, x :: r => do
      let k ← match key with
        | .none => pure x
        | kf => callVal f kf [x]
      pure ((k, x) :: (← mapKeys f key r))

  def callBuiltin : Nat → String → List (Option String × Val) → PM Val
    | 0, _, _ => err "fuel"
    | f + 1, fname, args => do
      match fname with
      | "len" => do
        match ← bindBuiltin fname [("obj", none)] 1 args with
        | [.str s] => pure (.int s.length)
        | [.list id] => do pure (.int (← getList id).length)
        | [.tuple vs] => pure (.int vs.length)
        | [.dict id] => do pure (.int (← getDict id).length)
        | _ => err "TypeError: object has no len()"
      | "sorted" => do
        -- sorted(iterable, /, *, key=None, reverse=False)
        let pos := args.filter (·.1.isNone)
        if pos.length != 1 then err "TypeError: sorted expected 1 positional argument"
        else match ← bindBuiltin fname [("iterable", none), ("key", some .none), ("reverse", some (.bool false))] 1 args with
          | [seq, key, reverse] => do
            let rev ← match reverse with
              | .bool b => pure b
              | .int n => pure (n != 0)
              | _ => err "TypeError: reverse must be an integer"
            let xs ← seqElems seq
            let keyed ← mapKeys f key xs
            let asPair : Val × Val → Val := fun p => .tuple [p.1, p.2]
            let less : Val → Val → PM Bool := fun a b =>
              match a, b with
              | .tuple [ka, _], .tuple [kb, _] => if rev then pyLt 64 kb ka else pyLt 64 ka kb
              | _, _ => err "ref: sort"
            let sorted ← stableSort less (keyed.map asPair)
            newList (sorted.map fun | .tuple [_, x] => x | v => v)
          | _ => err "ref: sorted"
      | "reversed" => do
        match ← bindBuiltin fname [("seq", none)] 1 args with
        | [.list id] => do newList (← getList id).reverse
        | [.tuple vs] => newList vs.reverse
        | [.str s] => newList ((s.toList.map fun c => Val.str (String.singleton c)).reverse)
        | [.dict id] => do newList (((← getDict id).map fun e => Val.str e.1).reverse)
        | _ => err "TypeError: argument to reversed() must be a sequence"
      | "range" => do
        if args.any (·.1.isSome) then err "TypeError: range() takes no keyword arguments"
        else
          let ints := args.map fun a => asInt a.2
          match ints with
          | [some b] => newList (rangeList 0 b 1 (b.toNat + 1))
          | [some a, some b] => newList (rangeList a b 1 ((b - a).toNat + 1))
          | [some a, some b, some c] =>
            if c == 0 then err "ValueError: range() arg 3 must not be zero"
            else newList (rangeList a b c ((b - a).natAbs + 1))
          | _ => err "TypeError: range arguments"
      | "enumerate" => do
        match ← bindBuiltin fname [("iterable", none), ("start", some (.int 0))] 0 args with
        | [seq, start] => do
          let xs ← seqElems seq
          match asInt start with
          | some s0 => newList ((List.range xs.length).zip xs |>.map fun p => .tuple [.int (s0 + p.1), p.2])
          | none => err "TypeError: start must be an integer"
        | _ => err "ref: enumerate"
      | "zip" => do
        if args.any (·.1.isSome) then err "unsupported: zip keywords"
        else do
          let ls ← seqsOf args
          match ls with
          | [] => newList []
          | l0 :: _ =>
            let n := ls.foldl (fun m l => min m l.length) l0.length
            newList ((List.range n).map fun i => .tuple (ls.map fun l => l[i]!))
      | "any" | "all" => do
        match ← bindBuiltin fname [("iterable", none)] 1 args with
        | [seq] => do
          let xs ← seqElems seq
          let st ← get
          pure (.bool (if fname == "any" then xs.any (truthSt st) else xs.all (truthSt st)))
        | _ => err "ref: any/all"
      | "min" | "max" => do
        let pos := args.filter (·.1.isNone)
        if pos.length != 1 then err "unsupported: min/max with several positional arguments"
        else match ← bindBuiltin fname [("iterable", none), ("key", some .none)] 1 args with
          | [seq, key] => do
            let xs ← seqElems seq
            let keyed ← mapKeys f key xs
            match keyed with
            | [] => err "ValueError: empty sequence"
            | first :: rest => bestKeyed (fname == "min") first rest
          | _ => err "ref: min/max"
      | "bool" => do
        match ← bindBuiltin fname [("x", some (.bool false))] 1 args with
        | [x] => do pure (.bool (← truth x))
        | _ => err "ref: bool"
      | "int" => do
        match ← bindBuiltin fname [("x", some (.int 0))] 1 args with
        | [.str s] => match parseInt s with
          | some n => pure (.int n)
          | none => err "ValueError: invalid literal for int()"
        | [.int n] => pure (.int n)
        | [.bool b] => pure (.int (if b then 1 else 0))
        | _ => err "TypeError: int() argument"
      | "str" => do
        match ← bindBuiltin fname [("object", some (.str ""))] 0 args with
        | [.int n] => pure (.str (toString n))
        | [.str t] => pure (.str t)
        | [.bool b] => pure (.str (if b then "True" else "False"))
        | [.none] => pure (.str "None")
        | _ => err "unsupported: str() of a container"
      | _ => err s!"NameError: {fname}"

  def execStmts : Nat → Nat → List Stmt → PM Flow
    | 0, _, _ => err "fuel"
    | _ + 1, _, [] => pure .normal
    | f + 1, fr, s :: rest => do
      match ← execStmt f fr s with
      | .normal => execStmts f fr rest
      | fl => pure fl

  def execStmt : Nat → Nat → Stmt → PM Flow
    | 0, _, _ => err "fuel"
    | f + 1, fr, s =>
      match s with
      | .assign x e => do bind fr x (← evalExpr f fr e); pure .normal
      | .idxAssign x i e => do
        -- the right-hand side is evaluated first, then the target's object and subscript
        let v ← evalExpr f fr e
        let obj ← lookup fr x
        let idx ← evalExpr f fr i
        storeSubscript obj idx v
        pure .normal
      | .augAssign x e => do
        let cur ← lookup fr x
        let v ← evalExpr f fr e
        match cur with
        | .list id => do
          -- list.__iadd__: extend in place with any iterable
          let xs ← seqElems v
          setList id ((← getList id) ++ xs)
          bind fr x cur
        | _ => do bind fr x (← binOp .add cur v)
        pure .normal
      | .idxAug x i e => do
        let obj ← lookup fr x
        let idx ← evalExpr f fr i
        let cur ← subscript obj idx
        let v ← evalExpr f fr e
        match cur with
        | .list id => do
          let xs ← seqElems v
          setList id ((← getList id) ++ xs)
          storeSubscript obj idx cur
        | _ => do storeSubscript obj idx (← binOp .add cur v)
        pure .normal
      | .unpack xs e => do
        let v ← evalExpr f fr e
        bindTargets fr xs v
        pure .normal
      | .expr e => do let _ ← evalExpr f fr e; pure .normal
      | .def_ fname params body => do
        let ps ← evalDefaults f fr params
        let st ← get
        let fn : Func := { name := fname, params := ps, body := body,
                           locals := params.map (·.1) ++ boundNames 64 body, env := fr }
        set { st with funcs := st.funcs ++ [fn] }
        bind fr fname (.func st.funcs.length)
        pure .normal
      | .ret es =>
        match es with
        | [] => pure (.ret .none)
        | [e] => do pure (.ret (← evalExpr f fr e))
        | es => do pure (.ret (.tuple (← evalExprs f fr es)))
      | .for_ xs e body => do
        let it ← iterOf (← evalExpr f fr e)
        forLoop f fr xs body it 0
      | .cond branches els => condLoop f fr branches els
      | .pass => pure .normal
      | .brk => pure .brk
      | .cont => pure .cont
      | .assert_ e => do
        if ← truth (← evalExpr f fr e) then pure .normal else err "AssertionError"

  def evalDefaults : Nat → Nat → List (String × Option Expr) → PM (List (String × Option Val))
    | 0, _, _ => err "fuel"
    | _ + 1, _, [] => pure []
    | f + 1, fr, (p, d) :: r => do
      let d' ← match d with
        | some e => do pure (some (← evalExpr f fr e))
        | none => pure none
      pure ((p, d') :: (← evalDefaults f fr r))

  def condLoop : Nat → Nat → List (Expr × List Stmt) → List Stmt → PM Flow
    | 0, _, _, _ => err "fuel"
    | f + 1, fr, [], els => execStmts f fr els
    | f + 1, fr, (c, body) :: r, els => do
      if ← truth (← evalExpr f fr c) then execStmts f fr body else condLoop f fr r els

  def forLoop : Nat → Nat → List String → List Stmt → Iter → Nat → PM Flow
    | 0, _, _, _, _, _ => err "fuel"
    | f + 1, fr, xs, body, it, i => do
      match ← iterGet it i with
      | none => pure .normal
      | some item => do
        bindTargets fr xs item
        match ← execStmts f fr body with
        | .ret v => pure (.ret v)
        | .brk => pure .normal
        | _ => forLoop f fr xs body it (i + 1)
end

/-! ### Whole programs -/

mutual
  def renderVal : Nat → Nat → Val → PM RVal
    | 0, _, _ => err "fuel"
    | _ + 1, 0, _ => pure .deep
    | f + 1, d + 1, v =>
      match v with
      | .int n => pure (.int n)
      | .str s => pure (.str s)
      | .bool b => pure (.bool b)
      | .none => pure .none
      | .list id => do pure (.list (← renderList f d (← getList id)))
      | .tuple vs => do pure (.list (← renderList f d vs))
      | .dict id => do
        let m ← getDict id
        pure (.dict (← renderKvs f d m (PlzVerif.Asp.sortedKeys (m.map fun e => (e.1, PlzVerif.Asp.Val.none)))))
      | .func id => do pure (.fn (((← get).funcs[id]?).map (·.name) |>.getD "?"))
  def renderList : Nat → Nat → List Val → PM (List RVal)
    | 0, _, _ => err "fuel"
    | _ + 1, _, [] => pure []
    | f + 1, d, x :: r => do pure ((← renderVal f d x) :: (← renderList f d r))
  def renderKvs : Nat → Nat → List (String × Val) → List String → PM (List (String × RVal))
    | 0, _, _, _ => err "fuel"
    | _ + 1, _, _, [] => pure []
    | f + 1, d, m, k :: r => do pure ((k, ← renderVal f d ((assocGet m k).getD .none)) :: (← renderKvs f d m r))
end

def runProgram (fuel : Nat) (p : Program) : Except String Globals :=
  let m : PM Globals := do
    let g ← newFrame none []
    let _ ← execStmts fuel g p
    match (← get).frames[g]? with
    | none => err "ref: frame"
    | some fm =>
      let vars := fm.vars.filter fun e => match e.2 with | .func _ => false | _ => true
      renderKvs 100000 13 vars (PlzVerif.Asp.sortedKeys (vars.map fun e => (e.1, PlzVerif.Asp.Val.none)))
  match m.run {} with
  | .ok (g, _) => .ok g
  | .error e => .error e

end PlzVerif.Py
