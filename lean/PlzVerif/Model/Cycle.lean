/-!
C06 model: transcription of `cycleDetector.Check` (src/core/cycle_detector.go), core Lean only.

Go                                                 here
-------------------------------------------------  ---------------------------------------------
`*BuildTarget`                                     `Nat` (any injective numbering)
`target.Dependencies()` (sorted slice, may repeat) `g t : List Nat`  (any order, repeats allowed)
`c.graph.AllTargets()` (sorted slice)              `nodes : List Nat` (any order)
`partial`, `complete` maps (sets)                  `St.part`, `St.comp` lists; only membership is used;
                                                   `delete(partial, target)` = `List.erase`
`visit` closure returning `([]*BuildTarget, bool)` `visit` returning `Res` (`none` = nil slice)
recursion depth                                    `fuel` (Lemmas/Cycle.lean: `nodes.length + 1` is never exhausted)
`c.stopped`                                        not modelled: the property is about a detector that is not stopped

The shape of the closing test, of the extension and of the guard order is read from the source on every
run (`Cfg`, see harness/extract/c06); `Cfg.std` is what the pinned code has.
-/
namespace PlzVerif.Cycle

abbrev Graph := Nat → List Nat

structure St where
  part : List Nat
  comp : List Nat
deriving Repr

inductive Res where
  | none
  | cyc (c : List Nat) (done : Bool)
  | oof
deriving DecidableEq, Repr

/-- Syntactic facts of `visit` that the model interprets. -/
structure Cfg where
  /-- `complete` is tested before `partial` in the guard chain -/
  completeFirst : Bool
  /-- the closing test compares `target` with the LAST element of the returned slice (`false`: the first) -/
  closeLast : Bool
  /-- the closing test is `done || …` -/
  closeUsesDone : Bool
  /-- second result when the closing test succeeds -/
  closeRet : Bool
  /-- the extension puts `target` in front of the slice (`false`: behind) -/
  prepend : Bool
  /-- second result of the extension -/
  extRet : Bool
  /-- the top-level loop tests `complete` before calling `visit` -/
  topSkip : Bool
deriving DecidableEq, Repr

/-- The pinned code: `complete` first; `done || target == cycle[len(cycle)-1]` → `cycle, true`;
otherwise `append([]*BuildTarget{target}, cycle...), false`. -/
def Cfg.std : Cfg := ⟨true, true, true, true, true, false, true⟩

/-- Everything the theorems need; the guard order and the top-level skip are free (`visit` tests `complete` itself). -/
def Cfg.OK (c : Cfg) : Bool :=
  c.closeLast && c.closeUsesDone && c.closeRet && c.prepend && !c.extRet

/-- The `if … else if … else if` chain at the top of `visit` (without `c.stopped`).
`some r`: return `r` immediately; `none`: fall through to the body. -/
def guard (cfg : Cfg) (s : St) (t : Nat) : Option Res :=
  if cfg.completeFirst then
    if t ∈ s.comp then some .none
    else if t ∈ s.part then some (.cyc [t] false)
    else Option.none
  else
    if t ∈ s.part then some (.cyc [t] false)
    else if t ∈ s.comp then some .none
    else Option.none

/-- What `visit(target)` does with a non-nil `cycle, done` coming back from a dependency. -/
def close (cfg : Cfg) (t : Nat) (c : List Nat) (done : Bool) : Res :=
  let e := if cfg.closeLast then c.getLast? else c.head?
  if (cfg.closeUsesDone && done) || e == some t then .cyc c cfg.closeRet
  else .cyc (if cfg.prepend then t :: c else c ++ [t]) cfg.extRet

/-- The `for _, dep := range target.Dependencies()` loop of `visit(t)` on the remaining dependencies,
with the recursive call `visit(dep)` passed in as `v` (keeps both definitions structurally recursive, so
concrete instances reduce in the kernel). -/
def visitListWith (cfg : Cfg) (v : St → Nat → Res × St) (s : St) (t : Nat) : List Nat → Res × St
  | [] => (.none, s)
  | d :: ds =>
    match v s d with
    | (.none, s') => visitListWith cfg v s' t ds
    | (.cyc c done, s') => (close cfg t c done, s')
    | (.oof, s') => (.oof, s')

/-- `visit(target)`. -/
def visit (cfg : Cfg) (g : Graph) : Nat → St → Nat → Res × St
  | 0, s, _ => (.oof, s)
  | fuel+1, s, t =>
    match guard cfg s t with
    | some r => (r, s)
    | Option.none =>
      -- partial[target] = struct{}{} ; for _, dep := range target.Dependencies() { … }
      match visitListWith cfg (visit cfg g fuel) { s with part := t :: s.part } t (g t) with
      | (.none, s2) =>
        -- delete(partial, target) ; complete[target] = struct{}{} ; return nil, false
        (.none, { part := s2.part.erase t, comp := t :: s2.comp })
      | r => r

/-- The dependency loop of `visit(t)` at recursion budget `fuel`. -/
def visitList (cfg : Cfg) (g : Graph) (fuel : Nat) (s : St) (t : Nat) (ds : List Nat) : Res × St :=
  visitListWith cfg (visit cfg g fuel) s t ds

theorem visit_zero (cfg : Cfg) (g : Graph) (s : St) (t : Nat) : visit cfg g 0 s t = (.oof, s) := rfl

theorem visit_succ (cfg : Cfg) (g : Graph) (fuel : Nat) (s : St) (t : Nat) :
    visit cfg g (fuel+1) s t =
      match guard cfg s t with
      | some r => (r, s)
      | Option.none =>
        match visitList cfg g fuel { s with part := t :: s.part } t (g t) with
        | (.none, s2) => (.none, { part := s2.part.erase t, comp := t :: s2.comp })
        | r => r := rfl

theorem visitList_nil (cfg : Cfg) (g : Graph) (fuel : Nat) (s : St) (t : Nat) :
    visitList cfg g fuel s t [] = (.none, s) := rfl

theorem visitList_cons (cfg : Cfg) (g : Graph) (fuel : Nat) (s : St) (t d : Nat) (ds : List Nat) :
    visitList cfg g fuel s t (d :: ds) =
      match visit cfg g fuel s d with
      | (.none, s') => visitList cfg g fuel s' t ds
      | (.cyc c done, s') => (close cfg t c done, s')
      | (.oof, s') => (.oof, s') := rfl

/-- The `for _, target := range c.graph.AllTargets()` loop of `Check`. -/
def checkFrom (cfg : Cfg) (g : Graph) (fuel : Nat) : St → List Nat → Res × St
  | s, [] => (.none, s)
  | s, t :: ts =>
    if cfg.topSkip && decide (t ∈ s.comp) then checkFrom cfg g fuel s ts       -- `if _, present := complete[target]; !present`
    else
      match visit cfg g fuel s t with
      | (.none, s') => checkFrom cfg g fuel s' ts
      | r => r                                          -- `cycle != nil` → `&errCycle{Cycle: cycle}`

/-- `Check()`: `.none` = nil, `.cyc c _` = `&errCycle{Cycle: c}` (the flag is dropped by the caller). -/
def check (cfg : Cfg) (g : Graph) (nodes : List Nat) : Res :=
  (checkFrom cfg g (nodes.length + 1) ⟨[], []⟩ nodes).1

/-! ### the detector as a state machine over a sequence of checks

Production keeps ONE `cycleDetector` per build and calls `Check()` on it again and again while the graph is still
growing.  `DetState` is what persists in the detector between two calls; `Persist` says which of the two sets of
`Check` are kept there (read from the source: a set that is a local of `Check` does not persist, a struct field does).
In the pinned code both are locals, so nothing persists. -/

/-- what a `cycleDetector` carries from one `Check()` to the next -/
structure DetState where
  part : List Nat
  comp : List Nat
deriving Repr

/-- which sets of `Check` live in the detector (struct fields) instead of being locals of one call -/
structure Persist where
  comp : Bool
  part : Bool
deriving DecidableEq, Repr

/-- the pinned code: both maps are locals of `Check` -/
def Persist.none : Persist := ⟨false, false⟩

/-- one `Check()` call on the graph as it is at that moment -/
def checkS (cfg : Cfg) (p : Persist) (st : DetState) (g : Graph) (nodes : List Nat) : DetState × Res :=
  let s0 : St := ⟨if p.part then st.part else [], if p.comp then st.comp else []⟩
  let r := checkFrom cfg g (nodes.length + 1) s0 nodes
  (⟨r.2.part, r.2.comp⟩, r.1)

/-- a sequence of `Check()` calls on one detector; the `i`-th call sees the `i`-th graph -/
def runSeq (cfg : Cfg) (p : Persist) : DetState → List (Graph × List Nat) → List Res
  | _, [] => []
  | st, (g, nodes) :: rest =>
    let r := checkS cfg p st g nodes
    r.2 :: runSeq cfg p r.1 rest

/-! ### dependency edges have kinds

`target.dependencies` records how each dependency was declared.  `Dependencies()` returns all resolved dependencies;
`BuildDependencies()` leaves out those declared only as a source, as data, as a run-time or as an internal
dependency.  Which accessor `visit` iterates is read from the source. -/

inductive Kind where
  | dep        -- `deps` / tools: a build-time dependency
  | source     -- a label in `srcs` only
  | data       -- `data`
  | runtime    -- a run-time dependency
  | internal   -- an internal dependency
deriving DecidableEq, Repr

/-- resolved dependencies with their kind, in `Dependencies()` order -/
abbrev KGraph := Nat → List (Nat × Kind)

/-- `target.Dependencies()` -/
def allDeps (kg : KGraph) : Graph := fun t => (kg t).map (·.1)

/-- `target.BuildDependencies()`: `!deps.runtime && !deps.data && !deps.internal && !deps.source` -/
def buildDeps (kg : KGraph) : Graph := fun t => ((kg t).filter (·.2 == Kind.dep)).map (·.1)

/-- which accessor the `for _, dep := range target.…()` loop of `visit` calls -/
inductive Accessor where
  | all     -- `Dependencies()`
  | build   -- `BuildDependencies()`
deriving DecidableEq, Repr

def depsOf (acc : Accessor) (kg : KGraph) : Graph :=
  match acc with
  | .all => allDeps kg
  | .build => buildDeps kg

/-- `Check()` on a graph whose edges have kinds -/
def kcheck (cfg : Cfg) (acc : Accessor) (kg : KGraph) (nodes : List Nat) : Res := check cfg (depsOf acc kg) nodes

/-- Well-formed graph: dependencies of listed targets are listed (the graph holds every resolved dependency). -/
def WF (g : Graph) (nodes : List Nat) : Prop := ∀ t ∈ nodes, ∀ d ∈ g t, d ∈ nodes

end PlzVerif.Cycle
