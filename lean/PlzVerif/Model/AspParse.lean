import PlzVerif.Model.AspLex
/-!
Model of the recursive-descent parser of src/parse/asp/grammar_parse.go, on top of the lexer model.
Core Lean only.

The parser state is the lexer object itself (`Peek` = `l.next`, `Next` = `Lexer.advance`), exactly as in
the Go code, so the lexer's laziness is kept: a lexing error surfaces when the parser asks for the token
after the last good one, and `AssignFollows` peeks at the raw bytes.  Only what decides the *outcome* is
kept of the AST: statement counts, whether a value is a plain string or an f-string and how many `{var}`s it
has (concatStrings), element counts (comprehension checks), argument names (repeated-argument check).
`p.endPos` and all positions inside AST nodes are left out.

Every function takes `fuel` and recurses structurally on it (one unit per call level, loops are
recursive calls); `Props/C19.lean` shows the fuel handed out by `parseFile` is never exhausted.
-/
namespace PlzVerif.AspParse
open PlzVerif.AspLex PlzVerif.Generated

def kw (s : String) : Bytes := s.toUTF8.data

/-- The `p.fail` / `p.assert` call sites of grammar_parse.go, by message. -/
inductive PKind where
  | unexpected      -- "unexpected token %s, expected %s"           (next / nextv)
  | oneof           -- "unexpected token %s, expected one of %s"    (oneof / oneofval)
  | continueOutside | breakOutside
  | notIn           -- "expected 'in', not %s"
  | intTooLarge | intInvalid
  | value           -- "Unexpected token %s"                         (parseValueExpression)
  | keyword         -- "Cannot operate on keyword or constant %s"
  | identStmt       -- "Unexpected token %s, expected one of , [ . ( = +="
  | repeated        -- "Repeated argument %s"
  | listComp | dictComp
  | fbrace          -- "Unterminated brace in fstring"
  deriving DecidableEq, Repr

inductive PErr where
  /-- the lexer stopped (positioned `fail`, or one of its runtime-error constructors) -/
  | lex (e : LexErr)
  /-- `p.fail(tok, …)`: positioned at `tok.Pos` -/
  | fail (pos : Nat) (k : PKind)
  /-- Go `runtime error` inside the parser: 0 = `rhs.FString.Vars[0]` on an f-string without variables
      (concatStrings), 1 = `x.String[1:len-1]` on an empty String field -/
  | runtime (site : Nat)
  | outOfFuel
  deriving DecidableEq, Repr

/-- Parser monad: state = the lexer object. -/
def P (α : Type) := Lexer → Except PErr (α × Lexer)

instance : Monad P where
  pure a := fun l => .ok (a, l)
  bind m f := fun l =>
    match m l with
    | .error e => .error e
    | .ok (a, l') => f a l'

def throwP {α : Type} (e : PErr) : P α := fun _ => .error e

/-- `p.l.Peek()` -/
def peek : P Token := fun l => .ok (l.next, l)

/-- `p.l.Next()` -/
def adv (b : Bytes) : P Token := fun l =>
  match l.advance b with
  | .error e => .error (.lex e)
  | .ok (t, l') => .ok (t, l')

def failAt {α : Type} (t : Token) (k : PKind) : P α := throwP (.fail t.pos k)

/-- `p.next(expectedType)` -/
def next (b : Bytes) (ty : TokType) : P Token := do
  let t ← adv b
  if t.ty = ty then pure t else failAt t .unexpected

/-- `p.nextv(expectedValue)` -/
def nextv (b : Bytes) (v : Bytes) : P Token := do
  let t ← adv b
  if t.val = v then pure t else failAt t .unexpected

/-- `p.optional(option)` -/
def optional (b : Bytes) (ty : TokType) : P Bool := do
  let t ← peek
  if t.ty = ty then do let _ ← adv b; pure true else pure false

/-- `p.optionalv(option)` -/
def optionalv (b : Bytes) (v : Bytes) : P Bool := do
  let t ← peek
  if t.val = v then do let _ ← adv b; pure true else pure false

/-- `p.oneof(expectedTypes...)` -/
def oneof (b : Bytes) (tys : List TokType) : P Token := do
  let t ← adv b
  if tys.contains t.ty then pure t else failAt t .oneof

/-- `p.oneofval(expectedValues...)` -/
def oneofval (b : Bytes) (vs : List String) : P Token := do
  let t ← adv b
  if vs.any (fun v => kw v = t.val) then pure t else failAt t .oneof

/-- `p.l.AssignFollows()`: stripSpaces (which moves `l.pos`), then `bytes[pos] == '=' && bytes[pos+1] != '='`. -/
def assignFollows (b : Bytes) : P Bool := fun l =>
  match skipSpaces b l.st.pos with
  | .error e => .error (.lex e)
  | .ok p =>
    let l' : Lexer := { l with st := { l.st with pos := p } }
    match rd b p with
    | .error e => .error (.lex e)
    | .ok c =>
      if c = 61 then
        match rd b (p + 1) with
        | .error e => .error (.lex e)
        | .ok c2 => .ok (c2 ≠ 61, l')
      else .ok (false, l')

def lit (c : Char) : TokType := .lit c.toNat.toUInt8

/-- What parseValueExpression found, as far as concatStrings cares. -/
inductive VKind where
  | plain | fstr (vars : Nat) | other
  deriving DecidableEq, Repr

/-- `concatStrings(lhs, rhs)` reduced to kinds.  `guard`: the "plain string, then f-string" branch tests
    `len(rhs.FString.Vars) == 0` before it touches `Vars[0]` (a regenerated fact; false before the fix). -/
def concatKindsWith (guard guardBoth : Bool) : VKind → VKind → Except PErr VKind
  | .fstr m, .fstr n =>
    -- `if len(rhs.FString.Vars) == 0 { … return lhs }`, then `rhs.FString.Vars[0]` (also a regenerated fact)
    if n = 0 then (if guardBoth then .ok (.fstr m) else .error (.runtime 0)) else .ok (.fstr (m + n))
  | .fstr m, .plain => .ok (.fstr m)
  | .plain, .fstr n => if n = 0 ∧ guard = false then .error (.runtime 0) else .ok (.fstr n)   -- rhs.FString.Vars[0]
  | .plain, .plain => .ok .plain
  | _, _ => .error (.runtime 1)                                                 -- String[1:len-1] of ""

def concatKinds : VKind → VKind → Except PErr VKind :=
  concatKindsWith C19.concatGuardsBareFString C19.concatGuardsBothFString

/-- `findBrace`: index of the next `{` that opens a variable (`{{` and `${` do not). -/
def findBrace : List UInt8 → UInt8 → Nat → Option Nat
  | [], _, _ => none
  | c :: rest, last, i =>
    if c = 123 ∧ last ≠ 123 ∧ last ≠ 36 then
      match rest with
      | c2 :: _ => if c2 = 123 then findBrace rest c (i + 1) else some i
      | [] => some i
    else findBrace rest c (i + 1)

def indexOfByte (c : UInt8) : List UInt8 → Nat → Option Nat
  | [], _ => none
  | x :: rest, i => if x = c then some i else indexOfByte c rest (i + 1)

/-- The loop of parseFString over the text between the quotes: number of `{var}`s, or the position of the
    "Unterminated brace" error.  `pos` tracks `tok.Pos` as the Go loop advances it. -/
def fstringVars : Nat → List UInt8 → Nat → Nat → Except PErr Nat
  | 0, _, _, _ => .error .outOfFuel
  | fuel + 1, s, pos, n =>
    match findBrace s 32 0 with
    | none => .ok n
    | some idx =>
      let s1 := s.drop (idx + 1)
      let pos1 := pos + (idx + 1)
      match indexOfByte 125 s1 0 with
      | none => .error (.fail pos1 .fbrace)
      | some j => fstringVars fuel (s1.drop (j + 1)) (pos1 + (j + 1)) (n + 1)

/-- `p.parseFString()` -/
def parseFString (b : Bytes) : P Nat := do
  let t ← next b .string
  let body := (t.val.toList.drop 2).dropLast
  match fstringVars (body.length + 1) body (t.pos + 1) 0 with
  | .ok n => pure n
  | .error e => throwP e

def isDigits : List UInt8 → Bool
  | [] => false
  | [c] => isDigit c
  | c :: rest => isDigit c && isDigits rest

/-- `strconv.Atoi(tok.Value)` succeeds (length already checked). -/
def atoiOK (v : Bytes) : Bool :=
  match v.toList with
  | 45 :: rest => isDigits rest
  | 43 :: rest => isDigits rest
  | l => isDigits l

def isKeyword (v : Bytes) : Bool := C19.keywords.any (fun k => kw k = v)
def isOperator (v : Bytes) : Bool := C19.operators.any (fun k => kw k = v)

mutual

/-- `p.parseStatement()` -/
def parseStatement (b : Bytes) : Nat → Bool → P Unit
  | 0, _ => throwP .outOfFuel
  | fuel + 1, inFor => do
    let tok ← peek
    if tok.val = kw "pass" then do
      let _ ← adv b; let _ ← next b .eol; pure ()
    else if tok.val = kw "continue" then do
      if !inFor then failAt tok .continueOutside
      else do let _ ← adv b; let _ ← next b .eol; pure ()
    else if tok.val = kw "break" then do
      if !inFor then failAt tok .breakOutside
      else do let _ ← adv b; let _ ← next b .eol; pure ()
    else if tok.val = kw "def" then parseFuncDef b fuel
    else if tok.val = kw "for" then parseFor b fuel
    else if tok.val = kw "if" then parseIf b fuel inFor
    else if tok.val = kw "return" then do
      let _ ← adv b; parseReturn b fuel
    else if tok.val = kw "raise" then do
      let _ ← adv b; parseExpression b fuel; let _ ← next b .eol; pure ()
    else if tok.val = kw "assert" then do
      let _ ← adv b
      parseExpression b fuel
      if (← optional b (lit ',')) then parseExpression b fuel
      let _ ← next b .eol; pure ()
    else do
      if tok.ty = .ident then parseIdentStatement b fuel else parseExpression b fuel
      let _ ← next b .eol; pure ()

/-- `p.parseStatements()`: statements up to the Unindent. -/
def parseStatements (b : Bytes) : Nat → Bool → P Unit
  | 0, _ => throwP .outOfFuel
  | fuel + 1, inFor => do
    let tok ← peek
    if tok.ty ≠ .unindent then do
      parseStatement b fuel inFor
      parseStatements b fuel inFor
    else do let _ ← next b .unindent; pure ()

/-- `p.parseReturn()`: the loop `for p.anythingBut(EOL) { … if !p.optional(',') { break } }`, then EOL. -/
def parseReturn (b : Bytes) : Nat → P Unit
  | 0 => throwP .outOfFuel
  | fuel + 1 => do
    let tok ← peek
    if tok.ty ≠ .eol then do
      parseExpression b fuel
      if (← optional b (lit ',')) then parseReturn b fuel
      else do let _ ← next b .eol; pure ()
    else do let _ ← next b .eol; pure ()

/-- `p.parseFuncDef()` -/
def parseFuncDef (b : Bytes) : Nat → P Unit
  | 0 => throwP .outOfFuel
  | fuel + 1 => do
    let _ ← nextv b (kw "def")
    let _ ← next b .ident
    let _ ← next b (lit '(')
    parseArguments b fuel
    let _ ← next b (lit ')')
    if (← peek).val = kw "-" then do
      let _ ← next b (lit '-')
      let _ ← next b (lit '>')
      let _ ← oneofval b C19.knownTypeNames
      pure ()
    let _ ← next b (lit ':')
    let _ ← next b .eol
    if (← peek).ty = .string then do
      let _ ← adv b
      let _ ← next b .eol
      pure ()
    parseStatements b fuel false

/-- the argument loop of parseFuncDef: `for p.anythingBut(')') { parseArgument; if !p.optional(',') { break } }` -/
def parseArguments (b : Bytes) : Nat → P Unit
  | 0 => throwP .outOfFuel
  | fuel + 1 => do
    if (← peek).ty ≠ lit ')' then do
      parseArgument b fuel
      if (← optional b (lit ',')) then parseArguments b fuel

/-- `p.parseArgument()` -/
def parseArgument (b : Bytes) : Nat → P Unit
  | 0 => throwP .outOfFuel
  | fuel + 1 => do
    let _ ← next b .ident
    let t ← peek
    if t.ty = lit ',' ∨ t.ty = lit ')' then pure ()
    else do
      let tok ← oneof b [lit ':', lit '&', lit '=']
      if tok.ty = lit ':' then do
        argTypes b fuel
        let t ← peek
        if t.ty = lit ',' ∨ t.ty = lit ')' then pure ()
        else do
          let tok2 ← oneof b [lit '&', lit '=']
          argTail b fuel tok2
      else argTail b fuel tok

/-- type annotations: `for { oneofval(types…); if !p.optional('|') { break } }` -/
def argTypes (b : Bytes) : Nat → P Unit
  | 0 => throwP .outOfFuel
  | fuel + 1 => do
    let _ ← oneofval b C19.argTypeNames
    if (← optional b (lit '|')) then argTypes b fuel

/-- the part of parseArgument after the type annotations; `tok` is the `&` or `=` just consumed -/
def argTail (b : Bytes) : Nat → Token → P Unit
  | 0, _ => throwP .outOfFuel
  | fuel + 1, tok => do
    if tok.ty = lit '&' then do
      argAliases b fuel
      let t ← peek
      if t.ty = lit ',' ∨ t.ty = lit ')' then pure ()
      else do
        let _ ← next b (lit '=')
        parseExpression b fuel
    else parseExpression b fuel

/-- aliases: `for { next(Ident); if !p.optional('&') { break } }` -/
def argAliases (b : Bytes) : Nat → P Unit
  | 0 => throwP .outOfFuel
  | fuel + 1 => do
    let _ ← next b .ident
    if (← optional b (lit '&')) then argAliases b fuel

/-- `p.parseIf()` -/
def parseIf (b : Bytes) : Nat → Bool → P Unit
  | 0, _ => throwP .outOfFuel
  | fuel + 1, inFor => do
    let _ ← nextv b (kw "if")
    parseExpression b fuel
    let _ ← next b (lit ':')
    let _ ← next b .eol
    parseStatements b fuel inFor
    parseElifs b fuel inFor

/-- the `elif` loop and the optional `else` of parseIf -/
def parseElifs (b : Bytes) : Nat → Bool → P Unit
  | 0, _ => throwP .outOfFuel
  | fuel + 1, inFor => do
    if (← optionalv b (kw "elif")) then do
      parseExpression b fuel
      let _ ← next b (lit ':')
      let _ ← next b .eol
      parseStatements b fuel inFor
      parseElifs b fuel inFor
    else if (← optionalv b (kw "else")) then do
      let _ ← next b (lit ':')
      let _ ← next b .eol
      parseStatements b fuel inFor

/-- `p.parseFor()` (the caller sets `p.inFor = true`) -/
def parseFor (b : Bytes) : Nat → P Unit
  | 0 => throwP .outOfFuel
  | fuel + 1 => do
    let _ ← nextv b (kw "for")
    parseIdentList b fuel
    let _ ← nextv b (kw "in")
    parseExpression b fuel
    let _ ← next b (lit ':')
    let _ ← next b .eol
    parseStatements b fuel true

/-- `p.parseIdentList()` -/
def parseIdentList (b : Bytes) : Nat → P Unit
  | 0 => throwP .outOfFuel
  | fuel + 1 => do
    let _ ← next b .ident
    if (← peek).ty = lit ',' then do
      let _ ← adv b
      parseIdentList b fuel

/-- `p.parseExpression()` / `p.parseExpressionInPlace()` -/
def parseExpression (b : Bytes) : Nat → P Unit
  | 0 => throwP .outOfFuel
  | fuel + 1 => do
    parseUnconditional b fuel
    -- parseInlineIf
    if (← optionalv b (kw "if")) then do
      parseExpression b fuel
      let _ ← nextv b (kw "else")
      parseExpression b fuel

/-- `p.parseUnconditionalExpression()` / `…InPlace()` -/
def parseUnconditional (b : Bytes) : Nat → P Unit
  | 0 => throwP .outOfFuel
  | fuel + 1 => do
    let t0 ← peek
    if t0.ty = lit '-' then do let _ ← adv b; pure ()
    else if t0.val = kw "not" then do let _ ← adv b; pure ()
    let _ ← parseValue b fuel
    let tok ← peek
    -- hack for "not in"
    let opv ← (if tok.val = kw "not" then do
        let _ ← adv b
        let t2 ← peek
        if t2.val = kw "in" then pure (kw "not in") else failAt t2 .notIn
      else pure tok.val : P Bytes)
    if isOperator opv then do
      let _ ← adv b
      if opv = kw "is" then do
        if (← peek).val = kw "not" then do let _ ← adv b; pure ()
      parseUnconditional b fuel

/-- `p.parseValueExpression()`; returns what concatStrings needs to know about the value. -/
def parseValue (b : Bytes) : Nat → P VKind
  | 0 => throwP .outOfFuel
  | fuel + 1 => do
    let tok ← peek
    if tok.ty = .string then do
      let k ← (if tok.val[0]? = some 102 then do
          let n ← parseFString b
          pure (VKind.fstr n)
        else do let _ ← adv b; pure VKind.plain : P VKind)
      if (← peek).ty = .string then do
        let rhs ← parseValue b fuel
        match concatKinds k rhs with
        | .ok k' => pure k'
        | .error e => throwP e
      else do
        valueTail b fuel
        pure k
    else do
      if tok.ty = .int then do
        if !(tok.val.size < C19.intLitMaxLen) then failAt tok .intTooLarge
        else if !atoiOK tok.val then failAt tok .intInvalid
        else do let _ ← adv b; pure ()
      else if tok.val = kw "False" ∨ tok.val = kw "True" ∨ tok.val = kw "None" then do
        let _ ← adv b; pure ()
      else if tok.ty = lit '[' then parseList b fuel (lit '[') (lit ']')
      else if tok.ty = lit '(' then parseList b fuel (lit '(') (lit ')')
      else if tok.ty = lit '{' then parseDict b fuel
      else if tok.val = kw "lambda" then parseLambda b fuel
      else if tok.ty = .ident then parseIdentExpr b fuel
      else failAt tok .value
      valueTail b fuel
      pure VKind.other

/-- the end of parseValueExpression: slices, then `.property` or a call -/
def valueTail (b : Bytes) : Nat → P Unit
  | 0 => throwP .outOfFuel
  | fuel + 1 => do
    if (← peek).ty = lit '[' then do
      parseSlice b fuel
      valueTail b fuel
    else if (← optional b (lit '.')) then parseIdentExpr b fuel
    else if (← optional b (lit '(')) then parseCall b fuel []

/-- `p.parseIdentStatement()` -/
def parseIdentStatement (b : Bytes) : Nat → P Unit
  | 0 => throwP .outOfFuel
  | fuel + 1 => do
    let tok ← peek
    let name ← next b .ident
    if isKeyword name.val then failAt tok .keyword
    else if (← peek).ty = .eol then pure ()
    else do
      let t ← adv b
      if t.ty = lit ',' then do
        parseIdentList b fuel
        let _ ← next b (lit '=')
        parseExpression b fuel
      else if t.ty = lit '[' then do
        parseExpression b fuel
        let _ ← next b (lit ']')
        let _ ← oneofval b ["=", "+="]
        parseExpression b fuel
      else if t.ty = lit '.' then parseIdentExpr b fuel
      else if t.ty = lit '(' then parseCall b fuel []
      else if t.ty = lit '=' then parseExpression b fuel
      else if t.val = kw "+=" then parseExpression b fuel
      else failAt t .identStmt

/-- `p.parseIdentExpr()` -/
def parseIdentExpr (b : Bytes) : Nat → P Unit
  | 0 => throwP .outOfFuel
  | fuel + 1 => do
    let _ ← next b .ident
    identActions b fuel

/-- the action loop of parseIdentExpr: `for tok.Type == '.' || tok.Type == '('` -/
def identActions (b : Bytes) : Nat → P Unit
  | 0 => throwP .outOfFuel
  | fuel + 1 => do
    let t ← peek
    if t.ty = lit '.' then do
      let _ ← adv b
      parseIdentExpr b fuel
      identActions b fuel
    else if t.ty = lit '(' then do
      let _ ← adv b
      parseCall b fuel []
      identActions b fuel

/-- `p.parseCall()`; the opening `(` is already consumed.  `names` = keyword arguments seen so far. -/
def parseCall (b : Bytes) : Nat → List Bytes → P Unit
  | 0, _ => throwP .outOfFuel
  | fuel + 1, names => do
    let tok ← peek
    if tok.ty ≠ lit ')' then do
      let named ← (if tok.ty = .ident then assignFollows b else pure false : P Bool)
      let names' ← (if named then do
          let _ ← next b .ident
          let _ ← next b (lit '=')
          if names.contains tok.val then failAt tok .repeated else pure (tok.val :: names)
        else pure names : P (List Bytes))
      parseExpression b fuel
      if (← optional b (lit ',')) then parseCall b fuel names'
      else do let _ ← next b (lit ')'); pure ()
    else do let _ ← next b (lit ')'); pure ()

/-- `p.parseList(opening, closing)` -/
def parseList (b : Bytes) : Nat → TokType → TokType → P Unit
  | 0, _, _ => throwP .outOfFuel
  | fuel + 1, opening, closing => do
    let _ ← next b opening
    let n ← listItems b fuel closing 0
    let tok ← peek
    if tok.val = kw "for" then do
      if n ≠ 1 then failAt tok .listComp else parseComprehension b fuel
    let _ ← next b closing
    pure ()

/-- the value loop of parseList; returns `len(l.Values)` -/
def listItems (b : Bytes) : Nat → TokType → Nat → P Nat
  | 0, _, _ => throwP .outOfFuel
  | fuel + 1, closing, n => do
    if (← peek).ty ≠ closing then do
      parseExpression b fuel
      if (← optional b (lit ',')) then listItems b fuel closing (n + 1) else pure (n + 1)
    else pure n

/-- `p.parseDict()` -/
def parseDict (b : Bytes) : Nat → P Unit
  | 0 => throwP .outOfFuel
  | fuel + 1 => do
    let _ ← next b (lit '{')
    let n ← dictItems b fuel 0
    let tok ← peek
    if tok.val = kw "for" then do
      if n ≠ 1 then failAt tok .dictComp else parseComprehension b fuel
    let _ ← next b (lit '}')
    pure ()

def dictItems (b : Bytes) : Nat → Nat → P Nat
  | 0, _ => throwP .outOfFuel
  | fuel + 1, n => do
    if (← peek).ty ≠ lit '}' then do
      parseExpression b fuel
      let _ ← next b (lit ':')
      parseExpression b fuel
      if (← optional b (lit ',')) then dictItems b fuel (n + 1) else pure (n + 1)
    else pure n

/-- `p.parseSlice()` -/
def parseSlice (b : Bytes) : Nat → P Unit
  | 0 => throwP .outOfFuel
  | fuel + 1 => do
    let _ ← next b (lit '[')
    if (← optional b (lit ':')) then pure ()
    else do
      parseExpression b fuel
      let _ ← optional b (lit ':')
      pure ()
    if (← peek).ty = lit ']' then do let _ ← adv b; pure ()
    else do
      parseExpression b fuel
      let _ ← next b (lit ']')
      pure ()

/-- `p.parseComprehension()` -/
def parseComprehension (b : Bytes) : Nat → P Unit
  | 0 => throwP .outOfFuel
  | fuel + 1 => do
    let _ ← nextv b (kw "for")
    parseIdentList b fuel
    let _ ← nextv b (kw "in")
    parseUnconditional b fuel
    if (← optionalv b (kw "for")) then do
      parseIdentList b fuel
      let _ ← nextv b (kw "in")
      parseUnconditional b fuel
    if (← optionalv b (kw "if")) then parseUnconditional b fuel

/-- `p.parseLambda()` -/
def parseLambda (b : Bytes) : Nat → P Unit
  | 0 => throwP .outOfFuel
  | fuel + 1 => do
    let _ ← nextv b (kw "lambda")
    lambdaArgs b fuel
    let _ ← next b (lit ':')
    parseExpression b fuel

/-- the argument loop of parseLambda: `for tok.Type == Ident { Next; [= expr]; if !optional(',') break }` -/
def lambdaArgs (b : Bytes) : Nat → P Unit
  | 0 => throwP .outOfFuel
  | fuel + 1 => do
    if (← peek).ty = .ident then do
      let _ ← adv b
      if (← optional b (lit '=')) then parseExpression b fuel
      if (← optional b (lit ',')) then lambdaArgs b fuel

end

/-- the statement loop of parseFileInput: `for tok := p.l.Peek(); tok.Type != EOF; …`; returns the number of
    top-level statements. -/
def parseTop (b : Bytes) : Nat → Nat → P Nat
  | 0, _ => throwP .outOfFuel
  | fuel + 1, n => do
    if (← peek).ty ≠ .eof then do
      parseStatement b fuel false
      parseTop b fuel (n + 1)
    else pure n

/-- Fuel handed out by `parseFile`: a multiple of the lexer's progress measure at the start. -/
def parseFuel (b : Bytes) : Nat := 64 * (2 * b.size + 8)

/-- `parseFileInput`: number of statements, or how parsing stopped. -/
def parseFile (data : Bytes) : Except PErr Nat :=
  let b := mkBuffer data
  match newLexer b with
  | .error e => .error (.lex e)
  | .ok l =>
    match parseTop b (parseFuel b) 0 l with
    | .error e => .error e
    | .ok (n, _) => .ok n

end PlzVerif.AspParse
