/-
Model of declared-output-hash verification (C35), core Lean only.

  src/core/build_target.go:1378   UnprefixedHashes        → `unprefix`, `unprefixedHashes` (the in-place aliasing the function had
                                                            until fix 656076b is kept as the fact `alias`)
  src/build/build_step.go:929     checkRuleHashes         → `checkRuleHashes`
  src/build/build_step.go:962     checkRuleHashesOfType   → `checkOfType`
  src/build/build_step.go:893/903 targetHasher.outputHash / outputHash → `targetOutputHash` / `outputHash`
  src/build/build_step.go:812     calculateAndCheckRuleHash → `calcAndCheck`
  src/build/build_step.go:164     buildTarget (local, non-filegroup, no post-build function), :460 retrieveArtifacts,
                                  :61 Build (RemoveOutputs on error), filegroup branch :236 → `buildTarget`, `buildFilegroup`

Digests are abstract: `Env.ph a o` is `PathHasher(a).Hash(o, recalc=true)` (none = the path cannot be hashed),
`Env.comb a ds` is `H_a(d₁ ‖ d₂ ‖ …)` — file names are NOT written because `len(target.Hashes) != 0`
(build_step.go:921) — and `Env.hex` is `hex.EncodeToString`.  Strings are `List Char` (valid UTF-8 assumed).
-/
namespace PlzVerif.HashCheck

abbrev Str := List Char

/-! ### UnprefixedHashes -/

/-- Go `unicode.IsSpace` (White_Space), which is what `strings.TrimSpace` trims. -/
def isSpace (c : Char) : Bool :=
  let n := c.toNat
  n == 0x20 || (0x09 ≤ n && n ≤ 0x0D) || n == 0x85 || n == 0xA0 || n == 0x1680 || (0x2000 ≤ n && n ≤ 0x200A) ||
  n == 0x2028 || n == 0x2029 || n == 0x202F || n == 0x205F || n == 0x3000

def trimLeft (s : Str) : Str := s.dropWhile isSpace
def trimRight (s : Str) : Str := (s.reverse.dropWhile isSpace).reverse
def trimSpace (s : Str) : Str := trimRight (trimLeft s)

/-- `h[strings.LastIndexByte(h, ':')+1:]`, `none` when there is no colon. -/
def afterLastColon : Str → Option Str
  | [] => none
  | c :: cs =>
    match afterLastColon cs with
    | some t => some t
    | none => if c = ':' then some cs else none

/-- `h[strings.IndexByte(h, ':')+1:]` (only reachable through a changed fact). -/
def afterFirstColon : Str → Option Str
  | [] => none
  | c :: cs => if c = ':' then some cs else afterFirstColon cs

/-- Facts about `UnprefixedHashes` regenerated from the source. -/
structure UFacts where
  lastColon : Bool      -- strings.LastIndexByte (true) / strings.IndexByte (false)
  trim      : Bool      -- strings.TrimSpace around the suffix
  alias     : Bool      -- true: `hashes := target.Hashes[:]` + `hashes[i] = …` (the target's own list is overwritten, as it was
                        -- before fix 656076b); false: the function works on a copy (`slices.Clone(target.Hashes)`)
deriving DecidableEq, Repr

def UFacts.asCoded : UFacts := ⟨true, true, false⟩

def unprefix (f : UFacts) (h : Str) : Str :=
  match (if f.lastColon then afterLastColon h else afterFirstColon h) with
  | some t => if f.trim then trimSpace t else t
  | none => h

/-- Returns (result, `target.Hashes` after the call). -/
def unprefixedHashes (f : UFacts) (hashes : List Str) : List Str × List Str :=
  let hs := hashes.map (unprefix f)
  (hs, if f.alias then hs else hashes)

/-! ### digests -/

structure Algo where
  name : String
  size : Nat
deriving DecidableEq, Repr

structure Env (O D : Type) where
  ph   : Algo → O → Option D
  comb : Algo → List D → D
  hex  : D → Str

variable {O D : Type}

/-- `outputHash(target, outputs, hasher, combine)` for a target that declares hashes. -/
def outputHash (env : Env O D) (a : Algo) (outs : List O) (combine : Bool) : Option D :=
  if combine then (outs.mapM (env.ph a)).map (env.comb a)
  else match outs with
    | o :: _ => env.ph a o
    | [] => none

/-- `targetHasher.outputHash`: a single output that is an existing non-directory is hashed directly,
    everything else (several outputs, none, a single directory) goes through the combining hash. -/
def targetOutputHash (env : Env O D) (isFile : O → Bool) (cfg : Algo) (outs : List O) : Option D :=
  match outs with
  | [o] => outputHash env cfg outs (!isFile o)
  | _ => outputHash env cfg outs true

/-- What the per-checker loop compares with: `combine := len(outputs) != 1`. -/
def checkerOutputHash (env : Env O D) (a : Algo) (outs : List O) : Option D :=
  outputHash env a outs (outs.length != 1)

/-- `hex.EncodeToString(bhash)` where a hashing error left `bhash` nil (the error is discarded: `bhash, _ :=`). -/
def hexOpt (env : Env O D) : Option D → Str
  | some d => env.hex d
  | none => []

/-! ### checkRuleHashesOfType / checkRuleHashes -/

/-- Facts about the two check functions regenerated from the source. -/
structure CFacts where
  firstCompare : Bool      -- the loop comparing every declared value with the already computed output hash
  lenOp        : String    -- operator of the length filter `len(h) == hasher.Size()*2`
  lenMult      : Nat       -- its multiplier
deriving DecidableEq, Repr

def CFacts.asCoded : CFacts := ⟨true, "==", 2⟩

def lenOK (f : CFacts) (hlen size : Nat) : Bool :=
  if f.lenOp = "==" then hlen == size * f.lenMult
  else if f.lenOp = ">=" then hlen ≥ size * f.lenMult
  else if f.lenOp = "<=" then hlen ≤ size * f.lenMult
  else if f.lenOp = "!=" then hlen != size * f.lenMult
  else if f.lenOp = ">" then hlen > size * f.lenMult
  else if f.lenOp = "<" then hlen < size * f.lenMult
  else false

def validLine (a : Algo) (hs : Str) : Str := a.name.toList ++ [':', ' '] ++ hs

/-- Returns (validHashes, valid).  `acc` is the reversed prefix of `validHashes` built so far. -/
def checkOfType (f : CFacts) (env : Env O D) (hashes : List Str) (outs : List O) (combine : Bool) :
    List Algo → List Str → List Str × Bool
  | [], acc => (acc.reverse, false)
  | a :: as, acc =>
    let hs := hexOpt env (outputHash env a outs combine)
    if hashes.any (fun h => lenOK f h.length a.size && decide (hs = h)) then ([], true)
    else checkOfType f env hashes outs combine as (validLine a hs :: acc)

inductive Verdict where
  | ok
  | bad (expected : List Str) (was : List Str)     -- "Bad output hash for rule …, expected …, but was …"
deriving DecidableEq, Repr

def Verdict.isOk : Verdict → Bool
  | .ok => true
  | .bad _ _ => false

/-- `checkRuleHashes(state, target, hash)`: returns the verdict and `target.Hashes` after the call.
    The error message prints `target.Hashes`: the declared values as written — or, with the aliasing fact on, the
    unprefixed values. -/
def checkRuleHashes (uf : UFacts) (cf : CFacts) (env : Env O D) (hashes : List Str) (outs : List O) (hash : D)
    (checkers : List Algo) : Verdict × List Str :=
  if hashes.isEmpty then (.ok, hashes) else
  let (hs, th) := unprefixedHashes uf hashes
  if cf.firstCompare && hs.any (fun h => decide (h = env.hex hash)) then (.ok, th) else
  match checkOfType cf env hs outs (outs.length != 1) checkers [] with
  | (_, true) => (.ok, th)
  | (valid, false) => (.bad th valid, th)

/-- Run-time switches: `state.VerifyHashes` (off with --nohash_verification) and
    `state.NeedHashesOnly && state.IsOriginalTargetOrParent(target)` (`plz hash --update`). -/
structure Flags where
  verify : Bool := true
  hashesOnlyOriginal : Bool := false
deriving DecidableEq, Repr

/-- `calculateAndCheckRuleHash` up to the point where the stamp is written: `memo` is the value
    `state.TargetHasher.OutputHash` has memoised for this target in this process (if any).
    `none` = an error is returned (hashing failed or verification failed); `some h` = the stamp gets written. -/
def calcAndCheck (uf : UFacts) (cf : CFacts) (env : Env O D) (isFile : O → Bool) (cfg : Algo) (checkers : List Algo)
    (fl : Flags) (hashes : List Str) (outs : List O) (memo : Option D) : Option D :=
  match (match memo with | some h => some h | none => targetOutputHash env isFile cfg outs) with
  | none => none
  | some h =>
    if (checkRuleHashes uf cf env hashes outs h checkers).1.isOk || fl.hashesOnlyOriginal || !fl.verify then some h
    else none

/-- The decision of one fresh verification with default flags. -/
def accepts (uf : UFacts) (cf : CFacts) (env : Env O D) (isFile : O → Bool) (cfg : Algo) (checkers : List Algo)
    (hashes : List Str) (outs : List O) : Bool :=
  (calcAndCheck uf cf env isFile cfg checkers {} hashes outs none).isSome

/-! ### the step order: buildTarget for one local target -/

/-- Facts about the order of calls regenerated from buildTarget / retrieveArtifacts / Build. -/
structure SFacts where
  removeOnRetrieveFail : Bool   -- retrieveArtifacts: verification error ⇒ RemoveOutputs, return false
  removeOnBuildFail    : Bool   -- Build: buildTarget error ⇒ RemoveOutputs
  checkBeforeStamp     : Bool   -- calculateAndCheckRuleHash: checkRuleHashes (and its early return) precede writeRuleHash
  storeAfterCheck      : Bool   -- buildTarget: storeInCache only after calculateAndCheckRuleHash returned without error
  keepOld              : Bool   -- moveOutput keeps the file already in plz-out when the hashes are equal
  fgCheckOnlyIfChanged : Bool   -- filegroup branch: true = calculateAndCheckRuleHash sits inside `if changed` (before the fix of
                                -- finding filegroup-unchanged-skips-hash-check); false = `if changed || len(target.Hashes) > 0`
deriving DecidableEq, Repr

def SFacts.asCoded : SFacts := ⟨true, true, true, true, true, false⟩

/-- plz-out (the target's outputs with the stamp xattr they carry) and the artifact cache. -/
structure TState (K C : Type) where
  out   : Option (C × Option K)
  cache : K → Option C

inductive Res where
  | reused | cached | built | failed
deriving DecidableEq, Repr

variable {K C : Type} [DecidableEq K] [DecidableEq C]

def needsBuilding (st : TState K C) (key : K) : Bool :=
  match st.out with
  | some (_, some k) => k != key
  | _ => true

def cacheSet (cache : K → Option C) (key : K) (c : C) : K → Option C := fun q => if q = key then some c else cache q

/-- `moveOutputs`: the freshly built outputs replace what is in plz-out unless the (path) hashes are equal,
    in which case the OLD files — with their OLD stamp — stay. -/
def moveOutputs (fx : SFacts) (out1 : Option (C × Option K)) (fresh : C) : C × Option K :=
  match out1 with
  | some (cOld, sOld) => if fx.keepOld && decide (cOld = fresh) then (cOld, sOld) else (fresh, none)
  | none => (fresh, none)

/-- The tail of `buildTarget` after the cache has been tried: build(), StoreTargetMetadata, moveOutputs,
    calculateAndCheckRuleHash, storeInCache — and `Build`'s RemoveOutputs when an error comes back.
    `out1` is what plz-out holds at this point, `memo` the outputs whose hash `TargetHasher` has memoised. -/
def finishBuild (fx : SFacts) (check : K → Option C → C → Bool) (cacheOn : Bool) (key : K) (cache : K → Option C)
    (out1 : Option (C × Option K)) (memo : Option C) (fresh : C) : TState K C × Res :=
  let now := moveOutputs fx out1 fresh
  if check key memo now.1 then
    ({ out := some (now.1, some key), cache := if cacheOn then cacheSet cache key now.1 else cache }, .built)
  else
    ({ out := if fx.removeOnBuildFail then none
              else if fx.checkBeforeStamp then some now else some (now.1, some key),
       cache := if cacheOn && !fx.storeAfterCheck then cacheSet cache key now.1 else cache }, .failed)

/-- One `Build(target)` of a genrule-like target in a fresh process.
    `check key memo c` = "calculateAndCheckRuleHash returns no error for outputs `c` under the definition `key`,
    when the process has memoised the output hash of `memo`" (`none` = nothing memoised).
    `fresh` is what the action produces. -/
def buildTarget (fx : SFacts) (check : K → Option C → C → Bool) (cacheOn : Bool) (key : K) (fresh : C)
    (st : TState K C) : TState K C × Res :=
  if needsBuilding st key then
    -- retrieveArtifacts
    match (if cacheOn then st.cache key else none) with
    | some c =>
      if check key none c then ({ st with out := some (c, some key) }, .cached)
      else finishBuild fx check cacheOn key st.cache (if fx.removeOnRetrieveFail then none else some (c, none)) (some c) fresh
    | none => finishBuild fx check cacheOn key st.cache st.out none fresh
  else (st, .reused)

/-- Filegroup: outputs are links to the sources and carry no stamp.  `out` is what plz-out holds, `src` the source now.
    The links are re-made when they differ from the sources; the check runs when a link changed or (since the fix) the
    target declares hashes — `check` of a target without declared hashes passes, so running it always is the same. -/
def buildFilegroup (fx : SFacts) (check : K → Option C → C → Bool) (key : K) (src : C) (out : Option C) : Option C × Res :=
  let unchanged := decide (out = some src)
  if fx.fgCheckOnlyIfChanged && unchanged then (out, .reused)
  else if check key none src then (some src, if unchanged then .reused else .built)
  else (if fx.removeOnBuildFail then none else some src, .failed)

/-- What can happen between two builds. -/
inductive HOp (K C : Type) where
  | build (cacheOn : Bool) (key : K) (fresh : C)
  | setCache (cache : K → Option C)       -- anything may happen to the cache: eviction, poisoning, another machine
  | rmOut                                  -- the user removes the outputs (or all of plz-out)

def runOp (fx : SFacts) (check : K → Option C → C → Bool) (st : TState K C) : HOp K C → TState K C
  | .build cacheOn key fresh => (buildTarget fx check cacheOn key fresh st).1
  | .setCache cache => { st with cache := cache }
  | .rmOut => { st with out := none }

def runHist (fx : SFacts) (check : K → Option C → C → Bool) (h : List (HOp K C)) (st : TState K C) : TState K C :=
  h.foldl (runOp fx check) st

end PlzVerif.HashCheck
