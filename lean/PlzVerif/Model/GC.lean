/-!
C25 model: transcription of `targetsToRemove`, `addTarget`, `publicDependencies`, `gcSibling`, `isIncluded`
(src/gc/gc.go).  Core Lean only.

Go                                                        here
--------------------------------------------------------  -----------------------------------------------
`*BuildTarget`                                            `Nat`
`graph.AllTargets()`                                      `G.nodes`
`target.DeclaredDependencies()` through `graph.Target`    `G.decl t` (labels that are not targets are skipped, as `addTarget(nil)` is)
`target.Dependencies()`                                   `G.res t`
`IsBinary`, `IsTest()`, `TestOnly`                        `G.isBinary`, `G.isTest`, `G.testOnly`
`HasAnyLabel(keepLabels)`                                 `G.keepLabel`
`Label.HasParent()`, `Label.Parent()`                     `G.hasParent`, `G.pl`
`PrefixedLabels("gc_sibling:")` that exist as targets     `G.sibs t` (in label order; gcSibling takes the first)
`AllLocalSourcePaths()`                                   `G.srcs t` (file ids, numbered in path order)
data files (`AllData()` file labels)                      `G.data t`
`keepTargets` map                                         membership list
`anyInclude(targetsToKeep, l)`, `isIncluded(t, filter)`   exact labels only (`named`, `filter` id lists); wildcards are C20's subject
`pkg.Subincludes`                                         `Q.subincs`
not modelled: subrepos (`Label.Subrepo != ""`, `Subrepo.Target`), `//pkg/...` arguments, BUILD file rewriting
-/
namespace PlzVerif.GC

structure Graph where
  nodes : List Nat
  decl : Nat → List Nat
  res : Nat → List Nat
  isBinary : Nat → Bool
  isTest : Nat → Bool
  testOnly : Nat → Bool
  keepLabel : Nat → Bool
  hasParent : Nat → Bool
  pl : Nat → Nat
  sibs : Nat → List Nat
  srcs : Nat → List Nat
  data : Nat → List Nat

/-- the arguments of `plz gc` -/
structure Query where
  filter : List Nat        -- `filter` (exact labels; empty = no filter)
  args : List Nat          -- `targets` (extra roots named on the command line)
  named : List Nat         -- `keepTargets` (`gc.keep` in the config)
  subincs : List Nat       -- registered subincludes of all packages
  includeTests : Bool      -- `--conservative`

structure KSt where
  keep : List Nat
  oof : Bool := false
deriving Repr

/-- a `for _, dep := range … { addTarget(graph, m, dep) }` loop, with `addTarget` passed in -/
def addDeps (rec : KSt → Nat → KSt) : List Nat → KSt → KSt
  | [], s => s
  | d :: ds, s => addDeps rec ds (rec s d)

/-- `addTarget(graph, m, target)` -/
def addTarget (G : Graph) : Nat → KSt → Nat → KSt
  | 0, s, _ => { s with oof := true }
  | fuel+1, s, t =>
    if t ∈ s.keep then s
    else
      let s1 : KSt := { s with keep := t :: s.keep }
      let s2 := addDeps (addTarget G fuel) (G.decl t) s1
      let s3 := addDeps (addTarget G fuel) (G.res t) s2
      -- if target.Label.HasParent() { addTarget(graph, m, graph.Target(target.Label.Parent())) }   (nil when not a target)
      if G.hasParent t && G.nodes.contains (G.pl t) then addTarget G fuel s3 (G.pl t) else s3

/-- `publicDependencies(graph, target)`; `none` = recursion bound reached (the Go code has no visited set: it
does not terminate on a dependency cycle inside one rule) -/
def pubDeps (G : Graph) : Nat → Nat → Option (List Nat)
  | 0, _ => none
  | fuel+1, t =>
    (G.decl t).foldl (fun acc d =>
      match acc with
      | none => none
      | some l => if G.pl d == G.pl t then (pubDeps G fuel d).map (l ++ ·) else some (l ++ [d])) (some [])

/-- the initial roots test of `targetsToRemove` -/
def isRoot (G : Graph) (Q : Query) (t : Nat) : Bool :=
  (G.isBinary t && (!G.isTest t || Q.includeTests)) || G.keepLabel t || Q.named.contains t

/-- one iteration of the test loop body: `for _, dep := range publicDependencies(graph, target) {…}` -/
def testDeps (G : Graph) (fuel : Nat) (t : Nat) : List Nat → KSt → KSt
  | [], s => s
  | dep :: ds, s =>
    let s' :=
      if s.keep.contains dep && !G.testOnly dep then addTarget G fuel s t
      else if G.testOnly dep then addTarget G fuel s dep
      else s
    testDeps G fuel t ds s'

/-- one `for _, target := range graph.AllTargets() { if target.IsTest() {…} }` pass of the `!includeTests` block -/
def testPass (G : Graph) (fuel : Nat) : List Nat → KSt → KSt
  | [], s => s
  | t :: ts, s =>
    if G.isTest t then
      match pubDeps G fuel t with
      | none => { s with oof := true }
      | some ds => testPass G fuel ts (testDeps G fuel t ds s)
    else testPass G fuel ts s

/-- `for changed := true; changed; { before := len(keepTargets); <test pass>; changed = len(keepTargets) != before }`
(`k` bounds the number of passes; every pass but the last adds a target, so `nodes.length + 1` passes suffice) -/
def testFix (G : Graph) (fuel : Nat) : Nat → KSt → KSt
  | 0, s => { s with oof := true }
  | k+1, s =>
    let s' := testPass G fuel G.nodes s
    if s'.keep.length != s.keep.length then testFix G fuel k s' else s'

/-- everything `targetsToRemove` decides to keep -/
def keepSet (G : Graph) (Q : Query) : KSt :=
  let fuel := G.nodes.length + 1
  let add := fun (s : KSt) (t : Nat) => addTarget G fuel s t
  let s0 : KSt := { keep := [] }
  let s1 := (G.nodes.filter (isRoot G Q)).foldl add s0
  let s2 := Q.subincs.foldl add s1
  let s3 := Q.args.foldl add s2
  if Q.includeTests then s3 else testFix G fuel fuel s3

/-- `gcSibling(graph, t)` -/
def gcSibling (G : Graph) (t : Nat) : Nat :=
  match G.sibs t with
  | s :: _ => s
  | [] => t

/-- `isIncluded(target, filter)` -/
def isIncluded (Q : Query) (t : Nat) : Bool := Q.filter.isEmpty || Q.filter.contains t

/-- the removal test of the last loop -/
def removable (G : Graph) (Q : Query) (keep : List Nat) (t : Nat) : Bool :=
  let s := gcSibling G t
  !G.hasParent s && !keep.contains s && !keep.contains t && isIncluded Q s

/-- targets proposed for removal (in `AllTargets` order = label order, which is how the result is sorted) -/
def removeTargets (G : Graph) (Q : Query) (keep : List Nat) : List Nat :=
  G.nodes.filter (removable G Q keep)

/-- `keepSrcs`: the local sources and the local data files of everything kept -/
def keepSrcs (G : Graph) (keep : List Nat) : List Nat := keep.flatMap fun k => G.srcs k ++ G.data k

/-- source files proposed for deletion (before sorting; repeats are kept, as in the Go slice) -/
def removeSrcs (G : Graph) (Q : Query) (keep : List Nat) : List Nat :=
  (removeTargets G Q keep).flatMap fun t => (G.srcs t).filter fun f => !(keepSrcs G keep).contains f

/-- `targetsToRemove`: `none` when a recursion bound was reached -/
def targetsToRemove (G : Graph) (Q : Query) : Option (List Nat × List Nat) :=
  let k := keepSet G Q
  if k.oof then none else some (removeTargets G Q k.keep, removeSrcs G Q k.keep)

end PlzVerif.GC
