import PlzVerif.Model.Visibility
import PlzVerif.Model.LabelFacts
import PlzVerif.Generated.C33
/-! The `Visibility.VFacts` record read from /repo on this run; shared by the C33 theorems and driver. -/
namespace PlzVerif.Visibility

def generatedVFacts : VFacts := { samePkgChecksSubrepo := Generated.C33.canSeeMentionsSubrepo }

end PlzVerif.Visibility
