import PlzVerif.Model.Visibility
import PlzVerif.Model.LabelFacts
import PlzVerif.Generated.C33
/-! The `Visibility.VFacts` record read from /repo on this run; shared by the C33 theorems and driver. -/
namespace PlzVerif.Visibility

def generatedVFacts : VFacts := { samePkgChecksSubrepo := Generated.C33.canSeeMentionsSubrepo }

/-- how `defaultFromConfig` decides "not set" on this run -/
def generatedDFacts : DFacts := { unsetIsFalsy := Generated.C33.defaultUnsetTest != "ARG == nil || ARG == None" }

end PlzVerif.Visibility
