/-
Model of the build scheduler (C04, C05): `queueResolvedTarget` / `queueTargetAsync` / `addPendingBuild` /
`taskDone` / `Stop` (src/core/state.go), `FinishBuild` / `WaitForBuild` / `SyncUpdateState`
(src/core/build_target.go), the dispatcher and worker goroutines of `plz.Run` (src/plz/plz.go) and `build.Build`
(src/build/build_step.go).  Core Lean only.

One `Action` per atomic action of the Go code; `fire` is its effect (`none` = not enabled), `Step` the
transition relation, `Reach` the reachable states.  Goroutines (queuers, channel entries, workers) are indexed
by fresh naturals.  Parse-time graph discovery is abstracted: `deps` is the resolved dependency relation and
`activate` may arrive from outside for any target at any time (original targets, parse tasks).
Three liveness mechanisms that lie outside the task counting are modelled too (C05): the set of *active targets*
kept by `forwardResults`, which arms the idle-time cycle check only while it is empty (`active`, `cycleCheck`); the
goroutines that wait for a target to be built — the parse of a package that subincludes it, `WaitForBuiltTarget` — and
are woken through the `pendingTargets` channel (`subWait`, the `waitTarget` phase, `woken`); and the test by which such a
goroutine does not wait at all.  How a *failed* target is treated by each of them is read from the code
(`Cfg.failClears`, `Cfg.failWakes`, `Cfg.lateOK`, see `Lemmas/SchedFacts.lean`).
The two-CAS sequence `SyncUpdateState(Inactive, Active) || SyncUpdateState(Semiactive, Active)` is one step: its
outcome is that of a single attempt made at the instant of the CAS that succeeds (or of the second one).
Unboundedly many workers (a superset of every `-p`).
-/
namespace PlzVerif.Sched

abbrev T := Nat

def upd {α : Type} (f : Nat → α) (i : Nat) (v : α) : Nat → α := fun j => if j = i then v else f j
@[simp] theorem upd_same {α} (f : Nat → α) (i v) : upd f i v i = v := by simp [upd]
@[simp] theorem upd_other {α} (f : Nat → α) (i j v) (h : j ≠ i) : upd f i v j = f j := by simp [upd, h]

/-- `BuildTargetState` (build_target.go:348); `rank` is the position in the Go `const` block. -/
inductive TS where
  | inactive | semiactive | active | pending | building | stopped | built | cached | unchanged | reused
  | builtRemotely | reusedRemotely | depFailed | failed
deriving DecidableEq, Repr

def TS.all : List TS :=
  [.inactive, .semiactive, .active, .pending, .building, .stopped, .built, .cached, .unchanged, .reused,
   .builtRemotely, .reusedRemotely, .depFailed, .failed]

def TS.rank : TS → Nat
  | .inactive => 0 | .semiactive => 1 | .active => 2 | .pending => 3 | .building => 4 | .stopped => 5
  | .built => 6 | .cached => 7 | .unchanged => 8 | .reused => 9 | .builtRemotely => 10 | .reusedRemotely => 11
  | .depFailed => 12 | .failed => 13

/-- the Go identifier -/
def TS.name : TS → String
  | .inactive => "Inactive" | .semiactive => "Semiactive" | .active => "Active" | .pending => "Pending"
  | .building => "Building" | .stopped => "Stopped" | .built => "Built" | .cached => "Cached"
  | .unchanged => "Unchanged" | .reused => "Reused" | .builtRemotely => "BuiltRemotely"
  | .reusedRemotely => "ReusedRemotely" | .depFailed => "DependencyFailed" | .failed => "Failed"

/-- `IsBuilt`: `Built <= s && s < DependencyFailed` (build_target.go:401) -/
def TS.isBuilt (s : TS) : Bool := decide (TS.built.rank ≤ s.rank) && decide (s.rank < TS.depFailed.rank)

/-- `t.State() >= DependencyFailed` (state.go:1199) -/
def TS.isBad (s : TS) : Bool := decide (TS.depFailed.rank ≤ s.rank)

/-- terminal reports of a target: TargetBuilt, TargetCached, TargetBuildFailed, TargetBuilt "Dependency failed" -/
inductive Res where
  | built | cached | failed | depFailed
deriving DecidableEq, Repr

/-- where a `queueTargetAsync` goroutine is -/
inductive QPh where
  | queueDeps (rest : List T)     -- `for _, dep := range target.DeclaredDependencies() { state.queueTarget(dep…) }`
  | waitDeps (rest : List T)      -- `for _, t := range target.Dependencies() { t.WaitForBuild(…) … }`
  | done                          -- about to run the deferred `state.taskDone(true)`
  | waitTarget (d : T)            -- a parse task inside `WaitForBuiltTarget(d)`: `waitOnChan(pendingTargets[d])`
deriving DecidableEq, Repr

structure Queuer where
  t : T
  building : Bool
  force : Bool
  ph : QPh
deriving DecidableEq, Repr

inductive WPh where
  | taken        -- goroutine started for the task, before `target.SetState(core.Building)`
  | building     -- inside `buildTarget`
  | finished     -- `Build` returned, before `completeAction` → `TaskDone`
deriving DecidableEq, Repr

structure Worker where
  t : T
  ph : WPh
deriving DecidableEq, Repr

structure St where
  st : T → TS
  fin : T → Bool                 -- `finishedBuilding` is closed
  qs : Nat → Option Queuer       -- live `queueTargetAsync` goroutines
  nextQ : Nat
  chan : Nat → Option T          -- `pendingActions`: build tasks sent (or being sent) and not yet received
  nextM : Nat
  ws : Nat → Option Worker       -- live worker goroutines
  nextW : Nat
  numPending : Int
  stopped : Bool                 -- `Stop()` has closed the queues
  initDone : Bool                -- `findOriginalTasks` has called `TaskDone`
  starts : T → Nat               -- ghost: how often `build.Build` started for the target
  nres : T → Nat                 -- ghost: how many terminal results were logged for the target
  res : T → Option Res           -- ghost: the last of them
  bq : T → Nat                   -- ghost: index of the building queuer started for the target
  tm : T → Nat                   -- ghost: index of the build task sent for the target
  wk : T → Nat                   -- ghost: index of the worker that received it
  failed : Bool                  -- `progress.failed` / `buildFailed`: some failure was logged (decides the exit status)
  ext : Bool                     -- ghost: the queues were closed from outside the counting (`stop`, `asyncError`) or a task was dropped
  why : T → T                    -- ghost: the failed dependency that made the target DependencyFailed
  active : T → Bool              -- `forwardResults`: the target is in `activeTargets`
  sw : T → Bool                  -- `WaitForBuiltTarget(t)` has been called (if it had to wait: `pendingTargets[t]` exists)
  woken : T → Bool               -- the `pendingTargets[t]` channel is closed

def St.init : St :=
  { st := fun _ => .inactive, fin := fun _ => false, qs := fun _ => none, nextQ := 0, chan := fun _ => none,
    nextM := 0, ws := fun _ => none, nextW := 0, numPending := 1, stopped := false, initDone := false,
    starts := fun _ => 0, nres := fun _ => 0, res := fun _ => none,
    bq := fun _ => 0, tm := fun _ => 0, wk := fun _ => 0, failed := false, ext := false, why := fun _ => 0,
    active := fun _ => false, sw := fun _ => false, woken := fun _ => false }

/-- static parameters of one invocation -/
structure Cfg where
  n : Nat                  -- targets are `0 … n-1`
  deps : T → List T
  needBuild : Bool
  /-- a failure result removes its target from `forwardResults`' active set (the set is keyed by label and results
      that are not active delete by label; failures are logged without a target pointer) -/
  failClears : Bool := true
  /-- `build.Build` signals the waiters of a target (`pendingTargets`) when it has failed -/
  failWakes : Bool := true
  /-- `WaitForBuiltTarget` does not wait for a target that has already failed -/
  lateOK : Bool := true
  /-- the dependency graph has a cycle that the detector reports (C06) -/
  hasCycle : Bool := false

inductive Action where
  | activate (t : T) (force : Bool)   -- `queueResolvedTarget` called from outside a queuer
  | queuer (i : Nat)                  -- next atomic step of queuer `i`
  | queuerAbort (i : Nat)             -- `queueTarget(dep)` failed: `asyncError` (log failure, `Stop`), return
  | take (m : Nat)                    -- the dispatcher receives task `m` and starts a worker goroutine
  | drop (m : Nat)                    -- the sender of task `m` finds the channel closed (recovered panic)
  | workerStart (w : Nat)             -- `target.SetState(core.Building)`
  | workerOk (w : Nat) (s : TS) (cached : Bool)   -- `buildTarget` succeeded: SetState(s), result, FinishBuild
  | workerFail (w : Nat)              -- `buildTarget` failed: result, SetState(Failed), FinishBuild
  | workerDone (w : Nat)              -- `completeAction`: `state.TaskDone()`
  | initDone                          -- `findOriginalTasks`: `state.TaskDone()`
  | stop                              -- `Stop()` from the display loop, `asyncError` or the cycle check
  | subWait (t : T)                   -- a parse task (counted during the initial scan) calls `WaitForBuiltTarget(t)`
  | cycleCheck                        -- `forwardResults`: idle with no active target, `checkForCycles` finds a cycle
deriving Repr

section
variable (c : Cfg)

/-- `taskDone`: `if atomic.AddInt64(&numPending, -1) <= 0 { state.Stop() }` -/
def taskDone (s : St) : St :=
  { s with numPending := s.numPending - 1, stopped := s.stopped || decide (s.numPending - 1 ≤ 0) }

/-- `queueAsync(building)`: count the task and start a `queueTargetAsync` goroutine -/
def spawn (s : St) (t : T) (building force : Bool) (newSt : TS) : St :=
  { s with st := upd s.st t newSt, qs := upd s.qs s.nextQ (some ⟨t, building, force, .queueDeps (c.deps t)⟩),
           nextQ := s.nextQ + 1, numPending := s.numPending + 1,
           bq := upd s.bq t (if building then s.nextQ else s.bq t) }

/-- `queueResolvedTarget(target, forceBuild)` (state.go:1140) -/
def qrt (s : St) (t : T) (force : Bool) : St :=
  if decide (TS.active.rank ≤ (s.st t).rank) && !force then s
  else if c.needBuild || force then
    if s.st t = .inactive ∨ s.st t = .semiactive then spawn c s t true force .active else s
  else if s.st t = .inactive then spawn c s t false force .semiactive
  else s

/-- next atomic step of a queuer (state.go:1178) -/
def queuerStep (s : St) (i : Nat) (q : Queuer) : Option St :=
  match q.ph with
  | .queueDeps (d :: r) =>
    let s1 := qrt c s d q.force
    some { s1 with qs := upd s1.qs i (some { q with ph := .queueDeps r }) }
  | .queueDeps [] =>
    some { s with qs := upd s.qs i (some { q with ph := if q.building then .waitDeps (c.deps q.t) else .done }) }
  | .waitDeps (d :: r) =>
    if s.fin d then
      if (s.st d).isBad then
        some { s with st := upd s.st q.t .depFailed, fin := upd s.fin q.t true,
                      nres := upd s.nres q.t (s.nres q.t + 1), res := upd s.res q.t (some .depFailed),
                      qs := upd s.qs i (some { q with ph := .done }), why := upd s.why q.t d,
                      active := upd s.active q.t false, woken := upd s.woken q.t (s.woken q.t || s.sw q.t) }
      else some { s with qs := upd s.qs i (some { q with ph := .waitDeps r }) }
    else none
  | .waitDeps [] =>
    if s.st q.t = .active then
      some { s with st := upd s.st q.t .pending, numPending := s.numPending + 1,
                    chan := upd s.chan s.nextM (some q.t), nextM := s.nextM + 1, tm := upd s.tm q.t s.nextM,
                    qs := upd s.qs i (some { q with ph := .done }) }
    else some { s with qs := upd s.qs i (some { q with ph := .done }) }
  | .done => some (taskDone { s with qs := upd s.qs i none })
  | .waitTarget d =>
    if s.woken d then some { s with qs := upd s.qs i (some { q with ph := .done }) } else none

/-- `forwardResults` has no active target -/
def activeEmpty (s : St) : Bool := (List.range c.n).all fun t => !s.active t

def fire (s : St) : Action → Option St
  | .activate t force => if t < c.n then some (qrt c s t force) else none
  | .queuer i =>
    match s.qs i with
    | some q => queuerStep c s i q
    | none => none
  | .queuerAbort i =>
    -- state.go:1181-1184: the dependency cannot be queued (it does not exist); the target stays Active for ever
    match s.qs i with
    | some q =>
      match q.ph with
      | .queueDeps (_ :: _) =>
        some { s with qs := upd s.qs i (some { q with ph := .done }), stopped := true, failed := true, ext := true }
      | _ => none
    | none => none
  | .take m =>
    match s.chan m with
    | some t => some { s with chan := upd s.chan m none, ws := upd s.ws s.nextW (some ⟨t, .taken⟩), nextW := s.nextW + 1,
                              wk := upd s.wk t s.nextW }
    | none => none
  | .drop m =>
    match s.chan m with
    | some _ => if s.stopped then some { s with chan := upd s.chan m none, ext := true } else none
    | none => none
  | .workerStart w =>
    match s.ws w with
    | some ⟨t, .taken⟩ =>
      some { s with st := upd s.st t .building, starts := upd s.starts t (s.starts t + 1), ws := upd s.ws w (some ⟨t, .building⟩),
                    active := upd s.active t true }
    | _ => none
  | .workerOk w ts cached =>
    match s.ws w with
    | some ⟨t, .building⟩ =>
      if ts.isBuilt then
        some { s with st := upd s.st t ts, fin := upd s.fin t true, nres := upd s.nres t (s.nres t + 1),
                      res := upd s.res t (some (if cached then .cached else .built)),
                      ws := upd s.ws w (some ⟨t, .finished⟩),
                      active := upd s.active t false, woken := upd s.woken t (s.woken t || s.sw t) }
      else none
    | _ => none
  | .workerFail w =>
    match s.ws w with
    | some ⟨t, .building⟩ =>
      some { s with st := upd s.st t .failed, fin := upd s.fin t true, nres := upd s.nres t (s.nres t + 1),
                    res := upd s.res t (some .failed), ws := upd s.ws w (some ⟨t, .finished⟩), failed := true,
                    active := upd s.active t (if c.failClears then false else s.active t),
                    woken := upd s.woken t (s.woken t || (c.failWakes && s.sw t)) }
    | _ => none
  | .workerDone w =>
    match s.ws w with
    | some ⟨_, .finished⟩ => some (taskDone { s with ws := upd s.ws w none })
    | _ => none
  | .initDone => if s.initDone then none else some (taskDone { s with initDone := true })
  | .stop => some { s with stopped := true, ext := true }
  | .subWait t =>
    -- state.go `WaitForBuiltTarget`: return at once if the target is built (or, `lateOK`, has failed); otherwise
    -- register the channel, `queueTarget(l, …, forceBuild)`, look again, wait on the channel
    if t < c.n ∧ s.sw t = false ∧ s.initDone = false then
      if (s.st t).isBuilt || (c.lateOK && (s.st t).isBad) then some { s with sw := upd s.sw t true }
      else
        let s1 := qrt c s t true
        some { s1 with sw := upd s1.sw t true, qs := upd s1.qs s1.nextQ (some ⟨t, false, true, .waitTarget t⟩),
                       nextQ := s1.nextQ + 1, numPending := s1.numPending + 1 }
    else none
  | .cycleCheck =>
    -- state.go `forwardResults`: the timer is armed only while no target is active; `checkForCycles` → `asyncError`
    if !s.stopped && c.hasCycle && activeEmpty c s then some { s with stopped := true, failed := true, ext := true }
    else none

/-! The wait loop as the regenerated facts describe it.  The pinned code tests nothing before `WaitForBuild`; a
state test placed there (`if t.State() >= X { continue }`) would let the queuer pass a dependency in a state of
rank `>= X` without waiting for it and without the DependencyFailed check.  `fireG` is `fire` generalised by that
optional test: the drivers run `fireG` at the value extracted from the code, the theorems are about `fire`
(`= fireG … none`, which is what the facts obligation establishes for the code at hand). -/

def skipsAt (skip : Option Nat) (x : TS) : Bool :=
  match skip with
  | some k => decide (k ≤ x.rank)
  | none => false

def queuerStepG (skip : Option Nat) (s : St) (i : Nat) (q : Queuer) : Option St :=
  match q.ph with
  | .waitDeps (d :: r) =>
    if skipsAt skip (s.st d) then some { s with qs := upd s.qs i (some { q with ph := .waitDeps r }) }
    else queuerStep c s i q
  | _ => queuerStep c s i q

def fireG (skip : Option Nat) (s : St) : Action → Option St
  | .queuer i =>
    match s.qs i with
    | some q => queuerStepG c skip s i q
    | none => none
  | a => fire c s a

theorem fireG_none (s : St) (a : Action) : fireG c none s a = fire c s a := by
  cases a <;> simp only [fireG, fire]
  split
  · rename_i q _
    simp only [queuerStepG, skipsAt]
    split <;> simp
  · rfl

def Step (s s' : St) : Prop := ∃ a, fire c s a = some s'

inductive Reach : St → Prop
  | init : Reach St.init
  | step {s s'} : Reach s → Step c s s' → Reach s'

end

end PlzVerif.Sched
