import PlzVerif.Model.AspSyntax
/-
The operator layer of asp expressions, generic in values, operand expressions and state.

* `interpretOps` / `interpretOp` transcribe `(*scope).interpretOps` / `interpretOp`
  (src/parse/asp/interpreter.go:633-686): a head value and a **flat** operator list; "if the next operator binds
  tighter, evaluate the *whole rest of the list* as my right operand".
* `aspGroup` is the parse tree that this recursion amounts to, `evalTree` the ordinary left-to-right, lazy
  `and`/`or` evaluation of a tree.  `Lemmas/AspOps.lean` proves `interpretOps = evalTree ∘ aspGroup`.
* `climb` is textbook precedence climbing (left-associative binary operators, prefix `-` binds tightest,
  prefix `not` takes a whole comparison) — the grouping of the Python grammar; `PyRef` evaluates its tree.

Core Lean only.
-/
namespace PlzVerif.Asp

/-- Operators of the flat list `Expression.Op`. -/
inductive Op
  | bin (b : BinOp)
  | un (u : UnOp)
  deriving DecidableEq, Repr, Inhabited

/-- An entry of the flat list `Expression.Op`: a binary operator with its (hoisted, operator-free) operand
    expression, or a unary operator (`Negate`, `Not`) whose `Expr` is nil. -/
inductive OpE (X : Type)
  | bin (b : BinOp) (x : X)
  | un (u : UnOp)
  deriving DecidableEq, Repr, Inhabited

def OpE.op {X : Type} : OpE X → Op
  | .bin b _ => .bin b
  | .un u => .un u

/-- `Operator.Lazy()` (grammar.go): `and`, `or`. -/
def BinOp.lazy : BinOp → Bool
  | .and_ | .or_ => true
  | _ => false

abbrev M (σ ε : Type) := StateT σ (Except ε)

/-- What the operator layer needs from the rest of the interpreter. -/
structure OpsSem (σ ε V X : Type) where
  /-- `Operator.Precedence()` -/
  prec : Op → Int
  /-- `pyObject.IsTruthy()` (a dict's answer depends on the heap, hence the state argument) -/
  truthy : σ → V → Bool
  /-- `interpretExpression(op.Expr)` for a hoisted operand -/
  ev : X → M σ ε V
  /-- a unary operator applied to a value (`negate`, `Negate`) -/
  un : UnOp → V → M σ ε V
  /-- a strict binary operator applied to two values (everything except `and`/`or`) -/
  bin : BinOp → V → V → M σ ε V

variable {σ ε V X : Type}

/-- `interpretOp(obj, op)` where the operand is still an expression. -/
def interpretOp (S : OpsSem σ ε V X) (obj : V) : OpE X → M σ ε V
  | .un u => S.un u obj
  | .bin b e =>
    if b.lazy then do
      -- case And, Or: `if obj.IsTruthy() == (op.Op == And) { obj = s.interpretExpression(op.Expr) }`
      if S.truthy (← get) obj == (b == .and_) then S.ev e else pure obj
    else do
      let w ← S.ev e
      S.bin b obj w

/-- `interpretOp(obj, OpExpression{Op, Expr: constant nobj})`: the operand has already been evaluated. -/
def interpretOpVal (S : OpsSem σ ε V X) (obj : V) (b : BinOp) (nobj : V) : M σ ε V :=
  if b.lazy then do
    if S.truthy (← get) obj == (b == .and_) then pure nobj else pure obj
  else S.bin b obj nobj

/-- `interpretOps(obj, ops)`, interpreter.go:633, for the non-empty list `o0 :: rest`
    (it is only called when `len(expr.Op) > 0`). -/
def interpretOps (S : OpsSem σ ε V X) : V → OpE X → List (OpE X) → M σ ε V
  | obj, o, [] => interpretOp S obj o            -- "Quick short circuit if there's only one operator"
  | obj, o0, o1 :: rest =>
    if S.prec o0.op ≥ S.prec o1.op then do
      -- "The next operator is not higher than us so we can evaluate one more expression"
      let v ← interpretOp S obj o0
      interpretOps S v o1 rest
    else
      match o0 with
      | .un u => do                              -- "Unary expression"
        let v ← interpretOps S obj o1 rest
        S.un u v
      | .bin b e => do
        -- `if ops[0].Op.Lazy() && obj.IsTruthy() != (ops[0].Op == And) { return obj }`
        if b.lazy && (S.truthy (← get) obj != (b == .and_)) then
          pure obj                               -- short-circuit: the whole rest of the list is skipped
        else do
          let w ← S.ev e
          let nobj ← interpretOps S w o1 rest
          interpretOpVal S obj b nobj

/-! ### Grouping as a tree -/

inductive Tree (V X : Type)
  | val (v : V)
  | operand (x : X)
  | un (u : UnOp) (t : Tree V X)
  | bin (b : BinOp) (l r : Tree V X)
  deriving Repr, Inhabited, DecidableEq

/-- One more operator applied to what has been grouped so far. -/
def Tree.node (t : Tree V X) : OpE X → Tree V X
  | .un u => .un u t
  | .bin b e => .bin b t (.operand e)

/-- The tree `interpretOps` evaluates. -/
def aspGroup (prec : Op → Int) : Tree V X → OpE X → List (OpE X) → Tree V X
  | t, o, [] => t.node o
  | t, o0, o1 :: rest =>
    if prec o0.op ≥ prec o1.op then aspGroup prec (t.node o0) o1 rest
    else match o0 with
      | .un u => .un u (aspGroup prec t o1 rest)
      | .bin b e => .bin b t (aspGroup prec (.operand e) o1 rest)

/-- Left-to-right evaluation of a grouped expression; `and`/`or` evaluate their right operand only when needed. -/
def evalTree (S : OpsSem σ ε V X) : Tree V X → M σ ε V
  | .val v => pure v
  | .operand x => S.ev x
  | .un u t => do let v ← evalTree S t; S.un u v
  | .bin b l r => do
    let v ← evalTree S l
    if b.lazy then do
      if S.truthy (← get) v == (b == .and_) then evalTree S r else pure v
    else do
      let w ← evalTree S r
      S.bin b v w

/-! ### The reference grouping: precedence climbing -/

/-- Binding strength in the Python grammar (larger binds tighter):
    `or` < `and` < `not` < comparisons (`in`, `not in`, `is`, `is not`, `<`, `<=`, `>`, `>=`, `!=`, `==`)
    < `|` < `+ -` < `* / // %` < unary `-`.  Only the order matters. -/
def pyPrecBin : BinOp → Int
  | .or_ => -3
  | .and_ => -2
  | .lt | .gt | .le | .ge | .eq | .ne | .in_ | .notIn | .is_ | .isNot => 0
  | .union => 1
  | .add | .sub => 2
  | .mul | .div | .fdiv | .mod => 3

def pyPrec : Op → Int
  | .bin b => pyPrecBin b
  | .un .not_ => -1
  | .un .neg => 4

/-- A chain as written: operands may carry a prefix operator. -/
abbrev Chain (X : Type) := List (BinOp × Option UnOp × X)

mutual
  /-- Parse operators of binding strength ≥ `minPrec` onto `lhs`; returns the tree and what is left. -/
  def climb : Nat → Int → Tree V X → Chain X → Tree V X × Chain X
    | 0, _, lhs, rest => (lhs, rest)
    | _ + 1, _, lhs, [] => (lhs, [])
    | f + 1, minPrec, lhs, (b, u, x) :: tl =>
      if pyPrecBin b < minPrec then (lhs, (b, u, x) :: tl)
      else
        let r0 := operandTree f u x tl
        let r1 := climb f (pyPrecBin b + 1) r0.1 r0.2
        climb f minPrec (.bin b lhs r1.1) r1.2
  /-- An operand with its prefix: `-x` is a factor; `not` applies to the whole comparison that follows. -/
  def operandTree : Nat → Option UnOp → X → Chain X → Tree V X × Chain X
    | _, none, x, tl => (.operand x, tl)
    | _, some .neg, x, tl => (.un .neg (.operand x), tl)
    | 0, some .not_, x, tl => (.un .not_ (.operand x), tl)
    | f + 1, some .not_, x, tl =>
      let r := climb f (pyPrec (.un .not_) + 1) (.operand x) tl
      (.un .not_ r.1, r.2)
end

/-- The Python grouping of `[hu] head rest…` (fuel `2·|rest| + 2` is always enough). -/
def pyGroup (hu : Option UnOp) (head : X) (rest : Chain X) : Tree V X :=
  let n := 2 * rest.length + 2
  let r0 := operandTree (V := V) n hu head rest
  (climb n (-100) r0.1 r0.2).1

/-- Hoisting as done by `parseUnconditionalExpressionInPlace`: prefix operators become entries of their own,
    placed *after* the binary operator whose operand they prefix (and first in the list for the head). -/
def flatten (hu : Option UnOp) (rest : Chain X) : List (OpE X) :=
  (match hu with | some u => [OpE.un u] | none => []) ++
  rest.flatMap fun (b, u, x) =>
    OpE.bin b x :: (match u with | some u => [OpE.un u] | none => [])

/-- Class predicate of the known finding `ops-right-operand-swallows-rest`:
    some operator is followed by a tighter one and, later, by one that does not bind tighter than itself. -/
def swallows (prec : Op → Int) : List (OpE X) → Bool
  | [] => false
  | [_] => false
  | o0 :: o1 :: rest =>
    (decide (prec o0.op < prec o1.op) && rest.any fun o => decide (prec o.op ≤ prec o0.op))
      || swallows prec (o1 :: rest)

end PlzVerif.Asp
