/-
Surface syntax shared by the asp model (`Model/AspEval.lean`) and the Python reference (`Model/PyRef.lean`).

The tree is what the *text* of a program looks like to both languages: an expression is a chain
`[unary] atom (binop [unary] atom)*` exactly as it is written, optionally followed by `if c else e`.
Neither side's operator grouping is baked in: the asp model hoists the chain into the flat operator
list that `parseUnconditionalExpressionInPlace` (grammar_parse.go:390) builds and runs `interpretOps` on it,
the reference runs precedence climbing on it.  The C16 harness prints the same tree as source text for the
real asp interpreter and for python3.

Also here: the line-protocol reader (S-expressions, tokens separated by single spaces).  Core Lean only.
-/
namespace PlzVerif.Asp

inductive BinOp
  | add | sub | mul | div | fdiv | mod | lt | gt | le | ge | eq | ne | in_ | notIn | and_ | or_ | union | is_ | isNot
  deriving DecidableEq, Repr, Inhabited

inductive UnOp
  | neg | not_
  deriving DecidableEq, Repr, Inhabited

/-- Expressions as written.  `list`/`comp` carry an occurrence id (a stand-in for the identity of the AST node:
    the optimiser's constant pool is keyed by it). -/
inductive Expr
  | int (n : Int)
  | str (s : String)
  | tru | fls | none
  | name (x : String)
  | list (id : Nat) (es : List Expr)
  | dict (kvs : List (Expr × Expr))
  | paren (e : Expr)
  | tuple (es : List Expr)
  | call (f : String) (args : List (Option String × Expr))
  | index (a i : Expr)
  | slice (a : Expr) (lo hi : Option Expr)
  | method (a : Expr) (m : String) (args : List (Option String × Expr))
  | comp (id : Nat) (body : Expr) (vars : List String) (iter : Expr) (cond : Option Expr)
  | dcomp (k v : Expr) (vars : List String) (iter : Expr) (cond : Option Expr)
  | lam (params : List String) (body : Expr)
  | chain (hu : Option UnOp) (head : Expr) (rest : List (BinOp × Option UnOp × Expr))
  | ite (t c e : Expr)
  deriving Repr, Inhabited

inductive Stmt
  | assign (x : String) (e : Expr)
  | idxAssign (x : String) (i e : Expr)
  | augAssign (x : String) (e : Expr)
  | idxAug (x : String) (i e : Expr)
  | unpack (xs : List String) (e : Expr)
  | expr (e : Expr)
  | def_ (f : String) (params : List (String × Option Expr)) (body : List Stmt)
  | ret (es : List Expr)
  | for_ (xs : List String) (e : Expr) (body : List Stmt)
  | cond (branches : List (Expr × List Stmt)) (els : List Stmt)
  | pass | brk | cont
  | assert_ (e : Expr)
  deriving Repr, Inhabited

abbrev Program := List Stmt

/-! ### Line protocol -/

inductive SExp
  | atom (s : String)
  | node (l : List SExp)
  deriving Repr, Inhabited

def parseToks : List String → List (List SExp) → Option SExp
  | [], [[e]] => some e
  | [], _ => none
  | t :: ts, st =>
    if t = "(" then parseToks ts ([] :: st)
    else if t = ")" then
      match st with
      | cur :: par :: st' => parseToks ts ((SExp.node cur.reverse :: par) :: st')
      | _ => none
    else
      match st with
      | cur :: st' => parseToks ts ((SExp.atom t :: cur) :: st')
      | [] => none

def parseSExp (s : String) : Option SExp := parseToks (s.splitOn " ") [[]]

def hexVal (c : Char) : Option Nat :=
  if '0' ≤ c ∧ c ≤ '9' then some (c.toNat - 48)
  else if 'a' ≤ c ∧ c ≤ 'f' then some (c.toNat - 87)
  else none

def bytesOfHex : List Char → Option (List UInt8)
  | [] => some []
  | [_] => none
  | a :: b :: r => do
    let x ← hexVal a; let y ← hexVal b; let t ← bytesOfHex r
    pure (UInt8.ofNat (x * 16 + y) :: t)

/-- Strings travel as hex of their UTF-8 bytes; "-" is the empty string. -/
def strOfHex (s : String) : Option String :=
  if s = "-" then some "" else do
    let b ← bytesOfHex s.toList
    String.fromUTF8? (ByteArray.mk b.toArray)

def binOpOf : String → Option BinOp
  | "+" => some .add | "-" => some .sub | "*" => some .mul | "/" => some .div | "//" => some .fdiv
  | "%" => some .mod | "<" => some .lt | ">" => some .gt | "<=" => some .le | ">=" => some .ge
  | "==" => some .eq | "!=" => some .ne | "in" => some .in_ | "notin" => some .notIn
  | "and" => some .and_ | "or" => some .or_ | "|" => some .union | "is" => some .is_ | "isnot" => some .isNot
  | _ => none

def unOpOf : String → Option (Option UnOp)
  | "_" => some none | "neg" => some (some .neg) | "not" => some (some .not_) | _ => none

def namesOf : SExp → Option (List String)
  | .node (.atom "v" :: xs) => xs.mapM fun | .atom a => some a | _ => none
  | _ => none

mutual
  def toExpr : Nat → SExp → Option Expr
    | 0, _ => none
    | _ + 1, .atom "T" => some .tru
    | _ + 1, .atom "F" => some .fls
    | _ + 1, .atom "N" => some .none
    | _ + 1, .atom _ => none
    | f + 1, .node l =>
      match l with
      | [.atom "i", .atom n] => n.toInt?.map Expr.int
      | [.atom "s", .atom h] => (strOfHex h).map Expr.str
      | [.atom "n", .atom x] => some (.name x)
      | .atom "l" :: .atom id :: es => do
        let i ← id.toNat?; let es ← toExprs f es; pure (.list i es)
      | .atom "d" :: kvs => do let p ← toPairs f kvs; pure (.dict p)
      | [.atom "p", e] => (toExpr f e).map Expr.paren
      | .atom "t" :: es => (toExprs f es).map Expr.tuple
      | .atom "c" :: .atom fn :: args => (toArgs f args).map (Expr.call fn)
      | [.atom "x", a, i] => do let a ← toExpr f a; let i ← toExpr f i; pure (.index a i)
      | [.atom "sl", a, lo, hi] => do
        let a ← toExpr f a; let lo ← toOptExpr f lo; let hi ← toOptExpr f hi; pure (.slice a lo hi)
      | .atom "m" :: a :: .atom m :: args => do
        let a ← toExpr f a; let args ← toArgs f args; pure (.method a m args)
      | [.atom "lc", .atom id, body, vs, iter, c] => do
        let i ← id.toNat?; let b ← toExpr f body; let vs ← namesOf vs; let it ← toExpr f iter
        let c ← toOptExpr f c; pure (.comp i b vs it c)
      | [.atom "dc", k, v, vs, iter, c] => do
        let k ← toExpr f k; let v ← toExpr f v; let vs ← namesOf vs; let it ← toExpr f iter
        let c ← toOptExpr f c; pure (.dcomp k v vs it c)
      | [.atom "lam", vs, body] => do let vs ← namesOf vs; let b ← toExpr f body; pure (.lam vs b)
      | .atom "ch" :: .atom u :: head :: rest => do
        let u ← unOpOf u; let h ← toExpr f head; let r ← toRest f rest; pure (.chain u h r)
      | [.atom "if", t, c, e] => do
        let t ← toExpr f t; let c ← toExpr f c; let e ← toExpr f e; pure (.ite t c e)
      | _ => none
  def toOptExpr : Nat → SExp → Option (Option Expr)
    | 0, _ => none
    | _ + 1, .atom "_" => some none
    | f + 1, e => (toExpr f e).map some
  def toExprs : Nat → List SExp → Option (List Expr)
    | 0, _ => none
    | _ + 1, [] => some []
    | f + 1, e :: es => do let e ← toExpr f e; let es ← toExprs f es; pure (e :: es)
  def toPairs : Nat → List SExp → Option (List (Expr × Expr))
    | 0, _ => none
    | _ + 1, [] => some []
    | f + 1, k :: v :: r => do let k ← toExpr f k; let v ← toExpr f v; let r ← toPairs f r; pure ((k, v) :: r)
    | _ + 1, _ => none
  def toArgs : Nat → List SExp → Option (List (Option String × Expr))
    | 0, _ => none
    | _ + 1, [] => some []
    | f + 1, .node [.atom "a", e] :: r => do let e ← toExpr f e; let r ← toArgs f r; pure ((none, e) :: r)
    | f + 1, .node [.atom "k", .atom k, e] :: r => do
      let e ← toExpr f e; let r ← toArgs f r; pure ((some k, e) :: r)
    | _ + 1, _ => none
  def toRest : Nat → List SExp → Option (List (BinOp × Option UnOp × Expr))
    | 0, _ => none
    | _ + 1, [] => some []
    | f + 1, .node [.atom o, .atom u, e] :: r => do
      let o ← binOpOf o; let u ← unOpOf u; let e ← toExpr f e; let r ← toRest f r; pure ((o, u, e) :: r)
    | _ + 1, _ => none
end

mutual
  def toStmt : Nat → SExp → Option Stmt
    | 0, _ => none
    | _ + 1, .atom "pass" => some .pass
    | _ + 1, .atom "break" => some .brk
    | _ + 1, .atom "continue" => some .cont
    | _ + 1, .atom _ => none
    | f + 1, .node l =>
      match l with
      | [.atom "=", .atom x, e] => (toExpr 1000 e).map (Stmt.assign x)
      | [.atom "[]=", .atom x, i, e] => do let i ← toExpr 1000 i; let e ← toExpr 1000 e; pure (.idxAssign x i e)
      | [.atom "+=", .atom x, e] => (toExpr 1000 e).map (Stmt.augAssign x)
      | [.atom "[]+=", .atom x, i, e] => do let i ← toExpr 1000 i; let e ← toExpr 1000 e; pure (.idxAug x i e)
      | [.atom "un", vs, e] => do let vs ← namesOf vs; let e ← toExpr 1000 e; pure (.unpack vs e)
      | [.atom "ex", e] => (toExpr 1000 e).map Stmt.expr
      | .atom "def" :: .atom fn :: .node (.atom "ps" :: ps) :: body => do
        let ps ← ps.mapM fun
          | .node [.atom "p", .atom x, d] => do let d ← toOptExpr 1000 d; pure (x, d)
          | _ => none
        let b ← toStmts f body; pure (.def_ fn ps b)
      | .atom "ret" :: es => (toExprs 1000 es).map Stmt.ret
      | .atom "for" :: vs :: e :: body => do
        let vs ← namesOf vs; let e ← toExpr 1000 e; let b ← toStmts f body; pure (.for_ vs e b)
      | .atom "cond" :: brs => toCond f brs []
      | [.atom "assert", e] => (toExpr 1000 e).map Stmt.assert_
      | _ => none
  def toStmts : Nat → List SExp → Option (List Stmt)
    | 0, _ => none
    | _ + 1, [] => some []
    | f + 1, s :: r => do let s ← toStmt f s; let r ← toStmts f r; pure (s :: r)
  def toCond : Nat → List SExp → List (Expr × List Stmt) → Option Stmt
    | 0, _, _ => none
    | _ + 1, [], acc => some (.cond acc.reverse [])
    | f + 1, [.node (.atom "else" :: body)], acc => do let b ← toStmts f body; pure (.cond acc.reverse b)
    | f + 1, .node (.atom "br" :: c :: body) :: r, acc => do
      let c ← toExpr 1000 c; let b ← toStmts f body; toCond f r ((c, b) :: acc)
    | _ + 1, _, _ => none
end

def parseProgram (s : String) : Option Program := do
  match ← parseSExp s with
  | .node (.atom "prog" :: stmts) => toStmts 1000 stmts
  | _ => none

end PlzVerif.Asp
