/-
Model of the concurrent awaitable map `src/cmap/cmap.go` and of `ErrMap.GetOrSet` (`src/cmap/cerrmap.go`).
Core Lean only.

* A shard is `map[K]awaitableValue[V]`: an association list `Key ⇀ (val v | waiting ch)`; a Go map, so nothing
  may depend on its order (results of `Values` are compared as sorted lists).
* `closed` is the set of closed channels, `nextCh` the next channel `make(chan struct{})` returns.
* One function per critical section (`csSet`, `csLazySet`, `csGetFast` (RLock), `csGetSlow` (Lock),
  `csContains`, `csValues` (one shard)).  `sync.RWMutex` is trusted: a critical section is one atomic step.
* `Step` is the interleaving semantics over thread-local program counters.  A thread is a *client* of the
  Map API: a free caller (any operation, may block on a channel it holds) or a caller inside `ErrMap.GetOrSet`
  (whose inner `GetOrWait` / `Set` / `Get` calls are ordinary Map calls).
* `apply` is the sequential specification (every operation is one atomic step) and `AStep` the canonical
  "atomic" automaton whose traces are exactly the linearizable histories of that specification.
* `exec…` are the executable schedulers the driver runs; `exec_sound` ties them to `Step`.
-/
namespace PlzVerif.CMap

abbrev Key := Nat
abbrev Chan := Nat
abbrev Tid := Nat

def upd {α : Type} (f : Nat → α) (i : Nat) (v : α) : Nat → α := fun j => if j = i then v else f j
@[simp] theorem upd_same {α} (f : Nat → α) (i v) : upd f i v i = v := by simp [upd]
@[simp] theorem upd_other {α} (f : Nat → α) (i j v) (h : j ≠ i) : upd f i v j = f j := by simp [upd, h]

/-- `awaitableValue[V]`: `Wait == nil` ⇒ `val`, otherwise a placeholder with an open channel. -/
inductive Entry (V : Type) where
  | val (v : V)
  | waiting (ch : Chan)
deriving DecidableEq, Repr

abbrev AMap (V : Type) := List (Key × Entry V)

namespace AMap
variable {V : Type}

def get : AMap V → Key → Option (Entry V)
  | [], _ => none
  | (k', e) :: r, k => if k' = k then some e else get r k

/-- `m[k] = e` (replace in place, else append: one entry per key). -/
def put : AMap V → Key → Entry V → AMap V
  | [], k, e => [(k, e)]
  | (k', e') :: r, k, e => if k' = k then (k, e) :: r else (k', e') :: put r k e

/-- the values of the completed entries (what `shard.Values` appends) -/
def vals (m : AMap V) : List V :=
  m.filterMap fun p => match p.2 with | .val v => some v | .waiting _ => none

/-- the completed key/value pairs (what `shard.Range` visits) -/
def pairs (m : AMap V) : List (Key × V) :=
  m.filterMap fun p => match p.2 with | .val v => some (p.1, v) | .waiting _ => none

end AMap

/-- Static configuration of one map: shard count, `hasher(key) & mask`, and (for `ErrMap`) `v.Err != nil`. -/
structure Cfg (V : Type) where
  n : Nat
  idx : Key → Nat
  isErr : V → Bool

/-- The shared memory: all shards, the channel allocator and the closed channels; `chanKey` and `stored`
    are ghost fields (which key a channel was made for; every value ever stored under a key, newest first). -/
structure Shared (V : Type) where
  shards : Nat → AMap V
  nextCh : Chan
  closed : List Chan
  chanKey : Chan → Option Key
  stored : Key → List V

namespace Shared
variable {V : Type}

def init : Shared V := ⟨fun _ => [], 0, [], fun _ => none, fun _ => []⟩

def lookup (c : Cfg V) (σ : Shared V) (k : Key) : Option (Entry V) := (σ.shards (c.idx k)).get k

/-- `s.m[key] = e` on the shard of `key` -/
def store (c : Cfg V) (σ : Shared V) (k : Key) (e : Entry V) : Shared V :=
  { σ with shards := upd σ.shards (c.idx k) ((σ.shards (c.idx k)).put k e) }

/-- `s.m[key] = awaitableValue[V]{Val: v}` (+ ghost log) -/
def storeVal (c : Cfg V) (σ : Shared V) (k : Key) (v : V) : Shared V :=
  { σ.store c k (.val v) with stored := upd σ.stored k (v :: σ.stored k) }

end Shared

section CS
variable {V : Type} [Inhabited V] (c : Cfg V)

/-- `shard.Set(key, val, overwrite)` (cmap.go:120) -/
def csSet (σ : Shared V) (k : Key) (v : V) (ow : Bool) : Shared V × Bool :=
  match σ.lookup c k with
  | some (.val _) => if ow then (σ.storeVal c k v, true) else (σ, false)
  | some (.waiting ch) => ({ σ.storeVal c k v with closed := ch :: σ.closed }, true)
  | none => (σ.storeVal c k v, true)

/-- `shard.LazySet(key, f)` (cmap.go:143); `v` is what `f()` returns. -/
def csLazySet (σ : Shared V) (k : Key) (v : V) : Shared V × V × Bool :=
  match σ.lookup c k with
  | some (.val old) => (σ, old, false)
  | some (.waiting ch) => ({ σ.storeVal c k v with closed := ch :: σ.closed }, v, true)
  | none => (σ.storeVal c k v, v, true)

/-- what `return v.Val, v.Wait, false` yields for an entry -/
def entryRet : Entry V → V × Option Chan
  | .val v => (v, none)
  | .waiting ch => (default, some ch)

/-- `shard.Get`, first critical section (RLock): `some` = hit and return, `none` = fall through. -/
def csGetFast (σ : Shared V) (k : Key) : Option (V × Option Chan) :=
  (σ.lookup c k).map entryRet

/-- `shard.Get`, second critical section (Lock): re-check, else register a placeholder with a fresh channel. -/
def csGetSlow (σ : Shared V) (k : Key) : Shared V × V × Option Chan × Bool :=
  match σ.lookup c k with
  | some e => (σ, (entryRet e).1, (entryRet e).2, false)
  | none =>
    ({ σ.store c k (.waiting σ.nextCh) with
        nextCh := σ.nextCh + 1, chanKey := upd σ.chanKey σ.nextCh (some k) },
      default, some σ.nextCh, true)

/-- `shard.Contains`: present *or awaited* -/
def csContains (σ : Shared V) (k : Key) : Bool := (σ.lookup c k).isSome

/-- `shard.Values` of shard `i` -/
def csValues (σ : Shared V) (i : Nat) : List V := (σ.shards i).vals

end CS

/-- Operations of the Map API (`Add`, `AddOrGet`, `Set`, `Get`, `GetOrWait`, `Contains`, `Values`). -/
inductive Op (V : Type) where
  | add (k : Key) (v : V)
  | addOrGet (k : Key) (v : V)
  | set (k : Key) (v : V)
  | get (k : Key)
  | getOrWait (k : Key)
  | contains (k : Key)
  | values
deriving DecidableEq, Repr

inductive Ret (V : Type) where
  | bool (b : Bool)
  | valBool (v : V) (b : Bool)
  | unit
  | val (v : V)
  | gw (v : V) (w : Option Chan) (first : Bool)
  | vals (l : List V)
deriving DecidableEq, Repr

section Spec
variable {V : Type} [Inhabited V] (c : Cfg V)

def getRet (full : Bool) (v : V) (w : Option Chan) (first : Bool) : Ret V :=
  if full then .gw v w first else .val v

/-- `Get`/`GetOrWait` as ONE atomic step -/
def specGet (σ : Shared V) (k : Key) (full : Bool) : Shared V × Ret V :=
  match csGetFast c σ k with
  | some (v, w) => (σ, getRet full v w false)
  | none => let r := csGetSlow c σ k; (r.1, getRet full r.2.1 r.2.2.1 r.2.2.2)

/-- snapshot of shards `i, i+1, …` (fuel many) taken at one instant -/
def valuesFrom (σ : Shared V) : Nat → Nat → List V
  | _, 0 => []
  | i, f + 1 => csValues σ i ++ valuesFrom σ (i + 1) f

/-- The sequential specification: every operation takes effect atomically. -/
def apply (σ : Shared V) : Op V → Shared V × Ret V
  | .add k v => let r := csSet c σ k v false; (r.1, .bool r.2)
  | .set k v => ((csSet c σ k v true).1, .unit)
  | .addOrGet k v => let r := csLazySet c σ k v; (r.1, .valBool r.2.1 r.2.2)
  | .get k => specGet c σ k false
  | .getOrWait k => specGet c σ k true
  | .contains k => (σ, .bool (csContains c σ k))
  | .values => (σ, .vals (valuesFrom σ 0 c.n))

end Spec

/-- Program counter of a thread inside a Map call. -/
inductive PC (V : Type) where
  | idle
  | set (k : Key) (v : V) (ow : Bool)      -- at `s.l.Lock()` of shard.Set (`ow = false`: Add)
  | lazy (k : Key) (v : V)                 -- at `s.l.Lock()` of shard.LazySet
  | getFast (k : Key) (full : Bool)        -- at `s.l.RLock()` of shard.Get (`full`: GetOrWait)
  | getSlow (k : Key) (full : Bool)        -- at `s.l.Lock()` of shard.Get
  | contains (k : Key)
  | values (i : Nat) (acc : List V)        -- Map.Values about to read shard `i`
  | done (r : Ret V)                       -- result computed, about to return
deriving DecidableEq, Repr

/-- What the calling code is doing between / around Map calls. -/
inductive Client (V : Type) where
  | free                                   -- arbitrary caller
  | await (ch : Chan)                      -- `<-ch`
  | gos1 (k : Key) (fv : V)                -- GetOrSet: `m.m.GetOrWait(key)` in flight
  | gosF (k : Key) (fv : V)                -- GetOrSet: first caller, about to run `f`
  | gos2 (k : Key) (fv : V)                -- GetOrSet: `m.m.Set(key, f())` in flight
  | gosW (k : Key) (ch : Chan)             -- GetOrSet: `<-wait`
  | gos3 (k : Key)                         -- GetOrSet: `m.Get(key)` after the wait, in flight
  | gosRet (k : Key) (v : V)               -- GetOrSet: about to return `v`
deriving DecidableEq, Repr

inductive Ev (V : Type) where
  | inv (t : Tid) (op : Op V)
  | ret (t : Tid) (r : Ret V)
deriving DecidableEq, Repr

structure Sys (V : Type) where
  sh : Shared V
  pc : Tid → PC V
  cl : Tid → Client V
  fRuns : Key → Nat            -- ghost: how often a GetOrSet ran `f` for the key

def Sys.init {V : Type} : Sys V := ⟨Shared.init, fun _ => .idle, fun _ => .free, fun _ => 0⟩

def startPC {V : Type} : Op V → PC V
  | .add k v => .set k v false
  | .set k v => .set k v true
  | .addOrGet k v => .lazy k v
  | .get k => .getFast k false
  | .getOrWait k => .getFast k true
  | .contains k => .contains k
  | .values => .values 0 []

/-- where GetOrSet goes after `v, wait, first := m.m.GetOrWait(key)` (cerrmap.go:63-79) -/
def gosBranch {V : Type} (c : Cfg V) (k : Key) (fv v : V) (w : Option Chan) (first : Bool) : Client V :=
  if c.isErr v then .gosRet k v
  else if first then .gosF k fv
  else match w with
    | some ch => .gosW k ch
    | none => .gosRet k v

section Step
variable {V : Type} [Inhabited V] (c : Cfg V)

/-- One atomic step of one thread. The label is the Map-level call/return event, if any. -/
inductive Step : Sys V → Option (Ev V) → Sys V → Prop
  /- a free caller invokes any Map operation -/
  | invoke (s : Sys V) (t : Tid) (op : Op V) : s.pc t = .idle → s.cl t = .free →
      Step s (some (.inv t op)) { s with pc := upd s.pc t (startPC op) }
  /- critical sections -/
  | setCS (s : Sys V) (t : Tid) (k v ow) : s.pc t = .set k v ow →
      Step s none { s with sh := (csSet c s.sh k v ow).1,
                           pc := upd s.pc t (.done (if ow then .unit else .bool (csSet c s.sh k v ow).2)) }
  | lazyCS (s : Sys V) (t : Tid) (k v) : s.pc t = .lazy k v →
      Step s none { s with sh := (csLazySet c s.sh k v).1,
                           pc := upd s.pc t (.done (.valBool (csLazySet c s.sh k v).2.1 (csLazySet c s.sh k v).2.2)) }
  | getFastHit (s : Sys V) (t : Tid) (k full v w) : s.pc t = .getFast k full → csGetFast c s.sh k = some (v, w) →
      Step s none { s with pc := upd s.pc t (.done (getRet full v w false)) }
  | getFastMiss (s : Sys V) (t : Tid) (k full) : s.pc t = .getFast k full → csGetFast c s.sh k = none →
      Step s none { s with pc := upd s.pc t (.getSlow k full) }
  | getSlowCS (s : Sys V) (t : Tid) (k full) : s.pc t = .getSlow k full →
      Step s none { s with sh := (csGetSlow c s.sh k).1,
                           pc := upd s.pc t (.done (getRet full (csGetSlow c s.sh k).2.1 (csGetSlow c s.sh k).2.2.1
                                                      (csGetSlow c s.sh k).2.2.2)) }
  | containsCS (s : Sys V) (t : Tid) (k) : s.pc t = .contains k →
      Step s none { s with pc := upd s.pc t (.done (.bool (csContains c s.sh k))) }
  | valuesCS (s : Sys V) (t : Tid) (i acc) : s.pc t = .values i acc → i < c.n →
      Step s none { s with pc := upd s.pc t (.values (i + 1) (acc ++ csValues s.sh i)) }
  | valuesEnd (s : Sys V) (t : Tid) (i acc) : s.pc t = .values i acc → ¬ i < c.n →
      Step s none { s with pc := upd s.pc t (.done (.vals acc)) }
  /- a free caller's call returns -/
  | ret (s : Sys V) (t : Tid) (r) : s.pc t = .done r → s.cl t = .free →
      Step s (some (.ret t r)) { s with pc := upd s.pc t .idle }
  /- a free caller blocks on a channel; it proceeds only once the channel is closed -/
  | awaitStart (s : Sys V) (t : Tid) (ch : Chan) : s.pc t = .idle → s.cl t = .free →
      Step s none { s with cl := upd s.cl t (.await ch) }
  | awaitWake (s : Sys V) (t : Tid) (ch : Chan) : s.cl t = .await ch → ch ∈ s.sh.closed →
      Step s none { s with cl := upd s.cl t .free }
  /- ErrMap.GetOrSet(key, f), `fv` = what `f()` would return -/
  | gosStart (s : Sys V) (t : Tid) (k fv) : s.pc t = .idle → s.cl t = .free →
      Step s (some (.inv t (.getOrWait k)))
        { s with pc := upd s.pc t (.getFast k true), cl := upd s.cl t (.gos1 k fv) }
  | gosRet1 (s : Sys V) (t : Tid) (k fv v w first) : s.pc t = .done (.gw v w first) → s.cl t = .gos1 k fv →
      Step s (some (.ret t (.gw v w first)))
        { s with pc := upd s.pc t .idle, cl := upd s.cl t (gosBranch c k fv v w first) }
  | gosRunF (s : Sys V) (t : Tid) (k fv) : s.pc t = .idle → s.cl t = .gosF k fv →
      Step s (some (.inv t (.set k fv)))
        { s with pc := upd s.pc t (.set k fv true), cl := upd s.cl t (.gos2 k fv),
                 fRuns := upd s.fRuns k (s.fRuns k + 1) }
  | gosRet2 (s : Sys V) (t : Tid) (k fv r) : s.pc t = .done r → s.cl t = .gos2 k fv →
      Step s (some (.ret t r)) { s with pc := upd s.pc t .idle, cl := upd s.cl t (.gosRet k fv) }
  | gosWake (s : Sys V) (t : Tid) (k ch) : s.pc t = .idle → s.cl t = .gosW k ch → ch ∈ s.sh.closed →
      Step s (some (.inv t (.get k)))
        { s with pc := upd s.pc t (.getFast k false), cl := upd s.cl t (.gos3 k) }
  | gosRet3 (s : Sys V) (t : Tid) (k v) : s.pc t = .done (.val v) → s.cl t = .gos3 k →
      Step s (some (.ret t (.val v))) { s with pc := upd s.pc t .idle, cl := upd s.cl t (.gosRet k v) }
  | gosDone (s : Sys V) (t : Tid) (k v) : s.pc t = .idle → s.cl t = .gosRet k v →
      Step s none { s with cl := upd s.cl t .free }

/-- executions with their Map-level trace (call/return events in real-time order) -/
inductive Exec : Sys V → List (Ev V) → Sys V → Prop
  | nil (s) : Exec s [] s
  | tau {s s' s'' tr} : Exec s tr s' → Step c s' none s'' → Exec s tr s''
  | ev {s s' s'' tr e} : Exec s tr s' → Step c s' (some e) s'' → Exec s (tr ++ [e]) s''

def Reach (s : Sys V) : Prop := ∃ tr, Exec c Sys.init tr s

end Step


/-! ### executable scheduler (what the driver runs) -/

/-- what a free thread can start -/
inductive Call (V : Type) where
  | op (o : Op V)
  | await (ch : Chan)
  | getOrSet (k : Key) (fv : V)
deriving Repr

section Exec
variable {V : Type} [Inhabited V] (c : Cfg V)

def freeIdle (s : Sys V) (t : Tid) : Bool :=
  match s.pc t, s.cl t with
  | .idle, .free => true
  | _, _ => false

def start (s : Sys V) (t : Tid) : Call V → Option (Option (Ev V) × Sys V)
  | .op o =>
    if freeIdle s t then some (some (.inv t o), { s with pc := upd s.pc t (startPC o) }) else none
  | .await ch =>
    if freeIdle s t then some (none, { s with cl := upd s.cl t (.await ch) }) else none
  | .getOrSet k fv =>
    if freeIdle s t then
      some (some (.inv t (.getOrWait k)), { s with pc := upd s.pc t (.getFast k true), cl := upd s.cl t (.gos1 k fv) })
    else none

/-- the (unique) non-invoking step of thread `t`, if it is enabled -/
def advance (s : Sys V) (t : Tid) : Option (Option (Ev V) × Sys V) :=
  match s.pc t with
  | .set k v ow =>
    some (none, { s with sh := (csSet c s.sh k v ow).1,
                         pc := upd s.pc t (.done (if ow then .unit else .bool (csSet c s.sh k v ow).2)) })
  | .lazy k v =>
    some (none, { s with sh := (csLazySet c s.sh k v).1,
                         pc := upd s.pc t (.done (.valBool (csLazySet c s.sh k v).2.1 (csLazySet c s.sh k v).2.2)) })
  | .getFast k full =>
    match csGetFast c s.sh k with
    | some (v, w) => some (none, { s with pc := upd s.pc t (.done (getRet full v w false)) })
    | none => some (none, { s with pc := upd s.pc t (.getSlow k full) })
  | .getSlow k full =>
    some (none, { s with sh := (csGetSlow c s.sh k).1,
                         pc := upd s.pc t (.done (getRet full (csGetSlow c s.sh k).2.1 (csGetSlow c s.sh k).2.2.1
                                                    (csGetSlow c s.sh k).2.2.2)) })
  | .contains k => some (none, { s with pc := upd s.pc t (.done (.bool (csContains c s.sh k))) })
  | .values i acc =>
    if i < c.n then some (none, { s with pc := upd s.pc t (.values (i + 1) (acc ++ csValues s.sh i)) })
    else some (none, { s with pc := upd s.pc t (.done (.vals acc)) })
  | .done r =>
    match s.cl t with
    | .free => some (some (.ret t r), { s with pc := upd s.pc t .idle })
    | .gos1 k fv =>
      match r with
      | .gw v w first =>
        some (some (.ret t (.gw v w first)),
          { s with pc := upd s.pc t .idle, cl := upd s.cl t (gosBranch c k fv v w first) })
      | _ => none
    | .gos2 k fv => some (some (.ret t r), { s with pc := upd s.pc t .idle, cl := upd s.cl t (.gosRet k fv) })
    | .gos3 k =>
      match r with
      | .val v => some (some (.ret t (.val v)), { s with pc := upd s.pc t .idle, cl := upd s.cl t (.gosRet k v) })
      | _ => none
    | _ => none
  | .idle =>
    match s.cl t with
    | .await ch => if ch ∈ s.sh.closed then some (none, { s with cl := upd s.cl t .free }) else none
    | .gosF k fv =>
      some (some (.inv t (.set k fv)),
        { s with pc := upd s.pc t (.set k fv true), cl := upd s.cl t (.gos2 k fv),
                 fRuns := upd s.fRuns k (s.fRuns k + 1) })
    | .gosW k ch =>
      if ch ∈ s.sh.closed then
        some (some (.inv t (.get k)), { s with pc := upd s.pc t (.getFast k false), cl := upd s.cl t (.gos3 k) })
      else none
    | .gosRet _ _ => some (none, { s with cl := upd s.cl t .free })
    | _ => none

/-- run thread `t` until it is a free idle caller again, or blocked, or out of fuel; collects its events -/
def runThread (s : Sys V) (t : Tid) : Nat → List (Ev V) → Sys V × List (Ev V)
  | 0, acc => (s, acc)
  | f + 1, acc =>
    match advance c s t with
    | none => (s, acc)
    | some (l, s') => runThread s' t f (acc ++ l.toList)

/-- run a schedule: `some call` = the thread starts that call, `none` = it takes its next step; returns the
    states passed through (stops early if a step is not enabled) -/
def runSched (s : Sys V) : List (Tid × Option (Call V)) → List (Sys V)
  | [] => [s]
  | (t, some call) :: r =>
    match start s t call with
    | some (_, s') => s :: runSched s' r
    | none => [s]
  | (t, none) :: r =>
    match advance c s t with
    | some (_, s') => s :: runSched s' r
    | none => [s]

end Exec

/-! ### The atomic ("linearized") automaton -/

inductive APC (V : Type) where
  | idle
  | pend (op : Op V)                 -- invoked, not yet taken effect
  | vpend (i : Nat) (acc : List V)   -- Values: shards `< i` read, each at one instant
  | done (r : Ret V)                 -- has taken effect
deriving DecidableEq, Repr

structure ASys (V : Type) where
  sh : Shared V
  th : Tid → APC V

def ASys.init {V : Type} : ASys V := ⟨Shared.init, fun _ => .idle⟩

def astartPC {V : Type} : Op V → APC V
  | .values => .vpend 0 []
  | op => .pend op

section AStep
variable {V : Type} [Inhabited V] (c : Cfg V)

/-- `AStep`: calls and returns are separate events, but in between every operation takes effect in ONE
    step (`lin`) by `apply` — except `Values`, which reads the shards in index order, each at one instant
    (`vlin`).  With `strong := true` `Values` too is a single `lin` step (whole-map snapshot). -/
inductive AStep (strong : Bool) : ASys V → Option (Ev V) → ASys V → Prop
  | inv (a : ASys V) (t : Tid) (op : Op V) : a.th t = .idle →
      AStep strong a (some (.inv t op)) { a with th := upd a.th t (if strong then .pend op else astartPC op) }
  | lin (a : ASys V) (t : Tid) (op : Op V) : a.th t = .pend op →
      AStep strong a none { sh := (apply c a.sh op).1, th := upd a.th t (.done (apply c a.sh op).2) }
  | vlin (a : ASys V) (t : Tid) (i acc) : a.th t = .vpend i acc → i < c.n →
      AStep strong a none { a with th := upd a.th t (.vpend (i + 1) (acc ++ csValues a.sh i)) }
  | vend (a : ASys V) (t : Tid) (i acc) : a.th t = .vpend i acc → ¬ i < c.n →
      AStep strong a none { a with th := upd a.th t (.done (.vals acc)) }
  | ret (a : ASys V) (t : Tid) (r) : a.th t = .done r →
      AStep strong a (some (.ret t r)) { a with th := upd a.th t .idle }

inductive AExec (strong : Bool) : ASys V → List (Ev V) → ASys V → Prop
  | nil (a) : AExec strong a [] a
  | tau {a a' a'' tr} : AExec strong a tr a' → AStep c strong a' none a'' → AExec strong a tr a''
  | ev {a a' a'' tr e} : AExec strong a tr a' → AStep c strong a' (some e) a'' → AExec strong a (tr ++ [e]) a''

/-- A history is linearizable w.r.t. `apply` iff the atomic automaton can produce it (Herlihy–Wing's
    canonical automaton); `strong = false` treats `Values` as a sequence of per-shard snapshots. -/
def Linearizable (strong : Bool) (tr : List (Ev V)) : Prop := ∃ a, AExec c strong ASys.init tr a

end AStep

end PlzVerif.CMap
