import PlzVerif.Model.BuildE2E
import PlzVerif.Model.TestCache
import PlzVerif.Model.TestFacts
/-
Concrete instance of `Model/TestCache.lean` for the end-to-end correspondence of C11: the generator's test-command
language has a direct interpretation here, so the per-test report of the real `plz test` (pass / fail / error,
cached or executed, results file left behind) and the set of executed commands can be compared step by step.

Pre-images are transcribed as coded: the rule pre-image is an UNFRAMED concatenation (data entries as written,
then the test command; `no_test_output` is not part of it), a directory's path pre-image is the contents of its
files (no names), and the runtime pre-image lists path pre-images without names (regenerated fact).
-/
namespace PlzVerif.TestE2E
open PlzVerif.Build PlzVerif.BuildE2E PlzVerif.TestCache

/-- Test commands of the generator (after the logging prefix). -/
inductive TCmd where
  | tt                          -- `true`
  | ff                          -- `false`
  | has (p : String)            -- `test -f p`         (p relative to the test directory, e.g. `p/d.txt`, `p/dd/a`)
  | grep (p w : String)         -- `grep -qx w p`      (p is a file and has a line equal to w)
deriving DecidableEq, Repr

inductive Kind where
  | genrule      -- not a test
  | puretest     -- gentest without cmd / outs
  | buildtest    -- gentest with srcs, cmd, outs: its own output is a runtime file
deriving DecidableEq, Repr

structure TAttrs where
  b        : Attrs          -- label, build command, srcs, out (as in BuildE2E)
  kind     : Kind
  data     : List String    -- data entries as written: file / directory names relative to the package, or labels
  tcmd     : TCmd
  noOutput : Bool           -- no_test_output
  writes   : Bool           -- the command writes a results file (PASS / FAIL in go-test format)
deriving DecidableEq, Repr

def isLabel (s : String) : Bool := s.startsWith "//"

def pkgOf (label : String) : String :=
  match (label.drop 2).toString.splitOn ":" with
  | p :: _ => p
  | [] => ""

def execT (a : TAttrs) (ins : List (String × Tree)) : Tree :=
  match a.kind with
  | .puretest => .dir []
  | _ => BuildE2E.exec a.b ins

def insertUniq (s : String) : List String → List String
  | [] => [s]
  | x :: xs => if s < x then s :: x :: xs else if s = x then x :: xs else x :: insertUniq s xs

/-- `DeclaredDependencies()`: the labels among sources and data, as a sorted set. -/
def declaredDeps (a : TAttrs) : List String :=
  ((a.b.srcs ++ a.data).filter isLabel).foldr insertUniq []

/-- Build-time rule pre-image: BuildE2E's (label, sources, output, command), plus the declared dependencies —
    a data LABEL is a dependency (a data file is not), and one that is also a source adds nothing. -/
def ruleSerB (a : TAttrs) : String :=
  BuildE2E.ruleSer a.b ++ "\x02" ++ String.join (declaredDeps a)

def tcmdText : TCmd → String
  | .tt => "true" | .ff => "false" | .has p => "has:" ++ p | .grep p w => "grep:" ++ w ++ ":" ++ p

/-- Runtime rule pre-image as `ruleHash(runtime = true)` writes it: everything of the build-time one, then each
    data entry's `String()`, then the test command — unframed.  `no_test_output` is written only if the regenerated
    facts say so (`hashNoOut`; one byte, placed first here — its position does not matter). -/
def ruleSerRTWith (hashNoOut : Bool) (a : TAttrs) : String :=
  (if hashNoOut then (if a.noOutput then "T" else "F") else "") ++
  ruleSerB a ++ String.join a.data ++ "\x01" ++ tcmdText a.tcmd ++ (if a.writes then "+results" else "")

def ruleSerRT (a : TAttrs) : String := ruleSerRTWith hashesNoOutput a

/-- Look a path up in the runtime directory: a top-level file, or a file of a (one-level) directory entry. -/
def lookupPath (files : List (String × Tree)) (p : String) : Option String :=
  files.findSome? fun e =>
    match e.2 with
    | .dir es => es.findSome? fun f => if e.1 ++ "/" ++ f.1 = p then some f.2 else none
    | t => if e.1 = p then some (BuildE2E.render t) else none     -- every other tree is one file: its bytes

def cmdOk (c : TCmd) (files : List (String × Tree)) : Bool :=
  match c with
  | .tt => true
  | .ff => false
  | .has p => (lookupPath files p).isSome
  | .grep p w => match lookupPath files p with
    | some c => (c.splitOn "\n").contains w
    | none => false

/-- parseTestOutput for the generator's commands: with `no_test_output` only the exit code counts; otherwise the
    results file decides (FAIL ⇒ failure), and a missing one is an error. -/
def outcomeT (a : TAttrs) (files : List (String × Tree)) : Outcome :=
  let ok := cmdOk a.tcmd files
  if a.noOutput then (if ok then .pass else .error)
  else if a.writes then (if ok then .pass else .fail)
  else .error

abbrev RS := RStamp String String String String
abbrev TSt := TState String Tree String String String RS

def mkTestDef (a : TAttrs) : Option (TestDef String String TAttrs) :=
  match a.kind with
  | .genrule => none
  | k => some
    { rattrs := a, own := (k == .buildtest), dummy := !a.writes,
      data := a.data.map fun d => if isLabel d then .inr d else .inl (pkgOf a.b.label ++ "/" ++ d) }

def plzTestE2E (r : TRepo String TAttrs String String Tree TAttrs String) (sel tsel : String → Bool) (fl : Flags) (st : TSt) :=
  testAll generatedFacts ruleSerRT BuildE2E.pathSer outcomeT Build.generatedFacts BuildE2E.mvE2E BuildE2E.rsE2E execT ruleSerB r sel tsel fl st

end PlzVerif.TestE2E
