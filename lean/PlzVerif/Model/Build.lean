/-
Generic model of the local build step (src/build/build_step.go `buildTarget`, incrementality.go `needsBuilding`,
`moveOutput`), core Lean only.

* Targets are given in dependency order; each has a key (label), attributes `A`, source files `F`, dependencies.
* `exec` is an arbitrary deterministic action: attributes + named inputs ↦ output tree.
* The stamp written next to the outputs (xattr `user.plz_build`) holds the rule pre-image and, per input, its name
  and path pre-image (incrementality.go:112 `sourceHash` writes hash(path) ++ name per source).  Digests are
  idealised as the identity on pre-images; `ruleSer`/`pathSer` are the pre-image functions (C08 / C09).
* `buildOne` = "needsBuilding? no → keep; yes → exec, then moveOutput keeps the OLD file when pathSer agrees".
-/
namespace PlzVerif.Build

structure Target (K A F : Type) where
  key   : K
  attrs : A
  srcs  : List F
  deps  : List K

structure Repo (K A F N C : Type) where
  files   : F → C          -- current contents of the source tree
  fname   : F → N          -- name under which a source file is presented to the action
  outName : K → N          -- name under which a dependency's output is presented
  targets : List (Target K A F)

structure Stamp (S N H : Type) where
  rule : S
  ins  : List (N × H)
deriving DecidableEq

abbrev Out (K C S N H : Type) := K → Option (C × Stamp S N H)

/-- Facts about `needsBuilding` / `moveOutput` regenerated from the source (Generated/C01.lean):
    which stamp components are compared, and whether an output whose hash is unchanged is kept in place. -/
structure Facts where
  cmpRule   : Bool
  cmpSource : Bool
  keepOld   : Bool
deriving DecidableEq, Repr

/-- The code as read today. -/
def Facts.asCoded : Facts := ⟨true, true, true⟩

def stampEq {S N H : Type} [DecidableEq S] [DecidableEq N] [DecidableEq H] (f : Facts) (a b : Stamp S N H) : Bool :=
  (!f.cmpRule || decide (a.rule = b.rule)) && (!f.cmpSource || decide (a.ins = b.ins))

variable {K A F N C S H : Type} [DecidableEq K] [DecidableEq S] [DecidableEq N] [DecidableEq H]
/-- `moveOutput` as coded for declared outputs: an output whose hash is unchanged stays in place (when the
    keep-old fact holds), otherwise the new one replaces it. -/
def mvCoded {C H : Type} [DecidableEq H] (fx : Facts) (pathSer : C → H) (old new : C) : C :=
  if fx.keepOld && decide (pathSer old = pathSer new) then old else new

/-- What the theorems need from "moving outputs into plz-out": the result is the new output, or the old one
    when it has the same pre-image.  `mvCoded` satisfies it; a move that lets parts of the old output linger does not. -/
def MvOK {C H : Type} (pathSer : C → H) (mv : C → C → C) : Prop :=
  ∀ old new, mv old new = new ∨ (pathSer old = pathSer new ∧ mv old new = old)

theorem mvCoded_ok {C H : Type} [DecidableEq H] (fx : Facts) (pathSer : C → H) : MvOK pathSer (mvCoded fx pathSer) := by
  intro old new
  unfold mvCoded
  by_cases h : (fx.keepOld && decide (pathSer old = pathSer new)) = true
  · right
    simp only [Bool.and_eq_true, decide_eq_true_eq] at h
    exact ⟨h.2, by simp [h.1, h.2]⟩
  · left; simp [h]

variable (fx : Facts) (mv : C → C → C) (exec : A → List (N × C) → C) (ruleSer : A → S) (pathSer : C → H)

/-- current outputs of the dependencies in plz-out (none when one is missing = dependency not built). -/
def depIns (r : Repo K A F N C) (out : Out K C S N H) (deps : List K) : Option (List (N × C)) :=
  deps.mapM (fun d => (out d).map (fun p => (r.outName d, p.1)))

def inputs (r : Repo K A F N C) (out : Out K C S N H) (t : Target K A F) : Option (List (N × C)) :=
  (depIns r out t.deps).map (fun ds => t.srcs.map (fun f => (r.fname f, r.files f)) ++ ds)

def stampOf (a : A) (ins : List (N × C)) : Stamp S N H :=
  ⟨ruleSer a, ins.map (fun p => (p.1, pathSer p.2))⟩

/-- What one `buildTarget` call does to plz-out, and whether the action was executed. -/
def buildOne (r : Repo K A F N C) (out : Out K C S N H) (t : Target K A F) : Out K C S N H × Bool :=
  match inputs r out t with
  | none => (out, false)                           -- a dependency has no outputs: nothing is run
  | some ins =>
    let st : Stamp S N H := stampOf ruleSer pathSer t.attrs ins
    match out t.key with
    | some (c, st0) =>
      if stampEq fx st0 st then (out, false)        -- needsBuilding = false
      else
        let c' := exec t.attrs ins
        let keep := mv c c'                           -- moveOutput (same hash ⇒ the old file stays)
        (fun j => if j = t.key then some (keep, st) else out j, true)
    | none => (fun j => if j = t.key then some (exec t.attrs ins, st) else out j, true)

/-- Build the selected targets in order; returns the new plz-out and the keys whose action ran. -/
def buildList (r : Repo K A F N C) (sel : K → Bool) : List (Target K A F) → Out K C S N H → Out K C S N H × List K
  | [], out => (out, [])
  | t :: ts, out =>
    if sel t.key then
      let (out', ran) := buildOne fx mv exec ruleSer pathSer r out t
      let (out'', rs) := buildList r sel ts out'
      (out'', if ran then t.key :: rs else rs)
    else buildList r sel ts out

def build (r : Repo K A F N C) (sel : K → Bool) (out : Out K C S N H) : Out K C S N H × List K :=
  buildList fx mv exec ruleSer pathSer r sel r.targets out

/-- Clean build: every selected target's output computed from scratch, in order. -/
def cleanList (r : Repo K A F N C) (sel : K → Bool) : List (Target K A F) → List (K × C) → List (K × C)
  | [], acc => acc
  | t :: ts, acc =>
    if sel t.key then
      let ins := t.srcs.map (fun f => (r.fname f, r.files f)) ++
                 t.deps.filterMap (fun d => (acc.lookup d).map (fun c => (r.outName d, c)))
      cleanList r sel ts (acc ++ [(t.key, exec t.attrs ins)])
    else cleanList r sel ts acc

def clean (r : Repo K A F N C) (sel : K → Bool) : List (K × C) := cleanList exec r sel r.targets []

end PlzVerif.Build
