import PlzVerif.Model.Build
import PlzVerif.Model.BuildCache
/-
Model of the test step (src/test/test_step.go `test`: `needToRun`, `cachedTestResults`, `cacheOutputFiles`,
`RemoveTestOutputs`; src/build/incrementality.go `RuntimeHash`; src/core/utils.go `IterRuntimeFiles`) on top of
the build model.  Core Lean only.

* One `plz test` = the build phase of `Model/Build.lean` followed, for every requested test target, by `testOne`.
* The results file `plz-out/bin/<pkg>/.test_results_<name>` carries (what it parses to, the runtime hash recorded
  on it in xattr `user.plz_test`).  Digests are idealised as the identity on pre-images: the recorded hash is the
  runtime PRE-IMAGE `RStamp`, whose shape is dictated by the regenerated facts: rule pre-image (runtime = true),
  config, and per `IterRuntimeFiles` entry the path pre-image — and the entry's NAME only if the code writes it
  (today it does not).  The path digests have a fixed width, so their unframed concatenation is a list.
* With `[cache] dir` configured (`TRepo.cacheOn`) the build phase is `buildC` and the results file is also stored
  into / retrieved from the artifact cache under (label, runtime hash) — `cacheOutputFiles` → `state.Cache.Store`,
  `needToRun` → `retrieveFromCache`.
* `outcome` is an arbitrary deterministic function of what the test can observe: its runtime attributes and the
  (name, tree) list that `PrepareRuntimeDir` materialises from `IterRuntimeFiles`.
-/
namespace PlzVerif.TestCache
open PlzVerif.Build

/-- `target.State()` after the build phase, as far as `needToRun` distinguishes. -/
inductive BState where
  | reused      -- needsBuilding = false
  | unchanged   -- rebuilt (or restored), outputs have the same hash as before
  | built       -- rebuilt, outputs changed
  | cached      -- restored from the cache, outputs changed
deriving DecidableEq, Repr

inductive Outcome where
  | pass    -- TestCases.AllSucceeded()
  | fail    -- Failures() > 0
  | error   -- neither (abnormal exit, e.g. a `no_test_output` test whose command returns non-zero)
deriving DecidableEq, Repr

/-- What the go/ast extractor reads from RuntimeHash / test() on every run (Generated/C11.lean). -/
structure Facts where
  hashesRule          : Bool          -- RuntimeHash contains RuleHash(runtime = true, …)
  hashesConfig        : Bool          -- … and state.Hashes.Config
  hashesFiles         : Bool          -- … and, per IterRuntimeFiles entry, its path hash
  hashesNames         : Bool          -- … and the entry's name
  linkXattr           : Bool          -- DEFECT when true: the path hasher reads / stores the `user.plz_hash` xattr on a
                                      -- filegroup output that is a HARD LINK of a source file (shared inode). As coded
                                      -- it does not: CopyHash marks such a path and Hash then neither reads nor stores.
  rerunForces         : Bool          -- needToRun: `if state.ForceRerun { return true }`
  reuseStates         : List BState   -- needToRun: states in which the stored result is consulted
  verifiesHash        : Bool          -- needToRun: `!verifyHash(results file, hash)` ⇒ run
  singleRunOnly       : Bool          -- reuse is gated by `state.NumTestRuns == 1`
  removesBefore       : Bool          -- RemoveTestOutputs before the command is run
  storeIfAllSucceeded : Bool          -- the call of cacheOutputFiles is guarded by `AllSucceeded()`
  storeIfNoFailures   : Bool          -- cacheOutputFiles returns early when `results.Failures() > 0`
  storeIfNoArgs       : Bool          -- … and when test arguments were given
  cachedRejectsFailed : Bool          -- cachedTestResults ignores a stored result that is not AllSucceeded
deriving DecidableEq, Repr

/-- The code as read today. -/
def Facts.asCoded : Facts :=
  { hashesRule := true, hashesConfig := true, hashesFiles := true, hashesNames := true, linkXattr := false, rerunForces := true,
    reuseStates := [.unchanged, .reused], verifiesHash := true, singleRunOnly := true, removesBefore := true,
    storeIfAllSucceeded := true, storeIfNoFailures := true, storeIfNoArgs := true, cachedRejectsFailed := true }

/-- Runtime pre-image (what `RuntimeHash` digests), component by component. -/
structure RStamp (S G N H : Type) where
  rule  : Option S
  cfg   : Option G
  files : List (Option N × Option H)
deriving DecidableEq, Repr

/-- Test-time definition of a test target. -/
structure TestDef (K F A' : Type) where
  rattrs   : A'             -- everything ruleHash(runtime = true) reads: label, data entries as written, test command, …
  own      : Bool           -- the target has an output of its own (first entry of IterRuntimeFiles)
  dummy    : Bool           -- the command leaves no results file: what gets stored is the dummy (passing) one
  data     : List (F ⊕ K)   -- data entries in order: source files / directories, or labels

structure TRepo (K A F N C A' G : Type) where
  repo    : Repo K A F N C
  tests   : K → Option (TestDef K F A')
  ownName : K → N          -- destination of a test's OWN output in its runtime directory (the bare output name,
                           -- whereas the same file seen as somebody's data is `repo.outName`: package/output)
  cfg     : G
  cacheOn : Bool           -- `[cache] dir` is configured: build outputs and results files go through the artifact cache
  linkOf  : N → Option Nat -- the runtime file of that name is a hard link (filegroup output) of a source file whose inode
                           -- is the given one: an edit IN PLACE keeps the inode, replacing the file gives a new one

/-- Flags of one `plz test` invocation. -/
structure Flags where
  rerun   : Bool := false   -- --rerun
  numRuns : Nat  := 1       -- --num_runs
  hasArgs : Bool := false   -- arguments after `--`
deriving DecidableEq, Repr

/-- The results file: what it parses to and the hash recorded on it. -/
structure Stored (R : Type) where
  res   : Outcome
  stamp : R
deriving DecidableEq, Repr

structure Report where
  res    : Outcome
  cached : Bool     -- reported as a cached result
  runs   : Nat      -- how many times the test command was executed
deriving DecidableEq, Repr

abbrev Results (K R : Type) := K → Option (Stored R)

/-- Results files in the artifact cache, keyed by (label, runtime hash). -/
abbrev RCache (K R : Type) := K × R → Option (Stored R)

structure TState (K C S N H R : Type) where
  out    : Out K C S N H
  res    : Results K R
  bcache : Build.Cache K C S N H
  rcache : RCache K R
  xh     : Nat → Option H      -- `user.plz_hash` xattrs on source inodes that are hard-linked into plz-out

section
variable {K A F N C S H A' S' G : Type}
variable [DecidableEq K] [DecidableEq S] [DecidableEq N] [DecidableEq H] [DecidableEq S'] [DecidableEq G]

/-- `IterRuntimeFiles`' `done` map: an entry whose destination name was already yielded is skipped. -/
def dedupNames : List N → List (N × C) → List (N × C)
  | _, [] => []
  | seen, p :: ps => if seen.contains p.1 then dedupNames seen ps else p :: dedupNames (p.1 :: seen) ps

/-- One data entry of `IterRuntimeFiles`: a source file / directory as it is in the tree, or the output of a
    label as it is in plz-out now (`none`: not built). -/
def dataEntry (r : Repo K A F N C) (out : Out K C S N H) : F ⊕ K → Option (N × C)
  | .inl f => some (r.fname f, r.files f)
  | .inr l => (out l).map (fun p => (r.outName l, p.1))

/-- The target's own output, when it has one (first entries of `IterRuntimeFiles`). -/
def ownEntry (ownName : K → N) (out : Out K C S N H) (k : K) (own : Bool) : Option (List (N × C)) :=
  if own then (out k).map (fun p => [(ownName k, p.1)]) else some []

/-- The (destination name, tree) list of `IterRuntimeFiles`: own output, then the data entries in order,
    de-duplicated by destination name. `none`: something is not built. -/
def runtimeFiles (r : Repo K A F N C) (ownName : K → N) (out : Out K C S N H) (k : K) (td : TestDef K F A') :
    Option (List (N × C)) :=
  match ownEntry ownName out k td.own, td.data.mapM (dataEntry r out) with
  | some own, some ds => some (dedupNames [] (own ++ ds))
  | _, _ => none

variable (fx : Facts) (ruleSerRT : A' → S') (pathSer : C → H)

/-- `RuntimeHash` as written: rule pre-image, config, then per runtime file its path pre-image
    (and its name only when the code writes one). -/
def runtimeSer (cfg : G) (a : A') (files : List (N × C)) : RStamp S' G N H :=
  { rule := if fx.hashesRule then some (ruleSerRT a) else none,
    cfg := if fx.hashesConfig then some cfg else none,
    files := files.map (fun p => (if fx.hashesNames then some p.1 else none,
                                  if fx.hashesFiles then some (pathSer p.2) else none)) }

/-- The path pre-image the hasher SEES for a runtime file: its current contents — unless the defect `linkXattr`
    is in: then, for a hard link of a source inode that carries a stored hash, the stored (possibly stale) one. -/
def seenHash (linkOf : N → Option Nat) (xh : Nat → Option H) (p : N × C) : H :=
  match linkOf p.1 with
  | some i => if fx.linkXattr then (match xh i with | some h => h | none => pathSer p.2) else pathSer p.2
  | none => pathSer p.2

/-- `RuntimeHash` over what the hasher sees. -/
def runtimeSerX (linkOf : N → Option Nat) (xh : Nat → Option H) (cfg : G) (a : A') (files : List (N × C)) : RStamp S' G N H :=
  { rule := if fx.hashesRule then some (ruleSerRT a) else none,
    cfg := if fx.hashesConfig then some cfg else none,
    files := files.map (fun p => (if fx.hashesNames then some p.1 else none,
                                  if fx.hashesFiles then some (seenHash fx pathSer linkOf xh p) else none)) }

variable {R : Type} [DecidableEq R]

/-- `needToRun`: whether the command must run, and the results file afterwards (`retrieveFromCache` restores it
    on a hit).  `hit` is what the artifact cache holds under (label, current runtime hash); `none` when no cache. -/
def needToRun (fl : Flags) (bs : BState) (stored : Option (Stored R)) (h : R) (hit : Option (Stored R)) :
    Bool × Option (Stored R) :=
  if fx.rerunForces && fl.rerun then (true, stored)
  else match stored, fx.reuseStates.contains bs with
    | some s, true => (fx.verifiesHash && s.stamp != h, stored)    -- state Unchanged / Reused and the file exists
    | _, _ => match hit with                                       -- retrieveFromCache
      | some c => (false, some c)
      | none => (true, stored)

variable (outcome : A' → List (N × C) → Outcome)

/-- The gate `state.NumTestRuns == 1 && !runRemotely && !needToRun()`: `&&` short-circuits, so `needToRun` (and its
    cache retrieval) only happens for single runs.  Returns (must run, results file afterwards). -/
def afterNeedToRun (fl : Flags) (bs : BState) (stored : Option (Stored R)) (h : R) (hit : Option (Stored R)) :
    Bool × Option (Stored R) :=
  if !fx.singleRunOnly || fl.numRuns == 1 then needToRun fx fl bs stored h hit else (true, stored)

/-- `cachedTestResults`: the stored / retrieved result that is reported instead of running, if any. -/
def reused (fl : Flags) (bs : BState) (stored : Option (Stored R)) (h : R) (hit : Option (Stored R)) : Option (Stored R) :=
  match afterNeedToRun fx fl bs stored h hit with
  | (false, some s) => if fx.cachedRejectsFailed && s.res != .pass then none else some s
  | _ => none

/-- Run the command: RemoveTestOutputs, execute, and (`cacheOutputFiles`) keep the results file stamped with the
    current hash — in plz-out and in the artifact cache — only if the guards allow it.
    Returns (results file, what goes into the cache under the current hash, report). -/
def runTest (fl : Flags) (dummy : Bool) (a : A') (files : List (N × C)) (h : R) (file1 : Option (Stored R)) :
    Option (Stored R) × Option (Stored R) × Report :=
  let o := outcome a files
  let cleared := if fx.removesBefore then none else file1                                  -- RemoveTestOutputs
  if fl.numRuns == 1 then
    let store := (!fx.storeIfAllSucceeded || o == .pass) && (!fx.storeIfNoFailures || o != .fail) &&
                 (!fx.storeIfNoArgs || !fl.hasArgs)                                        -- cacheOutputFiles
    if store then (some ⟨if dummy then .pass else o, h⟩, some ⟨if dummy then .pass else o, h⟩, ⟨o, false, 1⟩)
    else (cleared, none, ⟨o, false, 1⟩)
  else (cleared, none, ⟨o, false, fl.numRuns⟩)

/-- `test()` for one target: report the stored / retrieved result or run the command. -/
def testOne (fl : Flags) (bs : BState) (dummy : Bool) (a : A') (files : List (N × C)) (h : R)
    (stored hit : Option (Stored R)) : Option (Stored R) × Option (Stored R) × Report :=
  match reused fx fl bs stored h hit with
  | some s => (some s, none, ⟨s.res, true, 0⟩)
  | none => runTest fx outcome fl dummy a files h (afterNeedToRun fx fl bs stored h hit).2

/-- Target state after the build phase. Executed: Unchanged when the output's hash is what it was, else Built.
    Not executed: Reused when the stamp is unchanged (needsBuilding = false); otherwise the outputs were restored
    from the cache: Unchanged when their hash is what it was, else Cached. -/
def bstateOf (out out' : Out K C S N H) (ran : List K) (k : K) : BState :=
  match out k, out' k with
  | some p, some p' =>
    if ran.contains k then (if pathSer p.1 = pathSer p'.1 then .unchanged else .built)
    else if p.2 = p'.2 then .reused
    else (if pathSer p.1 = pathSer p'.1 then .unchanged else .cached)
  | _, _ => if ran.contains k then .built else .cached

/-- The test phase over the target list (order of the list; reports are keyed). `none` report: the runtime
    files could not be collected (something is not built) and nothing is run. -/
def testList (r : TRepo K A F N C A' G) (tsel : K → Bool) (fl : Flags) (out0 out' : Out K C S N H) (ran : List K)
    (xh : Nat → Option H) :
    List (Target K A F) → Results K (RStamp S' G N H) → RCache K (RStamp S' G N H) →
    Results K (RStamp S' G N H) × RCache K (RStamp S' G N H) × List (K × Option Report)
  | [], res, rc => (res, rc, [])
  | t :: ts, res, rc =>
    if tsel t.key then
      match r.tests t.key with
      | none => testList r tsel fl out0 out' ran xh ts res rc
      | some td =>
        match runtimeFiles r.repo r.ownName out' t.key td with
        | none =>
          let x := testList r tsel fl out0 out' ran xh ts res rc
          (x.1, x.2.1, (t.key, none) :: x.2.2)
        | some files =>
          let h := if fx.linkXattr then runtimeSerX fx ruleSerRT pathSer r.linkOf xh r.cfg td.rattrs files
                   else runtimeSer fx ruleSerRT pathSer r.cfg td.rattrs files
          let hit := if r.cacheOn then rc (t.key, h) else none
          let y := testOne fx outcome fl (bstateOf pathSer out0 out' ran t.key) td.dummy td.rattrs files h (res t.key) hit
          let rc' : RCache K (RStamp S' G N H) := match y.2.1 with
            | some s => if r.cacheOn then (fun q => if q = (t.key, h) then some s else rc q) else rc
            | none => rc
          let x := testList r tsel fl out0 out' ran xh ts (fun j => if j = t.key then y.1 else res j) rc'
          (x.1, x.2.1, (t.key, some y.2.2) :: x.2.2)
    else testList r tsel fl out0 out' ran xh ts res rc

/-- The runtime files of all requested tests (what `RuntimeHash` walks over in this invocation). -/
def seenFiles (r : TRepo K A F N C A' G) (tsel : K → Bool) (out' : Out K C S N H) : List (N × C) :=
  r.repo.targets.flatMap fun t =>
    if tsel t.key then
      match r.tests t.key with
      | some td => (runtimeFiles r.repo r.ownName out' t.key td).getD []
      | none => []
    else []

/-- With the defect in, hashing a hard-linked path that carries no stored hash yet plants one on its inode
    (`Hash(…, store = true)`); an existing one is kept, stale or not. -/
def plantX (r : TRepo K A F N C A' G) (tsel : K → Bool) (out' : Out K C S N H) (xh : Nat → Option H) : Nat → Option H :=
  if fx.linkXattr then
    fun i => match xh i with
      | some h => some h
      | none => (seenFiles r tsel out').findSome? fun p => if r.linkOf p.1 = some i then some (pathSer p.2) else none
  else xh

variable (bfx : Build.Facts) (mv rs : C → C → C) (exec : A → List (N × C) → C) (ruleSer : A → S)

/-- The build phase of an invocation: with the cache configured `buildC`, else `build`. -/
def buildPhase (r : TRepo K A F N C A' G) (sel : K → Bool) (out : Out K C S N H) (bc : Build.Cache K C S N H) :
    Out K C S N H × Build.Cache K C S N H × List K :=
  if r.cacheOn then buildC bfx mv rs exec ruleSer pathSer r.repo sel out bc
  else ((build bfx mv exec ruleSer pathSer r.repo sel out).1, bc, (build bfx mv exec ruleSer pathSer r.repo sel out).2)

/-- One `plz test`: build `sel` (the closure of the requested tests), then test the requested ones.
    Returns the new state, the build actions executed and the per-test reports. -/
def testAll (r : TRepo K A F N C A' G) (sel tsel : K → Bool) (fl : Flags) (st : TState K C S N H (RStamp S' G N H)) :
    TState K C S N H (RStamp S' G N H) × List K × List (K × Option Report) :=
  let b := buildPhase pathSer bfx mv rs exec ruleSer r sel st.out st.bcache
  let t := testList fx ruleSerRT pathSer outcome r tsel fl st.out b.1 b.2.2 st.xh r.repo.targets st.res st.rcache
  (⟨b.1, t.1, b.2.1, t.2.1, plantX fx pathSer r tsel b.1 st.xh⟩, b.2.2, t.2.2)

def TState.empty : TState K C S N H R := ⟨fun _ => none, fun _ => none, fun _ => none, fun _ => none, fun _ => none⟩

/-- A fresh run: the same tree in a fresh directory (empty plz-out, no stored results, empty cache), default flags. -/
def freshRun (r : TRepo K A F N C A' G) (sel tsel : K → Bool) : List (K × Option Report) :=
  (testAll fx ruleSerRT pathSer outcome bfx mv rs exec ruleSer r sel tsel {} TState.empty).2.2

/-- One step of a user history. Edits to the tree (including switching the cache on or off in .plzconfig) show up in
    the `TRepo` of the next invocation. -/
inductive TOp (K A F N C S H A' G R : Type) where
  | test (r : TRepo K A F N C A' G) (sel tsel : K → Bool) (fl : Flags)      -- plz test
  | build (r : TRepo K A F N C A' G) (sel : K → Bool)                        -- plz build
  | rmOut (keep : K → Bool)                                                  -- remove outputs from plz-out
  | rmRes (keep : K → Bool)                                                  -- remove results files
  | evictB (keep : K × Stamp S N H → Bool)                                   -- evict build artifacts from the cache
  | evictR (keep : K × R → Bool)                                             -- evict results files from the cache

def runHistT : List (TOp K A F N C S H A' G (RStamp S' G N H)) → TState K C S N H (RStamp S' G N H) →
    TState K C S N H (RStamp S' G N H)
  | [], st => st
  | .test r sel tsel fl :: ops, st => runHistT ops (testAll fx ruleSerRT pathSer outcome bfx mv rs exec ruleSer r sel tsel fl st).1
  | .build r sel :: ops, st =>
    runHistT ops { st with out := (buildPhase pathSer bfx mv rs exec ruleSer r sel st.out st.bcache).1,
                           bcache := (buildPhase pathSer bfx mv rs exec ruleSer r sel st.out st.bcache).2.1 }
  | .rmOut keep :: ops, st => runHistT ops { st with out := fun k => if keep k then st.out k else none }
  | .rmRes keep :: ops, st => runHistT ops { st with res := fun k => if keep k then st.res k else none }
  | .evictB keep :: ops, st => runHistT ops { st with bcache := fun q => if keep q then st.bcache q else none }
  | .evictR keep :: ops, st => runHistT ops { st with rcache := fun q => if keep q then st.rcache q else none }

end
end PlzVerif.TestCache
