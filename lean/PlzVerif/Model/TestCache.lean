import PlzVerif.Model.Build
/-
Model of the test step (src/test/test_step.go `test`: `needToRun`, `cachedTestResults`, `cacheOutputFiles`,
`RemoveTestOutputs`; src/build/incrementality.go `RuntimeHash`; src/core/utils.go `IterRuntimeFiles`) on top of
the build model.  Core Lean only.

* One `plz test` = the build phase of `Model/Build.lean` followed, for every requested test target, by `testOne`.
* The results file `plz-out/bin/<pkg>/.test_results_<name>` carries (what it parses to, the runtime hash recorded
  on it in xattr `user.plz_test`).  Digests are idealised as the identity on pre-images: the recorded hash is the
  runtime PRE-IMAGE `RStamp`, whose shape is dictated by the regenerated facts: rule pre-image (runtime = true),
  config, and per `IterRuntimeFiles` entry the path pre-image — and the entry's NAME only if the code writes it
  (today it does not).  The path digests have a fixed width, so their unframed concatenation is a list.
* `outcome` is an arbitrary deterministic function of what the test can observe: its runtime attributes and the
  (name, tree) list that `PrepareRuntimeDir` materialises from `IterRuntimeFiles`.
-/
namespace PlzVerif.TestCache
open PlzVerif.Build

/-- `target.State()` after the build phase, as far as `needToRun` distinguishes. -/
inductive BState where
  | reused      -- needsBuilding = false
  | unchanged   -- rebuilt (or restored), outputs have the same hash as before
  | built       -- rebuilt, outputs changed
  | cached      -- restored from the cache, outputs changed
deriving DecidableEq, Repr

inductive Outcome where
  | pass    -- TestCases.AllSucceeded()
  | fail    -- Failures() > 0
  | error   -- neither (abnormal exit, e.g. a `no_test_output` test whose command returns non-zero)
deriving DecidableEq, Repr

/-- What the go/ast extractor reads from RuntimeHash / test() on every run (Generated/C11.lean). -/
structure Facts where
  hashesRule          : Bool          -- RuntimeHash contains RuleHash(runtime = true, …)
  hashesConfig        : Bool          -- … and state.Hashes.Config
  hashesFiles         : Bool          -- … and, per IterRuntimeFiles entry, its path hash
  hashesNames         : Bool          -- … and the entry's name (false today)
  rerunForces         : Bool          -- needToRun: `if state.ForceRerun { return true }`
  reuseStates         : List BState   -- needToRun: states in which the stored result is consulted
  verifiesHash        : Bool          -- needToRun: `!verifyHash(results file, hash)` ⇒ run
  singleRunOnly       : Bool          -- reuse is gated by `state.NumTestRuns == 1`
  removesBefore       : Bool          -- RemoveTestOutputs before the command is run
  storeIfAllSucceeded : Bool          -- the call of cacheOutputFiles is guarded by `AllSucceeded()`
  storeIfNoFailures   : Bool          -- cacheOutputFiles returns early when `results.Failures() > 0`
  storeIfNoArgs       : Bool          -- … and when test arguments were given
  cachedRejectsFailed : Bool          -- cachedTestResults ignores a stored result that is not AllSucceeded
deriving DecidableEq, Repr

/-- The code as read today. -/
def Facts.asCoded : Facts :=
  { hashesRule := true, hashesConfig := true, hashesFiles := true, hashesNames := false, rerunForces := true,
    reuseStates := [.unchanged, .reused], verifiesHash := true, singleRunOnly := true, removesBefore := true,
    storeIfAllSucceeded := true, storeIfNoFailures := true, storeIfNoArgs := true, cachedRejectsFailed := true }

/-- Runtime pre-image (what `RuntimeHash` digests), component by component. -/
structure RStamp (S G N H : Type) where
  rule  : Option S
  cfg   : Option G
  files : List (Option N × Option H)
deriving DecidableEq, Repr

/-- Test-time definition of a test target. -/
structure TestDef (K F A' : Type) where
  rattrs   : A'             -- everything ruleHash(runtime = true) reads: label, data entries as written, test command, …
  own      : Bool           -- the target has an output of its own (first entry of IterRuntimeFiles)
  dummy    : Bool           -- the command leaves no results file: what gets stored is the dummy (passing) one
  data     : List (F ⊕ K)   -- data entries in order: source files / directories, or labels

structure TRepo (K A F N C A' G : Type) where
  repo    : Repo K A F N C
  tests   : K → Option (TestDef K F A')
  ownName : K → N          -- destination of a test's OWN output in its runtime directory (the bare output name,
                           -- whereas the same file seen as somebody's data is `repo.outName`: package/output)
  cfg     : G

/-- Flags of one `plz test` invocation. -/
structure Flags where
  rerun   : Bool := false   -- --rerun
  numRuns : Nat  := 1       -- --num_runs
  hasArgs : Bool := false   -- arguments after `--`
deriving DecidableEq, Repr

/-- The results file: what it parses to and the hash recorded on it. -/
structure Stored (R : Type) where
  res   : Outcome
  stamp : R
deriving DecidableEq, Repr

structure Report where
  res    : Outcome
  cached : Bool     -- reported as a cached result
  runs   : Nat      -- how many times the test command was executed
deriving DecidableEq, Repr

abbrev Results (K R : Type) := K → Option (Stored R)

structure TState (K C S N H R : Type) where
  out : Out K C S N H
  res : Results K R

section
variable {K A F N C S H A' S' G : Type}
variable [DecidableEq K] [DecidableEq S] [DecidableEq N] [DecidableEq H] [DecidableEq S'] [DecidableEq G]

/-- `IterRuntimeFiles`' `done` map: an entry whose destination name was already yielded is skipped. -/
def dedupNames : List N → List (N × C) → List (N × C)
  | _, [] => []
  | seen, p :: ps => if seen.contains p.1 then dedupNames seen ps else p :: dedupNames (p.1 :: seen) ps

/-- One data entry of `IterRuntimeFiles`: a source file / directory as it is in the tree, or the output of a
    label as it is in plz-out now (`none`: not built). -/
def dataEntry (r : Repo K A F N C) (out : Out K C S N H) : F ⊕ K → Option (N × C)
  | .inl f => some (r.fname f, r.files f)
  | .inr l => (out l).map (fun p => (r.outName l, p.1))

/-- The target's own output, when it has one (first entries of `IterRuntimeFiles`). -/
def ownEntry (ownName : K → N) (out : Out K C S N H) (k : K) (own : Bool) : Option (List (N × C)) :=
  if own then (out k).map (fun p => [(ownName k, p.1)]) else some []

/-- The (destination name, tree) list of `IterRuntimeFiles`: own output, then the data entries in order,
    de-duplicated by destination name. `none`: something is not built. -/
def runtimeFiles (r : Repo K A F N C) (ownName : K → N) (out : Out K C S N H) (k : K) (td : TestDef K F A') :
    Option (List (N × C)) :=
  match ownEntry ownName out k td.own, td.data.mapM (dataEntry r out) with
  | some own, some ds => some (dedupNames [] (own ++ ds))
  | _, _ => none

variable (fx : Facts) (ruleSerRT : A' → S') (pathSer : C → H)

/-- `RuntimeHash` as written: rule pre-image, config, then per runtime file its path pre-image
    (and its name only when the code writes one). -/
def runtimeSer (cfg : G) (a : A') (files : List (N × C)) : RStamp S' G N H :=
  { rule := if fx.hashesRule then some (ruleSerRT a) else none,
    cfg := if fx.hashesConfig then some cfg else none,
    files := files.map (fun p => (if fx.hashesNames then some p.1 else none,
                                  if fx.hashesFiles then some (pathSer p.2) else none)) }

variable {R : Type} [DecidableEq R]

/-- `needToRun` with no artifact cache configured (the retrieve branch is a miss). -/
def needToRun (fl : Flags) (bs : BState) (stored : Option (Stored R)) (h : R) : Bool :=
  if fx.rerunForces && fl.rerun then true
  else match stored with
    | some s => if fx.reuseStates.contains bs then (fx.verifiesHash && s.stamp != h) else true
    | none => true

variable (outcome : A' → List (N × C) → Outcome)

/-- `test()` for one target: reuse the stored result or run the command; returns the new results file. -/
def testOne (fl : Flags) (bs : BState) (dummy : Bool) (a : A') (files : List (N × C)) (h : R)
    (stored : Option (Stored R)) : Option (Stored R) × Report :=
  let reuse := (!fx.singleRunOnly || fl.numRuns == 1) && !needToRun fx fl bs stored h
  let fromCache : Option Outcome :=
    if reuse then
      match stored with
      | some s => if fx.cachedRejectsFailed && s.res != .pass then none else some s.res    -- cachedTestResults
      | none => none
    else none
  match fromCache with
  | some o => (stored, ⟨o, true, 0⟩)
  | none =>
    let o := outcome a files
    let cleared := if fx.removesBefore then none else stored                               -- RemoveTestOutputs
    if fl.numRuns == 1 then
      let store := (!fx.storeIfAllSucceeded || o == .pass) && (!fx.storeIfNoFailures || o != .fail) &&
                   (!fx.storeIfNoArgs || !fl.hasArgs)                                      -- cacheOutputFiles
      (if store then some ⟨if dummy then .pass else o, h⟩ else cleared, ⟨o, false, 1⟩)
    else (cleared, ⟨o, false, fl.numRuns⟩)

/-- Target state after the build phase: not executed ⇒ Reused; executed and the output's hash is what it was ⇒
    Unchanged; otherwise Built. -/
def bstateOf (out out' : Out K C S N H) (ran : List K) (k : K) : BState :=
  if ran.contains k then
    match out k, out' k with
    | some p, some p' => if pathSer p.1 = pathSer p'.1 then .unchanged else .built
    | _, _ => .built
  else .reused

/-- The test phase over the target list (order of the list; reports are keyed). `none` report: the runtime
    files could not be collected (something is not built) and nothing is run. -/
def testList (r : TRepo K A F N C A' G) (tsel : K → Bool) (fl : Flags) (out0 out' : Out K C S N H) (ran : List K) :
    List (Target K A F) → Results K (RStamp S' G N H) → Results K (RStamp S' G N H) × List (K × Option Report)
  | [], res => (res, [])
  | t :: ts, res =>
    if tsel t.key then
      match r.tests t.key with
      | none => testList r tsel fl out0 out' ran ts res
      | some td =>
        match runtimeFiles r.repo r.ownName out' t.key td with
        | none =>
          let (res', reps) := testList r tsel fl out0 out' ran ts res
          (res', (t.key, none) :: reps)
        | some files =>
          let h := runtimeSer fx ruleSerRT pathSer r.cfg td.rattrs files
          let (s', rep) := testOne fx outcome fl (bstateOf pathSer out0 out' ran t.key) td.dummy td.rattrs files h (res t.key)
          let (res', reps) := testList r tsel fl out0 out' ran ts (fun j => if j = t.key then s' else res j)
          (res', (t.key, some rep) :: reps)
    else testList r tsel fl out0 out' ran ts res

variable (bfx : Build.Facts) (mv : C → C → C) (exec : A → List (N × C) → C) (ruleSer : A → S)

/-- One `plz test`: build `sel` (the closure of the requested tests), then test the requested ones.
    Returns the new state, the build actions executed and the per-test reports. -/
def testAll (r : TRepo K A F N C A' G) (sel tsel : K → Bool) (fl : Flags) (st : TState K C S N H (RStamp S' G N H)) :
    TState K C S N H (RStamp S' G N H) × List K × List (K × Option Report) :=
  let b := build bfx mv exec ruleSer pathSer r.repo sel st.out
  let t := testList fx ruleSerRT pathSer outcome r tsel fl st.out b.1 b.2 r.repo.targets st.res
  (⟨b.1, t.1⟩, b.2, t.2)

def TState.empty : TState K C S N H R := ⟨fun _ => none, fun _ => none⟩

/-- A fresh run: the same tree in a fresh directory (empty plz-out, no stored results), default flags. -/
def freshRun (r : TRepo K A F N C A' G) (sel tsel : K → Bool) : List (K × Option Report) :=
  (testAll fx ruleSerRT pathSer outcome bfx mv exec ruleSer r sel tsel {} TState.empty).2.2

/-- One step of a user history. Edits to the tree show up in the `TRepo` of the next invocation. -/
inductive TOp (K A F N C A' G : Type) where
  | test (r : TRepo K A F N C A' G) (sel tsel : K → Bool) (fl : Flags)      -- plz test
  | build (r : Repo K A F N C) (sel : K → Bool)                              -- plz build
  | rmOut (keep : K → Bool)                                                  -- remove outputs from plz-out
  | rmRes (keep : K → Bool)                                                  -- remove results files

def runHistT : List (TOp K A F N C A' G) → TState K C S N H (RStamp S' G N H) → TState K C S N H (RStamp S' G N H)
  | [], st => st
  | .test r sel tsel fl :: ops, st => runHistT ops (testAll fx ruleSerRT pathSer outcome bfx mv exec ruleSer r sel tsel fl st).1
  | .build r sel :: ops, st => runHistT ops ⟨(build bfx mv exec ruleSer pathSer r sel st.out).1, st.res⟩
  | .rmOut keep :: ops, st => runHistT ops ⟨fun k => if keep k then st.out k else none, st.res⟩
  | .rmRes keep :: ops, st => runHistT ops ⟨st.out, fun k => if keep k then st.res k else none⟩

end
end PlzVerif.TestCache
