import PlzVerif.Model.Query
import PlzVerif.Generated.C23
/-! The `Cfg` of the query models as regenerated from /repo on this run. -/
namespace PlzVerif.Query
open PlzVerif.Generated

def genCfg : Cfg where
  incPrint := C23.depsBranchIncs.getD 0 99
  incSame := C23.depsBranchIncs.getD 1 99
  incOther := C23.depsBranchIncs.getD 2 99
  gateStrict := C23.revGate != "NEXT.DEPTH <= R.maxDepth || R.maxDepth == -1"

end PlzVerif.Query
