/-
Model of `core.ReplaceSequences` (src/core/command_replacements.go) and of what it relies on:
`LooksLikeABuildLabel`/`TryParseBuildLabel` (build_label.go), `DependenciesFor`/`IsTool`/`OutDir`
(build_target.go), `filepath.Join`/`Clean`, the first level of `IterSources` (utils.go: the files
`prepareSources` links into the build directory), and a POSIX-subset word splitter `shellWords`.

Core Lean only.  Go strings are modelled as `List Char` (valid UTF-8 only; all offsets the code uses are
over ASCII prefixes, so byte and character offsets agree).

Regenerated facts enter as parameters: the table of replacement sequences (`SeqDef`: keyword, slice
offset, the five flags passed to `replaceSequence`, in the order the passes run) and the character set and
wrappers of `quote` (`QuoteFacts`).

Not modelled: `$(worker …)`, Bazel compatibility rewrites, remote execution (`WillRunRemotely = false`),
subrepo *targets* (`Subrepo == nil`, `IsSubrepo == false`), named tools / test tools in `IsTool`,
require/provide beyond what `ResolveDependencies` already stored in `depInfo.deps`, `$(hash file)`.
-/
namespace PlzVerif.Cmd

abbrev Str := List Char

/-! ### string helpers (Go `strings` package on ASCII patterns) -/

def stripPrefix? : Str → Str → Option Str
  | s, [] => some s
  | [], _ :: _ => none
  | c :: s, p :: ps => if c = p then stripPrefix? s ps else none

def hasPrefix (s p : Str) : Bool := (stripPrefix? s p).isSome

def hasSuffix (s p : Str) : Bool := hasPrefix s.reverse p.reverse

/-- `strings.Index(s, pat)` for a non-empty pattern. -/
def indexOf (pat : Str) : Str → Option Nat
  | [] => none
  | c :: cs => if hasPrefix (c :: cs) pat then some 0 else (indexOf pat cs).map (· + 1)

def containsSub (s pat : Str) : Bool := (indexOf pat s).isSome

def containsAny (s chars : Str) : Bool := s.any (fun c => chars.contains c)

/-- `strings.Split(s, sep)` for a single-character separator. -/
def splitOnChar (sep : Char) : Str → List Str
  | [] => [[]]
  | c :: cs =>
    match splitOnChar sep cs with
    | [] => [[c]]        -- unreachable: the result is never empty
    | w :: ws => if c = sep then [] :: w :: ws else (c :: w) :: ws

def joinWith (sep : Str) : List Str → Str
  | [] => []
  | [x] => x
  | x :: y :: r => x ++ sep ++ joinWith sep (y :: r)

/-- `strings.TrimRight(s, " ")`. -/
def trimRightSpaces (s : Str) : Str := (s.reverse.dropWhile (· = ' ')).reverse

/-- `strings.TrimRight(s, "/")`. -/
def trimRightSlashes (s : Str) : Str := (s.reverse.dropWhile (· = '/')).reverse

/-- `strings.LastIndexByte(s, c)`: the suffix after the last `c`, if any. -/
def afterLast (c : Char) (s : Str) : Option Str :=
  match (splitOnChar c s).reverse with
  | last :: _ :: _ => some last
  | _ => none

/-! ### `filepath.Clean` / `filepath.Join` (Unix) -/

def cleanStep (rooted : Bool) (stack : List Str) (comp : Str) : List Str :=
  if comp = [] ∨ comp = ['.'] then stack
  else if comp = ['.', '.'] then
    match stack with
    | [] => if rooted then [] else [['.', '.']]
    | top :: rest => if top = ['.', '.'] then ['.', '.'] :: top :: rest else rest
  else comp :: stack

/-- `filepath.Clean`. The stack is kept reversed. -/
def pathClean (p : Str) : Str :=
  if p = [] then ['.'] else
  let rooted := hasPrefix p ['/']
  let comps := (splitOnChar '/' p).foldl (cleanStep rooted) []
  let body := joinWith ['/'] comps.reverse
  if rooted then '/' :: body else if body = [] then ['.'] else body

/-- `filepath.Join(elems…)`: leading empty elements are dropped, the rest joined with `/` and cleaned. -/
def pathJoin (elems : List Str) : Str :=
  match elems.dropWhile (· = []) with
  | [] => []
  | es => pathClean (joinWith ['/'] es)

/-! ### build labels -/

structure Label where
  sub : Str
  pkg : Str
  name : Str
deriving DecidableEq, Repr

def pkgBadChars : Str := "|$*?[]{}:()&\\".toList
def nameBadChars : Str := "|$*?[]{}:()&/\\".toList
def buildDirSuffix : Str := "._build".toList
def testDirSuffix : Str := "._test".toList

/-- `validatePackageName`. -/
def validPkg (n : Str) : Bool :=
  n = [] || (n.head? != some '/' && n.getLast? != some '/' && !containsAny n pkgBadChars && !containsSub n ['/', '/'])

/-- `validateTargetName`. -/
def validName (n : Str) : Bool :=
  n != [] && !containsAny n nameBadChars && (n.head? != some '.' || n = ['.', '.', '.']) &&
  !hasSuffix n buildDirSuffix && !hasSuffix n testDirSuffix

/-- `LooksLikeABuildLabel`. -/
def looksLikeLabel (s : Str) : Bool :=
  hasPrefix s ['/', '/'] || hasPrefix s [':'] || (hasPrefix s ['@'] && (s.contains ':' || containsSub s ['/', '/']))

/-- `ParseBuildLabelParts` / `parseBuildLabelSubrepo` (mutually recursive in Go on ever shorter
    suffixes; `fuel` bounds the nesting, `parseParts_fuel` in Lemmas shows `length + 1` is never exhausted).
    Result `(pkg, name, subrepo)`; an empty name means "invalid". -/
def parseParts : Nat → Str → Str → Str → Str × Str × Str
  | 0, _, _, _ => ([], [], [])
  | fuel + 1, target, currentPath, subrepo =>
    let subrepoForm (t : Str) : Str × Str × Str :=
      -- parseBuildLabelSubrepo(t, currentPath)
      let cont (idx : Nat) : Str × Str × Str :=
        if (t.take idx).contains ':' then ([], [], [])
        else
          let (pkg, name, _) := parseParts fuel (t.drop idx) currentPath []
          (pkg, name, t.take idx)
      match indexOf ['/', '/'] t with
      | some idx => cont idx
      | none =>
        match indexOf [':'] t with
        | some idx => cont idx
        | none =>
          match afterLast '/' t with
          | some last => ([], last, t)
          | none => ([], t, t)
    if target.length < 2 then ([], [], [])
    else if hasPrefix target [':'] then
      if validName (target.drop 1) then (currentPath, target.drop 1, []) else ([], [], [])
    else if hasPrefix target ['@'] then subrepoForm (target.drop 1)
    else if hasPrefix target ['/', '/', '/'] then subrepoForm (target.drop 3)
    else if !hasPrefix target ['/', '/'] then ([], [], [])
    else
      match indexOf [':'] target with
      | some idx =>
        let pkg := (target.take idx).drop 2
        let name := target.drop (idx + 1)
        if !validPkg pkg || !validName name || name = ['.', '.', '.'] then ([], [], [])
        else (pkg, name, subrepo)
      | none =>
        let rest := target.drop 2
        if !validPkg rest then ([], [], [])
        else if hasSuffix target ['/', '.', '.', '.'] then
          (trimRightSlashes (rest.take (rest.length - 3)), ['.', '.', '.'], [])
        else
          -- `target` starts with "//" so LastIndexByte never fails
          match afterLast '/' target with
          | some last => (rest, last, subrepo)
          | none => (rest, rest, subrepo)

/-- `TryParseBuildLabel`. -/
def tryParseLabel (target currentPath subrepo : Str) : Option Label :=
  let (pkg, name, sub) := parseParts (target.length + 1) target currentPath subrepo
  if name = [] then none else some ⟨sub, pkg, name⟩

/-- `BuildLabel.String()` for ordinary labels. -/
def Label.str (l : Label) : Str :=
  let s := ['/', '/'] ++ l.pkg
  let s := if l.sub = [] then s else ['/', '/', '/'] ++ l.sub ++ s
  if l.name = ['.', '.', '.'] then (if l.pkg = [] then s ++ l.name else s ++ ['/'] ++ l.name)
  else s ++ [':'] ++ l.name

/-- `splitEntryPoint`. -/
def splitEntryPoint (s : Str) : Str × Str :=
  if s.contains '|' then
    match splitOnChar '|' s with
    | a :: b :: _ => (a, b)
    | _ => (s, [])
  else (s, [])

/-! ### targets -/

/-- What `checkAndReplaceSequence` reads of a (dependency) target. -/
structure TSpec where
  label : Label
  outs : List Str            -- `Outputs()` (already sorted by the code)
  bin : Bool                 -- `IsBinary`
  eps : List (Str × Str)     -- `EntryPoints` (a Go map: keys unique)
  extra : List Str           -- the outputs that are NOT plain declared `outs = [...]`: named outputs
                             -- (`outs = {"hdrs": [...]}`) and the outputs a filegroup derives from its sources
deriving Repr

/-- `DeclaredOutputs()`: only the outputs declared as a plain list.  `Outputs()` (= `outs`) is the sorted union of
    declared, named and filegroup-derived outputs. -/
def TSpec.declared (d : TSpec) : List Str := d.outs.filter fun o => !d.extra.contains o

/-- A `BuildInput` as the replacement code sees it: `String()` and `Label()`. -/
structure Input where
  str : Str
  label : Option Label
deriving Repr

/-- One `depInfo`: the declared label, how it was declared and the resolved targets.
    Roles (bits): 1 = source, 2 = plain dependency, 4 = tool, 8 = data. -/
structure DepDecl where
  declared : Label
  roles : Nat
  deps : List TSpec
deriving Repr

def DepDecl.isSrc (d : DepDecl) : Bool := d.roles % 2 = 1
def DepDecl.isDep (d : DepDecl) : Bool := (d.roles / 2) % 2 = 1
def DepDecl.isTool (d : DepDecl) : Bool := (d.roles / 4) % 2 = 1
def DepDecl.isData (d : DepDecl) : Bool := (d.roles / 8) % 2 = 1
/-- `depInfo.source`: declared *only* through `srcs`. -/
def DepDecl.sourceOnly (d : DepDecl) : Bool := d.isSrc && !d.isDep && !d.isTool && !d.isData

structure Target where
  spec : TSpec
  srcs : List Input          -- `AllSources()`
  tools : List Input         -- `Tools`
  deps : List DepDecl        -- `dependencies`
deriving Repr

/-- `dependenciesFor`. -/
def Target.dependenciesFor (t : Target) (l : Label) : List TSpec :=
  match t.deps.find? (fun d => d.declared = l) with
  | some d => d.deps
  | none =>
    if t.spec.label.sub ≠ [] ∧ l.sub = [] then
      match t.deps.find? (fun d => d.declared = { l with sub := t.spec.label.sub }) with
      | some d => d.deps
      | none => []
    else []

/-- `IsTool` (unnamed build tools only). -/
def Target.isTool (t : Target) (l : Label) : Bool := t.tools.any (fun i => i.label = some l)

def genDir : Str := "plz-out/gen".toList
def binDir : Str := "plz-out/bin".toList

/-- `Label.PackageDir()`: the package name, "." for the root package. -/
def TSpec.pkgDir (d : TSpec) : Str := if d.label.pkg = [] then ['.'] else d.label.pkg

/-- `OutDir()` for a non-subrepo target. -/
def TSpec.outDir (d : TSpec) : Str := pathJoin [if d.bin then binDir else genDir, d.label.sub, d.label.pkg]

/-! ### regenerated facts -/

structure SeqDef where
  kw : Str
  off : Nat
  runnable : Bool
  multiple : Bool
  dir : Bool
  outPrefix : Bool
  hash : Bool
deriving Repr, DecidableEq

structure QuoteFacts where
  chars : Str
  left : Str
  right : Str
  guardDeclared : Bool := false   -- the "has multiple outputs" guard counts DeclaredOutputs() instead of Outputs()
deriving Repr, DecidableEq

inductive Err | multi | notexe | noout | testtool | zero | nodep | badlabel | noep | hashfile | slice
deriving Repr, DecidableEq

def Err.name : Err → String
  | .multi => "multi" | .notexe => "notexe" | .noout => "noout" | .testtool => "testtool" | .zero => "zero"
  | .nodep => "nodep" | .badlabel => "badlabel" | .noep => "noep" | .hashfile => "hashfile" | .slice => "slice"

instance : DecidableEq (Except Err Str)
  | .ok a, .ok b => if h : a = b then isTrue (by rw [h]) else isFalse (by intro e; cases e; exact h rfl)
  | .error a, .error b => if h : a = b then isTrue (by rw [h]) else isFalse (by intro e; cases e; exact h rfl)
  | .ok _, .error _ => isFalse (by intro e; cases e)
  | .error _, .ok _ => isFalse (by intro e; cases e)

/-! ### the replacement itself -/

/-- `quote`. -/
def quote (q : QuoteFacts) (s : Str) : Str := if containsAny s q.chars then q.left ++ s ++ q.right else s

/-- `handleDir`. -/
def handleDir (outDir out : Str) (dir : Bool) : Str := if dir then outDir else pathJoin [outDir, out]

/-- `fileDestination`; `self` is the Go pointer comparison `target == dep`. -/
def fileDestination (self : Bool) (dep : TSpec) (out : Str) (dir outPrefix test : Bool) : Str :=
  if outPrefix then handleDir dep.outDir out dir
  else if test && self then ['.', '/'] ++ out
  else handleDir dep.pkgDir out dir

/-- The constant `$(hash //label)` expands to in the harness (a fixed `TargetHasher`). -/
def hashStub : Str := "gB4sUwsLkB1ODYKUxYrKGlpdYUI".toList

/-- The paths one label sequence names, before quoting: the body of the output loop of
    `checkAndReplaceSequence`. -/
def seqPaths (root : Str) (self : Bool) (dep : TSpec) (inp : Str) (dir outPrefix test allOutputs tool : Bool) : List Str :=
  let sel := dep.outs.filter (fun out => allOutputs || out = inp)
  let sel := if dir then sel.take 1 else sel
  sel.map fun out =>
    if tool then pathJoin [root, handleDir dep.outDir out dir]    -- filepath.Abs
    else fileDestination self dep out dir outPrefix test

/-- The output loop: `quote(path) + " "` per path, then `TrimRight(…, " ")`. -/
def render (q : QuoteFacts) (paths : List Str) : Str :=
  trimRightSpaces (paths.flatMap fun p => quote q p ++ [' '])

/-- `checkAndReplaceSequence`. -/
def checkAndReplace (q : QuoteFacts) (root : Str) (self : Bool) (dep : TSpec) (ep inp : Str)
    (runnable multiple dir outPrefix hash test allOutputs tool : Bool) : Except Err Str :=
  if allOutputs && !multiple && (if q.guardDeclared then dep.declared.length else dep.outs.length) > 1 && ep = [] then .error .multi
  else if runnable && !dep.bin then .error .notexe
  else if runnable && dep.outs.length = 0 then .error .noout
  else if test && tool then .error .testtool
  else if allOutputs && !multiple && dep.outs.length = 0 && ep = [] then .error .zero
  else if hash then .ok hashStub
  else if ep = [] then .ok (render q (seqPaths root self dep inp dir outPrefix test allOutputs tool))
  else
    match dep.eps.find? (fun e => e.1 = ep) with
    | none => .error .noep       -- log.Fatalf in Go
    | some e =>
      if tool then .ok (quote q (pathJoin [root, handleDir dep.outDir e.2 dir]))    -- filepath.Abs, as in the loop
      else .ok (quote q (fileDestination self dep e.2 dir outPrefix test))

/-- `replaceSequenceLabel`. -/
def replaceSequenceLabel (q : QuoteFacts) (root : Str) (t : Target) (label : Label) (ep inp : Str)
    (runnable multiple dir outPrefix hash test allOutputs : Bool) : Except Err Str :=
  if label = t.spec.label then
    checkAndReplace q root true t.spec ep inp runnable multiple dir outPrefix hash test allOutputs false
  else
    match t.dependenciesFor label with
    | [] => .error .nodep
    | dep :: _ =>
      checkAndReplace q root false dep ep inp runnable multiple dir outPrefix hash test allOutputs (t.isTool label)

/-- The loop over `sourcesOrTools` in `replaceSequence`. -/
def matchInputs (q : QuoteFacts) (root : Str) (t : Target) (inp : Str)
    (runnable multiple dir outPrefix hash test : Bool) : List Input → Option (Except Err Str)
  | [] => none
  | src :: rest =>
    match src.label with
    | some l =>
      if src.str = inp then
        some (replaceSequenceLabel q root t l [] inp runnable multiple dir outPrefix hash test false)
      else matchInputs q root t inp runnable multiple dir outPrefix hash test rest
    | none =>
      if runnable && src.str = inp then some (.ok src.str)
      else matchInputs q root t inp runnable multiple dir outPrefix hash test rest

/-- `replaceSequence`. -/
def replaceSequence (q : QuoteFacts) (root : Str) (t : Target) (inp : Str)
    (runnable multiple dir outPrefix hash test : Bool) : Except Err Str :=
  if looksLikeLabel inp then
    let (inp', ep) := splitEntryPoint inp
    match tryParseLabel inp' t.spec.label.pkg t.spec.label.sub with
    | none => .error .badlabel
    | some label => replaceSequenceLabel q root t label ep inp' runnable multiple dir outPrefix hash test true
  else
    match matchInputs q root t inp runnable multiple dir outPrefix hash test (if runnable then t.tools else t.srcs) with
    | some r => r
    | none =>
      if hash then .error .hashfile
      else if hasPrefix inp ['/'] then .ok inp
      else .ok (quote q (pathJoin [t.spec.label.pkg, inp]))

/-! ### the regular-expression passes -/

/-- Match `\$\(kw ([^\)]+)\)` at the head of `s`: the matched text and what follows it. -/
def matchSeq (kw : Str) (s : Str) : Option (Str × Str) :=
  match stripPrefix? s (['$', '('] ++ kw ++ [' ']) with
  | none => none
  | some r =>
    let arg := r.takeWhile (· ≠ ')')
    match arg, r.dropWhile (· ≠ ')') with
    | [], _ => none
    | _ :: _, ')' :: rest => some (['$', '('] ++ kw ++ [' '] ++ arg ++ [')'], rest)
    | _ :: _, _ => none

/-- `ReplaceAllStringFunc` for one sequence regex (leftmost, non-overlapping).  `fuel` bounds the number
    of steps; `s.length` always suffices (`replaceAll_fuel`). -/
def replaceAll (kw : Str) (f : Str → Except Err Str) : Nat → Str → Except Err Str
  | _, [] => .ok []
  | 0, _ => .error .slice
  | fuel + 1, c :: cs =>
    match matchSeq kw (c :: cs) with
    | some (m, rest) => do
      let r ← f m
      let t ← replaceAll kw f fuel rest
      pure (r ++ t)
    | none => do
      let t ← replaceAll kw f fuel cs
      pure (c :: t)

/-- `strings.ReplaceAll(cmd, "\\$", "$")`. -/
def unescapeDollar : Str → Str
  | '\\' :: '$' :: rest => '$' :: unescapeDollar rest
  | c :: rest => c :: unescapeDollar rest
  | [] => []

/-- One pass: the callback slices `in[off : len(in)-1]` and calls `replaceSequence`. -/
def seqPass (q : QuoteFacts) (root : Str) (t : Target) (test : Bool) (sd : SeqDef) (cmd : Str) : Except Err Str :=
  replaceAll sd.kw (fun m =>
    if sd.off + 1 > m.length then .error .slice
    else replaceSequence q root t ((m.drop sd.off).take (m.length - sd.off - 1))
      sd.runnable sd.multiple sd.dir sd.outPrefix sd.hash test) cmd.length cmd

/-- `replaceSequencesInternal` (Bazel compatibility off). -/
def replaceSequences (seqs : List SeqDef) (q : QuoteFacts) (root : Str) (t : Target) (test : Bool) (cmd : Str) : Except Err Str := do
  let r ← seqs.foldlM (fun c sd => seqPass q root t test sd c) cmd
  pure (unescapeDollar r)

/-! ### what exists when the command runs -/

/-- `BuildLabel.Paths`: outputs under the package directory. -/
def TSpec.paths (d : TSpec) : List Str := d.outs.map fun o => pathJoin [d.pkgDir, o]

/-- `BuildLabel.FullPaths` / `FullOutputs`: outputs under `plz-out/{gen,bin}`. -/
def TSpec.fullPaths (d : TSpec) : List Str := d.outs.map fun o => pathJoin [d.outDir, o]

/-- First level of `IterSources(state, graph, target, false)`: paths, relative to the build directory, of
    everything `prepareSources` links in (sources, then non-tool build dependencies). -/
def Target.tmpPaths (t : Target) : List Str :=
  let ofSrc (i : Input) : List Str :=
    match i.label with
    | some l => (t.dependenciesFor l).flatMap TSpec.paths
    | none => [pathJoin [t.spec.label.pkg, i.str]]
  let ofDep (d : DepDecl) : List Str :=
    if d.sourceOnly || d.isData then []
    else (d.deps.filter fun x => !t.isTool x.label).flatMap TSpec.paths
  t.srcs.flatMap ofSrc ++ t.deps.flatMap ofDep

/-! ### a POSIX-subset word splitter

`shellWords s = some ws` claims: a POSIX shell parses `cmd s` as one simple command whose arguments are
exactly `ws`, with no expansion of any kind.  `none` = outside the subset (operators, `$`, backtick, glob
characters, `~`, `#`, braces, `!`, control characters) or a syntax error (unbalanced quotes).  On texts
made only of ordinary characters, blanks, quotes and backslashes the correspondence run checks that
`none` coincides with a bash syntax error and `some ws` with bash's argument vector. -/

/-- Characters with a special meaning somewhere in the shell grammar (besides blanks and controls). -/
def specialChars : List Char :=
  ['"', '\'', '\\', '$', '`', '*', '?', '[', '~', '#', '{', '}', '!', '|', '&', ';', '(', ')', '<', '>', '=', '%', '^']

/-- Characters that are ordinary everywhere. -/
def plainChar (c : Char) : Bool := c.toNat > 32 && c.toNat ≠ 127 && !specialChars.contains c

/-- Characters that are literal inside double quotes. -/
def dqLiteral (c : Char) : Bool := c.toNat ≥ 32 && c.toNat ≠ 127 && !(['"', '\\', '$', '`', '!'].contains c)

/-- Characters that are literal when unquoted: the plain ones and `=`, `%`, `^` (literal in argument
    position). -/
def unqLiteral (c : Char) : Bool := plainChar c || c = '=' || c = '%' || c = '^'

inductive Mode | unq | sq | dq
deriving DecidableEq, Repr

/-- `cur` is the current word reversed; `started` records that a word is in progress (so `''` is a word). -/
def sw : Mode → Bool → Str → Str → Option (List Str)
  | .unq, started, cur, [] => some (if started then [cur.reverse] else [])
  | .sq, _, _, [] => none
  | .dq, _, _, [] => none
  | .unq, started, cur, c :: rest =>
    if c = ' ' || c = '\t' then
      if started then (sw .unq false [] rest).map (cur.reverse :: ·) else sw .unq false [] rest
    else if c = '\'' then sw .sq true cur rest
    else if c = '"' then sw .dq true cur rest
    else if c = '\\' then
      match rest with
      | d :: rest' => if (d.toNat ≥ 32 && d.toNat ≠ 127) || d = '\t' then sw .unq true (d :: cur) rest' else none
      | [] => some [('\\' :: cur).reverse]      -- bash keeps a trailing backslash
    else if unqLiteral c then sw .unq true (c :: cur) rest
    else none
  | .sq, started, cur, c :: rest =>
    if c = '\'' then sw .unq started cur rest
    else if c.toNat ≥ 32 && c.toNat ≠ 127 || c = '\t' || c = '\n' then sw .sq started (c :: cur) rest
    else none
  | .dq, started, cur, c :: rest =>
    if c = '"' then sw .unq started cur rest
    else if c = '\\' then
      match rest with
      | d :: rest' =>
        if d = '$' || d = '`' || d = '"' || d = '\\' then sw .dq started (d :: cur) rest'
        else if dqLiteral d then sw .dq started (d :: '\\' :: cur) rest'
        else none
      | [] => none
    else if dqLiteral c || c = '\t' then sw .dq started (c :: cur) rest
    else none


def shellWords (s : Str) : Option (List Str) := sw .unq false [] s

end PlzVerif.Cmd
