import PlzVerif.Model.Build
import PlzVerif.Generated.C01
/-! The facts record the build model is instantiated with on this run (regenerated from /repo). -/
namespace PlzVerif.Build
open PlzVerif.Generated

def generatedFacts : Facts :=
  { cmpRule := C01.needsBuildingCompares.contains "rule",
    cmpSource := C01.needsBuildingCompares.contains "source",
    keepOld := C01.moveOutputKeepsOldOnEqualHash }

/-- Decidable side condition under which the C01/C03 theorems apply to the regenerated facts. -/
def FactsOK : Bool :=
  generatedFacts.cmpRule && generatedFacts.cmpSource &&
  C01.needsBuildingChecksOutputs && C01.needsBuildingChecksMetadata &&
  C01.sourceHashPerSource == ["hash", "name"] && C01.sourceHashPerTool == ["hash"] &&
  -- the pre-build record read back is (rule, config, source, secret) at the offsets it is written with
  C01.xattrSlices.contains "rule=0:hashLength" && C01.xattrSlices.contains "config=2*hashLength:3*hashLength" &&
  C01.xattrSlices.contains "source=3*hashLength:4*hashLength" && C01.xattrSlices.contains "secret=4*hashLength:fullHashLength"

end PlzVerif.Build
