/-
Model of the directory cache's cleaner (src/cache/dir_cache.go: clean, shouldClean, markDir, isMarked) and of the
names Store gives to an entry and to its temporary.  Core Lean only.  Names and paths are byte strings.
-/
namespace PlzVerif.Clean

abbrev Bytes := List Nat

/-! ## Which names are entries -/

/-- `((len(name) == a || len(name) == b) && name[i] == c) || …` — the shapes are regenerated facts. -/
def shapeOK (shapes : List (List Nat × Nat × Nat)) (name : Bytes) : Bool :=
  shapes.any fun s => s.1.contains name.length && name[s.2.1]? == some s.2.2

def isSuffix (sfx name : Bytes) : Bool := name.drop (name.length - sfx.length) == sfx

/-- `shouldClean(name, isDir)`: compressed caches look at files only, plain ones at directories only; the cache's
    suffix must be there and is trimmed; what is left must have the shape of an encoded key (optionally followed by
    one more character). -/
def shouldClean (shapes : List (List Nat × Nat × Nat)) (sfx : Bytes) (compress isDir : Bool) (name : Bytes) : Bool :=
  if compress == isDir then false
  else if !isSuffix sfx name then false
  else shapeOK shapes (name.take (name.length - sfx.length))

/-- `getFullPath`: `<dir>/<b64 key>` + extra + suffix + cache.Suffix; Store uses suffix "" for the entry and the
    regenerated `tmpSuffix` for the temporary (extra is "" in both). -/
def entryName (b64 sfx : Bytes) : Bytes := b64 ++ sfx
def tmpName (b64 tmpSfx sfx : Bytes) : Bytes := b64 ++ tmpSfx ++ sfx

/-- `markDir(path)` protects `path` and `path + "="`. -/
def markKeys (path : Bytes) : List Bytes := [path, path ++ [61]]

/-! ## The cleaner -/

structure Entry where
  path : Bytes
  size : Nat
  atime : Int
  deriving DecidableEq, Repr

/-- `cache.added`: protected paths with the size recorded for them. -/
abbrev Marks := Bytes → Option Nat

/-- The walk over the recognised entries on disk: a marked one adds its RECORDED size to the total and is not a
    candidate; an unmarked one adds its walked size and becomes a candidate. -/
def scan (marks : Marks) (found : List Entry) : List Entry × Nat :=
  found.foldl (fun acc e =>
    match marks e.path with
    | some sz => (acc.1, acc.2 + sz)
    | none => (acc.1 ++ [e], acc.2 + e.size)) ([], 0)

/-- What the eviction loop did with the candidates. -/
structure Outcome where
  evicted : List Entry     -- renamed aside and removed
  kept : List Entry        -- untouched: marked, not renameable, or after the loop stopped
  half : List Entry        -- renamed aside, but the removal of the renamed entry failed: gone under its name, left
                           -- (possibly partly deleted) as `<path>=`; its size is NOT subtracted
  total : Nat
  deriving DecidableEq, Repr

/-- The eviction loop over the candidates in the order `sort.Slice` left them (ANY order: the comparator with a
    grace period is not a strict weak order).  `marks'` are the marks as the loop sees them at its `isMarked` test
    (entries may have been marked since the walk); `rn p` / `rm p` say that `os.Rename(p, p+"=")` / `RemoveAll(p+"=")`
    succeed — both failures are logged and the loop `continue`s. -/
def evict (marks' : Marks) (rn rm : Bytes → Bool) (low : Nat) : List Entry → Nat → Outcome
  | [], t => ⟨[], [], [], t⟩
  | e :: rest, t =>
    if (marks' e.path).isSome then
      let r := evict marks' rn rm low rest t
      { r with kept := e :: r.kept }
    else if !rn e.path then
      let r := evict marks' rn rm low rest t
      { r with kept := e :: r.kept }
    else if !rm e.path then
      let r := evict marks' rn rm low rest t
      { r with half := e :: r.half }
    else
      let t' := t - e.size
      if t' < low then ⟨[e], rest, [], t'⟩
      else
        let r := evict marks' rn rm low rest t'
        { r with evicted := e :: r.evicted }

/-- The same loop when the marks change WHILE it runs (this process stores and retrieves during the pass): every
    candidate comes with the marks in force at the moment of its own `isMarked` test. -/
def evictP (rn rm : Bytes → Bool) (low : Nat) : List (Entry × Marks) → Nat → Outcome
  | [], t => ⟨[], [], [], t⟩
  | (e, m) :: rest, t =>
    if (m e.path).isSome then
      let r := evictP rn rm low rest t
      { r with kept := e :: r.kept }
    else if !rn e.path then
      let r := evictP rn rm low rest t
      { r with kept := e :: r.kept }
    else if !rm e.path then
      let r := evictP rn rm low rest t
      { r with half := e :: r.half }
    else
      let t' := t - e.size
      if t' < low then ⟨[e], rest.map (·.1), [], t'⟩
      else
        let r := evictP rn rm low rest t'
        { r with evicted := e :: r.evicted }

/-- `clean(high, low)`. `order` is what the sort made of the candidates. -/
def clean (marks marks' : Marks) (rn rm : Bytes → Bool) (high low : Nat) (found order : List Entry) : Outcome :=
  let sc := scan marks found
  if sc.2 < high then ⟨[], sc.1, [], sc.2⟩ else evict marks' rn rm low order sc.2

/-- The order the sort produces when every two candidates are at least a grace period apart: oldest first. -/
def insertByAtime (e : Entry) : List Entry → List Entry
  | [] => [e]
  | x :: xs => if e.atime < x.atime then e :: x :: xs else x :: insertByAtime e xs

def sortByAtime (l : List Entry) : List Entry := l.foldr insertByAtime []

def sizeSum (l : List Entry) : Nat := (l.map (·.size)).sum

/-- What one pass of the cleaner may do, stated on its OUTCOME (the evicted entries and the returned total)
    without reference to any eviction order.  `marks` are the marks the walk saw, `marks'` those the loop saw
    (entries may be marked in between; sequentially the two are equal).  No removal fails.
    * below the high-water mark nothing is touched;
    * otherwise only candidates of the walk that are still unmarked go, the returned total is the walked total
      minus what went, the total is below the low-water mark or every candidate went or got marked meanwhile,
      and (for sane water marks, low ≤ high) the pass did not go on after reaching the low-water mark: some
      evicted entry was still needed. -/
def specOK (marks marks' : Marks) (high low : Nat) (found evicted : List Entry) (total' : Nat) : Bool :=
  let sc := scan marks found
  if sc.2 < high then evicted.isEmpty && total' == sc.2
  else
    evicted.all (fun e => sc.1.contains e && (marks' e.path).isNone) &&
    total' + sizeSum evicted == sc.2 &&
    (decide (total' < low) || sc.1.all (fun e => evicted.contains e || (marks' e.path).isSome)) &&
    (decide (high < low) || evicted.isEmpty || evicted.any (fun e => decide (low ≤ total' + e.size)))

end PlzVerif.Clean
