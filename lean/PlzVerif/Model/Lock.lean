import PlzVerif.Model.Build
/-
C31: several `plz` processes on one repository.  Core Lean only.

The build step of `Model/Build.lean` (`buildOne` = needsBuilding? / exec / moveOutput / stamp) is re-expressed as a
sequence of ATOMIC FILESYSTEM STEPS of a *worker* (process `p`, target `t`), transcribing
src/build/build_step.go `buildTarget` in the order the calls appear there:

  acquire      AcquireExclusiveFileLock(target.BuildLockFile())  -- flock(LOCK_EX) on plz-out/tmp/<t>._build.lock
  check        needsBuilding (reads the stamp xattr, the metadata file, the output, and hashes the sources,
               i.e. the CURRENT outputs of the dependencies — without taking the dependencies' locks)
  prepare      prepareDirectories: RemoveAll(plz-out/tmp/<t>._build)   -- the tmp dir is SHARED by all processes
  exec         the action; reads the dependencies' outputs through symlinks at this moment; writes into the tmp dir
  store        StoreTargetMetadata (.target_build_metadata_<t>)
  move         moveOutput: same hash ⇒ keep the file in place; else RemoveAll(real) … then os.Rename(tmp, real)
  stamp        writeRuleHash: xattr user.plz_build on the output
  release      deferred ReleaseFileLock (and removal of the tmp dir, CleanWorkdirs)

A process may have any number of workers in flight (plz's worker threads); a worker for `t` can start once the
same process has finished every dependency of `t` (plz builds dependencies first), and only for targets the
process was asked for (`req p`, closed under dependencies).  `force p k` models `--rebuild` (needsBuilding's final
`state.ShouldRebuild(target)`).  The repository lock (plz-out/.lock, src/core/lock.go) is taken by every
invocation in the mode given by the regenerated facts (`lf.repoExclusive`; shared on the pinned tree).

`Step` is the interleaving semantics: any enabled step of any worker of any process.  `next` is the same
relation as an executable function of the chosen action (used by Driver/C31.lean; `Lemmas/LockNext.lean`
proves `Step s s' ↔ ∃ a, next s a = some s'`).
-/
namespace PlzVerif.Lock
open PlzVerif.Build

/-- Facts about locking regenerated from the source (Generated/C31.lean via Model/LockFacts.lean). -/
structure LFacts where
  /-- the per-target lock excludes: flock flag is LOCK_EX, it is taken before needsBuilding, released (deferred)
      after the stamp is written, and the lock file is not inside the directory prepareDirectories removes -/
  excl : Bool
  /-- `plz build`/`plz test` take the repo lock exclusively (false = shared, as coded) -/
  repoExclusive : Bool
deriving DecidableEq, Repr

/-- The code as read today. -/
def LFacts.asCoded : LFacts := ⟨true, false⟩

inductive Phase where
  | waiting   -- before AcquireSharedRepoLock returns
  | inside    -- holds the repo lock, building
  | left      -- released the repo lock, exited 0
deriving DecidableEq, Repr

/-- Program counter of the worker (process, target). The stamp computed by `check` (PathHasher memoises the
    source hashes in-process) is carried to the `stamp` step. -/
inductive PC (S N H : Type) where
  | idle
  | locked                          -- lock held, needsBuilding not yet evaluated
  | skip                            -- needsBuilding = false
  | prep (st : Stamp S N H)         -- needsBuilding = true
  | ready (st : Stamp S N H)        -- tmp dir recreated, sources linked
  | built (st : Stamp S N H)        -- action has run, outputs are in the tmp dir
  | stored (st : Stamp S N H)       -- metadata file written
  | removed (st : Stamp S N H)      -- moveOutput removed the old, different output; rename pending
  | moved (st : Stamp S N H)        -- output in place (renamed or kept)
  | stamped                         -- xattr written
  | finished
  | failed
deriving DecidableEq

/-- Inside the critical section of the target lock. -/
def PC.inCS {S N H : Type} : PC S N H → Bool
  | .idle | .finished | .failed => false
  | _ => true

def PC.isFinished {S N H : Type} : PC S N H → Bool
  | .finished => true
  | _ => false

structure State (P K C S N H : Type) where
  gen   : K → Option C                  -- plz-out/gen/<output of k>
  stamp : K → Option (Stamp S N H)      -- xattr user.plz_build on that output (gone when the file is removed/replaced)
  mdat  : K → Bool                      -- .target_build_metadata_<k> exists
  tmp   : K → Option C                  -- plz-out/tmp/<k>._build/<output>; one directory per target, shared by all processes
  lock  : K → Option P                  -- holder of flock(plz-out/tmp/<k>._build.lock)
  phase : P → Phase                     -- repo lock
  pc    : P → K → PC S N H
  runs  : K → Nat                       -- ghost: how many times k's action has been executed

def upd {α β : Type} [DecidableEq α] (f : α → β) (a : α) (b : β) : α → β := fun x => if x = a then b else f x

def upd2 {α β γ : Type} [DecidableEq α] [DecidableEq β] (f : α → β → γ) (a : α) (b : β) (c : γ) : α → β → γ :=
  fun x y => if x = a ∧ y = b then c else f x y

variable {P K A F N C S H : Type} [DecidableEq P] [DecidableEq K] [DecidableEq S] [DecidableEq N] [DecidableEq H]

/-- What a worker sees when it reads its inputs now: the source files and the dependencies' current outputs
    (none when one is missing). Same shape as `Build.inputs`, on the bare output tree. -/
def readIns (r : Repo K A F N C) (gen : K → Option C) (t : Target K A F) : Option (List (N × C)) :=
  (t.deps.mapM (fun d => (gen d).map (fun c => (r.outName d, c)))).map
    (fun ds => t.srcs.map (fun f => (r.fname f, r.files f)) ++ ds)

/-- needsBuilding = false: metadata file present, stamp equal, output present (incrementality.go:49). -/
def upToDate (fx : Facts) (s : State P K C S N H) (k : K) (st : Stamp S N H) : Bool :=
  s.mdat k && (s.gen k).isSome &&
    (match s.stamp k with
     | some st0 => stampEq fx st0 st
     | none => false)

section
variable (fx : Facts) (lf : LFacts) (exec : A → List (N × C) → C) (ruleSer : A → S) (pathSer : C → H)
variable (r : Repo K A F N C) (ps : List P) (req : P → K → Bool) (force : P → K → Bool)

/-- A worker step that ends in failure (the error paths of buildTarget): a dependency's output is missing when
    the sources are hashed or when the action runs; the tmp dir holds no output at moveOutput / rename time
    ("rule failed to create output"); the output is missing when the xattr is to be written. -/
def FailCond (s : State P K C S N H) (p : P) (t : Target K A F) : Prop :=
  (s.pc p t.key = .locked ∧ readIns r s.gen t = none) ∨
  (∃ st, s.pc p t.key = .ready st ∧ readIns r s.gen t = none) ∨
  (∃ st, s.pc p t.key = .stored st ∧ s.tmp t.key = none) ∨
  (∃ st, s.pc p t.key = .removed st ∧ s.tmp t.key = none) ∨
  (∃ st, s.pc p t.key = .moved st ∧ s.gen t.key = none)

inductive Step : State P K C S N H → State P K C S N H → Prop where
  /-- AcquireSharedRepoLock / AcquireExclusiveRepoLock returns (please.go runPlease) -/
  | enter (s) (p : P) : p ∈ ps → s.phase p = .waiting →
      (lf.repoExclusive = true → ∀ q ∈ ps, s.phase q ≠ .inside) →
      Step s { s with phase := upd s.phase p .inside }
  /-- everything asked for is built: ReleaseRepoLock, exit 0 -/
  | leave (s) (p : P) : s.phase p = .inside →
      (∀ t ∈ r.targets, req p t.key = true → s.pc p t.key = .finished) →
      Step s { s with phase := upd s.phase p .left }
  | acquire (s) (p : P) (t : Target K A F) : p ∈ ps → t ∈ r.targets → s.phase p = .inside → req p t.key = true →
      s.pc p t.key = .idle → (∀ d ∈ t.deps, s.pc p d = .finished) →
      (lf.excl = true → s.lock t.key = none) →
      Step s { s with lock := upd s.lock t.key (some p), pc := upd2 s.pc p t.key .locked }
  | checkSkip (s) (p : P) (t : Target K A F) (ins : List (N × C)) : t ∈ r.targets → s.pc p t.key = .locked →
      readIns r s.gen t = some ins →
      upToDate fx s t.key (stampOf ruleSer pathSer t.attrs ins) = true → force p t.key = false →
      Step s { s with pc := upd2 s.pc p t.key .skip }
  | checkBuild (s) (p : P) (t : Target K A F) (ins : List (N × C)) : t ∈ r.targets → s.pc p t.key = .locked →
      readIns r s.gen t = some ins →
      (upToDate fx s t.key (stampOf ruleSer pathSer t.attrs ins) = false ∨ force p t.key = true) →
      Step s { s with pc := upd2 s.pc p t.key (.prep (stampOf ruleSer pathSer t.attrs ins)) }
  | releaseSkip (s) (p : P) (t : Target K A F) : t ∈ r.targets → s.pc p t.key = .skip →
      Step s { s with lock := upd s.lock t.key none, pc := upd2 s.pc p t.key .finished }
  | prepare (s) (p : P) (t : Target K A F) (st : Stamp S N H) : t ∈ r.targets → s.pc p t.key = .prep st →
      Step s { s with tmp := upd s.tmp t.key none, pc := upd2 s.pc p t.key (.ready st) }
  | exec (s) (p : P) (t : Target K A F) (st : Stamp S N H) (ins : List (N × C)) : t ∈ r.targets →
      s.pc p t.key = .ready st → readIns r s.gen t = some ins →
      Step s { s with tmp := upd s.tmp t.key (some (exec t.attrs ins)), runs := upd s.runs t.key (s.runs t.key + 1),
                      pc := upd2 s.pc p t.key (.built st) }
  | store (s) (p : P) (t : Target K A F) (st : Stamp S N H) : t ∈ r.targets → s.pc p t.key = .built st →
      Step s { s with mdat := upd s.mdat t.key true, pc := upd2 s.pc p t.key (.stored st) }
  /-- moveOutput: the hashes agree, the existing file stays where it is -/
  | moveKeep (s) (p : P) (t : Target K A F) (st : Stamp S N H) (c c' : C) : t ∈ r.targets →
      s.pc p t.key = .stored st → s.tmp t.key = some c' → s.gen t.key = some c →
      fx.keepOld = true → pathSer c = pathSer c' →
      Step s { s with pc := upd2 s.pc p t.key (.moved st) }
  /-- moveOutput: the hashes differ, RemoveAll(realOutput) -/
  | moveRemove (s) (p : P) (t : Target K A F) (st : Stamp S N H) (c c' : C) : t ∈ r.targets →
      s.pc p t.key = .stored st → s.tmp t.key = some c' → s.gen t.key = some c →
      (fx.keepOld = false ∨ pathSer c ≠ pathSer c') →
      Step s { s with gen := upd s.gen t.key none, stamp := upd s.stamp t.key none,
                      pc := upd2 s.pc p t.key (.removed st) }
  /-- moveOutput: no existing output, os.Rename(tmp, real) -/
  | moveNew (s) (p : P) (t : Target K A F) (st : Stamp S N H) (c' : C) : t ∈ r.targets →
      s.pc p t.key = .stored st → s.tmp t.key = some c' → s.gen t.key = none →
      Step s { s with gen := upd s.gen t.key (some c'), stamp := upd s.stamp t.key none,
                      tmp := upd s.tmp t.key none, pc := upd2 s.pc p t.key (.moved st) }
  | rename (s) (p : P) (t : Target K A F) (st : Stamp S N H) (c' : C) : t ∈ r.targets →
      s.pc p t.key = .removed st → s.tmp t.key = some c' →
      Step s { s with gen := upd s.gen t.key (some c'), stamp := upd s.stamp t.key none,
                      tmp := upd s.tmp t.key none, pc := upd2 s.pc p t.key (.moved st) }
  | stamp (s) (p : P) (t : Target K A F) (st : Stamp S N H) (c : C) : t ∈ r.targets →
      s.pc p t.key = .moved st → s.gen t.key = some c →
      Step s { s with stamp := upd s.stamp t.key (some st), pc := upd2 s.pc p t.key .stamped }
  | release (s) (p : P) (t : Target K A F) : t ∈ r.targets → s.pc p t.key = .stamped →
      Step s { s with tmp := upd s.tmp t.key none, lock := upd s.lock t.key none,
                      pc := upd2 s.pc p t.key .finished }
  | fail (s) (p : P) (t : Target K A F) : t ∈ r.targets → FailCond r s p t →
      Step s { s with lock := upd s.lock t.key none, pc := upd2 s.pc p t.key .failed }

/-- Reachability from `s0` under any interleaving. -/
inductive Reach (s0 : State P K C S N H) : State P K C S N H → Prop where
  | init : Reach s0 s0
  | step {s s'} : Reach s0 s → Step fx lf exec ruleSer pathSer r ps req force s s' → Reach s0 s'

/-- All invocations start now on an arbitrary existing plz-out: nobody holds a lock, nothing is running.
    (`gen`, `stamp`, `meta` and stale `tmp` directories are arbitrary.) -/
structure Init (s0 : State P K C S N H) : Prop where
  pc    : ∀ p k, s0.pc p k = .idle
  lock  : ∀ k, s0.lock k = none
  phase : ∀ p, s0.phase p = .waiting
  runs  : ∀ k, s0.runs k = 0

/-- Every process has exited successfully. -/
def Terminal (s : State P K C S N H) : Prop :=
  ∀ p ∈ ps, s.phase p = .left

/-! ### The same relation as a function of the chosen action (executable) -/

inductive Act (P : Type) where
  | enter (p : P)
  | leave (p : P)
  | work (p : P) (i : Nat)      -- the single enabled step of worker (p, r.targets[i])
deriving DecidableEq, Repr

def failedState (s : State P K C S N H) (p : P) (k : K) : State P K C S N H :=
  { s with lock := upd s.lock k none, pc := upd2 s.pc p k .failed }

def workStep (s : State P K C S N H) (p : P) (t : Target K A F) : Option (State P K C S N H) :=
  match s.pc p t.key with
  | .idle =>
    if p ∈ ps ∧ s.phase p = .inside ∧ req p t.key = true ∧ (t.deps.all fun d => (s.pc p d).isFinished) ∧
       (lf.excl = true → s.lock t.key = none) then
      some { s with lock := upd s.lock t.key (some p), pc := upd2 s.pc p t.key .locked }
    else none
  | .locked =>
    match readIns r s.gen t with
    | none => some (failedState s p t.key)
    | some ins =>
      let st := stampOf ruleSer pathSer t.attrs ins
      if upToDate fx s t.key st = true ∧ force p t.key = false then
        some { s with pc := upd2 s.pc p t.key .skip }
      else some { s with pc := upd2 s.pc p t.key (.prep st) }
  | .skip => some { s with lock := upd s.lock t.key none, pc := upd2 s.pc p t.key .finished }
  | .prep st => some { s with tmp := upd s.tmp t.key none, pc := upd2 s.pc p t.key (.ready st) }
  | .ready st =>
    match readIns r s.gen t with
    | none => some (failedState s p t.key)
    | some ins =>
      some { s with tmp := upd s.tmp t.key (some (exec t.attrs ins)), runs := upd s.runs t.key (s.runs t.key + 1),
                    pc := upd2 s.pc p t.key (.built st) }
  | .built st => some { s with mdat := upd s.mdat t.key true, pc := upd2 s.pc p t.key (.stored st) }
  | .stored st =>
    match s.tmp t.key with
    | none => some (failedState s p t.key)
    | some c' =>
      match s.gen t.key with
      | some c =>
        if fx.keepOld = true ∧ pathSer c = pathSer c' then some { s with pc := upd2 s.pc p t.key (.moved st) }
        else some { s with gen := upd s.gen t.key none, stamp := upd s.stamp t.key none,
                           pc := upd2 s.pc p t.key (.removed st) }
      | none => some { s with gen := upd s.gen t.key (some c'), stamp := upd s.stamp t.key none,
                              tmp := upd s.tmp t.key none, pc := upd2 s.pc p t.key (.moved st) }
  | .removed st =>
    match s.tmp t.key with
    | none => some (failedState s p t.key)
    | some c' => some { s with gen := upd s.gen t.key (some c'), stamp := upd s.stamp t.key none,
                               tmp := upd s.tmp t.key none, pc := upd2 s.pc p t.key (.moved st) }
  | .moved st =>
    match s.gen t.key with
    | none => some (failedState s p t.key)
    | some _ => some { s with stamp := upd s.stamp t.key (some st), pc := upd2 s.pc p t.key .stamped }
  | .stamped => some { s with tmp := upd s.tmp t.key none, lock := upd s.lock t.key none,
                              pc := upd2 s.pc p t.key .finished }
  | .finished => none
  | .failed => none

def next (s : State P K C S N H) : Act P → Option (State P K C S N H)
  | .enter p =>
    if p ∈ ps ∧ s.phase p = .waiting ∧ (lf.repoExclusive = true → ps.all fun q => s.phase q != .inside) then
      some { s with phase := upd s.phase p .inside }
    else none
  | .leave p =>
    if s.phase p = .inside ∧ (r.targets.all fun t => !req p t.key || (s.pc p t.key).isFinished) then
      some { s with phase := upd s.phase p .left }
    else none
  | .work p i =>
    match r.targets[i]? with
    | none => none
    | some t => workStep fx lf exec ruleSer pathSer r ps req force s p t

/-- Run a schedule: actions that are not enabled are skipped. -/
def runSched (s : State P K C S N H) : List (Act P) → State P K C S N H
  | [] => s
  | a :: as =>
    match next fx lf exec ruleSer pathSer r ps req force s a with
    | some s' => runSched s' as
    | none => runSched s as

/-- All actions that could ever be enabled, in a fixed order. -/
def allActs : List (Act P) :=
  ps.flatMap fun p => [Act.enter p] ++ (List.range r.targets.length).map (Act.work p) ++ [Act.leave p]

def enabled (s : State P K C S N H) : List (Act P) :=
  (allActs r ps).filter fun a => (next fx lf exec ruleSer pathSer r ps req force s a).isSome

/-- Run with a chooser until nothing is enabled or the fuel is used up; `pick n len` selects among `len` enabled
    actions at step `n`. Returns the final state and whether it stopped because nothing was enabled. -/
def runWith (pick : Nat → Nat → Nat) : Nat → Nat → State P K C S N H → State P K C S N H × Bool
  | 0, _, s => (s, (enabled fx lf exec ruleSer pathSer r ps req force s).isEmpty)
  | fuel + 1, n, s =>
    let en := enabled fx lf exec ruleSer pathSer r ps req force s
    match en[pick n en.length % en.length]? with
    | none => (s, true)
    | some a =>
      match next fx lf exec ruleSer pathSer r ps req force s a with
      | some s' => runWith pick fuel (n + 1) s'
      | none => (s, false)

end
end PlzVerif.Lock
