import PlzVerif.Model.TestCache
import PlzVerif.Generated.C11
/-! The facts record the test-step model is instantiated with on this run (regenerated from /repo). -/
namespace PlzVerif.TestCache
open PlzVerif.Generated

def bstateOfName (s : String) : Option BState :=
  if s = "Unchanged" then some .unchanged
  else if s = "Reused" then some .reused
  else if s = "Built" then some .built
  else if s = "Cached" then some .cached
  else none

/-- The path hash of a hard-linked filegroup output is computed from its current contents, never taken from / stored
    in the xattr of the shared inode: CopyHash (copy = true) marks the destination under the condition `copy` alone,
    the filegroup builder calls it on both completion paths, `Hash` turns the mark into store = false / recalc = true
    and calls the worker with read = !recalc, the worker reads the xattr only under `read` and stores only under
    `store`, and `RuntimeHash` goes through `PathHasher.Hash` without forcing anything else. -/
def linkedHashFromContent : Bool :=
  C11.copyHashMarksDestination && C11.copyHashMarkCondition == "<copy>" && C11.copyHashPassesCopyTrue &&
  C11.hashMarkedPathAssigns.contains "store=false" && C11.hashMarkedPathAssigns.contains "recalc=true" &&
  C11.hashWorkerArgs == ["path", "store", "!recalc", "timestamp"] &&
  C11.hashWorkerReadGuardedByRead && C11.hashWorkerStoreGuardedByStore &&
  C11.filegroupBuildSequence == ["built", "CopyHash", "built", "CopyHash"] &&
  C11.runtimeHashPathVia == "PathHasher.Hash(recalc=false)"

def generatedFacts : Facts :=
  { hashesRule := C11.runtimeHashParts.contains "rule(runtime=true,postBuild=false)",
    hashesConfig := C11.runtimeHashParts.contains "config",
    hashesFiles := C11.runtimeHashParts.contains "files-digest" && C11.runtimeHashLoopWrites.contains "hash" &&
                   C11.runtimeHashLoopIter == "IterRuntimeFiles",
    -- the destination name of each entry, NUL-terminated (names cannot contain NUL, digests have a fixed width)
    hashesNames := C11.runtimeHashLoopWrites.contains "name:dest" && C11.runtimeHashLoopWrites.contains "nul",
    linkXattr := !linkedHashFromContent,
    rerunForces := C11.needToRunConds.contains "force",
    reuseStates := C11.needToRunStates.filterMap bstateOfName,
    verifiesHash := C11.needToRunVerifiesResultsHash && C11.verifyHashIsEqualityWithRecorded &&
                    C11.storeRecordsRuntimeHashOnResults && C11.moveOutputFileRecordsHash,
    singleRunOnly := C11.reuseGate.contains "state.NumTestRuns==1",
    removesBefore := C11.removeOutputsBeforeRun && C11.removeTestOutputsRemovesResults,
    storeIfAllSucceeded := C11.storeCallGuard == "AllSucceeded",
    storeIfNoFailures := C11.storeInnerGuards.contains "results.Failures()>0",
    storeIfNoArgs := C11.storeInnerGuards.contains "len(state.TestArgs)>0",
    cachedRejectsFailed := C11.cachedRejectsNotAllSucceeded }

/-- `ruleHash(runtime = true)` writes `Test.NoOutput` (consumed by the concrete end-to-end instance). -/
def hashesNoOutput : Bool := C11.ruleHashRuntimeWrites.contains "hashBool:Test.NoOutput"

/-- Decidable side condition under which the C11 theorems apply to the regenerated facts:
    the runtime hash covers rule, config and every runtime file's content; a stored result is only used after
    its recorded hash was compared with the current one; only all-succeeded results are stored.
    Since the repair of `runtime-hash-omits-file-names` the entry NAMES must be hashed too. -/
def FactsOK : Bool :=
  generatedFacts.hashesRule && generatedFacts.hashesConfig && generatedFacts.hashesFiles && generatedFacts.hashesNames &&
  hashesNoOutput &&   -- since the repair of `runtime-hash-omits-no-test-output`
  !generatedFacts.linkXattr &&   -- no stored hash is trusted on an inode shared with a user-editable source file
  generatedFacts.verifiesHash && generatedFacts.storeIfAllSucceeded && generatedFacts.removesBefore &&
  generatedFacts.rerunForces && generatedFacts.singleRunOnly &&
  -- the gate consults needToRun and the stored result is what is reported
  C11.reuseGate.contains "!needToRun()" && C11.reuseGateUsesCachedResults &&
  -- runtime = true adds the data entries and the test command to the rule pre-image
  C11.ruleHashRuntimeWrites.contains "each:AllData():String" && C11.ruleHashRuntimeWrites.contains "write:GetTestCommand(state)" &&
  -- both post-build variants of the runtime rule hash are included
  C11.runtimeHashParts.contains "rule(runtime=true,postBuild=true)" &&
  -- IterRuntimeFiles yields own outputs first, then data, and de-duplicates by destination
  -- (the whole sequence is pinned: dropping the runtime dependencies of data / the test tools would un-hash them)
  C11.iterRuntimeFilesOrder == ["Outputs", "OwnRuntimeDeps", "AllData", "RuntimeDepsOfPrevious", "AllTestTools",
    "RuntimeDepsOfPrevious", "AllDebugData", "RuntimeDepsOfPrevious", "AllDebugTools", "RuntimeDepsOfPrevious"] &&
  C11.iterRuntimeFilesDedupBy == "dest" &&
  -- the digest covers the same iterator that PrepareRuntimeDir materialises, with relative destination names
  C11.runtimeHashLoopIter == "IterRuntimeFiles" && C11.runtimeHashLoopAbsoluteNames == "false"

end PlzVerif.TestCache
