import PlzVerif.Model.Glob
/-
The `Globber` as a state machine (src/fs/glob.go: `Globber.walkedDirs`, `walkDir`'s cache look-up, `Glob`/`glob`), as
the BUILD language uses it: ONE Globber per package scope (src/parse/asp/builtins.go:718-726), so several `glob()`
calls of a BUILD file share the walk cache.  Core Lean only.

What the cache is keyed by, and where hidden entries are dropped, are regenerated facts (`CacheFacts`).
-/
namespace PlzVerif.Glob
open PlzVerif.Walk

structure CacheFacts where
  keyHasHidden : Bool       -- the cache key contains the `includeHidden` flag (today: `walkedDirs[rootPath]` only)
  hiddenAtWalk : Bool       -- `walkDir` drops hidden entries while walking, with the flag of the call that walks
  hiddenPerMatch : Bool     -- `glob` tests `!includeHidden && isHidden(m)` for every match (today)

/-- Today's structure. -/
def CacheFacts.canon : CacheFacts := ⟨false, false, true⟩

structure Call where
  root : List Name
  includes : List Name
  excludes : List Name
  hidden : Bool
  symlinks : Bool

abbrev Key := List Name × Option Bool
abbrev Cache := List (Key × Walked)

def keyOf (C : CacheFacts) (c : Call) : Key := (c.root, if C.keyHasHidden then some c.hidden else none)

def Cache.get (k : Key) : Cache → Option Walked
  | [] => none
  | (k', w) :: rest => if k' = k then some w else Cache.get k rest

/-- The directory at `root` below the repository root `whole` (through directories only). -/
def subdir : Tree → List Name → Option Tree
  | .dir cs, [] => some (.dir cs)
  | .leaf _, _ => none
  | .dir cs, n :: rest =>
    let rec find : Forest → Option Tree
      | .nil => none
      | .cons m t more => if m = n then some t else find more
    match find cs with
    | some t => subdir t rest
    | none => none

/-- What `walkDir` stores for a walk triggered by a call with flag `hidden`. -/
def walkDirH (C : CacheFacts) (F : Facts) (cfg : Cfg) (root : List Name) (t : Tree) (hidden : Bool) : Walked :=
  let w := walkDir F cfg root t
  if C.hiddenAtWalk && !hidden then
    { w with files := w.files.filter (!isHidden F ·), symlinks := w.symlinks.filter (!isHidden F ·) }
  else w

/-- `Glob` on an already walked listing (the body of `globAll`). -/
def globWith (F : Facts) (rootName : Name) (w : Walked) (includes excludes : List Name) (hidden symlinks : Bool) :
    Option (List Name) :=
  includes.foldr (fun incl acc =>
    if incl.isEmpty then none else
    match globOne F rootName w incl excludes hidden symlinks, acc with
    | some l, some rest => some (l.map (trimRoot rootName) ++ rest)
    | _, _ => none) (some [])

/-- `walkDir` is reached only when the first include pattern is valid (`mustBeValidGlobString`, `patternToMatcher`
    come first); otherwise `Glob` panics before anything is cached. -/
def reachesWalk (F : Facts) (c : Call) : Bool :=
  match c.includes with
  | [] => false
  | i :: _ => !i.isEmpty && (patternToMatcher F (nameOf c.root) i).isSome

/-- One `Glob` call on the shared Globber: new cache, result (`none` = panic / the package directory is missing). -/
def step (C : CacheFacts) (F : Facts) (cfg : Cfg) (whole : Tree) (st : Cache) (c : Call) : Cache × Option (List Name) :=
  match subdir whole c.root with
  | none => (st, none)
  | some t =>
    let k := keyOf C c
    let fresh := walkDirH C F cfg c.root t c.hidden
    let w := match st.get k with | some w => w | none => fresh
    let st' := if (st.get k).isNone && reachesWalk F c then (k, fresh) :: st else st
    (st', globWith F (nameOf c.root) w c.includes c.excludes (c.hidden || !C.hiddenPerMatch) c.symlinks)

def runSeq (C : CacheFacts) (F : Facts) (cfg : Cfg) (whole : Tree) : Cache → List Call → List (Option (List Name))
  | _, [] => []
  | st, c :: rest =>
    let r := step C F cfg whole st c
    r.2 :: runSeq C F cfg whole r.1 rest

/-- The same call on a Globber of its own (`fs.Glob`): the stateless meaning of a `glob()` call. -/
def freshCall (C : CacheFacts) (F : Facts) (cfg : Cfg) (whole : Tree) (c : Call) : Option (List Name) :=
  (step C F cfg whole [] c).2

end PlzVerif.Glob
