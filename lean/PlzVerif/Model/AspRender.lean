import PlzVerif.Model.AspInterp
/-
Canonical text of rendered globals (what the C17/C18 drivers print and the harness compares), and the reader of
multi-file op lines.  Core Lean only.
-/
namespace PlzVerif.Asp

def hexDigitR (n : Nat) : Char := if n < 10 then Char.ofNat (48 + n) else Char.ofNat (87 + n)

def quoteR (s : String) : String :=
  "\"" ++ String.join (s.toList.map fun c =>
    if c == '"' then "\\\"" else if c == '\\' then "\\\\" else if c == '\n' then "\\n"
    else if c == '\t' then "\\t" else if c == '\r' then "\\r"
    else if c.toNat < 32 then "\\u00" ++ String.ofList [hexDigitR (c.toNat / 16), hexDigitR (c.toNat % 16)]
    else String.singleton c) ++ "\""

mutual
  def showRVal : Nat → RVal → String
    | 0, _ => "\"<deep>\""
    | f + 1, v =>
      match v with
      | .int n => toString n
      | .str s => quoteR s
      | .bool b => if b then "true" else "false"
      | .none => "null"
      | .list l => "[" ++ ",".intercalate (showRVals f l) ++ "]"
      | .dict l => "{" ++ ",".intercalate (showRKvs f l) ++ "}"
      | .fn n => quoteR ("<function " ++ n ++ ">")
      | .deep => "\"<deep>\""
  def showRVals : Nat → List RVal → List String
    | 0, _ => []
    | _ + 1, [] => []
    | f + 1, x :: r => showRVal f x :: showRVals f r
  def showRKvs : Nat → List (String × RVal) → List String
    | 0, _ => []
    | _ + 1, [] => []
    | f + 1, (k, x) :: r => (quoteR k ++ ":" ++ showRVal f x) :: showRKvs f r
end

def showGlobalsR (g : Globals) : String := "{" ++ ",".intercalate (showRKvs 100000 g) ++ "}"

/-- `( files ( defs <label-hex> <prog> )… ( pkg <name> <prog> )… )` -/
def parseFileSet (s : String) : Option (List (String × Program) × List (String × Program)) := do
  match ← parseSExp s with
  | .node (.atom "files" :: fs) =>
    let rec go : List SExp → Option (List (String × Program) × List (String × Program))
      | [] => some ([], [])
      | .node [.atom "defs", .atom l, .node (.atom "prog" :: stmts)] :: r => do
        let label ← strOfHex l
        let p ← toStmts 1000 stmts
        let (d, k) ← go r
        pure ((label, p) :: d, k)
      | .node [.atom "pkg", .atom n, .node (.atom "prog" :: stmts)] :: r => do
        let p ← toStmts 1000 stmts
        let (d, k) ← go r
        pure (d, (n, p) :: k)
      | _ => none
    go fs
  | _ => none

/-- The output line of a multi-file run. -/
def showPackages (r : List (String × Globals) × List (String × Globals)) : String :=
  "|".intercalate (r.1.map fun e => e.1 ++ "=" ++ showGlobalsR e.2) ++ "|final:" ++
  "|".intercalate (r.2.map fun e => e.1 ++ "=" ++ showGlobalsR e.2)

end PlzVerif.Asp
