-- REGENERATED from src/core/test_results.go, src/test/test_step.go, src/test/xml_results.go, src/test/go_results.go, src/test/results.go by /verif/harness/extract/c26 on every run. Do not edit.
namespace PlzVerif.Generated.C26
def successCond : String := "E.Error == nil && E.Failure == nil && E.Skip == nil"
def skipCond : String := "E.Skip != nil"
def failureCond : String := "E.Failure != nil"
def errorCond : String := "E.Error != nil"
def passCond : String := "C.Skip() == nil && len(C.Errors()) == 0 && len(C.Failures()) == 0"
def errorsCond : String := "C.Skip() == nil && C.Success() == nil && len(C.Errors()) > 0"
def failuresCond : String := "C.Skip() == nil && C.Success() == nil && len(C.Errors()) == 0 && len(C.Failures()) > 0"
def skipsCond : String := "C.Skip() != nil"
def flakyCond : String := "(len(C.Failures()) > 0 || len(C.Errors()) > 0) && C.Skip() == nil && C.Success() != nil"
def allSucceededCond : String := "C.Skip() == nil && C.Success() == nil => return false; return true"
def testsExpr : String := "return len(testSuite.TestCases)"
def addMatchKind : String := "separate"
def addMatchFields : List String := ["ClassName", "Name"]
def addMatchSep : String := ""
def addShape : String := "found ? append-executions : append-case"
def flakeLoopInit : String := "I := 1"
def flakeLoopCond : String := "I <= FLAKINESS"
def flakeLoopPost : String := "I++"
def flakeLoopSteps : List String := ["run", "add:RUN.TestCases...)", "break-if:RUN.TestCases.AllSucceeded()"]
def appendChain : List String := ["test.Failure != nil:appendFailure", "test.Error != nil:appendError", "test.Skipped != nil:appendSkipped", "else:appendSuccess"]
def appendLoops : List String := ["test.FlakyFailure:appendFlakyFailure", "test.FlakyError:appendFlakyError", "test.RerunFailure:appendRerunFailure", "test.RerunError:appendRerunError"]
def appendSets : List String := ["appendFailure:Failure", "appendError:Error", "appendSkipped:Skip", "appendSuccess:", "appendFlakyFailure:Failure", "appendFlakyError:Error", "appendRerunFailure:Failure", "appendRerunError:Error"]
def nestedTraversal : String := "recursive"
def nestedSuiteField : Bool := true
def caseTags : List String := ["Error=error", "Failure=failure", "FlakyError=flakyError", "FlakyFailure=flakyFailure", "RerunError=rerunError", "RerunFailure=rerunFailure", "Skipped=skipped"]
def bareCaseFields : List String := ["ClassName", "Name"]
def xmlPrefixes : List String := ["<?xml", "<test"]
def goHandled : List String := ["Fail", "Skip", "Pass", "default"]
def goSets : List (String × String) := [("Fail", "Failure"), ("Skip", "Skip"), ("Pass", ""), ("default", "Error")]
end PlzVerif.Generated.C26
