-- REGENERATED from src/parse/asp/grammar.go, src/parse/asp/objects.go, src/parse/asp/builtins.go, src/parse/asp/interpreter.go by /verif/harness/extract/c16 on every run. Do not edit.
namespace PlzVerif.Generated.C16
def precTable : List (String × Int) := [("Add", 2), ("And", (-2)), ("Divide", 3), ("FloorDivide", 3), ("Modulo", 3), ("Multiply", 3), ("Negate", 4), ("Not", (-1)), ("Or", (-3)), ("Subtract", 2), ("Union", 1)]
def precDefault : Int := 0
def lazyOps : List String := ["And", "Or"]
def operators : List (String × String) := [("!=", "NotEqual"), ("%", "Modulo"), ("*", "Multiply"), ("+", "Add"), ("-", "Subtract"), ("/", "Divide"), ("//", "FloorDivide"), ("<", "LessThan"), ("<=", "LessThanOrEqual"), ("==", "Equal"), (">", "GreaterThan"), (">=", "GreaterThanOrEqual"), ("and", "And"), ("in", "In"), ("is", "Is"), ("is not", "IsNot"), ("not", "Not"), ("not in", "NotIn"), ("or", "Or"), ("|", "Union")]
def intOps : List (String × String) := [("Add", "+"), ("Divide", "/"), ("FloorDivide", "floordiv"), ("GreaterThan", ">"), ("GreaterThanOrEqual", ">="), ("LessThan", "<"), ("LessThanOrEqual", "<="), ("Modulo", "floormod"), ("Multiply", "*"), ("Subtract", "-")]
def listAddExpr : String := "slices.Clip(append(l, l2...))"
def listAddAppendsToReceiver : Bool := true
def listAddClips : Bool := true
def freezeWraps : String := "receiver"
def sortedArg : String := "copy"
def sortedReverse : String := "flip-comparator"
def sortedSortFns : List String := ["sort.SliceStable"]
def reversedArg : String := "copy"
def constantFoldsLists : Bool := true
def listSlice : String := "reslice"
def opsCompare : String := "ops[0] >= ops[1]"
def opsRestCalls : Nat := 3
def opsRecheck : Bool := true
end PlzVerif.Generated.C16
