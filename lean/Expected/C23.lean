-- REGENERATED from src/query/deps.go, src/query/reverse_deps.go, src/query/somepath.go by /verif/harness/extract/c23 on every run. Do not edit.
namespace PlzVerif.Generated.C23
def depsCutoff : String := "CUR == LIMIT"
def depsIterates : List String := ["DeclaredDependencies", "ProvideFor"]
def depsSkip : String := "!STATE.ShouldInclude(DECLARED) || DONE[PROVIDED]"
def depsMark : String := "DONE[PROVIDED] = true"
def depsDepIs : String := "STATE.Graph.TargetOrDie(PROVIDED)"
def depsBranchConds : List String := ["HIDDEN || !DEP.HasParent()", "DEP.Label.Parent() == TARGET.Label.Parent()", "else"]
def depsBranchIncs : List Nat := [1, 0, 1]
def depsAdjustBranch : List Nat := []
def depsAdjustConds : List String := []
def depsAdjustIncs : List Nat := []
def depsBranchPrints : List String := ["print@+0", "silent", "silent"]
def revPush : List String := ["!present", "PushBack", "Front"]
def revDepthInit : String := "NEXT.DEPTH"
def revIncCond : String := "R.hidden || !isSameTarget(state.Graph, NEXT.target, T)"
def revIncStmt : String := "DEPTH++"
def revGate : String := "NEXT.DEPTH < R.maxDepth || R.maxDepth == -1"
def revReportCond : String := "DEPTH > 0"
def revReportBranches : List String := ["R.hidden || !T.Label.IsHidden()", "PARENT := T.Parent(state.Graph); PARENT != nil"]
def revReportWhat : List String := ["ret[T]", "ret[PARENT]"]
def revPushCall : String := "R.os.Push(&node{ target: T, DEPTH: DEPTH, })"
def isSameTarget : List String := ["if LHS == RHS { return true }", "return LHS.Label.Parent() == RHS.Label.Parent()"]
def revInitDepths : List String := ["0", "0"]
def revChildCond : String := "!HIDDEN && !label.IsHidden()"
def spGuards : List String := ["T1.Label == T2.Label => return []core.BuildLabel{T1.Label}", "T1.Parent(GRAPH) == T2 => return []core.BuildLabel{T1.Label}", "SEEN[T1.Label] present => return nil"]
def spMark : String := "SEEN[T1.Label] = struct{}{}"
def spLoop : List String := ["DeclaredDependencies", "ProvideFor", "TargetOrDie", "[]core.BuildLabel{T1.Label}"]
def spBothOrder : List String := ["AB", "BA"]
def spMemoKey : String := "T2"
end PlzVerif.Generated.C23
