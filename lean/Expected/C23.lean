-- REGENERATED from src/query/deps.go, src/query/reverse_deps.go, src/query/somepath.go by /verif/harness/extract/c23 on every run. Do not edit.
namespace PlzVerif.Generated.C23
def depsCutoff : String := "CUR == LIMIT"
def depsIterates : List String := ["DeclaredDependencies", "ProvideFor"]
def depsSkip : String := "!STATE.ShouldInclude(DECLARED) || DONE[PROVIDED]"
def depsMark : String := "DONE[PROVIDED] = true"
def depsDepIs : String := "STATE.Graph.TargetOrDie(PROVIDED)"
def depsBranchConds : List String := ["HIDDEN || !DEP.HasParent()", "DEP.Label.Parent() == TARGET.Label.Parent()", "else"]
def depsBranchIncs : List Nat := [1, 0, 1]
def depsAdjustBranch : List Nat := []
def depsAdjustConds : List String := []
def depsAdjustIncs : List Nat := []
def depsBranchPrints : List String := ["print@+0", "silent", "silent"]
def revPush : List String := ["!present", "PushBack", "Front"]
def revDepthInit : String := "NEXT.DEPTH"
def revIncCond : String := "R.hidden || !isSameTarget(state.Graph, NEXT.target, T)"
def revIncStmt : String := "DEPTH++"
def revGate : String := "NEXT.DEPTH < R.maxDepth || R.maxDepth == -1"
def revReportCond : String := "DEPTH > 0"
def revReportBranches : List String := ["R.hidden || !T.Label.IsHidden()", "PARENT := T.Parent(state.Graph); PARENT != nil"]
def revReportWhat : List String := ["ret[T]", "ret[PARENT]"]
def revPushCall : String := "R.os.Push(&node{ target: T, DEPTH: DEPTH, })"
def isSameTarget : List String := ["if LHS == RHS { return true }", "return LHS.Label.Parent() == RHS.Label.Parent()"]
def revInitDepths : List String := ["0", "0"]
def revChildCond : String := "!HIDDEN && !label.IsHidden()"
def buildRevdeps : List String := ["F1 := GRAPH.AllTargets()", "F2 := make(map[core.BuildLabel][]*core.BuildTarget, len(F1))", "for _, v01 := range F1 { for _, v02 := range v01.DeclaredDependencies() { if v03 := GRAPH.Target(v02); v03 == nil { F2[v02] = append(F2[v02], v03) } else { for _, v04 := range v03.ProvideFor(v01) { F2[v04] = append(F2[v04], v01) } } } if SUBREPOS && v01.Subrepo != nil && v01.Subrepo.Target != nil { F2[v01.Subrepo.Target.Label] = append(F2[v01.Subrepo.Target.Label], v01) } }", "return F2"]
def findRevdepsEntry : List String := ["F1 := newRevdeps(STATE.Graph, HIDDEN, FOLLOW, SUBREPOS, DEPTH)", "for _, v01 := range ROOTS { v02 := STATE.Graph.TargetOrDie(v01) F1.os.Push(&node{ v02: v02, DEPTH: 0, }) if !HIDDEN && !v01.IsHidden() { for _, v03 := range STATE.Graph.PackageByLabel(v01).AllTargets() { if v03.Parent(STATE.Graph) == v02 { F1.os.Push(&node{ v02: v03, DEPTH: 0, }) } } } }", "return F1.findRevdeps(STATE)"]
def revLookup : List String := ["ts := R.revdeps[NEXT.target.Label]"]
def depsEntry : List String := ["F1 := map[core.BuildLabel]bool{}", "for _, v01 := range ROOTS { deps(OUT, STATE, STATE.Graph.TargetOrDie(v01), F1, LIMIT, 0, HIDDEN, DOT) }"]
def spGuards : List String := ["T1.Label == T2.Label => return []core.BuildLabel{T1.Label}", "T1.Parent(GRAPH) == T2 => return []core.BuildLabel{T1.Label}", "SEEN[T1.Label] present => return nil"]
def spMark : String := "SEEN[T1.Label] = struct{}{}"
def spLoop : List String := ["DeclaredDependencies", "ProvideFor", "TargetOrDie", "[]core.BuildLabel{T1.Label}"]
def spBothOrder : List String := ["AB", "BA"]
def spMemoKey : String := "T2"
end PlzVerif.Generated.C23
