-- REGENERATED from src/remote/utils.go, src/remote/action.go by /verif/harness/extract/c28 on every run. Do not edit.
namespace PlzVerif.Generated.C28
def walkSteps : List String := ["fill:Directories:Digest == nil", "sort:Files", "sort:Directories", "sort:Symlinks", "dedup:Files", "dedup:Directories", "dedup:Symlinks"]
def sorts : List String := ["Files:Name:<", "Directories:Name:<", "Symlinks:Name:<"]
def dedups : List String := ["Files:Name:!=", "Directories:Name:!=", "Symlinks:Name:!="]
def lastDecls : Nat := 1
def lastInit : String := "\"\""
def sharedLast : Bool := true
def dirGuard : String := "Pc != \"\" && !hasChild(d, Pc)"
def dirRecursesOnParent : Bool := true
def dirRootEarlyReturn : Bool := true
def hasChildCmp : String := "Name=="
def envSteps : List String := ["range", "sort:Name,Name:ascending", "return"]
def actionFields : List String := ["CommandDigest", "InputRootDigest", "Timeout", "Platform"]
end PlzVerif.Generated.C28
