-- REGENERATED from src/remote/fs/fs.go by /verif/harness/extract/c29 on every run. Do not edit.
namespace PlzVerif.Generated.C29
def findOrder : List String := ["Directories", "mustBeDir", "Files", "Symlinks"]
def findDot : Bool := true
def findDotDot : Bool := true
def openDepthLimit : Option Nat := some 40
def openParams : Nat := 2
def openSelfCalls : Nat := 1
def openAbsCheckFirst : Bool := true
def openHasLoopOrCounter : Bool := false
def readDirOrder : List String := ["Directories", "Files", "Symlinks"]
def readDirReturnsEOF : Bool := true
def dirIntFields : Nat := 1
def readDirMutatesReceiver : Bool := true
def readDirHasOffset : Bool := true
-- skelFindNode: p1, v0, v1 := strings.Cut(p1, string(filepath.Separator)) ; if p1 == "." { if v0 != "" { return r0.findNode(p0, v0) } v2, v3 := digest.NewFromMessage(p0) if v3 != nil { return nil, nil, nil, v3 } v4 := &pb.DirectoryNode{Name: ".", Digest: v2.ToProto()} return nil, v4, nil, nil } ; if p1 == ".." { return nil, nil, nil, os.ErrNotExist } ; for v5, v6 := range p0.Directories { if v6.Name == p1 { v7 := r0.directories[digest.NewFromProtoUnvalidated(v6.Digest)] if v0 == "" { return nil, v6, nil, nil } return r0.findNode(v7, v0) } } ; if v1 { return nil, nil, nil, os.ErrNotExist } ; for v8, v9 := range p0.Files { if v9.Name == p1 { return v9, nil, nil, nil } } ; for v10, v11 := range p0.Symlinks { if v11.Name == p1 { return nil, nil, v11, nil } } ; return nil, nil, nil, os.ErrNotExist
def skelFindNode : String := "e26aca13c73b607bb1d2d0c8"
-- skelOpenRec: if p1 > maxSymlinkDepth { return nil, fmt.Errorf("…", p0) } ; v0, v1, v2, v3 := r0.findNode(r0.root, p0) ; if v3 != nil { return nil, v3 } ; if v2 != nil { if filepath.IsAbs(v2.Target) { return nil, fmt.Errorf("…", p0) } return r0.open(filepath.Join(filepath.Dir(p0), v2.Target), p1+1) } ; if v0 != nil { return r0.openFile(v0) } ; if v1 != nil { return r0.openDir(v1) } ; return nil, os.ErrNotExist
def skelOpenRec : String := "5f36039e3c392274b3c952e0"
-- skelReadDir: if r0.entries == nil { r0.entries = make([]iofs.DirEntry, 0, len(r0.pb.Directories)+len(r0.pb.Files)+len(r0.pb.Symlinks)) for v0, v1 := range r0.pb.Directories { v2 := r0.children[digest.NewFromProtoUnvalidated(v1.Digest)] r0.entries = append(r0.entries, newDirInfo(v1.Name, v2)) } for v3, v4 := range r0.pb.Files { r0.entries = append(r0.entries, newFileInfo(v4)) } for v5, v6 := range r0.pb.Symlinks { r0.entries = append(r0.entries, newSymlinkInfo(v6)) } } ; v7 := r0.entries[r0.offset:] ; if p0 <= 0 { r0.offset = len(r0.entries) return v7, nil } ; if len(v7) == 0 { return nil, io.EOF } ; if p0 > len(v7) { p0 = len(v7) } ; r0.offset += p0 ; return v7[:p0:p0], nil
def skelReadDir : String := "40205a89e06838bfeeb3aabf"
-- skelOpen: return r0.open(filepath.Join(r0.workingDir, p0), 0)
def skelOpen : String := "39fa4d196c4588e2c909fc80"
-- skelFindNodeAPI: return r0.findNode(r0.root, filepath.Join(r0.workingDir, p0))
def skelFindNodeAPI : String := "42632bc903bbe154e91c7cc1"
-- skelStat: v0, v1, v2, v3 := r0.FindNode(p0) ; if v3 != nil { return nil, v3 } ; if v0 != nil { return newFileInfo(v0), nil } ; if v1 != nil { v4 := r0.directories[digest.NewFromProtoUnvalidated(v1.Digest)] return newDirInfo(v1.Name, v4), nil } ; if v2 != nil { return newSymlinkInfo(v2), nil } ; return nil, os.ErrNotExist
def skelStat : String := "923da5766ad015867b74b039"
-- skelNew: v0 := make(map[digest.Digest]*pb.Directory, len(p1.Children)) ; for v1, v2 := range append(p1.Children, p1.Root) { v3, v4 := digest.NewFromMessage(v2) if v4 != nil { log.Fatalf("…", v4) } v0[v3] = v2 } ; return &CASFileSystem{ p0: p0, root: p1.Root, v0: v0, p2: filepath.Clean(p2), }
def skelNew : String := "a6a62b23139ed4d5ea8bf079"
-- skelChangeDir: return &CASFileSystem{ c: r0.c, root: r0.root, directories: r0.directories, workingDir: p0, }
def skelChangeDir : String := "c3c3137e116be5f13c6f737f"
-- skelOpenDir: v0 := r0.directories[digest.NewFromProtoUnvalidated(p0.Digest)] ; return &dir{ info: newDirInfo(p0.Name, v0), pb: v0, children: r0.directories, }, nil
def skelOpenDir : String := "09731dbfddb700a7736f4c65"
-- skelOpenFile: v0, v1, v2 := r0.c.ReadBlob(context.Background(), digest.NewFromProtoUnvalidated(p0.Digest)) ; if v2 != nil { return nil, v2 } ; return &file{ ReadSeeker: bytes.NewReader(v0), info: newFileInfo(p0), }, nil
def skelOpenFile : String := "405022957d85bfcdbc1c328b"
-- skelInfo_newFileInfo: v0 := info{ size: p0.Digest.SizeBytes, name: p0.Name, } ; return v0.withProperties(p0.NodeProperties)
def skelInfo_newFileInfo : String := "b28959cb2e00d9dc37b1efcb"
-- skelInfo_newDirInfo: v0 := &info{ p0: p0, mode: os.ModeDir, } ; return v0.withProperties(p1.NodeProperties)
def skelInfo_newDirInfo : String := "2f2b80d6701c108853270e82"
-- skelInfo_newSymlinkInfo: v0 := &info{ name: p0.Name, mode: os.ModeSymlink, } ; return v0.withProperties(p0.NodeProperties)
def skelInfo_newSymlinkInfo : String := "4c8df7e373f27b0f059797f0"
-- skelInfo_info_withProperties: if p0 == nil { return r0 } ; if p0.UnixMode != nil { r0.mode |= os.FileMode(p0.UnixMode.Value) } ; if p0.Mtime != nil { r0.modTime = p0.Mtime.AsTime() } ; return r0
def skelInfo_info_withProperties : String := "b2fca916b075c4928c5bc5d1"
end PlzVerif.Generated.C29
