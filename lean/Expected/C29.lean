-- REGENERATED from src/remote/fs/fs.go by /verif/harness/extract/c29 on every run. Do not edit.
namespace PlzVerif.Generated.C29
def findOrder : List String := ["Directories", "mustBeDir", "Files", "Symlinks"]
def findDot : Bool := true
def findDotDot : Bool := true
def openParams : Nat := 1
def openSelfCalls : Nat := 1
def openAbsCheckFirst : Bool := true
def openHasLoopOrCounter : Bool := false
def readDirOrder : List String := ["Directories", "Files", "Symlinks"]
def readDirReturnsEOF : Bool := false
def dirIntFields : Nat := 0
def readDirMutatesReceiver : Bool := false
end PlzVerif.Generated.C29
