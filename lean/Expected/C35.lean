-- REGENERATED from src/core/build_target.go, src/build/build_step.go, src/core/state.go, src/core/config.go, src/build/incrementality.go by /verif/harness/extract/c35 on every run. Do not edit.
namespace PlzVerif.Generated.C35
def unprefixIndexFn : String := "strings.LastIndexByte"
def unprefixSep : String := "':'"
def unprefixGuard : String := "i!=-1"
def unprefixSliceLow : String := "i+1"
def unprefixSliceHigh : String := "-"
def unprefixWrap : String := "strings.TrimSpace"
def unprefixAliases : Bool := false
def unprefixCopies : String := "slices.Clone"
def unprefixReturnsLocal : Bool := true
def checkEmptyGuard : Bool := true
def checkUsesUnprefixed : Bool := true
def checkFirstCompare : Bool := true
def checkCombine : String := "len(outputs) != 1"
def checkHashers : String := "state.OutputHashCheckers()"
def checkOutputs : String := "FullOutputs"
def checkValidReturnsNil : Bool := true
def ofTypeLenOp : String := "=="
def ofTypeLenMult : Nat := 2
def ofTypeLenSizeOperand : Bool := true
def ofTypeCompareOp : String := "=="
def ofTypeMatchReturnsTrue : Bool := true
def ofTypeHashErrIgnored : Bool := true
def ofTypeCombiner : String := "NewHash"
def outputHashNameGuard : String := "len(target.Hashes)==0"
def outputHashRecalcArg : String := "true"
def targetHasherSingleCond : String := "len(outs)==1&&fs.FileExists(outs[0])"
def targetHasherMemoises : Bool := true
def calcOrder : List String := ["OutputHash", "checkRuleHashes", "writeRuleHash"]
def calcGate : String := "state.VerifyHashes"
def calcGateReturnsErr : Bool := true
def calcHashesOnlyCond : String := "state.NeedHashesOnly && state.IsOriginalTargetOrParent(target)"
def calcStampGuard : String := "!target.IsFilegroup"
def buildTargetOrder : List String := ["needsBuilding", "needsBuilding", "buildFilegroup", "calculateAndCheckRuleHash", "retrieveArtifacts", "writeRuleHash", "retrieveArtifacts", "build", "StoreTargetMetadata", "moveOutputs", "calculateAndCheckRuleHash", "storeInCache", "storeInCache"]
def buildCheckErrReturns : Bool := true
def fgCheckInsideChanged : Bool := false
def fgCheckCond : String := "changed||len(target.Hashes)>0"
def fgCheckCoversDeclared : Bool := true
def buildMoveBeforeCheck : Bool := true
def buildStoreAfterCheck : Bool := true
def retrieveOnFail : List String := ["RemoveOutputs", "return false"]
def retrieveOrder : List String := ["retrieveFromCache", "calculateAndCheckRuleHash", "RemoveOutputs"]
def buildErrRemovesOutputs : Bool := true
def checkersSource : String := "HashCheckers"
def checkersLookup : String := "Hasher"
def hasherTable : List String := ["sha1=sha1.New", "sha256=sha256.New", "crc32=newCRC32", "crc64=newCRC64", "blake3=newBlake3", "xxhash=newXXHash"]
def pathHasherFrom : String := "HashFunction"
def defaultHashCheckers : List String := ["sha1", "sha256", "blake3"]
def defaultHashFunction : String := "sha256"
def configHashCoversHashCheckers : Bool := false
def ruleHashCoversHashes : Bool := true
def ruleHashCoversHashCheckers : Bool := true
end PlzVerif.Generated.C35
