-- REGENERATED from src/core/test_results.go by /verif/harness/extract/c27 on every run. Do not edit.
namespace PlzVerif.Generated.C27
def enumOrder : List String := ["NotExecutable", "Unreachable", "Uncovered", "Covered"]
def mergeCmp : String := ">"
def mergeNew : String := "param1"
def mergeOld : String := "local"
def outputRunes : List Char := ['N', 'X', 'U', 'C']
end PlzVerif.Generated.C27
