-- REGENERATED from src/cmap/cmap.go, src/cmap/cerrmap.go by /verif/harness/extract/c15 on every run. Do not edit.
namespace PlzVerif.Generated.C15
-- a row is (case, store, close, returned values, calls, lock operations and map accesses in program order, further effects)
def setRows : List (String × String × String × String × List String × List String × List String) := [
  ("absent/ow", "val:param", "-", "true", [], ["Lock", "defer Unlock", "access"], []),
  ("absent/!ow", "val:param", "-", "true", [], ["Lock", "defer Unlock", "access"], []),
  ("val/ow", "val:param", "-", "true", [], ["Lock", "defer Unlock", "access"], []),
  ("val/!ow", "-", "-", "false", [], ["Lock", "defer Unlock", "access"], []),
  ("waiting/ow", "val:param", "entry#1.Wait", "true", [], ["Lock", "defer Unlock", "access"], []),
  ("waiting/!ow", "val:param", "entry#1.Wait", "true", [], ["Lock", "defer Unlock", "access"], [])]
def lazySetRows : List (String × String × String × String × List String × List String × List String) := [
  ("absent", "val:f", "-", "p1(),true", ["p1()"], ["Lock", "defer Unlock", "access"], []),
  ("val", "-", "-", "entry#1.Val,false", [], ["Lock", "defer Unlock", "access"], []),
  ("waiting", "val:f", "entry#1.Wait", "p1(),true", ["p1()"], ["Lock", "defer Unlock", "access"], [])]
def getRows : List (String × String × String × String × List String × List String × List String) := [
  ("fast:val", "-", "-", "entry#1.Val,entry#1.Wait,false", [], ["RLock", "access", "RUnlock"], []),
  ("fast:waiting", "-", "-", "entry#1.Val,entry#1.Wait,false", [], ["RLock", "access", "RUnlock"], []),
  ("slow:absent", "placeholder", "-", "zero,make(chan),true", [], ["RLock", "access", "RUnlock", "Lock", "defer Unlock", "access"], []),
  ("slow:val", "-", "-", "entry#2.Val,entry#2.Wait,false", [], ["RLock", "access", "RUnlock", "Lock", "defer Unlock", "access"], []),
  ("slow:waiting", "-", "-", "entry#2.Val,entry#2.Wait,false", [], ["RLock", "access", "RUnlock", "Lock", "defer Unlock", "access"], [])]
def containsRows : List (String × String × String × String × List String × List String × List String) := [
  ("any", "-", "-", "present#1", [], ["RLock", "defer RUnlock", "access"], [])]
def valuesRows : List (String × String × String × String × List String × List String × List String) := [
  ("val", "-", "-", "make(slice)", [], ["RLock", "defer RUnlock", "access"], ["append entry#1.Val"]),
  ("waiting", "-", "-", "make(slice)", [], ["RLock", "defer RUnlock", "access"], [])]
def rangeRows : List (String × String × String × String × List String × List String × List String) := [
  ("val", "-", "-", "", ["p0(key#1,entry#1.Val)"], ["RLock", "defer RUnlock", "access"], []),
  ("waiting", "-", "-", "", [], ["RLock", "defer RUnlock", "access"], [])]
def mapRows : List (String × String × String × String × List String × List String × List String) := [
  ("Add", "-", "-", "recv.shards[recv.hasher(p0)&recv.mask].Set(p0,p1,false)", [], [], []),
  ("AddOrGet", "-", "-", "recv.shards[recv.hasher(p0)&recv.mask].LazySet(p0,p1)", [], [], []),
  ("Set", "-", "-", "", ["recv.shards[recv.hasher(p0)&recv.mask].Set(p0,p1,true)"], [], []),
  ("Get", "-", "-", "recv.shards[recv.hasher(p0)&recv.mask].Get(p0).0", ["recv.shards[recv.hasher(p0)&recv.mask].Get(p0)"], [], []),
  ("Contains", "-", "-", "recv.shards[recv.hasher(p0)&recv.mask].Contains(p0)", [], [], []),
  ("GetOrWait", "-", "-", "recv.shards[recv.hasher(p0)&recv.mask].Get(p0)", [], [], [])]
def valuesLoop : List String := ["i:=0", "i<len(recv.shards)", "i++", "ret=append(ret,recv.shards[i].Values()...)"]
def newFacts : List String := ["p0-1", "(p0&mask)!=0", "mask"]
def getOrSetRows : List (String × String × String × String × List String × List String × List String) := [
  ("err=true,first=true,wait=true,limiter=true", "-", "-", "recv.m.GetOrWait(p0).0.Val,recv.m.GetOrWait(p0).0.Err", ["recv.m.GetOrWait(p0)"], [], []),
  ("err=true,first=true,wait=true,limiter=false", "-", "-", "recv.m.GetOrWait(p0).0.Val,recv.m.GetOrWait(p0).0.Err", ["recv.m.GetOrWait(p0)"], [], []),
  ("err=true,first=true,wait=false,limiter=true", "-", "-", "recv.m.GetOrWait(p0).0.Val,recv.m.GetOrWait(p0).0.Err", ["recv.m.GetOrWait(p0)"], [], []),
  ("err=true,first=true,wait=false,limiter=false", "-", "-", "recv.m.GetOrWait(p0).0.Val,recv.m.GetOrWait(p0).0.Err", ["recv.m.GetOrWait(p0)"], [], []),
  ("err=true,first=false,wait=true,limiter=true", "-", "-", "recv.m.GetOrWait(p0).0.Val,recv.m.GetOrWait(p0).0.Err", ["recv.m.GetOrWait(p0)"], [], []),
  ("err=true,first=false,wait=true,limiter=false", "-", "-", "recv.m.GetOrWait(p0).0.Val,recv.m.GetOrWait(p0).0.Err", ["recv.m.GetOrWait(p0)"], [], []),
  ("err=true,first=false,wait=false,limiter=true", "-", "-", "recv.m.GetOrWait(p0).0.Val,recv.m.GetOrWait(p0).0.Err", ["recv.m.GetOrWait(p0)"], [], []),
  ("err=true,first=false,wait=false,limiter=false", "-", "-", "recv.m.GetOrWait(p0).0.Val,recv.m.GetOrWait(p0).0.Err", ["recv.m.GetOrWait(p0)"], [], []),
  ("err=false,first=true,wait=true,limiter=true", "-", "-", "p1().0,p1().1", ["recv.m.GetOrWait(p0)", "p1()", "recv.m.Set(p0,errV{Err:p1().1,Val:p1().0})"], [], []),
  ("err=false,first=true,wait=true,limiter=false", "-", "-", "p1().0,p1().1", ["recv.m.GetOrWait(p0)", "p1()", "recv.m.Set(p0,errV{Err:p1().1,Val:p1().0})"], [], []),
  ("err=false,first=true,wait=false,limiter=true", "-", "-", "p1().0,p1().1", ["recv.m.GetOrWait(p0)", "p1()", "recv.m.Set(p0,errV{Err:p1().1,Val:p1().0})"], [], []),
  ("err=false,first=true,wait=false,limiter=false", "-", "-", "p1().0,p1().1", ["recv.m.GetOrWait(p0)", "p1()", "recv.m.Set(p0,errV{Err:p1().1,Val:p1().0})"], [], []),
  ("err=false,first=false,wait=true,limiter=true", "-", "-", "recv.Get(p0)", ["recv.m.GetOrWait(p0)", "recv.l.Release()"], [], ["defer call recv.l.Acquire()", "recv recv.m.GetOrWait(p0).1"]),
  ("err=false,first=false,wait=true,limiter=false", "-", "-", "recv.Get(p0)", ["recv.m.GetOrWait(p0)"], [], ["recv recv.m.GetOrWait(p0).1"]),
  ("err=false,first=false,wait=false,limiter=true", "-", "-", "recv.m.GetOrWait(p0).0.Val,recv.m.GetOrWait(p0).0.Err", ["recv.m.GetOrWait(p0)"], [], []),
  ("err=false,first=false,wait=false,limiter=false", "-", "-", "recv.m.GetOrWait(p0).0.Val,recv.m.GetOrWait(p0).0.Err", ["recv.m.GetOrWait(p0)"], [], [])]
def errGetRows : List (String × String × String × String × List String × List String × List String) := [
  ("any", "-", "-", "recv.m.Get(p0).Val,recv.m.Get(p0).Err", ["recv.m.Get(p0)"], [], [])]
end PlzVerif.Generated.C15
