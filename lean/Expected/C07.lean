-- REGENERATED from src/build/incrementality.go, src/core/build_target.go, src/core/build_label.go by /verif/harness/extract/c07 on every run. Do not edit.
namespace PlzVerif.Generated.C07
def depOrderAccessors : List (String × String) := [("BuildTarget.DeclaredDependencies", "sorted"), ("BuildTarget.DeclaredDependenciesStrict", "sorted"), ("BuildTarget.BuildDependencies", "sorted"), ("BuildTarget.ExportedDependencies", "insertion-order")]
def unprefixedAliases : Bool := false
def mapRanges : List (String × String × String) := [
  ("ruleHash", "target.NamedSources", "sorted"),
  ("ruleHash", "target.Provides", "sorted"),
  ("hashMap", "eps", "sorted"),
  ("BuildTarget.DeclaredOutputNames", "target.namedOutputs", "sorted"),
  ("BuildTarget.allBuildInputs", "named", "sorted"),
  ("BuildTarget.getCommand", "commands", "max")
]
end PlzVerif.Generated.C07
