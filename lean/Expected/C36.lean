-- REGENERATED from src/core/build_target.go, src/core/state.go, src/core/build_label.go by /verif/harness/extract/c36 on every run. Do not edit.
namespace PlzVerif.Generated.C36
def star : Char := '*'
def matchSuffixOf : String := "param0"
def matchPrefixArgs : List String := ["param1", "param0[:len(P) - 1]"]
def matchHasEquality : Bool := true
def hasLabelPatternIsQuery : Bool := true
def testLabel : String := "test"
def testLabelNeedsIsTest : Bool := true
def hasAllLabelsShape : List String := ["range", "not-HasLabel", "return false", "return true"]
def loopOrder : List String := ["includes", "excludes"]
def loopAssigns : List String := ["includes=true;break", "excludes=false;break"]
def sep : Char := ','
def defaultInit : String := "len(INCLUDES) == 0"
def earlyReturnCond : String := "len(INCLUDES) == 0 && len(EXCLUDES) == 0"
def stateExcludeTargetsVia : String := "Includes:false"
def stateTailCall : String := "ShouldInclude(Include,Exclude)"
def setSplitsOnLooksLike : Bool := true
def looksLikeLits : List String := ["//", ":", "@"]
def expandShape : List String := ["ShouldInclude", "and(not-justTests-or-IsTest)", "all:PackageByLabel", "subtree:PackageMap+Includes", "sorted"]
end PlzVerif.Generated.C36
