-- REGENERATED from src/core/command_replacements.go by /verif/harness/extract/c37 on every run. Do not edit.
namespace PlzVerif.Generated.C37
def seqs : List (List Char × Nat × Bool × Bool × Bool × Bool × Bool) := [(['l', 'o', 'c', 'a', 't', 'i', 'o', 'n'], 11, false, false, false, false, false), (['l', 'o', 'c', 'a', 't', 'i', 'o', 'n', 's'], 12, false, true, false, false, false), (['e', 'x', 'e'], 6, true, false, false, false, false), (['o', 'u', 't', '_', 'l', 'o', 'c', 'a', 't', 'i', 'o', 'n'], 15, false, false, false, true, false), (['o', 'u', 't', '_', 'l', 'o', 'c', 'a', 't', 'i', 'o', 'n', 's'], 16, false, true, false, true, false), (['o', 'u', 't', '_', 'e', 'x', 'e'], 10, true, false, false, true, false), (['d', 'i', 'r'], 6, false, true, true, false, false), (['o', 'u', 't', '_', 'd', 'i', 'r'], 10, false, true, true, true, false), (['h', 'a', 's', 'h'], 7, false, true, true, false, true)]
def quoteChars : List Char := ['|', '&', ';', '(', ')', '<', '>']
def quoteLeft : List Char := ['"']
def quoteRight : List Char := ['"']
def guards : List String := ["!multiple && allOutputs && ep==\"\" && len(dep.Outputs())>1", "!dep.IsBinary && runnable", "len(dep.Outputs())==0 && runnable", "test && tool"]
end PlzVerif.Generated.C37
