-- REGENERATED from src/core/command_replacements.go by /verif/harness/extract/c37 on every run. Do not edit.
namespace PlzVerif.Generated.C37
def seqs : List (List Char × Nat × Bool × Bool × Bool × Bool × Bool) := [(['l', 'o', 'c', 'a', 't', 'i', 'o', 'n'], 11, false, false, false, false, false), (['l', 'o', 'c', 'a', 't', 'i', 'o', 'n', 's'], 12, false, true, false, false, false), (['e', 'x', 'e'], 6, true, false, false, false, false), (['o', 'u', 't', '_', 'l', 'o', 'c', 'a', 't', 'i', 'o', 'n'], 15, false, false, false, true, false), (['o', 'u', 't', '_', 'l', 'o', 'c', 'a', 't', 'i', 'o', 'n', 's'], 16, false, true, false, true, false), (['o', 'u', 't', '_', 'e', 'x', 'e'], 10, true, false, false, true, false), (['d', 'i', 'r'], 6, false, true, true, false, false), (['o', 'u', 't', '_', 'd', 'i', 'r'], 10, false, true, true, true, false), (['h', 'a', 's', 'h'], 7, false, true, true, false, true)]
def quoteChars : List Char := ['|', '&', ';', '(', ')', '<', '>']
def quoteLeft : List Char := ['"']
def quoteRight : List Char := ['"']
def multiGuardAccessor : String := "Outputs"
def zeroGuardAccessor : String := "Outputs"
def loopAccessor : String := "Outputs"
def guards : List String := ["!multiple && allOutputs && ep==\"\" && len(dep.Outputs())>1", "!dep.IsBinary && runnable", "len(dep.Outputs())==0 && runnable", "test && tool", "!multiple && allOutputs && ep==\"\" && len(dep.Outputs())==0"]
def passesChained : Bool := true
-- skelCheckTail: if p9 { v0, v1 := p0.TargetHasher.OutputHash(p2) if v1 != nil { panic(v1) } return base64.RawURLEncoding.EncodeToString(v0) } ; var v2 strings.Builder ; if p3 == "" { for v3, v4 := range p2.Outputs() { if p11 || v4 == p4 { if p12 && !p0.WillRunRemotely(p1) { v5, v6 := filepath.Abs(handleDir(p2.OutDir(), v4, p7)) if v6 != nil { log.Fatalf("…", v6) } v2.WriteString(quote(v5)) } else { v2.WriteString(quote(fileDestination(p1, p2, v4, p7, p8, p10))) } v2.WriteString(" ") if p7 { break } } } return strings.TrimRight(v2.String(), " ") } ; v7, v8 := p2.EntryPoints[p3] ; if !v8 { log.Fatalf("…", p2, p3) } ; if p12 && !p0.WillRunRemotely(p1) { v9, v10 := filepath.Abs(handleDir(p2.OutDir(), v7, p7)) if v10 != nil { log.Fatalf("…", v10) } return quote(v9) } ; return quote(fileDestination(p1, p2, v7, p7, p8, p10))
def skelCheckTail : String := "5dc4ce40883ca636767d3870"
-- skelFileDestination: if p4 { return handleDir(p1.OutDir(), p2, p3) } ; if p5 && p0 == p1 { return "./" + p2 } ; return handleDir(p1.Label.PackageDir(), p2, p3)
def skelFileDestination : String := "f3d77e2b10c364f21f1480ff"
-- skelHandleDir: if p2 { return p0 } ; return filepath.Join(p0, p1)
def skelHandleDir : String := "ac1e5d5f468350ce2019b35b"
-- skelReplaceSequenceLabel: if p2 == p1.Label { return checkAndReplaceSequence(p0, p1, p1, p3, p4, p5, p6, p7, p8, p9, p10, p11, false) } ; v0 := p1.DependenciesFor(p2) ; if len(v0) == 0 { panic(fmt.Sprintf("…", p1.Label, p4, p2)) } ; return checkAndReplaceSequence(p0, p1, v0[0], p3, p4, p5, p6, p7, p8, p9, p10, p11, p1.IsTool(p2))
def skelReplaceSequenceLabel : String := "734076f9ff401d7ac0c39e69"
-- skelReplaceSequence: if LooksLikeABuildLabel(p2) { v0, v1 := splitEntryPoint(p2) v2, v3 := TryParseBuildLabel(v0, p1.Label.PackageName, p1.Label.Subrepo) if v3 != nil { panic(v3) } return replaceSequenceLabel(p0, p1, v2, v1, v0, p3, p4, p5, p6, p7, p8, true) } ; for v4, v5 := range sourcesOrTools(p1, p3) { if v6, v7 := v5.Label(); v7 && v5.String() == p2 { return replaceSequenceLabel(p0, p1, v6, "", p2, p3, p4, p5, p6, p7, p8, false) } else if p3 && v5.String() == p2 { return v5.String() } } ; if p7 { return base64.RawURLEncoding.EncodeToString(p0.PathHasher.MustHash(filepath.Join(p1.Label.PackageName, p2), p1.HashLastModified())) } ; if strings.HasPrefix(p2, "/") { return p2 } ; return quote(filepath.Join(p1.Label.PackageName, p2))
def skelReplaceSequence : String := "afd5d348adc4b747c8325249"
-- skelSplitEntryPoint: if strings.Contains(p0, "|") { v0 := strings.Split(p0, "|") return v0[0], v0[1] } ; return p0, ""
def skelSplitEntryPoint : String := "b5b316dc012cad63fe35eb00"
-- skelSourcesOrTools: if p1 { return p0.Tools } ; return p0.AllSources()
def skelSourcesOrTools : String := "5fbe9d443a4d3f3c2eff30fc"
-- skelOutputs: var v0 []string ; if target.IsFilegroup { v0 = target.filegroupOutputs(target.AllSources()) } else { v0 = make([]string, len(target.outputs)) copy(v0, target.outputs) } ; if target.namedOutputs != nil { for v1, v2 := range target.namedOutputs { v0 = append(v0, v2...) } } ; sort.Strings(v0) ; return v0
def skelOutputs : String := "4b57821a9b4fc00d60cb01da"
-- skelDeclaredOutputs: return target.outputs
def skelDeclaredOutputs : String := "d158d44f14cc8b60ceb85362"
-- skelFilegroupOutputs: v0 := make([]string, 0, len(p0)) ; for v1, v2 := range p0 { if v3, v4 := v2.(AnnotatedOutputLabel); v4 { for v5, v6 := range target.DependenciesFor(v3.BuildLabel) { v0 = append(v0, v6.NamedOutputs(v3.Annotation)...) } } else if v7, v8 := v2.nonOutputLabel(); !v8 { v0 = append(v0, v2.LocalPaths(nil)[0]) } else { for v9, v10 := range target.DependenciesFor(v7) { v0 = append(v0, v10.Outputs()...) } } } ; return v0
def skelFilegroupOutputs : String := "fcf0cbe3ac0d99b28ef9d697"
end PlzVerif.Generated.C37
