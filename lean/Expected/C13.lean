-- REGENERATED from src/cache/http_cache.go, src/cache/cmd_cache.go by /verif/harness/extract/c13 on every run. Do not edit.
namespace PlzVerif.Generated.C13
def httpOnWalkError : List String := []
def httpDeferred : List String := ["w.Close", "gzw.Close", "tw.Close"]
def httpClosesPipeNormally : Bool := true
def storeFileOrder : List String := ["lstat", "header", "open", "copy"]
def readTarEofIsHit : Bool := true
def readTarErrorIsMiss : Bool := true
def httpNotFoundIsMiss : Bool := true
def httpNon200IsError : Bool := true
def cmdOnWalkError : List String := ["cancel", "return"]
def cmdDeferred : List String := ["w.Close", "tw.Close"]
def cmdStoreCancellable : Bool := true
def cmdRetrieveAndsExitStatus : Bool := true
end PlzVerif.Generated.C13
