-- REGENERATED from src/cache/http_cache.go, src/cache/cmd_cache.go by /verif/harness/extract/c13 on every run. Do not edit.
namespace PlzVerif.Generated.C13
def httpOnWalkError : List String := ["close-with-error", "return"]
def httpDeferred : List String := ["pipe.Close", "gzip.Close", "tar.Close"]
def httpClosesPipeNormally : Bool := true
def storeFileOrder : List String := ["lstat", "header", "open", "copy"]
def readTarReturns : List String := ["next-eof -> true, nil", "next-error -> false, err", "mkdirall -> false, err", "mkdirall -> false, err", "open -> false, err", "copy -> false, err", "close -> false, err", "symlink -> false, err"]
def readTarLoopLeftOnlyByReturn : Bool := true
def httpNotFoundIsMiss : Bool := true
def httpNon200IsError : Bool := true
def cmdOnWalkError : List String := ["cancel", "return"]
def cmdDeferred : List String := ["pipe.Close"]
def cmdTarClosedAtEndOfSuccessPath : Bool := true
def cmdStoreCancellable : Bool := true
def cmdRetrieveAndsExitStatus : Bool := true
def cmdRetrieveInputNeverEndsCleanly : Bool := true
end PlzVerif.Generated.C13
