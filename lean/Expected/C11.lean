-- REGENERATED from src/build/incrementality.go, src/core/utils.go, src/test/test_step.go, src/fs/hash.go, src/build/filegroup.go by /verif/harness/extract/c11 on every run. Do not edit.
namespace PlzVerif.Generated.C11
def copyHashMarksDestination : Bool := true
def copyHashMarkCondition : String := "<copy>"
def copyHashPassesCopyTrue : Bool := true
def hashMarkedPathAssigns : List String := ["store=false", "recalc=true"]
def hashWorkerArgs : List String := ["path", "store", "!recalc", "timestamp"]
def hashWorkerReadGuardedByRead : Bool := true
def hashWorkerStoreGuardedByStore : Bool := true
def filegroupBuildSequence : List String := ["built", "CopyHash", "built", "CopyHash"]
def runtimeHashPathVia : String := "PathHasher.Hash(recalc=false)"
def runtimeHashParts : List String := ["rule(runtime=true,postBuild=false)", "rule(runtime=true,postBuild=true)", "config", "files-digest"]
def runtimeHashLoopIter : String := "IterRuntimeFiles"
def runtimeHashLoopWrites : List String := ["hash", "name:dest", "nul"]
def runtimeHashLoopVars : Nat := 2
def runtimeHashLoopAbsoluteNames : String := "false"
def ruleHashRuntimeWrites : List String := ["each:AllData():String", "each:Test.Outputs:raw", "hashOptionalBool:Test.Sandbox", "hashBool:Test.NoOutput", "write:GetTestCommand(state)", "write:Test.ArgsPlaceholder"]
def iterRuntimeFilesOrder : List String := ["Outputs", "OwnRuntimeDeps", "AllData", "RuntimeDepsOfPrevious", "AllTestTools", "RuntimeDepsOfPrevious", "AllDebugData", "RuntimeDepsOfPrevious", "AllDebugTools", "RuntimeDepsOfPrevious"]
def iterRuntimeFilesDedupBy : String := "dest"
def needToRunConds : List String := ["force", "state-and-results"]
def needToRunForceFirst : Bool := true
def needToRunStates : List String := ["Unchanged", "Reused"]
def needToRunChecksResultsExist : Bool := true
def needToRunVerifiesResultsHash : Bool := true
def needToRunFallback : String := "!retrieveFromCache"
def reuseGate : List String := ["state.NumTestRuns==1", "!runRemotely", "!needToRun()"]
def reuseGateUsesCachedResults : Bool := true
def removeOutputsBeforeRun : Bool := true
def storeCallGuard : String := "AllSucceeded"
def storeInnerGuards : List String := ["len(state.TestArgs)>0", "results.Failures()>0"]
def storeRecordsRuntimeHashOnResults : Bool := true
def cachedRejectsNotAllSucceeded : Bool := true
def moveOutputFileRecordsHash : Bool := true
def verifyHashIsEqualityWithRecorded : Bool := true
def removeTestOutputsRemovesResults : Bool := true
end PlzVerif.Generated.C11
