-- REGENERATED from src/process/process.go, src/process/exec_linux.go by /verif/harness/extract/c30 on every run. Do not edit.
namespace PlzVerif.Generated.C30
def signals : List String := ["SIGTERM", "SIGKILL"]
def termWaitMs : Nat := 30
def killWaitMs : Nat := 1000
def secondRoundAlways : Bool := true
def killsGroup : Bool := true
def timeoutBranchKills : Bool := true
def normalBranchSignals : Bool := false
def setpgid : Bool := true
-- skelExecTail: v5 := v1.Start() ; if v5 != nil { return nil, nil, v5 } ; v6 := make(chan error) ; r0.registerProcess(v1, v6) ; defer r0.removeProcess(v1) ; go runCommand(v1, v6) ; select { case v5 = <-v6: case <-p0.Done(): v5 = p0.Err() r0.KillProcess(v1) } ; return v2.Bytes(), v3.Bytes(), v5
def skelExecTail : String := "f74bcb32d39662302e2306ce"
-- skelKillProcess: v0 := sendSignal(p0, p1, syscall.SIGTERM, 30*time.Millisecond) ; if !sendSignal(p0, p1, syscall.SIGKILL, time.Second) && !v0 { log.Error("…") } ; r0.removeProcess(p0)
def skelKillProcess : String := "6a294cfd14bbeb170da37bfa"
-- skelSendSignal: if p0.Process == nil { log.Debug("…") return false } ; log.Debug("…", p2, p0.Process.Pid) ; syscall.Kill(-p0.Process.Pid, p2) ; select { case <-p1: return true case <-time.After(p3): return false }
def skelSendSignal : String := "97b85005a7072dca44ca96ed"
-- skelRunCommand: p1 <- p0.Wait()
def skelRunCommand : String := "ece69639c4827fb8fd1c00f4"
end PlzVerif.Generated.C30
