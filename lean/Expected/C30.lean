-- REGENERATED from src/process/process.go, src/process/exec_linux.go by /verif/harness/extract/c30 on every run. Do not edit.
namespace PlzVerif.Generated.C30
def signals : List String := ["SIGTERM", "SIGKILL"]
def termWaitMs : Nat := 30
def killWaitMs : Nat := 1000
def secondRoundAlways : Bool := true
def killsGroup : Bool := true
def timeoutBranchKills : Bool := true
def normalBranchSignals : Bool := false
def setpgid : Bool := true
end PlzVerif.Generated.C30
