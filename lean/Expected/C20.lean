-- REGENERATED from src/core/build_label.go, src/core/build_target.go, src/core/state.go, src/parse/asp/targets.go by /verif/harness/extract/c20 on every run. Do not edit.
namespace PlzVerif.Generated.C20
def pkgBadChars : List Char := ['|', '$', '*', '?', '[', ']', '{', '}', ':', '(', ')', '&', '\\']
def tgtBadChars : List Char := ['|', '$', '*', '?', '[', ']', '{', '}', ':', '(', ')', '&', '/', '\\']
def pkgForbidsDoubleSlash : Bool := true
def pkgSingleCharLits : List String := ["/"]
def tgtOtherLits : List String := ["", ".", "..."]
def tgtSuffixChecks : List String := ["buildDirSuffix", "testDirSuffix"]
def buildDirSuffix : String := "._build"
def testDirSuffix : String := "._test"
def validateSuffixesChecks : Nat := 4
def parseLits : List String := ["", "...", "/", "/...", "///", ":", "@"]
def subrepoLits : List String := ["", "/", "//", ":"]
def parseValidateTargetCalls : Nat := 2
def parseValidatePackageCalls : Nat := 2
def subrepoValidateCalls : Nat := 0
def parseMinLen : List String := ["2"]
def tryParseRejectsEmptyName : Bool := true
def stringLits : List String := ["", "...", "/...", "//", "///", ":", "command-line targets"]
def allSubpackagesName : List String := ["..."]
def allTargetsName : List String := ["all"]
def parentLits : List String := ["#", "_"]
def originalTarget : List String := ["", "_ORIGINAL"]
def includesSlash : Bool := true
def matchesSlash : Bool := true
def matchesDot : Bool := true
def matchesLits : List String := ["", ".", "...", "/", "all"]
def matchesUsesParent : Bool := true
def isExperimentalUsesIncludes : Bool := true
def isExperimentalChecksSubrepo : Bool := true
def experimentalLabelName : String := "..."
def sandboxWhitelistMethod : String := "Matches"
def sandboxExpSlash : Bool := true
def sandboxLits : List String := ["", "%v is not whitelisted to opt out of the sandbox", "/", "_please"]
end PlzVerif.Generated.C20
