import PlzVerif.Model.PathHash
-- REGENERATED from src/fs/hash.go, src/fs/walk.go by /verif/harness/extract/c09 on every run. Do not edit.
namespace PlzVerif.Generated.C09
open PlzVerif.PathHash
def schema : Schema := {
    marker := [2],
    linkCond := (.and (.or .relNeDest (.not .absDest)) (.not .absPath)),
    topFile := [.content],
    topLinkIn := [.marker, .target],
    topLinkOut := [.marker, .content],
    dirFile := [.content],
    dirLink := [.marker],
    dirDir := [] }
def linkCond : String := "(rel != dest || !filepath.IsAbs(dest)) && !filepath.IsAbs(path)"
def hashRelativisesPath : Bool := true
def ensureRelativeShape : String := "hasprefix-trimprefix-trimleft-slash"
def fileHashWholeFile : Bool := true
def walkOptionKeys : List String := ["Callback"]
def walkUnsorted : Bool := false
def walkFollowsSymlinks : Bool := false
end PlzVerif.Generated.C09
