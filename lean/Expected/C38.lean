-- REGENERATED from src/format/fmt.go by /verif/harness/extract/c38 on every run. Do not edit.
namespace PlzVerif.Generated.C38
def formatPipeline : List String := ["build.ParseBuild", "simplify", "build.Format", "bytes.Equal", "fs.WriteFile"]
def loopInit : String := "i:=len(f.Stmt)-2"
def loopCond : String := "i>=0"
def loopPost : String := "i--"
def subincludeTests : List String := ["f.Stmt[i]", "f.Stmt[i+1]"]
def appendRoles : List String := ["cur.List,next.List"]
def deleteRanges : List String := ["i+1,i+2"]
def ifDepth : Nat := 2
def subincludeName : String := "subinclude"
def subincludeArgType : String := "*build.StringExpr"
def subincludeNilReturns : Nat := 2
end PlzVerif.Generated.C38
