-- REGENERATED from src/core/cycle_detector.go by /verif/harness/extract/c06 on every run. Do not edit.
namespace PlzVerif.Generated.C06
def accessorDependencies : List String := ["T.mutex.RLock()", "defer T.mutex.RUnlock()", "F1 := make(BuildTargets, 0, len(T.dependencies))", "for _, v01 := range T.dependencies { for _, v02 := range v01.v01 { F1 = append(F1, v02) } }", "sort.Sort(F1)", "return F1"]
def accessorBuildDependencies : List String := ["T.mutex.RLock()", "defer T.mutex.RUnlock()", "F1 := make(BuildTargets, 0, len(T.dependencies))", "for _, v01 := range T.dependencies { if !v01.runtime && !v01.data && !v01.internal && !v01.source { for _, v02 := range v01.v01 { F1 = append(F1, v02) } } }", "sort.Sort(F1)", "return F1"]
def persistPre : Bool := false
def persistPost : Bool := false
def detectorCollectionFields : List String := []
def checkWritesFields : List String := []
def guards : List String := ["stopped:nil", "in:post:nil", "in:pre:self"]
def completeFirst : Bool := true
def preLoop : List String := ["mark:pre"]
def postLoop : List String := ["mark:post", "unmark:pre"]
def loopMethod : String := "Dependencies"
def recurseOnLoopVar : Bool := true
def closeLast : Bool := true
def closeUsesDone : Bool := true
def closeRet : Bool := true
def prepend : Bool := true
def extRet : Bool := false
def fallthroughNil : Bool := true
def topRange : String := "AllTargets"
def topSkip : Bool := true
def topVisitsLoopVar : Bool := true
def topReturnsResult : Bool := true
end PlzVerif.Generated.C06
