-- REGENERATED from src/core/build_target.go, src/core/state.go, src/build/build_step.go, src/plz/plz.go by /verif/harness/extract/c04 on every run. Do not edit.
namespace PlzVerif.Generated.C04
def enumOrder : List String := ["Inactive", "Semiactive", "Active", "Pending", "Building", "Stopped", "Built", "Cached", "Unchanged", "Reused", "BuiltRemotely", "ReusedRemotely", "DependencyFailed", "Failed"]
def btIsBuilt : String := "returnBuilt<=recv&&recv<DependencyFailed"
def btState : String := "returnBuildTargetState(atomic.LoadInt32(&recv.state))"
def btSetState : String := "atomic.StoreInt32(&recv.state,int32(p0))"
def btSyncUpdateState : String := "returnatomic.CompareAndSwapInt32(&recv.state,int32(p0),int32(p1))"
def btFinishBuild : String := "close(recv.finishedBuilding)"
def btWaitForBuild : String := "waitOnChan(recv.finishedBuilding,\"Stillwaitingon(target%v).WaitForBuild(dependant%v)\",recv.Label,p0)"
def casPairs : List (String × String × String) := [("queueResolvedTarget", "Inactive", "Active"), ("queueResolvedTarget", "Semiactive", "Active"), ("queueResolvedTarget", "Inactive", "Semiactive"), ("queueTargetAsync", "Active", "Pending")]
def sk_queueResolvedTarget : String := "if(p0.State()>=Active&&!p1){returnnil};queueAsync:=func{atomic.AddInt64(&recv.progress.numPending,1);go recv.queueTargetAsync(p0,p1,l0,p2)};if(recv.NeedBuild||p1){if(p0.SyncUpdateState(Inactive,Active)||p0.SyncUpdateState(Semiactive,Active)){queueAsync(true)}}else{if(p0.SyncUpdateState(Inactive,Semiactive)){queueAsync(false)}};returnnil"
def sk_queueTargetAsync : String := "defer recv.taskDone(true);range(p0.DeclaredDependencies()){if(l1:=recv.queueTarget(l0,p0.Label,p1,p3);l1!=nil){recv.asyncError(l0,l1);return}};for(;;){if(l3:=p0.resolveDependencies(recv.Graph,func{returnrecv.queueResolvedTarget(l4,p1,ParseModeNormal)});l3!=nil){recv.asyncError(p0.Label,l3);return};if(p2){range(p0.Dependencies()){l5.WaitForBuild(p0.Label);if(l5.State()>=DependencyFailed){p0.SetState(DependencyFailed);recv.LogBuildResult(p0,TargetBuilt,\"Dependencyfailed\");p0.FinishBuild();return}}};if(!l2.Load()){if(p2&&p0.SyncUpdateState(Active,Pending)){recv.addPendingBuild(p0)};return}}"
def sk_addPendingBuild : String := "atomic.AddInt64(&recv.progress.numPending,1);go func{recv.pendingActions<-Task{Target:p0,Type:BuildTask}}()"
def sk_taskDone : String := "if(!p0){atomic.AddInt64(&recv.progress.numDone,1)};if(atomic.AddInt64(&recv.progress.numPending,-1)<=0){recv.Stop()}"
def sk_Stop : String := "recv.progress.closeOnce.Do(func{close(recv.pendingParses);close(recv.pendingActions)})"
def sk_asyncError : String := "recv.LogBuildError(p0,TargetBuildFailed,p1,\"\");recv.Stop()"
def sk_checkForCycles : String := "if(l0:=recv.progress.cycleDetector.Check();l0!=nil){recv.LogBuildError(l0.Cycle[0].Label,TargetBuildFailed,l0,\"\");recv.Stop()}"
def sk_Build : String := "p1.SetState(core.Building);if(l1:=buildTarget(p0,p1,p2);l1!=nil){if(errors.Is(l1,errStop)){p1.SetState(core.Stopped);p0.LogBuildResult(p1,core.TargetBuildStopped,\"Buildstopped\");return};p0.LogBuildError(p1.Label,core.TargetBuildFailed,l1,\"Buildfailed:%s\",l1);p1.SetState(core.Failed);p1.FinishBuild();return};p1.FinishBuild()"
def sk_Run : String := "completeAction:=func{if(l6.Type!=core.BuildTask){p2.TaskDone();return};if(!l6.Target.State().IsBuilt()){p2.TaskDone();return};p2.TaskDone()};go func{range(l0){go func{p2.TaskDone()}(l9)}}();go func{range(l1){go func{defer completeAction(l13,l12);switch(l12.Type){case(core.BuildTask){build.Build(p2,l12.Target,l13)}}}(l11)}}()"
end PlzVerif.Generated.C04
