-- REGENERATED from src/build/build_step.go, src/build/incrementality.go, src/fs/fs.go, src/fs/attr.go by /verif/harness/extract/c32 on every run. Do not edit.
namespace PlzVerif.Generated.C32
def buildPhases : List String := ["unstamp", "metadata", "move", "stamp", "cache"]
def loadMetadataFailureIsFatal : Bool := true
def buildFailureCalls : List String := ["buildTarget", "RemoveOutputs"]
def removeOutputsCalls : List String := ["Outputs", "RemoveAll"]
def oldOutputsRehashedBeforeCommand : Bool := true
def outputHashRecalcArgs : List String := ["true", "true"]
def stampPhaseCalls : List String := ["OutputHash", "writeRuleHash"]
def verifyThenStamp : List String := ["OutputHash", "checkRuleHashes", "writeRuleHash", "Chmod"]
def verifyFailureReturnsError : Bool := true
def moveOutputsLoopsOverOutputs : Bool := true
def moveOutputCalls : List String := ["Hash", "PathExists", "Hash", "Equal", "RemoveAll", "PathExists", "MkdirAll", "Rename", "RecursiveCopy"]
def moveOutputKeepsBeforeRemove : Bool := true
def storeMetadataCalls : List String := ["RemoveAll", "MkdirAll", "Create", "Encode"]
def writeRuleHashSteps : List String := ["if(len(outputs) == 0):RecordAttrFile", "range(outputs):RecordAttr(element)", "if(FileExists):RecordAttr(targetBuildMetadataFileName)"]
def writeRuleHashOverFullOutputs : Bool := true
def removeRuleHashSteps : List String := ["if(len(outputs) == 0):RemoveAttr", "range(outputs):RemoveAttr(element)"]
def removeRuleHashOverFullOutputs : Bool := true
def removeAttrCalls : List String := ["Remove", "fallbackFileName", "LRemove", "LRemove"]
def readLoop : List String := ["cur=ReadAttr(element)", "if(cur==nil)→empty", "if(acc!=nil&&!bytes.Equal(acc,cur))→empty", "acc=cur"]
def needsBuildingMetadataMissingFirst : Bool := true
def needsBuildingChecksEveryOutput : Bool := true
def needsBuildingReadsStampVia : List String := ["readRuleHashFromXattrs"]
def recordAttrFileCalls : List String := ["WriteFile", "fallbackFileName"]
def fallbackFileNameExpr : String := "dir + \".rule_hash_\" + file"
def recordAttrFallbackWhen : String := "!xattrsEnabled"
def recordAttrCalls : List String := ["RecordAttrFile", "LSet", "IsSymlink", "RecordAttrFile", "LSet"]
def readAttrCalls : List String := ["ReadAttrFile", "LGet", "IsSymlink", "ReadAttrFile"]
def writeFileCalls : List String := ["MkdirAll", "CreateTemp", "Copy", "Close", "Chmod", "renameFile"]
def writeFileTempInDestDir : Bool := true
def writeFileRenameArgs : List String := ["temp.Name", "dest"]
def writeFileCopyArgs : List String := ["temp", "reader"]
def writeFileChmodArgs : List String := ["temp.Name", "mode"]
def writeFileDefaultMode : String := "0664"
def renameFileCalls : List String := ["Rename", "copyFile", "RemoveAll"]
end PlzVerif.Generated.C32
