-- REGENERATED from src/cache/dir_cache.go by /verif/harness/extract/c12 on every run. Do not edit.
namespace PlzVerif.Generated.C12
def storeOrder : List String := ["remove-final", "store-tmp", "rename-tmp-final"]
def tmpSuffix : String := "="
def readyOrder : List String := ["mkdirall-parent", "removeall-path"]
def storeFileOrder : List String := ["ready-dest", "link-to-dest"]
def failedTarballRemoved : Bool := true
def retrieveChecksExistsFirst : Bool := true
def emptyOutsIsHit : Bool := true
def enoentIsMiss : Bool := true
def damagedIsMiss : Bool := true
def retrievePreparesEveryEntry : Bool := true
def retrieveOpenTruncates : Bool := false
def retrieveReadySeq : List String := ["assign", "mkdir-parent-if-slash", "unlink-dest", "return"]
def retrieveReadyReturnsBeforeUnlink : Bool := false
def plainRetrievePreparesEveryOut : Bool := true
def pathParts : List String := ["join-b64key", "param2", "param3", "field-Suffix"]
end PlzVerif.Generated.C12
