-- REGENERATED from src/core/build_env.go, src/core/config.go, src/fs/home.go, src/process/*.go, src/build/build_step.go by /verif/harness/extract/c10 on every run. Do not edit.
namespace PlzVerif.Generated.C10
def userEnvSorted : Bool := true
def envReads : List (String × String × String × String) := [
  ("src/core/build_env.go", "TargetEnvironment", "os.Getenv", "<var>"),
  ("src/core/build_env.go", "TargetEnvironment", "os.Getenv", "<var>"),
  ("src/core/build_env.go", "ExecEnvironment", "os.Getenv", "\"TERM\""),
  ("src/core/config.go", "Configuration.getBuildEnv", "os.LookupEnv", "<var>"),
  ("src/fs/home.go", "ExpandHomePath", "os.Getenv", "\"HOME\""),
  ("src/build/incrementality.go", "ruleHash", "os.Getenv", "<var>")
]
def envKeys : List (String × String) := [
  ("GeneralBuildEnvironment", "\"PLZ_ENV\""),
  ("GeneralBuildEnvironment", "\"LANG\""),
  ("GeneralBuildEnvironment", "\"ARCH\""),
  ("GeneralBuildEnvironment", "\"OS\""),
  ("GeneralBuildEnvironment", "\"XARCH\""),
  ("GeneralBuildEnvironment", "\"XOS\""),
  ("GeneralBuildEnvironment", "\"PKG_CONFIG_PATH\""),
  ("TargetEnvironment", "\"PKG\""),
  ("TargetEnvironment", "\"PKG_DIR\""),
  ("TargetEnvironment", "\"NAME\""),
  ("TargetEnvironment", "\"BUILD_CONFIG\""),
  ("TargetEnvironment", "\"CONFIG\""),
  ("TargetEnvironment", "e"),
  ("TargetEnvironment", "e"),
  ("BuildEnvironment", "\"TMP_DIR\""),
  ("BuildEnvironment", "\"TMPDIR\""),
  ("BuildEnvironment", "\"OUTS\""),
  ("BuildEnvironment", "\"HOME\""),
  ("BuildEnvironment", "\"PYTHONHASHSEED\""),
  ("BuildEnvironment", "\"OUT\""),
  ("BuildEnvironment", "\"SRCS\""),
  ("BuildEnvironment", "\"SRC\""),
  ("BuildEnvironment", "\"SRCS_\" + strings.ToUpper(name)"),
  ("BuildEnvironment", "\"OUTS_\" + strings.ToUpper(name)"),
  ("BuildEnvironment", "\"SECRETS\""),
  ("BuildEnvironment", "\"SECRETS_\" + strings.ToUpper(name)"),
  ("BuildEnvironment", "\"SANDBOX_DIRS\""),
  ("BuildEnvironment", "\"GENDIR\""),
  ("BuildEnvironment", "\"BINDIR\""),
  ("toolsEnv", "prefix + \"TOOLS\""),
  ("toolsEnv", "prefix + \"TOOL\""),
  ("toolsEnv", "prefix + \"TOOLS_\" + strings.ToUpper(name)"),
  ("withUserProvidedEnv", "k")
]
def cmdEnvAssignments : List String := ["exec_linux.go: cmd.Env = append(cmd.Env, \"SANDBOX_UID=\"+strconv.Itoa(os.Getuid()))", "exec_linux.go: cmd.Env = append(cmd.Env, \"SHARE_NETWORK=\"+boolToString(!sandbox.Network), \"SHARE_MOUNT=\"+boolToString(!sandbox.Mount))", "process.go: cmd.Env = append(cmd.Env, env...)"]
def actionEnv : String := "StampedBuildEnvironment.ToSlice"
end PlzVerif.Generated.C10
