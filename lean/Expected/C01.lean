-- REGENERATED from src/build/incrementality.go, src/build/build_step.go by /verif/harness/extract/c01 on every run. Do not edit.
namespace PlzVerif.Generated.C01
def needsBuildingCompares : List String := ["config", "rule", "source", "secret"]
def needsBuildingChecksOutputs : Bool := true
def needsBuildingChecksMetadata : Bool := true
def needsBuildingFinal : String := "state.ShouldRebuild(target)"
def moveOutputKeepsOldOnEqualHash : Bool := true
def sourceHashPerSource : List String := ["hash", "name"]
def sourceHashPerTool : List String := ["hash"]
def xattrSlices : List String := ["rule=hashLength:2*hashLength", "config=2*hashLength:3*hashLength", "source=3*hashLength:4*hashLength", "secret=4*hashLength:fullHashLength", "rule=0:hashLength", "config=2*hashLength:3*hashLength", "source=3*hashLength:4*hashLength", "secret=4*hashLength:fullHashLength"]
end PlzVerif.Generated.C01
