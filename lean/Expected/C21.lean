-- REGENERATED from src/fs/glob.go, src/parse/asp/builtins.go by /verif/harness/extract/c21 on every run. Do not edit.
namespace PlzVerif.Generated.C21
def reWrap : List Char × List Char := (['^'], ['$'])
-- ReplaceAll "+" -> "\\+"
-- ReplaceAll "." -> "\\."
-- ReplaceAll "(" -> "\\("
-- ReplaceAll ")" -> "\\)"
-- ReplaceAll "|" -> "\\|"
-- ReplaceAll "{" -> "\\{"
-- ReplaceAll "}" -> "\\}"
-- ReplaceAll "?" -> "[^/]"
-- ReplaceAll "*" -> "[^/]*"
-- ReplaceAll "[^/]*[^/]*" -> ".*"
-- ReplaceAll "/.*/" -> "/(.*/)?"
-- ReplaceAll "^.*/" -> "^(.*/)?"
def replacements : List (List Char × List Char) := [(['+'], ['\\', '+']), (['.'], ['\\', '.']), (['('], ['\\', '(']), ([')'], ['\\', ')']), (['|'], ['\\', '|']), (['{'], ['\\', '{']), (['}'], ['\\', '}']), (['?'], ['[', '^', '/', ']']), (['*'], ['[', '^', '/', ']', '*']), (['[', '^', '/', ']', '*', '[', '^', '/', ']', '*'], ['.', '*']), (['/', '.', '*', '/'], ['/', '(', '.', '*', '/', ')', '?']), (['^', '.', '*', '/'], ['^', '(', '.', '*', '/', ')', '?'])]
def doubleStar : List Char := ['*', '*']
def outDir : List Char := ['p', 'l', 'z', '-', 'o', 'u', 't']
def hiddenPrefix : List Char := ['.']
def hiddenWrap : List Char := ['#']
def builtinWhenNoDoubleStar : Bool := true
def matcherJoinsRoot : Bool := true
def regexFromFullPattern : Bool := true
def outDirOnlyAtDotRoot : Bool := true
def subPackageSkip : Bool := true
def symlinkBucket : Bool := true
def filterSubPackages : Bool := true
def filterHidden : Bool := true
def cacheKeyHasHidden : Bool := false
def hiddenAtWalk : Bool := false
def hiddenPerMatch : Bool := true
def filterExcludes : Bool := true
def inDirsComponentwise : Bool := true
def hiddenOnBaseName : Bool := true
def aspAppendsBuildNames : Bool := true
def aspCallsGlobWithPkgName : Bool := true
end PlzVerif.Generated.C21
