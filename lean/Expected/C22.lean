-- REGENERATED from src/plz/plz.go, src/fs/walk.go, src/core/build_target.go, go.mod, /root/go/pkg/mod/github.com/karrick/godirwalk@v1.17.0/walk.go by /verif/harness/extract/c22 on every run. Do not edit.
namespace PlzVerif.Generated.C22
def outDir : List Char := ['p', 'l', 'z', '-', 'o', 'u', 't']
-- branch 0: isDir && (basename == core.OutDir || (strings.HasPrefix(basename, ".") && name != "."))  =>  return filepath.SkipDir
-- branch 1: isDir && !strings.HasPrefix(name, prefix) && !strings.HasPrefix(prefix, name)  =>  return filepath.SkipDir
-- branch 2: config.IsABuildFile(basename) && !isDir  =>  ch <- name
-- branch 3: isDir && cli.ContainsString(name, config.Parse.ExperimentalDir)  =>  return filepath.SkipDir
def chain : List (List Nat × Nat) := [([1, 0, 2, 3, 100, 101, 102, 101], 0), ([1, 4, 100, 101, 5, 100, 101], 0), ([6, 1, 100, 101], 1), ([1, 7, 101], 0)]
-- blacklist loop: isDir && (dir == basename || name == dir || strings.HasPrefix(name, dir+"/"))  =>  return filepath.SkipDir
def blCond : List Nat := [1, 8, 10, 102, 11, 102, 101]
def cutOnNonDir : Bool := true
def sorted : Bool := true
def walkPassesIsDir : Bool := true
def rootEmptyBecomesDot : Bool := true
def expandPrefixArg : String := ""
def godirwalkVersion : String := "v1.17.0"
end PlzVerif.Generated.C22
