-- REGENERATED from src/core/build_label.go, src/core/build_target.go by /verif/harness/extract/c33 on every run. Do not edit.
namespace PlzVerif.Generated.C33
def canSeeSteps : List String := ["if SELF.PackageName == DEP.Label.PackageName -> true", "if DEP.Label.isExperimental(STATE) && !SELF.isExperimental(STATE) -> false", "for V in DEP.Visibility: if V.Includes(PARENT) -> true", "if DEP.Label.PackageName == PARENT.PackageName -> true", "if SELF.isExperimental(STATE) -> true", "return false"]
def canSeeMentionsSubrepo : Bool := false
def targetCanSeeDelegates : Bool := true
def checkSteps : List String := ["for D in SELF.dependencies", "DEP := STATE.Graph.TargetOrDie(*D.declared)", "if !SELF.CanSee(STATE, DEP) -> error", "if DEP.TestOnly && !SELF.IsTest() && !SELF.TestOnly -> nested { if SELF.Label.isExperimental(STATE) -> continue else -> error }", "return nil"]
end PlzVerif.Generated.C33
