-- REGENERATED from src/core/build_label.go, src/core/build_target.go, src/parse/asp/builtins.go, src/parse/asp/config.go, src/parse/asp/targets.go by /verif/harness/extract/c33 on every run. Do not edit.
namespace PlzVerif.Generated.C33
def canSeeSteps : List String := ["if SELF.PackageName == DEP.Label.PackageName -> true", "if DEP.Label.isExperimental(STATE) && !SELF.isExperimental(STATE) -> false", "for V in DEP.Visibility: if V.Includes(PARENT) -> true", "if DEP.Label.PackageName == PARENT.PackageName -> true", "if SELF.isExperimental(STATE) -> true", "return false"]
def canSeeMentionsSubrepo : Bool := false
def targetCanSeeDelegates : Bool := true
def checkSteps : List String := ["for D in SELF.dependencies", "DEP := STATE.Graph.TargetOrDie(*D.declared)", "if !SELF.CanSee(STATE, DEP) -> error", "if DEP.TestOnly && !SELF.IsTest() && !SELF.TestOnly -> nested { if SELF.Label.isExperimental(STATE) -> continue else -> error }", "return nil"]
def defaultUnsetTest : String := "ARG == nil || ARG == None"
def buildRuleDefaults : List String := ["visibilityBuildRuleArgIdx=DEFAULT_VISIBILITY", "testOnlyBuildRuleArgIdx=DEFAULT_TESTONLY", "licencesBuildRuleArgIdx=DEFAULT_LICENCES", "sandboxBuildRuleArgIdx=BUILD_SANDBOX", "testSandboxBuildRuleArgIdx=TEST_SANDBOX"]
def buildRuleDefaultsAligned : Bool := true
def configDefaults : List String := ["DEFAULT_VISIBILITY=None", "DEFAULT_TESTONLY=False"]
def populateVisibilityCond : String := "vis, ok := asList(args[visibilityBuildRuleArgIdx]); ok && len(vis) != 0"
end PlzVerif.Generated.C33
