-- REGENERATED from src/build/build_step.go, src/core/lock.go, src/core/build_target.go, src/please.go, src/test/test_step.go by /verif/harness/extract/c31 on every run. Do not edit.
namespace PlzVerif.Generated.C31
def buildTargetCalls : List String := ["AcquireExclusiveFileLock", "defer ReleaseFileLock", "needsBuilding", "calculateAndCheckRuleHash", "prepareDirectories", "prepareSources", "build", "StoreTargetMetadata", "moveOutputs"]
def buildTargetCallSeq : List String := ["AcquireExclusiveFileLock", "defer ReleaseFileLock", "needsBuilding", "needsBuilding", "calculateAndCheckRuleHash", "prepareDirectories", "build", "StoreTargetMetadata", "moveOutputs", "calculateAndCheckRuleHash"]
def buildLockArg : String := "BuildLockFile"
def prepareDirectoriesArgs : List String := ["TmpDir:true", "OutDir:false"]
def moveOutputCalls : List String := ["Hash", "PathExists", "Equal", "RemoveAll", "MoveHash", "Rename", "RecursiveCopy"]
def moveOutputRename : String := "os.Rename(param2, param3)"
def moveOutputKeepCond : String := "bytes.Equal(hashOf(param3), hashOf(param2))"
def targetLockFlag : String := "syscall.LOCK_EX"
def repoSharedFlag : String := "syscall.LOCK_SH"
def repoExclusiveFlag : String := "syscall.LOCK_EX"
def acquireFlockFlags : List String := ["param1 | syscall.LOCK_NB", "param1"]
def releaseFlockFlags : List String := ["syscall.LOCK_UN"]
def openFileLockPassesMode : Bool := true
def repoLockFile : String := "plz-out/.lock"
def buildLockFileExpr : String := "recv.TmpDir() + lockFileSuffix"
def testLockFileExpr : String := "recv.TestDir(param0) + lockFileSuffix"
def lockFileSuffix : String := ".lock"
def buildDirSuffix : String := "._build"
def repoLockCalls : List String := ["src/please.go:runPlease:AcquireSharedRepoLock", "src/update/update.go:CheckAndUpdate:AcquireExclusiveRepoLock", "src/update/update.go:CheckAndUpdate:defer AcquireSharedRepoLock"]
def noLockFlagReads : Nat := 0
def runPleaseCalls : List String := ["AcquireSharedRepoLock", "defer ReleaseRepoLock", "Run"]
def testStepCalls : List String := ["AcquireExclusiveFileLock", "defer ReleaseFileLock", "needToRun", "RemoveTestOutputs", "doFlakeRun"]
def testLockArg : String := "TestLockFile"
end PlzVerif.Generated.C31
