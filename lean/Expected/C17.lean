-- REGENERATED from src/parse/asp/objects.go, src/parse/asp/config.go, src/parse/asp/interpreter.go, src/parse/asp/builtins.go by /verif/harness/extract/c17 on every run. Do not edit.
namespace PlzVerif.Generated.C17
def configFields : List String := ["base", "overlay"]
def overlayAssigns : List (String × String) := [("interpreter.loadPluginConfig", "literal"), ("pyConfig.IndexAssign", "literal"), ("pyConfig.Merge", "make")]
def mergeDest : String := "make"
end PlzVerif.Generated.C17
