-- REGENERATED from src/fs/copy.go, src/fs/fs.go by /verif/harness/extract/c34 on every run. Do not edit.
namespace PlzVerif.Generated.C34
def usesLstat : Bool := true
def callbackOrder : List String := ["dir:MkdirAll", "symlink:copySymlink", "else:CopyOrLinkFile"]
def destExpr : String := "filepath.Join($to, $name[len($from):])"
def topLevelSymlinkAware : Bool := false
def linkRecreatesSymlink : Bool := true
def fallbackUsesSourceMode : Bool := true
def symlinkVerbatim : Bool := true
def defaultMode : Nat := 436
def tempThenRename : Bool := true
def recursiveCopyArgs : String := "mode,false,false"
def recursiveLinkArgs : String := "0,true,true"
end PlzVerif.Generated.C34
