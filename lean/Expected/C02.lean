-- REGENERATED from src/core/utils.go by /verif/harness/extract/c02 on every run. Do not edit.
namespace PlzVerif.Generated.C02
def collapseCond : String := "bytes.Equal(key[0:sha1.Size],key[sha1.Size:2*sha1.Size])"
def collapseEqualBranch : List Nat := [0, 2, 3]
def collapseElseBranch : List Nat := [0, 1, 2, 3]
end PlzVerif.Generated.C02
