-- REGENERATED from src/cache/dir_cache.go by /verif/harness/extract/c14 on every run. Do not edit.
namespace PlzVerif.Generated.C14
def modeTest : String := "reject-when-compress-eq-isdir"
def suffixTest : String := "reject-without-suffix"
def trimsSuffix : Bool := true
def nameShapes : List (List Nat × Nat × Nat) := [([28,29], 27, 61), ([44,45], 43, 61)]
def compressedSuffix : String := ".tar.gz"
def compressedSuffixBytes : List Nat := [46, 116, 97, 114, 46, 103, 122]
def markKeys : List String := ["path", "path+="]
def pathParts : List String := ["join-b64key", "param2", "param3", "field-Suffix"]
def storeCalls : List String := ["mark-final", "mark-tmp", "remove-final", "store", "rename-tmp-final"]
def retrieveCalls : List String := ["exists-entry", "mark-entry", "restore", "restore"]
def tmpSuffix : String := "="
def tmpSuffixBytes : List Nat := [61]
def storeMarks : List String := ["final", "tmp"]
def markedAdds : String := "recorded-size"
def unmarkedAdds : String := "walked-size"
def plainWalkSkipsEntryDirs : Bool := true
def highTest : String := "return-if-total-<-high"
def lowTest : String := "<"
def evictLoop : List String := ["aside-name-is-path-plus-eq", "rename-unless-marked", "skip-if-not-renamed", "remove-renamed", "subtract-size", "break-if-total-below-low"]
def failedEvictionsContinue : Nat := 2
def testAndRenameUnderLock : Bool := true
def gracePeriod : Nat := 600
end PlzVerif.Generated.C14
