CLAIMED = True
SPEC = {
    "id": "C03",
    "props": "PlzVerif/Props/C03.lean",
    "extract": ["c01"],
    "harness": "e2ebuild",
    "harness_args": ["-mode", "c03"],
    "driver": "Driver/E2EBuild.lean",
    "needs_plz": True,
    "level": "proof",
    "level_text": "C03_noop (a second build with nothing changed runs nothing and leaves plz-out untouched, from any starting state), "
                  "C03_only_if_changed / C03_unchanged_not_run (an action runs iff its rule pre-image or an input (name, pre-image) differs "
                  "from the recorded stamp), C03_cutoff (a dependency rebuilt to an output with equal pre-image leaves dependents up to date) — "
                  "full, no injectivity needed; model instantiated with regenerated facts; executed-action sets compared exactly with the real plz "
                  "on generated histories.",
    "technique": "Lean 4 theorems on the build-step model + regenerated facts + end-to-end action-log correspondence with plz",
    "trusted": [
        "go/ast extractor harness/extract/c01",
        "correspondence harness/cmd/e2ebuild (-mode c03): every generated command appends its label to an action log; the executed set per "
        "build must equal the model's exactly; direct oracle recomputes 'definition or input tree (names+contents) changed' independently in Go",
        "modelled, not verified: Model/Build.lean (see C01)",
    ],
    "assumptions": ["actions are deterministic", "SHA-1 collisions ignored"],
    "harness_timeout": 1500,
}
