CLAIMED = True
SPEC = {
    "id": "C06",
    "props": "PlzVerif/Props/C06.lean",
    "extract": ["c06"],
    "harness": "c06",
    "driver": "Driver/C06.lean",
    "needs_plz": False,
    "level": "proof",
    "level_text": "full: soundness (every reported list is a genuine, simple dependency cycle of graph targets), completeness "
                  "(a cycle through any target is reported), no false report on acyclic graphs, and termination of the "
                  "recursion bound, for every graph, every dependency order and every target iteration order; the "
                  "theorems are about the transcription Model/Cycle.lean of cycleDetector.Check; the `stopped` flag "
                  "and concurrent mutation of the graph during a check are not modelled",
    "technique": "Lean 4 invariant proofs (DFS stack/open-chain invariant, post-order closure, stack-depth bound) over "
                 "an executable transcription + regenerated facts + exhaustive differential correspondence",
    "trusted": [
        "go/ast extractor harness/extract/c06 (guard chain, pre/post set roles, iterated method, closing test, extension, top-level loop of Check; whether each set is a fresh local of Check or persists in the detector; collection-typed fields of cycleDetector; fields Check assigns to; the accessor visit iterates and the bodies of Dependencies() / BuildDependencies())",
        "kinded graphs are declared through the public API (AddDependency, AddTool, AddSource, AddDatum, AddMaybeExportedDependency internal / run-time) and resolved by the real ResolveDependencies: no extra hook",
        "correspondence harness/cmd/c06 vs Driver/C06.lean: exact returned cycle on all 66 067 digraphs with self-loops on <= 4 targets "
        "(thorough: + all 2^20 loop-free digraphs on 5), random graphs up to 40 targets with random numbering, graphs resolved by the real "
        "ResolveDependencies with provide/require",
        "hooks /repo/src/core/c06_verif.go (constructs cycleDetector{graph} and calls Check; resolveDependency wrapper) and c06seq_verif.go (ONE detector kept across a sequence of Check() calls, as BuildState keeps one per build)",
        "modelled, not verified: Model/Cycle.lean transcribes visit/Check; Go maps as membership lists, pointers as naturals",
        "direct oracle: independent Tarjan SCC in the harness",
    ],
    "assumptions": [
        "the detector is not stopped (cycleDetector.stopped == false) and the graph is not mutated WHILE a Check runs (between two checks it may grow: that is modelled)",
        "the graph contains every resolved dependency of its targets (WF): BuildGraph only resolves to targets it holds",
    ],
    "explanation": "C06_kinds_sound / C06_kinds_complete (sound and complete over the graph of ALL resolved dependencies: deps, tools, source labels, data, run-time, internal), C06_witness_build_only_misses_data_cycle, C06_seq_stateless / C06_seq_sound / C06_seq_complete (every call of every sequence of checks on one detector is sound and complete for the graph of THAT call), C06_sound, C06_reported_simple (no target listed twice), C06_complete, C06_acyclic_not_reported, C06_iff, C06_fuel, C06_reported_listed, C06_any_order "
                   "quantify over all graphs and orders; FactsOK ties them to the shape of visit read from the source on this run.",
}

MUTATIONS = """
Dry-runs on scratch copies of /repo (VERIF_REPO=/var/tmp/mC06 ./check C06 quick), src/core/cycle_detector.go:
 M1 closing test `target == cycle[0]` (was cycle[len(cycle)-1])   -> exit 1, VIOLATION violation-reported-not-a-cycle
      input `check 0,1 0:1;1:0` (reports 0,1,0); facts closeLast=false so C06_facts_ok no longer proves; model follows the
      mutant (0 disagreements), the Tarjan/edge oracle finds the input.
 M2 closing test `done && …` (was `done || …`)                    -> exit 1, facts unreadable -> Expected facts + thorough
      correspondence: 20 disagreements + oracle reported-not-a-cycle with concrete input.
 M3 closing `return cycle, false` (was true)                       -> exit 1, violation-reported-not-a-cycle (input as M1).
 M4 top-level `complete[target]; present {` (inverted skip)        -> exit 1, violation-cycle-missed (`check 0 0:0`).
 M8 extension `append(cycle, target)` (was prepend)                -> exit 1, violation-reported-not-a-cycle.
 M9 partial-guard returns `nil, false` (was the one-element slice) -> exit 1, violation-cycle-missed (`check 0 0:0`).
 M7 `delete(partial, target)` removed: unobservable while `complete` is tested first; exit 1 with
      `proof-broken.json no-failing-input-found` (postLoop fact changed; theorems are proved for the unmarking version only).
 H1 harmless: guard order swapped (partial before complete), locals renamed (dep/cycle/done/present), operands of the
      closing comparison swapped, the two post-loop statements reordered               -> exit 0, facts regenerated.
 (a mutant `if target == cycle[…]` without `done` does not compile: `done` unused.)
 S1 seeded change /tmp/seedout/C06/patch.diff: `complete` becomes a lazily initialised field of cycleDetector reused by later Check()
      calls. A single Check() is unchanged, so the per-graph ops agree; the sequence ops (one detector, graph growing edge by edge)
      expose it: VERIF_REPO=<copy> ./check C06 quick -> exit 1, VIOLATION violation-cycle-missed with the failing sequence
      `seq 0,1/0:1;1:- 0,1/0:1;1:0` ("call 2 on one detector: the graph resolved so far has a cycle but Check returned nil"), 54 oracle
      failures; facts persistPost=true / detectorCollectionFields=[complete] / checkWritesFields=[complete] break C06_facts_ok, and the
      model (runSeq with the regenerated Persist) follows the mutant: 0 disagreements.
 S2 round-2 seed /tmp/seedout2/C06/patch.diff: visit iterates target.BuildDependencies() instead of Dependencies(), so a cycle through a
      source-only / data / run-time / internal dependency is never reported. Graphs made with AddDependency or the hook have no such
      edges; the harness now declares every edge with a KIND through the public API (op `kcheck`, all digraphs on <= 3 targets x six
      kinds exhaustively = 117 698 graphs, 12 000 random ones up to 16 targets; thorough: all 3^12 graphs on 4 targets with kinds
      d/a) and the oracle judges Check() against the graph over ALL resolved dependencies.
      VERIF_REPO=/tmp/confirm/C06 ./check C06 quick -> exit 1, `VIOLATION property=C06 replay=…/violation-cycle-missed.json` with the
      concrete graph `kcheck 0,1 0:1d;1:0a` (0 depends on 1, 1 has 0 as data); fact loopMethod=BuildDependencies breaks C06_facts_ok, the
      model (kcheck with the regenerated accessor) follows the mutant: 0 disagreements, 88 850 generated graphs are cyclic only through
      non-build dependencies.
"""
