CLAIMED = True
SPEC = {
    "id": "C11",
    "props": "PlzVerif/Props/C11.lean",
    "extract": ["c11", "c01"],
    "harness": "c11",
    "driver": "Driver/C11.lean",
    "needs_plz": True,
    "level": "proof",
    "level_text": "FULL (every history of plz test / plz build / removals, every deterministic test semantics): every results file is "
                  "all-succeeded (C11_no_fail_reuse), a cached report is a pass that executed nothing and whose recorded hash equals "
                  "the current runtime hash (C11_cached_is_pass, C11_cached_only_if), a non-passing run leaves no results file and is "
                  "executed again (C11_fail_not_stored, C11_no_result_runs). CONDITIONAL: C11_outcome_eq_fresh — after any history the "
                  "outcome reported by plz test equals that of a fresh run of the same tree, if the runtime pre-image as RuntimeHash "
                  "writes it determines the runtime inputs (plus C01's injectivity hypotheses for the build phase). On the pinned tree "
                  "that hypothesis is false (file names are not written): C11_witness_stale_pass is kernel-checked and replayed on the "
                  "real binary (known findings); C11_outcome_eq_fresh_partial proves the property as coded whenever the runtime file "
                  "names are determined by the runtime attributes; C11_fixed_by_names shows writing the names closes the gap. "
                  "The model covers both configurations — no artifact cache, and [cache] dir (build outputs and results files "
                  "stored into / retrieved from the cache under (label, hash); C11_cache_restores_earlier_pass shows that path live). "
                  "Model instantiated with facts regenerated from RuntimeHash / ruleHash / IterRuntimeFiles / needToRun / "
                  "cachedTestResults / cacheOutputFiles; end-to-end correspondence with the real plz test.",
    "technique": "Lean 4 invariant proof over test histories (refinement to a fresh run) on top of the build model + regenerated facts + "
                 "end-to-end differential correspondence with plz test + fresh-run oracle",
    "trusted": [
        "go/ast extractor harness/extract/c11 (parts of RuntimeHash and what its loop writes, runtime block of ruleHash, order and "
        "de-duplication of IterRuntimeFiles, conditions of needToRun, the reuse gate, guards of cacheOutputFiles, cachedTestResults, "
        "RemoveTestOutputs, moveOutputFile/verifyHash) and harness/extract/c01 for the build phase",
        "correspondence harness/cmd/c11 vs Driver/C11.lean: generated edit histories of gentest/genrule repositories, real plz test after "
        "every step; per-test pass/fail/error, cached-or-executed, results file presence, executed test and build commands, exit status "
        "compared; direct oracle = fresh plz test of the same tree in an empty directory, plus 'cached implies previous pass' and "
        "'a failing test is executed again'",
        "modelled, not verified: Model/TestCache.lean transcribes test()/needToRun/retrieveFromCache/cachedTestResults/cacheOutputFiles/"
        "RuntimeHash/IterRuntimeFiles for local tests, with and without the directory artifact cache (the cache itself is a black box "
        "map keyed by (label, hash), cf. C12); test commands are abstract deterministic functions of the runtime attributes and the "
        "(name, tree) list of runtime files; digests idealised as identity on pre-images",
        "out of model: coverage files, test outputs, flaky retries, runtime_deps and test tools, remote execution and the HTTP/RPC "
        "caches, sandboxing, timeouts, stale outputs of EARLIER definitions left in plz-out (plz keeps them with their stamps; the "
        "generator never returns to an earlier output name)",
    ],
    "assumptions": ["SHA-1 / CollapseHash modelled as injective on pre-images",
                    "nobody edits files under plz-out by hand other than through hard links of source files (filegroup outputs)", "tests are deterministic functions of their runtime inputs",
                    "scratch filesystem supports user xattrs (plz falls back to files otherwise)"],
    "harness_timeout": 9000,
}
MUTATIONS = """
ROUND-2 SEED (src/fs/hash.go moveOrCopyHash: destination marked "never use xattrs" only when OUTSIDE plz-out/, i.e. never for
filegroup outputs): a filegroup output is a hard link of its source; RuntimeHash then stores user.plz_hash on the shared inode and an
IN-PLACE overwrite of the source is not seen: stale cached PASS.  Was missed (no filegroups, every edit replaced the file).  Now:
generator has filegroups over source files as data / sources, edits in place (`filei`) or by rename (`file`), the working tree keeps
its inodes between steps, often two runs before the first edit; corpus scenarios with the exact shape; model has the shared-inode
stored hash (`Facts.linkXattr`, `TRepo.linkOf`, `TState.xh`), facts pinned from hash.go / filegroup.go (`linkedHashFromContent`),
theorems use `facts_link`, witness `C11_witness_stale_hash_on_shared_inode`.
VERIF_REPO=/tmp/confirm/C11 ./check C11 quick -> VIOLATION stale-result-despite-distinct-runtime-hash (+ stale-build-output-fed-to-test)
with the concrete history (fg, run, run, filei, run: cached pass, fresh error), obligations 25/28; /repo green 28/28.

FIX PHASE: /repo 168aeab (RuntimeHash also digests the NUL-terminated destination name of every runtime file) and
/repo d11a3f4 (Test.NoOutput in the runtime rule hash).  Re-introducing either defect on a scratch copy:
f) drop the two name writes again -> VIOLATION runtime-hash-omits-file-names + runtime-rule-hash-unframed (both classes are "fixed":
   corpus/C11/fixed-*.ops fail the fresh-run oracle), C11_facts_ok / facts_names no longer check (23/26).
g) drop hashBool(h, target.Test.NoOutput) -> VIOLATION runtime-hash-omits-no-test-output, facts_no_output fails (24/26).

Dry-runs on scratch copies (VERIF_REPO=/var/tmp/mC11x ./check C11 quick), all compile with and without -tags verif:
a) test_step.go: call cacheOutputFiles unconditionally (drop the `if AllSucceeded()` guard at the call site)
     -> fact storeCallGuard "" : C11_facts_ok / facts_store no longer check; direct oracle on generated AND corpus histories:
        classes failing-result-reused, failing-test-not-executed-again (a no_test_output test that errors stores the dummy PASS
        and is reported [cached] next time), incremental != fresh.  VIOLATION with replayable history.
b) test_step.go needToRun: drop `else if !verifyHash(results file, hash) { return true }`
     -> fact needToRunVerifiesResultsHash false: C11_facts_ok fails; oracle: stale PASS after a data edit, class
        stale-result-despite-distinct-runtime-hash (unknown class => VIOLATION), 15 model/impl disagreements with the expected facts.
c) incrementality.go RuntimeHash: loop no longer writes the file hashes (`h.Write(result)` removed)
     -> fact runtimeHashLoopWrites []: C11_facts_ok fails; oracle: data edits undetected, class stale-result-despite-distinct-runtime-hash.
d) incrementality.go ruleHash runtime block: drop `h.Write([]byte(target.GetTestCommand(state)))`
     -> fact ruleHashRuntimeWrites lacks GetTestCommand: C11_facts_ok fails; oracle: a changed test_cmd reuses the old PASS.
e) HARMLESS: rename the local `hash` to `rtHash` throughout test(), swap the two independent filepath.Join statements
     -> facts identical (roles, not names), 0 disagreements, exit 0.
Results through ./check: a) exit 1, VIOLATION failing-result-reused / failing-test-not-executed-again / stale-result-despite-distinct-
runtime-hash with replay .ops, obligations 19/21; b) exit 1, VIOLATION stale-result-despite-distinct-runtime-hash (replay: edit of a data
file after a pass, still [cached]), obligations 19/22, model with the mutated facts agrees with the mutated code (0 disagreements);
c) same class, 19/22; d) same class (changed test_cmd reuses the PASS); e) exit 0, 23/23, 0 disagreements.
Infrastructure: on a machine with load > 100 a plz invocation can time out or fail to start; such a history is dropped and counted
(history-dropped-infrastructure-failure; more than half dropped is itself reported) instead of being mistaken for a finding.
Each of a-d was also confirmed standalone: mutant plz binary + harness (generated quick tier, seed 1) reports the classes above
while the unmutated binary reports only the known classes; the extractor diff is exactly the one fact named.
"""
