CLAIMED = True
SPEC = {
    "id": "C21",
    "props": "PlzVerif/Props/C21.lean",
    "extract": ["c21"],
    "harness": "c21",
    "driver": "Driver/C21.lean",
    "needs_plz": False,
    "level": "proof",
    "level_text": (
        "PARTIAL. Three of the seven recorded defects are repaired by fix: commits (d49879b `?` -> `[^/]`, a75aa5a leading "
        "`^.*/` -> `^(.*/)?`, adbc1a2 `( ) | { }` escaped); the model follows through the regenerated ReplaceAll chain "
        "(`opts`), C21_repairs shows each repair removes its witness, and the matcher hypotheses relax accordingly. The "
        "property as stated is still refuted for the current code (C21_exact_refuted, C21_witnesses_persist) by four "
        "remaining root causes: hidden-dir-contents, package-root-returned, negated-class-matches-slash, "
        "plz-out-name-any-depth; the witnesses of all seven on the unrepaired structure stay as theorems about `run`. "
        "Proved for all inputs (unbounded, structural induction): C21_match_exact (filepath.Match on the joined pattern and the "
        "regexp toRegexString produces, as denoted on parsed patterns, accept a path iff the pattern matches it segment by "
        "segment -- `*`, `?`, `[class]`, literals inside one component, `**` = whole components -- whenever none of the four "
        "matcher defects applies), C21_builtin_exact, C21_regex_exact, C21_returned_iff (one include returns exactly the walked "
        "names the matcher accepts that are not in a recorded sub-package, not hidden by base name, not excluded), "
        "C21_subpackage_componentwise (sub-package exclusion is by whole path components), C21_walk_exact_partial (on benign "
        "trees -- no plz-out name below the top level of the root package, no hidden directory unless hidden=True -- the WalkDir "
        "callback with its SkipDir cuts, isInDirectories and isHidden leave exactly the package's owned, visible entries, "
        "symlinks in the symlink bucket; so nothing inside a sub-package or plz-out is ever returned and nothing owned is lost), "
        "C21_cache_transparent (the Globber as a state machine with its walk cache: for every sequence of glob() calls of one "
        "BUILD file each call returns what it returns on a Globber of its own -- by induction over the sequence, from the facts "
        "that the cached listing depends only on its key and hidden filtering is per call), C21_call_is_globAll, "
        "C21_spec_is_selection, C21_exclude_exact (shouldExcludeMatch's three clauses = the specification's), and composed "
        "C21_exact_partial: on benign trees and patterns of the fragment the pipeline globber.glob runs (walk, matcher of an "
        "include, sub-package / hidden filters, excludes) accepts a name iff the specification selects the entry -- with every "
        "compiled matcher read on the parsed pattern; C21_builtin_bridge (for patterns without `**` the string-level pipeline "
        "patternToMatcher facts on the pattern *text* is that parsed-pattern matcher: parseGlob/render round trip). "
        "Not proved, covered by correspondence only: the regexp half of that bridge "
        "(string-level ReplaceAll chain / regexp parser vs the parsed-pattern denotation; cross-checked by the driver on "
        "every case and by `decide` examples); unclean patterns (filepath.Join would rewrite them) are outside the model: "
        "patternToMatcher answers none, the driver `unmodelled`."),
    "technique": "Lean 4 theorems over an executable model (walk, filepath.Match fragment, ReplaceAll chain interpreted from extracted facts, regexp-fragment parser and matcher) + differential correspondence on real directory trees + segment-wise reference oracle",
    "trusted": [
        "go/ast extractor harness/extract/c21: toRegexString's wrap and ordered ReplaceAll chain (interpreted by the model), the `**` selector, plz-out literal and its rootPath guard, isHidden markers; source shapes of patternToMatcher / walkDir / glob filters / isInDirectories / isBathPathOf / shouldExcludeMatch (base-path test, file-name-only rule) / isBuildFile / regexGlob.Match = unanchored MatchString / builtInGlob.Match = filepath.Match (unrecognised shape -> facts unreadable -> Expected facts + thorough correspondence); builtins.go glob(): BUILD file names appended to the excludes (a real fact: its absence fails C21_facts_ok)",
        "correspondence harness/cmd/c21 vs Driver/C21.lean: single calls and call SEQUENCES on one shared Globber (128-case exhaustive family of two-call sequences x hidden flags x roots + every 4th random case: 2-4 calls, mixed hidden flags, repeated/overlapping patterns, other package directories), each call compared with the reference, with the same call on a fresh Globber (cache transparency), and -- for sequences in one package -- with a BUILD file holding the same glob() calls evaluated by the real interpreter (EvalForVerif hook); (*Globber).Glob called like builtins.go:726 (BUILD file names appended to excludes) on trees created under $VERIF_SCRATCH; 900-case exhaustive family (30 patterns x 5 exclude sets x 3 package roots x hidden) + seeded random trees/patterns derived from existing paths (names with ( ) | + # . spaces, non-ASCII; hidden files/dirs, symlinks, nested packages, plz-out); results compared as sets",
        "driver self-check on every case: string-level matcher == parsed-pattern matcher (structMatch) on all walked names",
        "direct oracle: independent segment-wise reference in Go; a failure is named after the first member of a smallest set of the six switchable known deviations that reproduces the real output exactly; patterns routed through the regexp with ( ) | are attributed to regex-metacharacters-unescaped; anything else is `unexplained`",
        "modelled, not verified: Model/Glob.lean; Go's regexp and filepath.Match are modelled only on the fragment (literals, * ? [a-z] [^a-z], groups, |, [^/]*, .*, (..)?); inputs outside it answer `unmodelled` on both sides (the oracle still judges them)",
    ],
    "assumptions": [
        "names and patterns are valid UTF-8 without newline; no directory is named like a BUILD file; patterns are clean relative paths",
        "specification choices: directories and symlinks are selectable entries (src/fs/glob_test.go TestCanGlobDirectories); a trailing `**` selects what is below, not the directory itself; `#x#` counts as hidden; a directory with any entry named like a BUILD file is a sub-package; only the top-level plz-out of the root package is special",
    ],
}

MUTATIONS = """
Round-2 seed /tmp/seedout2/C21/patch.diff (hidden entries dropped once in walkDir, walk cache still keyed by rootPath only):
 exit 1 -- extractor reads the shape as facts (hiddenAtWalk=true, hiddenPerMatch=false, cacheKeyHasHidden=false), C21_facts_ok
 fails, the model (Globber state machine) follows: 0 disagreements; direct oracle VIOLATION globber-cache-not-transparent with
 a concrete call sequence: glob(["*"], hidden=True) then glob(["*"]) on one Globber: call 2 returns "#x#", ".", ".h.txt", ".hid"
 on the shared Globber but not on a fresh one (also seen through the real interpreter: one BUILD file with two glob() calls).

Seeded change /tmp/seedout/C21/patch.diff (isBathPathOf reduced to a bare string-prefix test): exit 1 -- extractor reports the
 shouldExcludeMatch/isBathPathOf shape unreadable, Expected facts + thorough correspondence: 20 disagreements, oracle VIOLATION
 class unexplained with input (package with BUILD.plz at top level and build name BUILD: Glob=[] specified=["BUILD.plz"]).
Fix phase: three fix: commits (d49879b, a75aa5a, adbc1a2); on each cumulative copy 347/347 and ./check C21 quick exit 0 with the
 repaired class gone and no new class.

Dry-runs on a scratch copy (VERIF_REPO=/var/tmp/mC21 ./check C21 quick), findings loaded from findings_inbox/C21.jsonl:
 M1 glob.go:52   drop `ReplaceAll(pattern, ".", "\\.")`                 -> exit 1: C21_facts_ok fails (the model follows the extracted chain),
                                                                          oracle VIOLATION class unexplained with a concrete tree/pattern
                                                                          (`**/.*` now returns "x y.txt", "z.py")
 M2 glob.go:264  isInDirectories: HasPrefix(name, dir+"/") -> HasPrefix(name, dir)
                                                                       -> facts unreadable (shape) -> Expected facts + thorough correspondence:
                                                                          20 disagreements, oracle VIOLATION unexplained, exit 1
 M3 glob.go:143  remove `if !includeHidden && isHidden(m) { continue }` -> facts unreadable -> 21 disagreements, oracle VIOLATION unexplained, exit 1
 M6 builtins.go:717  remove `exclude = append(exclude, ...BuildFileName...)`
                                                                       -> exit 1: fact aspAppendsBuildNames=false, C21_facts_ok fails,
                                                                          `VIOLATION ... proof-broken.json no-failing-input-found` (the harness calls
                                                                          Globber.Glob the way builtins.go is *expected* to, so no input is found)
 M7 harmless: toRegexString's parameter renamed, loop variable in glob() renamed via an extra local
                                                                       -> exit 0, facts regenerated, 0 disagreements
"""
