CLAIMED = True
SPEC = {
    "id": "C02",
    "props": "PlzVerif/Props/C02.lean",
    "extract": ["c01", "c02"],
    "harness": "e2ebuild",
    "harness_args": ["-mode", "c02"],
    "driver": "Driver/E2EBuild.lean",
    "needs_plz": True,
    "level": "proof",
    "level_text": "C02_main_if_injective: for every history of cached builds, removals from plz-out (rm -rf included) and cache evictions, the final build "
                  "gives each requested target its clean-build output; C02_no_wrong_restore: a hit under the cache invariant restores exactly "
                  "exec(definition, inputs). CONDITIONAL on injective rule/path pre-images (C08/C09) and on the cache key (CollapseHash of the "
                  "digests) being injective on the stamp; C02_collapse_sensitive proves every config/source byte reaches the key in the regenerated "
                  "transcription of CollapseHash, C02_collapse_not_injective records that the XOR fold itself is not injective. End-to-end "
                  "correspondence with the real plz and a directory cache (states A,B,A…, rm -rf plz-out between builds).",
    "technique": "Lean 4 invariant proof over histories with a cache (refinement to clean build) + regenerated CollapseHash facts + end-to-end correspondence with plz and a dir cache",
    "trusted": [
        "go/ast extractors harness/extract/c01, c02 (CollapseHash branch condition and XOR-ed blocks)",
        "correspondence harness/cmd/e2ebuild (-mode c02): [cache] dir=<scratch>, wipes of plz-out, trees and executed-action sets vs the model; "
        "core.CollapseHash vs Model/Collapse.lean on random 80-byte keys",
        "modelled, not verified: Model/BuildCache.lean (retrieve before build, store of the tree in plz-out after moveOutput); the dir cache itself "
        "is a black box here (its store/retrieve contract is C12)",
    ],
    "assumptions": ["SHA-1 injective on pre-images; CollapseHash injective on (rule, config, source) digests", "deterministic actions"],
    "harness_timeout": 1500,
}
