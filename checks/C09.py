CLAIMED = True
SPEC = {
    "id": "C09",
    "props": "PlzVerif/Props/C09.lean",
    "extract": ["c09"],
    "harness": "c09",
    "driver": "Driver/C09.lean",
    "needs_plz": False,
    "level": "proof",
    "level_text": "full-strength statement (Distinguishes: equal pre-images of well-formed repo-managed trees imply equal "
                  "trees) is DISPROVED for the pinned code by kernel-checked witnesses (C09_violated, C09_witness_*); proved "
                  "instead: C09_dir_iff / C09_symlink_iff (exact collision conditions), C09_classified (the four named root causes "
                  "are exhaustive), C09_partial_{file,symlink,same_skeleton,edit,size}, and C09_full_framed (the framed encoder of the "
                  "fix sketch is injective, unbounded, by mutual structural induction over Frame.Uniq). The model leaves out "
                  "memoisation, the xattr read/store path (hash.go:173 returns a stored xattr without looking at the tree; "
                  "switched off in the correspondence), timestamp mode, I/O errors, special files and permission bits.",
    "technique": "Lean 4 theorems over a schema-interpreting model of the hash pre-image + regenerated write schema + "
                 "differential correspondence on the captured pre-image byte stream",
    "trusted": [
        "go/ast extractor harness/extract/c09 (sequence of writes into the hash object per branch of PathHasher.hash, marker value, "
        "managed-symlink condition, ensureRelative/fileHash shape, godirwalk options)",
        "correspondence harness/cmd/c09 vs Driver/C09.lean: the real Hash() is run on real scratch trees with a recording hash.Hash, "
        "so the compared value is the exact byte stream the code feeds its hash; SHA-1 digests compared on a sample",
        "SHA-1 idealised as injective on pre-images",
        "modelled, not verified: Model/PathHash.lean transcribes hash()/WalkMode/godirwalk's sorted pre-order walk",
        "direct oracle: different trees with equal real path hash, classified by an independent Go spec of the known root causes",
    ],
    "assumptions": [
        "directory entries are visited in bytewise name order (godirwalk default; fact walkUnsorted=false, validated by correspondence "
        "and by hashing each tree under two creation orders)",
        "only regular files, directories and symlinks occur in hashed trees",
    ],
}
MUTATIONS = """
Dry-runs on a scratch copy (VERIF_REPO=/var/tmp/mC09 ./check C09 quick), all against src/fs:
 M1 hash.go: drop `h.Write(boolTrueHashValue)` in the walk callback (added symlinks no longer change the hash)
    -> exit 1, VIOLATION replay=violation-unexplained-collision-dd (failing input `pair 2f52 74 d[61=f78] d[61=f78,62=l78]`
       from corpus/C09/basics.ops); C09_facts_ok and C09_witness_marker stop checking (schema dirLink = []).
 M2 walk.go: godirwalk.Options{Unsorted: true, ...} -> exit 1, C09_facts_ok/C09_walk_sorted broken, 23 correspondence
    disagreements, failing inputs unexplained-collision-dd / -df (readdir order makes {a:x,b:y} and {a:y,b:x} collide).
 M3 hash.go: drop `h.Write([]byte(rel))` for top-level symlinks -> exit 1, failing inputs unexplained-collision-ll/-dl/-fl
    (`l61` vs `l62` hash alike).
 M4 hash.go: fileHash copies only the first byte (io.CopyN(h, file, 1)) -> exit 1, fileHashWholeFile=false breaks
    C09_facts_ok, 25 disagreements, failing inputs unexplained-collision-ff (file "x" vs "xy") /-df/-dd.
 M5 harmless: rename locals dest->target, rel->r2, callback params p->pp, mode->md -> exit 0, facts=regenerated.
 M7 equivalent but unrecognised: `!mode.IsDir()` -> `mode.IsRegular()` -> extractor exits 3 (facts unreadable),
    Expected schema + thorough correspondence (29683 cases) agree -> exit 0 with NOTE.
 R2 (round-2 seed) hash.go: managed-symlink condition `!filepath.IsAbs(dest) && !filepath.IsAbs(path)` (in-root absolute destinations
    fall into the system-tool branch) -> extractor reports linkCond = (.and (.not .absDest) (.not .absPath)) (fact difference, model
    follows), C09_facts_ok breaks, failing input `pair 2457 74 l24572f78 l24572f79` (two links into the real root, destination
    files of equal contents, same hash) -> exit 1, violation-unexplained-collision-ll.
 M8 hash.go ensureRelative: TrimLeft(…, "/") -> TrimPrefix(…, "/") -> facts unreadable, thorough correspondence finds 20
    disagreements (root "/R", dest "/R//a") -> exit 1, VIOLATION correspondence-broken no-failing-input-found.
"""
