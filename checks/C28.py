CLAIMED = True
SPEC = {
    "id": "C28",
    "props": "PlzVerif/Props/C28.lean",
    "extract": ["c28"],
    "harness": "c28",
    "driver": "Driver/C28.lean",
    "needs_plz": False,
    "level": "proof",
    "level_text": (
        "Full for the directory messages and the environment, conditional on consistent duplicates for order independence. Proved for any "
        "legal result of Go's unstable sort.Slice, any digest function, any tree depth/size (Props/C28.lean): every message walk() returns "
        "or uploads has files, directories and symlinks strictly ascending by name (C28_sorted_nodup, C28_names_nodup); two builders whose "
        "per-directory insertion lists are permutations of each other and whose equal-named entries are equal give the same message and "
        "digest at every directory and the same set of uploaded messages (C28_perm_invariant, C28_dir_perm_invariant); the `last` variable "
        "shared by the three de-duplication loops is harmless when the three kinds use different non-empty names "
        "(C28_shared_last_harmless_partial; an example shows it drops a directory named like the greatest file otherwise); buildEnv output is "
        "sorted, duplicate free and independent of map iteration order (C28_env_sorted, C28_env_strict, C28_env_order_irrelevant); the action "
        "digest depends on the input root only through its digest (C28_action_digest). The step from the callers' operations to the insertion lists is "
        "proved too (Lemmas/DirBuilderOps.lean): dir() with its hasChild guard is analysed on the builder as a partial function, the builder after any "
        "list of operations is characterised declaratively (C28_builder_contents), hence any permutation of a consistent list of operations gives the same "
        "root digest and the same uploaded messages (C28_insertion_order_irrelevant); walk with the model's fuel (depth+2) never fails on such a builder, so the result is "
        "total: both walks succeed and agree (C28_walk_total, C28_insertion_order_irrelevant_total). C28_action_digest is plain function congruence, kept for the record."
    ),
    "technique": "Lean proof (sort+adjacent-dedup = strictly sorted; sorted permutations of a consistent list coincide; induction over the tree walk) "
                 "+ go/ast facts of walk/dir/buildEnv/buildAction + differential run of the real dirBuilder through a verif hook over every permutation",
    "trusted": [
        "go/ast extractor harness/extract/c28 (order of walk's phases, the three sort comparators and de-duplication loops incl. which `last` variable "
        "they use, dir()'s hasChild guard and recursion, buildEnv's sort, the fields of the Action message)",
        "hook src/remote/c28_verif.go (constructs a dirBuilder, inserts nodes the way uploadInputDir does, runs Build with an upload channel and decodes the uploaded blobs)",
        "correspondence harness/cmd/c28 vs Driver/C28.lean: every permutation of consistent sets of <= 5 (quick) / 6 (thorough) entries as separate cases, "
        "larger random sets (> 12 entries per directory, leaving sort.Slice's insertion-sort regime), inconsistent input (same name under several kinds, "
        "different contents, empty names, nil digests), environment maps",
        "modelled, not verified: Model/DirBuilder.lean transcribes dir(), the insertion idiom of uploadInputDir (Op), walk() and buildEnv; b.dirs as an association list; names as byte lists with Go's string order",
        "idealisation: the digest of a message is an arbitrary function H of the message (the driver uses an injective rendering); proto.Marshal/sha256 are not modelled",
        "not modelled: uploadInputDir's traversal of targets and the filesystem, addChildDirs, Tree(), remote execution itself",
    ],
    "assumptions": [
        "consistent duplicates: within one directory two entries with the same name are the same entry, a name is used by one kind only, names are non-empty, "
        "a directory node with a given digest does not coincide with a directory that is also built up from entries",
        "for inconsistent duplicates the model (stable sort) matches sort.Slice only below 12 elements per list; the generator respects that bound",
    ],
}

MUTATIONS = """
Dry-runs on scratch copies (VERIF_REPO):
 m1 walk: sort.Slice(dirs, ...) dropped                   -> exit 1: facts (11/12), 20 disagreements, failing inputs: directory-not-canonical
                                                             `db f:.:7a:d3:0 f:c3a9:62:d3:1 n:.:61:d1 ...` ("é","a" out of order) and insertion-order-dependent
 m2 files comparator `>`                                   -> exit 1: facts, disagreements, directory-not-canonical / directory-list-not-sorted with inputs
 m3 files de-duplication loop removed                      -> exit 1: extractor unreadable -> Expected facts + thorough correspondence: 20 disagreements,
                                                             failing inputs with duplicated file names
 m5 buildEnv: slices.SortFunc removed                      -> exit 1: facts, env-not-sorted / env-order-dependent with inputs
 m6 symlinks de-duplicated by Target instead of Name       -> exit 1: facts (11/12), 20 disagreements, failing input directory-list-not-sorted (duplicate symlink names)
 m7 directory nodes with a digest never de-duplicated      -> exit 1: extractor unreadable -> Expected facts + thorough correspondence: 20 disagreements,
                                                             failing inputs directory-not-canonical / directory-list-not-sorted
 h1 harmless: `last` renamed, sort.SliceStable, loop variable renamed -> exit 0
 h2 a fix: one `last` variable per loop                    -> exit 0 (sharedLast=false is accepted by FactsOK, model follows the fact)
"""
