CLAIMED = True
SPEC = {
    "id": "C39",
    "props": "PlzVerif/Props/C39.lean",
    "extract": ["c39"],
    "harness": "c39",
    "driver": "Driver/C39.lean",
    "needs_plz": False,
    "level": "proof",
    "level_text": (
        "Partial. Proved for every number/size of sources and overrides (Props/C39.lean): the reading order places each "
        "profile file right after its file (C39_profile_adjacent) and is the documented five files without XDG "
        "(C39_documented_order); single-valued options: last statement in reading order wins, -o beats files, default iff "
        "unset (C39_single_last_wins / _override_wins / _default_iff_unset; combined with the reading order in C39_highest_priority_source_wins); list options: values after the last blank, "
        "accumulation across files, -o replaces the list, default when unset (C39_list_after_last_blank / _accumulates / "
        "C39_override_replaces_list / C39_list_default_when_unset); override order irrelevant for distinct fields. "
        "The property as stated is VIOLATED in five narrow classes, each with a Lean witness, a corpus witness and a "
        "known-finding entry: list default comes back after 'set then blank'; java.defaultmavenrepo default is never "
        "replaced; repeatable plugin options do not accumulate across files; a blank plugin option appends \"\"; "
        "-o buildconfig.<MixedCase> lands on the lower-cased key. C39_default_only_if_unset_partial and "
        "C39_plugin_accumulates_partial state where those clauses do hold. Not modelled: gcfg's lexer/quoting/case folding "
        "and value parsing (int, bool words, URL, duration) - covered by correspondence only."
    ),
    "technique": "Lean proof about a fold-over-sources model of ReadConfigFiles/gcfg set/ApplyOverrides; go/ast facts for file order, "
                 "loop shape, defaults, override handling; differential run of core.ReadDefaultConfigFiles over an in-memory fs",
    "trusted": [
        "go/ast extractor harness/extract/c39 (symbolic file order of defaultGlobalConfigFiles/defaultConfigFiles, position of the profile loop "
        "and the profile file name, readConfigFile steps, setDefault condition/calls, DefaultConfiguration literals, ApplyOverrides key lowering, "
        "slice override op, readConfig call order in src/please.go)",
        "correspondence harness/cmd/c39 vs Driver/C39.lean: core.ReadDefaultConfigFiles over an in-memory fs.FS + ApplyOverrides, 13 representative "
        "options (string, int, bool, list with/without default, pre-populated list, map key in two cases, plugin keys, please.version with and without >=); exhaustive subsets of the "
        "10 sources {5 files}x{file,profile} for a string and a list option, all value/blank sequences up to length 4 over two layers, random scenarios",
        "modelled, not verified: Model/Config.lean transcribes ReadConfigFiles, readConfigFile, normaliseAndMergePluginConfig, setDefault, "
        "ApplyOverrides and the layering-relevant part of gcfg set(); Go maps as functions Nat -> value",
        "not modelled (correspondence only): gcfg scanner/quoting/name case folding, value parsers, go-flags parsing of -o, plz query config rendering",
        "direct oracle: an independent Go reference applying the sources in the documented order (written from the property text and docs/config.html)",
    ],
    "assumptions": [
        "no two -o overrides name the same field after lower-casing (Go map iteration order would decide; C39_override_order_irrelevant needs distinct targets)",
        "option values are taken from the value domain of the option (ints are decimal numerals, bools true/false, URLs parse); invalid values are rejected by gcfg before layering matters",
        "XDG_CONFIG_DIRS / XDG_CONFIG_HOME entries are modelled as extra files at their place in the regenerated order; the property text lists only the five standard files",
    ],
}

MUTATIONS = """
Dry-runs on scratch copies (VERIF_REPO), all with findings_inbox/C39.jsonl loaded:
 m1 defaultConfigFiles: .plzconfig.local before .plzconfig_<arch>      -> exit 1, C39_facts_ok/C39_documented_order broken (26/29) and failing
                                                                           input `cfg p=1 x=0,0 s:arch:-:0=arch s:local:-:0=local` (reference local, real arch)
 m2 ReadConfigFiles: profile files read before their file               -> exit 1, facts (profileMode=before-each-file) + failing input machine vs machine.p0
 m3 dropped setDefault(&config.Parse.BuildDefsDir, "build_defs")         -> exit 1, facts + failing input (builddefsdir [] instead of [build_defs])
 m4 applyOverrideOnSectionField: AppendSlice instead of Set for slices   -> exit 1, facts (overrideSliceOp) + correspondence 20 disagreements + failing input
                                                                           `... s:local:-:5=v0 o:5=o1,o2` (real [v0,o1,o2])
 m5 readConfigFileOnly: missing file no longer ignored                   -> exit 1, facts + unexpected-read-error on the first corpus line
 m6 ReadDefaultConfigFiles reads only defaultGlobalConfigFiles()         -> exit 1, facts + failing input `s:repo:-:0=repo` (real: default)
 m7 setDefault appends the default instead of filling an empty slice     -> exit 1, facts + failing input (buildfilename [machine,BUILD,BUILD.plz])
 h1 harmless: loop variables renamed, profile name built in a local variable first, two independent setDefault calls swapped
                                                                         -> exit 0, 29/29, 0 disagreements
 Fix phase: version-gte-sticky (found by a seed author, confirmed here on 209 generated layerings) repaired in /repo 3e7b8fa (baseline 347/347); the fact
 versionResetsGTE is required by FactsOK, please.version is option 13 of the table (every ordered pair of the ten sources x {plain, >=}), corpus/C39/fixed-version-gte-sticky.ops.
 `-o please.version:X` is refused by ApplyOverrides (struct field), so there is no override case for it.
"""
