CLAIMED = True
SPEC = {
    "id": "C17",
    "props": "PlzVerif/Props/C17.lean",
    "extract": ["c16", "c18", "c17"],
    "harness": "c17",
    "driver": "Driver/C17.lean",
    "needs_plz": False,
    "level": "proof",
    "level_text": (
        "Partial, with the full statement refuted by witnesses. Full statement (a package renders the same globals "
        "alone, after another package, and after later packages ran) is refuted on the multi-file asp model by three "
        "machine-checked witnesses, one per root cause, each a listed known finding. Proved for all inputs: everything "
        "scope.Freeze leaves in a subincluded scope is a frozen wrapper at the top level (C17_exports_frozen, any facts, "
        "any heap); index assignment refuses a frozen wrapper, sorted/reversed on a frozen list only allocate their result "
        "(C17_toplevel_partial); + on a list "
        "without spare capacity only extends the heap (C17_add_exact_cap_never_writes); today's Freeze is complete for "
        "flat lists without spare capacity (C17_freeze_today_flat); setdefault on an imported dict is refused (one "
        "decided sample); a Freeze that "
        "wraps the frozen copy (the one-line fix) returns values frozen at every level, without spare capacity, in "
        "fresh heap cells (by mutual induction over freeze / freezeList / freezeKvs), while today's Freeze already "
        "fails that for [[1, 2]]. No whole-program frame theorem: that packages cannot reach unfrozen shared cells "
        "through the rest of the interpreter is tied to the code by the correspondence and the direct oracle only. "
        "Concurrent parsing is not modelled (sequential orders only). CONFIG (base + per-scope overlay, Merge of the frozen "
        "CONFIG of subincluded files; Model/AspConfig.lean, a heap of overlay maps with the allocation and write sites of "
        "pyConfig) has a FULL non-interference theorem: for every set of files and every sequence of package evaluations in "
        "one interpreter the CONFIG a package observes is a function of its own subincludes and writes "
        "(C17_config_noninterference, induction over the sequence with the invariant that cached overlay cells are never "
        "written), tied to the code by the regenerated facts (every assignment to .overlay stores a fresh map, Merge in "
        "particular, no further field in pyConfig) and by the direct oracle on generated package sets in every order; "
        "C17_config_alias_interferes shows the fact is necessary. The CONFIG model is separate from the interpreter model "
        "(CONFIG values are ints, files only write, packages only subinclude and write)."
    ),
    "technique": "Lean heap model of Freeze/Subinclude + differential run of package sets in every order against each package alone, with repair-based classification",
    "trusted": [
        "go/ast extractor harness/extract/c16 (pyList.Freeze return shape, list +, sorted/reversed, Constant(), interpretSlice)",
        "go/ast extractor harness/extract/c17 (fields of pyConfig; every assignment to a field .overlay in objects.go, config.go, interpreter.go, builtins.go with the kind of value stored: make / literal / copy / alias; how pyConfig.Merge obtains the destination overlay)",
        "correspondence harness/cmd/c17 (asplib/c17.go): real interpreter with packages sharing a really subincluded file (hooks EvalScopeForVerif, core graph with a built target) vs Driver/C17.lean",
        "modelled, not verified: Model/AspInterp.lean runPackages / subincludeAll (Subinclude cache, optimised interpretation, scope.Freeze, SetAll)",
        "classification: re-run on the real code with private deep copies of everything imported (+ copying returns), with non-constant literals in the subincluded file, or with copying list sums",
    ],
    "assumptions": [
        "packages are interpreted one after the other in one interpreter (the orders of a set and each package alone); truly concurrent parsing is not exercised",
        "observation = the rendered variables of the package scope (everything a target definition can use), not the build graph",
        "package sets in which a package fails are checked by the direct oracle only (the model's error monad drops partial effects)",
    ],
}

MUTATIONS = """
Dry-runs on a scratch copy (VERIF_REPO=/var/tmp/mC16, ./check C17 quick), all compile:
 MB  objects.go  pyDict.Freeze returns pyFrozenDict{pyDict: d} (unfrozen values)   RED  class freeze-dict-keeps-unfrozen-values (new), concrete package set; 20 model disagreements
 MC  interpreter.go scope.Freeze skips pyList values                               RED  class export-not-frozen (new), concrete package set
 MD  objects.go  pyFrozenList.IndexAssign delegates to the inner list              RED  VIOLATION violation-frozen-container-accepts-assignment.json (concrete package set, found by the
                                                                                        assignment probe added after the first dry-run, which was red through the correspondence only); 20 model disagreements
 R3  builtins.go sorted/reversed back to l[:] (after the repairs 95d3a82, b818e89)   RED  C17_toplevel_partial no longer checks (facts sortedArg/reversedArg flip); no concrete package set at quick
 ME  interpreter.go Subinclude: rename local `locals`                              GREEN (harmless)
 MA  objects.go  pyList.Freeze returns the frozen copy (the fix)                   RED as designed: C17_witness_freeze_keeps_elements / C17_freeze_today_not_deep no longer check
 S3  round-3 seed (written for C07): objects.go pyConfig.Merge adopts the incoming overlay by reference (borrowed flag, copy-on-write in IndexAssign only)
     first version of the check MISSED it (CONFIG merges were neither modelled nor generated); after Model/AspConfig.lean, extract/c17 and the msm generator: RED, see commit message
"""
