CLAIMED = True
SPEC = {
    "id": "C32",
    "props": "PlzVerif/Props/C32.lean",
    "extract": ["c32"],
    "harness": "c32",
    "driver": "Driver/C32.lean",
    "needs_plz": True,
    "level": "proof",
    "level_text": "FULL on the operation-list model of the repaired build step (/repo 214f1be: removeRuleHash drops the stamp — xattr and "
                  "fallback record — of every declared output before StoreTargetMetadata). The local build step (prepareDirectories .. "
                  "removeRuleHash .. StoreTargetMetadata .. moveOutputs .. writeRuleHash .. storeInCache) is a LIST OF ATOMIC FILESYSTEM "
                  "OPERATIONS over the target's files (metadata written in arbitrary pieces; per output: tmp file, stamp removal, RemoveAll "
                  "of the old output through arbitrary intermediate contents, rename, xattr or fallback record written through truncation "
                  "and arbitrary partial lengths); a crash is a cut at ANY position; needsBuilding / readRuleHashFromXattrs are functions of "
                  "the file state. C32_crash_inv: every cut leaves every output in a state satisfying C01's history invariant, in every "
                  "stamp mode (xattr / fallback record / symlink outputs) and for file and directory outputs; C32_main: hence a build of ANY "
                  "later repository state from what any family of interrupted steps left equals the clean build (conditional like C01 on "
                  "injective hash pre-images; one output per target as in the history model); C32_interleaving: concurrent steps reduce to "
                  "per-target cuts. C32_recover: the next plain build of the same tree succeeds at the first attempt (post-build targets "
                  "included: C32_metadata_never_truncated), leaves exactly the clean outputs and is stable; C32_recover_repeated: after any "
                  "number of kills in a row. C32_unverified_never_trusted: the step of a target whose outputs fail their "
                  "declared hashes (clean build fails, Build removes the outputs) never leaves, at any cut of the failure path, a state the "
                  "next build accepts — by the regenerated order verify -> record in calculateAndCheckRuleHash; "
                  "C32_witness_stamp_before_verify refutes the other order. C32_before_fix_*: kernel-checked witnesses of the three former findings for the OLD order "
                  "(theorems that held then: Lemmas/CrashUnrepaired.lean); C32_witnesses_closed: the same scenarios under the regenerated "
                  "order. C32_writeFile_atomic: every cut of fs.WriteFile leaves the destination old or complete. Left out of the model: "
                  "cache RETRIEVAL (C12/C02; every lookup is a miss), targets without outputs, the post-build function's own effect, remote "
                  "execution, filegroups, optional outputs / output directories, the copy fallback of renameFile, the memoised content-hash "
                  "xattr (fact: old outputs are re-hashed with recalc=true before the command).",
    "technique": "Lean 4 invariant proof over every prefix of an operation-list model (projection of the list onto one output's files, "
                 "classification of all crash shapes) + regenerated call-order facts + end-to-end differential correspondence with the "
                 "real plz binary killed at every filesystem operation of the build step (verif hook) and at seeded instants",
    "trusted": [
        "go/ast extractor harness/extract/c32 (order of StoreTargetMetadata / moveOutputs / calculateAndCheckRuleHash->writeRuleHash / "
        "storeInCache after the command in buildTarget, preceded by removeRuleHash (every FullOutput -> fs.RemoveAttr = remove fallback record + LRemove); old outputs re-hashed with recalc=true before the command; inside calculateAndCheckRuleHash: OutputHash, checkRuleHashes (error returned under VerifyHashes), writeRuleHash, Chmod; call order inside StoreTargetMetadata, moveOutput (keep-old return before "
        "RemoveAll), writeRuleHash (every output, then the metadata file), the read-back loop of readRuleHashFromXattrs, needsBuilding's "
        "metadata and output guards, Build -> RemoveOutputs on failure, RecordAttrFile = os.WriteFile on dir+\".rule_hash_\"+file, "
        "fs.WriteFile: MkdirAll/CreateTemp(dir of destination)/Copy/Close/Chmod/renameFile(temp, dest))",
        "correspondence harness/cmd/c32 vs Driver/C32.lean: hook-point TRACE of the interrupted build step, the target's files (metadata "
        "absent/empty/partial/full, each output's content class and stamp class) after SIGKILL at hook point k (+ j emulated inner steps), "
        "and what the next build does (skip / rebuild / fail+second attempt, final tree clean or stale), also after a SECOND kill of "
        "the recovery attempt (crash2), file / directory / symlink outputs, xattr and fallback modes, with and without a dir cache and a "
        "post-build function, with declared hashes that match (g) or do not match the interrupted tree (b: the clean build "
        "fails, so must the build after the crash; kill points over the whole failure path incl. fail-remove-outputs); fs.WriteFile destination and "
        "temporary (content AND mode) after the reader died at byte N for every N and after a crash at the points close / rename / "
        "renamed of WriteFile itself (hook src/fs/c32_verif.go; in-process panic or SIGKILL of a re-executed child); encoding/gob on "
        "every strict prefix of an encoded BuildMetadata; truncated fallback records of every length",
        "direct oracle: tree after the recovery build == clean build of the same sources in a fresh directory (HOME, XDG_*, cache dir in "
        "scratch), first recovery attempt must succeed; fs.WriteFile destination is (old content, old mode) or (complete new content, requested mode) — complete content "
        "under the temporary's 0600 is reported as writefile-destination-complete-with-wrong-mode",
        "crash injection: src/build/c32_verif.go (//go:build verif) kills the process at the N-th verifOp call site of the chosen target; "
        "steps INSIDE one call (half-written gob, first unlink of RemoveAll on a directory, O_TRUNC / half-written fallback record) are "
        "emulated by the harness on the killed tree; timed SIGKILLs of the whole session hit everything else (parse, command, cache)",
        "modelled, not verified: Model/CrashBuild.lean, Model/WriteFile.lean; rename(2), unlink(2), setxattr(2) atomic; a truncated "
        "fallback record never reads back as a current stamp (checked for every length end to end); hash pre-images idealised",
    ],
    "assumptions": [
        "SHA-1 / path hash modelled as injective on pre-images (hypothesis hH, as in C01)",
        "the build command is deterministic and leaves no user.plz_build xattr on its outputs",
        "the scratch filesystem supports user xattrs (the fallback mode is forced through [build] xattrs = false)",
        "kill -9 semantics: data written by completed write(2)/rename(2)/setxattr(2) calls is visible to the next process (no power loss / fsync model)",
    ],
    "harness_timeout": 2400,
    "search_rounds": 1,
    "explanation": "Three findings (findings_inbox/C32.jsonl), all FIXED by /repo 214f1be: fallback-record-survives-output-replacement, "
                   "dir-output-keeps-stamp-while-being-removed, truncated-metadata-fails-next-build; their witnesses are replayed on every run "
                   "(corpus/C32/fixed-*.ops) and must now recover clean.",
}
MUTATIONS = """
Dry-runs on scratch copies (VERIF_REPO=/var/tmp/mC32_n ./check C32 quick), all compile with and without -tags verif:
M1 buildTarget: calculateAndCheckRuleHash (-> writeRuleHash) moved BEFORE moveOutputs (stamp before move)
   -> exit 1: C32_facts_ok fails (buildPhases = [metadata, stamp, move, cache]); correspondence disagrees (30 lines); direct oracle:
      every fresh build fails ("failed to calculate hash": outputs not there yet) -> VIOLATION with the op line as replay.
M2 readRuleHashFromXattrs: the `h != nil && !bytes.Equal(h, b)` (outputs disagree) return removed
   -> exit 1: C32_facts_ok fails (readLoop); oracle: `fbtrunc ff 50` (truncated record on output 0, full on output 1) is trusted
      (class truncated-fallback-record-trusted) and a reverted tree after a kill between the two stamps is trusted
      (class recovered-differs-from-clean); 12 correspondence disagreements.
M3 fs.WriteFile: temp file replaced by os.Create(to) (writes in place)
   -> exit 1: C32_facts_ok fails (writeFileCalls / temp in destination dir); oracle class writefile-destination-torn for every N
      (57 oracle failures), 23 disagreements.
M4 needsBuilding: the "every output exists" loop removed
   -> exit 1: C32_facts_ok fails (needsBuildingChecksEveryOutput); oracle: kill between RemoveAll and Rename in fallback mode
      is trusted without the output (classes recovered-differs-from-clean, recovery-build-fails-persistently); re-run on the final
      version: exit 1, replay `crash f n - s old:1 8 0 revert` (state o0=none/s0, next=skip final=stale).
M5 harmless: StoreTargetMetadata's local `filename` renamed, two independent assignments in moveOutputs swapped
   -> exit 0, 31/31 obligations, no disagreement.
(M1-M3, M5 were run on the first committed version of the check, 7429ec7; the later additions only add cases and theorems.)
After the repair (/repo 214f1be):
M6 buildTarget: the call removeRuleHash(target) removed again (re-introduces the three findings)
   -> exit 1: C32_facts_ok fails (buildPhases back to [metadata, move, stamp, cache]); direct oracle: class
      fallback-record-survives-output-replacement is no longer a known finding -> VIOLATION with the op line as replay.
M7 (independently written) fs.WriteFile renames the temporary first and chmods the destination afterwards
   -> exit 1: C32_facts_ok fails (writeFileCalls / writeFileChmodArgs); direct oracle: `wf 6f6c64 616263 0 2 4 renamed-p` leaves the
      destination complete with mode 0600 (class writefile-destination-complete-with-wrong-mode) -> VIOLATION with that replay.
M8 (independently written) calculateAndCheckRuleHash verifies the declared hashes LAST, after writeRuleHash and the binary chmod
   -> exit 1: C32_facts_ok fails (verifyThenStamp); direct oracle: `crash x n b f old:1 11 0 same` (kill after stamp-out, before
      fail-remove-outputs) leaves o0=c1/s1, the next build skips (class unverified-output-trusted-after-crash) -> VIOLATION with that replay.
Dry-runs of the repair itself: ./check baseline on the patched copy 347/347; VERIF_REPO=<patched copy> ./check C01|C02|C03 quick green
(facts regenerated, 0 disagreements); C32 on the patched binary: 0 oracle failures, model agrees.
"""
