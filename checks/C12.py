CLAIMED = True
SPEC = {
    "id": "C12",
    "props": "PlzVerif/Props/C12.lean",
    "extract": ["c12"],
    "harness": "c12",
    "driver": "Driver/C12.lean",
    "needs_plz": False,
    "level": "proof",
    "level_text": "Theorems over the list-of-atomic-filesystem-operations model of dirCache.Store/Retrieve (both modes), cut at "
                  "every position and interleaved with a small-step reader: round trip (node for node), miss, crash atomicity "
                  "(full for compressed caches; plain caches when the old entry's requested outputs are leaves, which includes "
                  "every fresh key), one-store/one-retrieve interleaving on a fresh key - and, for compressed caches, at full "
                  "strength with an old entry present (C12_concurrent_compressed) since /repo f413d7f fixed the finding "
                  "`compressed-retrieve-enoent-reported-as-hit` (the old witness is kept conditional on the old fact value).  The "
                  "full statement is still refuted for plain caches by one witness (re-store removes the old entry in place), "
                  "replayed on the real code.  Left out of the model: I/O errors other than a missing source output, "
                  "the copy fallback's temp-file-and-rename sequence (covered by the any-temp-only-operation frame lemma, not "
                  "by a specific op list), file modes other than the owner-executable bit, gzip/tar encoding.  A torn entry "
                  "tarball is a miss (theorem + fact damagedIsMiss + real-code runs), for cuts that reach at least a quarter "
                  "into the compressed stream; a cut confined to the last few bytes (gzip trailer / tail of the tar end "
                  "marker) is never read by the code — observed: everything is restored — and is outside the model.",
    "technique": "Lean 4 theorems over an operation-list model + regenerated facts + differential correspondence with crash injection (SIGKILL of a re-executed child at every verifOp call site, emulated partial RemoveAll/RecursiveLink)",
    "trusted": [
        "go/ast extractor harness/extract/c12 (phase order and path roles in Store, ensureStoreReady/storeFile order, retrieveFiles/retrieve error handling, getFullPath concatenation)",
        "correspondence harness/cmd/c12 vs Driver/C12.lean: op TRACE of every store, retrieve result, and the state of the key's slice of the cache after every scenario",
        "crash injection: SIGKILL at verifOp call sites (hook src/cache/c12_verif.go, call sites in dir_cache.go); crashes INSIDE os.RemoveAll / fs.RecursiveLink are emulated by performing their first k unlink/mkdir/link steps in sorted order before the kill",
        "modelled, not verified: Model/DirCache.lean; rename(2), link(2), unlink(2) atomic; archive/tar + gzip: an unclosed stream does not decompress to the end, a closed one reads back its entries",
        "quick tier: most crashes are taken in-process by parking the goroutine that runs Store for ever (nothing it buffers is ever flushed or closed); 1 in 16 scenarios of the quick tier, 1 in 6 of the thorough tier and every replayed scenario use a real SIGKILL",
    ],
    "assumptions": [
        "a key is always stored with the same list of output names (stale temporaries come from stores of the same outputs)",
        "requested outputs are not nested in one another; source listings are in walk order (checked: srcOK)",
        "distinct (target, key) pairs map to distinct entry paths",
    ],
    "harness_timeout": 3000,
}

MUTATIONS = """
Dry-runs on scratch copies (VERIF_REPO=/var/tmp/mC12<k> ./check C12 quick, findings inbox loaded), all compile:

M1  Store: tmpDir := getFullPath(target, key, "", "")  (temporary suffix dropped: the entry is built in place)
    -> exit 1.  facts: storeOrder becomes [remove-final, store-final, rename-final-final], 13/19 obligations;
    32 trace disagreements; failing input on the real code (class partial-or-wrong-hit):
    `c 6e6f7065,64 S/4/<tree> R` - first output missing, the empty closed tarball sits at the ENTRY path when the
    process dies before the failed-tarball cleanup; the retrieve is a hit restoring nothing.
M2  Store: the fs.RemoveAll(cacheDir) block deleted
    -> exit 1.  15/19 obligations, 32 disagreements; failing inputs: `u 64 S/-/<t0> R S/-/<t1> R` second retrieve
    restores the OLD tree (rename onto the non-empty old entry fails), and roundtrip-miss-after-complete-store.
M3  retrieve: `err != nil && os.IsNotExist(err)`  (negation dropped: every other read error falls through to found)
    -> FIRST ATTEMPT NOT CAUGHT (exit 0, 19/19, 0 disagreements).  Cause: one coarse fact (enoentIsMiss, found by
    substring) made the mutation look like the fix, the model hard-coded "unclosed archive at the entry => miss"
    with no fact behind it, and no scenario ever put a damaged tarball at the entry path, so that clause had no
    real-code coverage at all.  Repaired: the extractor reads the error test structurally into two facts
    (enoentIsMiss, damagedIsMiss; damagedIsMiss required by FactsOK), retrieveC/retrieveC2 take the fact as a
    parameter, theorem C12_damaged_entry_is_miss, new act D/<keep> (tear the entry tarball, then the REAL Retrieve).
    -> RE-RUN: exit 1, 20/21 obligations, 23 disagreements, failing input (class damaged-archive-reported-as-hit):
    `c 61,64 S/-/<tree> D/0 R` - hit restoring nothing.
    While building D/: my first two versions of the model clause ("any cut is a miss", then "any cut that takes the
    gzip trailer plus one byte is a miss") were both refuted by the real code on `... D/97 R` (a complete hit: tar
    stops at its end marker, the tail is never read).  The act is now limited to keep <= 75; see level_text.
M4  storeCompressed: `fs.RemoveAll(filename)` after a failed storeCompressed2 deleted
    -> exit 1.  fact failedTarballRemoved=false, 18/19 obligations, 21 disagreements; failing input:
    `c 61,64 S/-/<tree without a> R ...` - the empty tarball is renamed into place, hit restoring nothing.
M5  harmless: Store's locals renamed (cacheDir->entry, tmpDir->staging) and the two path computations swapped
    -> exit 0, 19/19, facts regenerated (roles come from how a variable is assigned, not from its name), 0 disagreements.

FIX PHASE.  /repo f413d7f repairs compressed-retrieve-enoent-reported-as-hit (retrieveFiles: `return false, err`); re-introduction
(git revert on a scratch copy): exit 1, VIOLATION class compressed-retrieve-enoent-reported-as-hit, 22/23 (C12_facts_ok).
restore-removes-old-entry-in-place stays a known finding: repairing it means changing Store's whole sequence (build the new entry,
move the old one aside, rename, remove) - more than a small patch.  Quick on a quiet machine: 62-97 s.

Unchanged tree before the fix phase: exit 0 for seeds 1, 2 (and 3 for harness+driver), 21/21 obligations, 0 disagreements, oracle failures
only in the two listed classes, both witnesses confirmed on every run.

Measured quick-tier wall times (./check C12 quick): 118 s .. 1704 s; CPU (user+sys) 3.4 .. 5.7 min per run.  The spread
is the shared lake lock (one correspond step alone waited 1535 s for it); the CPU figure is the stable one.  The
60-90 s target is NOT met as measured; harness ~8-20 s, interpreted driver ~25 s, proof build ~10-20 s, three corpus
replays each paying a driver start.

Thorough tier.  First version: 25,112 scenarios, every crash a real SIGKILL child (~0.3 CPU-s each): its harness phase
alone was still running after 28 min and was stopped.  Trimmed to 14,549 scenarios (all 104 shapes x 2 modes; crash
points complete for 12 core shapes, sampled for the rest; real SIGKILL for 1 scenario in 3): exit 0, 21/21 incl.
leanchecker, 14,566 cases, 0 disagreements, 103 oracle failures all in the two listed classes; 23 min 49 s wall,
43 CPU-min (user 20 + sys 23, mostly process spawning) on the shared machine - over the ~15 min target.  The real-kill
share has since been cut to 1 in 6; that configuration has NOT been timed yet.
Quiet machine (load < 30, 2026-09-22 afternoon), after the fix phase: quick 27 s warm / 62-97 s with a cold proof build;
thorough (14,566 cases, real SIGKILL for 1 scenario in 6, leanchecker) 3 min 17 s.  Both tiers are within their targets there;
the figures above were measured at load average 40-150.

ROUND-2 SEED (retrieveCompressed prepares only "top-level" entries, by string prefix without a trailing slash) was MISSED by the
check as it stood (exit 0): every retrieve ran into an EMPTIED output directory, no output names shared a string prefix, the model's
retrieve returned the archive's entries without a destination, and no fact pinned the per-entry ensureRetrieveReady.  Added:
act R/<tree> (retrieve over stale outputs of an earlier build: longer files, swapped kinds, extra files), output sets with shared
prefixes (d + d.txt, gen + gen_hdrs/x.h, report + report.txt, d + d2/x + dx, d + d=, outputs in sub-directories), both modes;
model restoreEntry / restoreAll / retrieveCInto (per entry: ready = mkdir parent + unlink, then mkdir / symlink / open WITHOUT
truncation), theorem C12_roundtrip_compressed_over_stale (any stale destination; invariant in Lemmas/DirCacheRestore.lean) which
needs prep_fact, witness C12_witness_unprepared_restore; facts retrievePreparesEveryEntry (top-level statement of the header loop,
its result is the destination of all three arms), retrieveOpenTruncates, retrieveReadySeq, retrieveReadyReturnsBeforeUnlink,
plainRetrievePreparesEveryOut.  Result:
  /repo: exit 0, 26/26, 2008 cases, 0 disagreements.
  VERIF_REPO=/tmp/confirm/C12 (the seed): exit 1, 24/26 (C12_facts_ok, prep_fact), 20 disagreements, VIOLATION classes
    stale-output-survives-retrieve (`c 64,642e747874 S/-/64:d:-,642f78:f:7831,642e747874:f:6e6577 R/<same paths, longer files>`: d.txt
    comes back as "new" + the old tail), miss-after-complete-store-over-stale-outputs, roundtrip-miss-after-complete-store
    (`... R/64:f:..,642e747874:d:-,642e7478742f696e6e6572:f:..`: stale directory d.txt is not unlinked, the open fails, a just-stored key misses).
  the C02 round-2 seed (ensureRetrieveReady returns before the unlink for names with a slash, compressed): exit 1, 24/26, VIOLATION class
    stale-output-survives-retrieve (`c 67656e,67656e5f686472732f782e68 S/-/... R/...`: gen_hdrs/x.h keeps the stale tail).
"""
