CLAIMED = True
SPEC = {
    "id": "C37",
    "props": "PlzVerif/Props/C37.lean",
    "extract": ["c37"],
    "harness": "c37",
    "driver": "Driver/C37.lean",
    "needs_plz": True,
    "level": "proof",
    "level_text": (
        "Proved on the model (Model/Cmd.lean, instantiated with the regenerated sequence table and quote facts): "
        "expansions of label and file sequences in build commands are paths prepareSources links (C37_exists_label, "
        "C37_exists_file, C37_exists_dir, composed through label parsing, dependency lookup, guards, output loop and quoting "
        "in C37_locations_end_to_end; lifted to whole commands `pre $(kw arg) post` by C37_command_in_context), out_ and tool sequences name the real outputs (C37_out_paths, C37_tool_abs), "
        "non-dependency / unparsable labels, multi-output and non-binary misuse are rejected (C37_reject_*), and paths "
        "made of ordinary characters and the characters quote reacts to are exactly one shell word each "
        "(C37_one_word_partial, C37_words_partial). REPAIRED in /repo and now proved in full: single-output "
        "sequences reject a target without outputs (C37_reject_zero, C37_single_output_exact; fix d6adec5), $(dir) is never "
        "empty (C37_dir_full; fix 3a89ce0), an entry point of a tool is its absolute path (C37_tool_entry_point_abs; fix "
        "b087314). PARTIAL: two clauses remain false, each with a kernel-checked witness and a narrow known-finding class "
        "(quote misses space/quote/$/backtick/glob characters; plain names are not checked against the sources). The shell grammar is a "
        "POSIX subset (no expansions: they are classified as 'not one literal word')."
    ),
    "technique": "Lean 4 theorems over an executable model of ReplaceSequences + a POSIX-subset word splitter; regenerated "
                 "sequence table/quote set/guards; differential correspondence incl. real bash; file-system oracle",
    "trusted": [
        "go/ast extractor harness/extract/c37 (regex keywords, pass order and chaining, slice offsets, the five flags of every "
        "pass, quote's character set and wrappers, the guard chain of checkAndReplaceSequence as sorted role-named atoms, and "
        "canonical skeletons - parameters by position, locals by declaration order, messages blanked - of the rest of "
        "checkAndReplaceSequence, fileDestination, handleDir, replaceSequenceLabel, replaceSequence, splitEntryPoint, "
        "sourcesOrTools)",
        "correspondence harness/cmd/c37 vs Driver/C37.lean: core.ReplaceSequences/ReplaceTestSequences on generated "
        "targets and commands, core.IterSources, filepath.Join, TryParseBuildLabel, and the Lean shellWords against a real "
        "bash on the quote/backslash/blank subset",
        "direct oracle: real ReplaceSequences + real IterSources/IterRuntimeFiles/PrepareSource populate a build or test "
        "directory; a real bash parses the expansion there; words must equal the named existing paths, or the sequence "
        "must be rejected",
        "end to end: the real plz binary builds genrules `cat $(location NAME) > $OUT` (and the multi-output / non-dependency "
        "/ non-source misuses) in scratch repositories; build success and produced content are judged (oracle only)",
        "modelled, not verified: Model/Cmd.lean transcribes command_replacements.go, label parsing, filepath.Clean/Join, "
        "the first level of IterSources; Go strings as lists of characters (valid UTF-8)",
        "idealisations: bash is represented by a POSIX-subset splitter (validated against bash only on texts without "
        "expansion/operator characters); the build directory is modelled one dependency level deep",
    ],
    "assumptions": [
        "Bazel compatibility off, no remote execution, no subrepo targets, no named/test tools, no require/provide",
        "$(worker …) and $(hash file) are outside the property and not modelled; the missing-entry-point path is a "
        "log.Fatalf in the code (process exit), evaluated in a child process",
    ],
}

MUTATIONS = """
Dry-runs on scratch copies (VERIF_REPO=/var/tmp/mC37_*; ./check C37 quick, inbox findings loaded):
M1 quote(): ContainsAny(s, "|&;()<>") -> "|;()<>"            exit 1: FactsOK fails (3 theorems), widened search finds
                                                             `expansion-not-the-named-words` (…/pkg/p&q reaches the command as …/pkg/p)
M2 checkAndReplaceSequence: len(dep.Outputs()) > 1 -> > 2    exit 1: guard fact differs, 20 disagreements,
                                                             `accepted-needs-one-output-has-2` ($(location //a) expands to two paths)
M3 fileDestination: dep.Label.PackageName -> target.Label…   exit 1: 22 disagreements, `expansion-not-the-named-words`
                                                             (expansion "é" instead of the dependency's package "p;q")
M4 location pass: in[11:len(in)-1] -> in[12:…]               exit 1: offset fact differs (3 theorems), 7 oracle classes with inputs
                                                             (accepted-bad-label, accepted-not-a-dependency, valid-sequence-rejected, …)
M5 replaceSequenceLabel: target.IsTool(label) -> false       exit 1: 20 disagreements, `expansion-not-the-named-words` (tool named by the
                                                             relative path "b" instead of <root>/plz-out/bin/b), `accepted-tool-at-test-time`
H1 harmless: rename outputBuilder -> sb, reorder the atoms of the not-executable guard      exit 0 (facts regenerated identically:
                                                             the guard atoms are sorted, locals are not facts)
Fix phase: with d6adec5 / 3a89ce0 / b087314 in /repo, reverting d6adec5 on a scratch copy gives exit 1,
`VIOLATION … violation-single-output-sequence-accepts-zero-outputs.json`, 21 disagreements, guard fact and skeleton flipped.
Round-3 seed (guard `len(dep.DeclaredOutputs()) > 1` instead of `len(dep.Outputs()) > 1`, /tmp/seedout3/C37/patch.diff): exit 1,
`VIOLATION … violation-singular-location-expands-to-several-paths.json` — command `cp $(location //path/to:dep) $OUT` of //path/to:t,
dependency with the named outputs a.c, a.h expands to "path/to/a.c path/to/a.h"; facts multiGuardAccessor = "DeclaredOutputs"
(C37_accessors_ok, qf_guard fail), the extractor now reads split guard chains and `v := dep.Outputs()` locals instead of exiting 3.
"""
