CLAIMED = True
SPEC = {
    "id": "C19",
    "props": "PlzVerif/Props/C19.lean",
    "extract": ["c19"],
    "harness": "c19",
    "driver": "Driver/C19.lean",
    "needs_plz": False,
    "level": "proof",
    "level_text": (
        "Everything below is modulo Go's stack limit: 'never crashes the process' is known false for deep nesting (known finding parser-recursion-stack-overflow). lexer (lexer.go, every byte string): total, every buffer read in bounds given the two NUL sentinels, "
        "every error is l.fail(pos) with pos inside the input, token positions inside the input - full. "
        "parser (grammar_parse.go, all of it: statements, expressions, f-strings, concatStrings): never out of "
        "fuel (parse_total), never asks the lexer for a token past the one after EOF (in bounds), every error is "
        "a positioned lexer/parser error (C19_parse_errors, full since the concatStrings repair: fix commit 3f38189; "
        "the old behaviour is kept as C19_old_concat_runtime_iff on the pre-fix fact value). Facts tie: nextToken's switch is summarised clause by clause, the inner loops (consumeString / consumeIdent / consumeInteger / the indent pop loop) have no fact of their own and are tied by the correspondence only. Not in the model: Go's stack limit (recursion depth is "
        "only exercised by the stress oracle; the lexer's self-recursion was repaired (fix commit e24fab1), the parser's nesting depth stays a known finding), l.line/l.col, AST contents beyond what decides the outcome"
    ),
    "technique": "Lean proof over a byte-level lexer model and a fuel-indexed model of the recursive-descent grammar (program logic over the parser monad, induction on fuel) + differential token streams / parse outcomes + direct outcome oracle",
    "trusted": [
        "go/ast extractor harness/extract/c19 (sentinel count, look-ahead offsets, byte classes and per-clause summaries of nextToken's switch, every panic site, the recovery's type assertion, keyword/operator/type-name tables, Go's unicode.Letter/Nd tables)",
        "correspondence harness/cmd/c19 vs Driver/C19.lean: token streams (type, value, position) and ParseData outcomes (ok + statement count / error position + message kind) on every BUILD-language file of the repo, grammar fragments, byte-level mutations, strings over an adversarial alphabet, a near-valid program generator, and exhaustively all 1-byte inputs, all pairs over 47 bytes, all strings of length <= 3 (4 in thorough) over 15 core bytes",
        "modelled, not verified: Model/AspLex.lean and Model/AspParse.lean transcribe lexer.go / grammar_parse.go; loops of the parser are recursive calls on fuel",
    ],
    "assumptions": [
        "Go's utf8.DecodeRune and unicode.IsLetter/IsDigit behave as transcribed (tables regenerated from the toolchain on every run)",
        "the Go runtime's stack limit is outside the model: depth is checked only by the stress oracle (child process)",
        "hang oracle: > 2 s on inputs up to 64 KiB; the quadratic string concatenation of concatStrings on megabyte inputs is not counted as a hang",
    ],
}

MUTATIONS = """
Dry-runs on a scratch copy (VERIF_REPO=/var/tmp/c19dev ./check C19 quick, findings_inbox/C19.jsonl loaded):
 M1  lexer.go newLexer: append(b, 0, 0) -> append(b, 0)                      RED  failing inputs `lex 0a`, `parse 2830`
     (runtime error index out of range on the Next() after EOF; also C19_facts_ok breaks: sentinels = 1)
 M2  grammar_parse.go:505 p.fail(tok, "Unexpected token…") -> panic("…")     RED  failing input `parse 21`: the string
     panic escapes `err = r.(error)` (class parse-panic-escaped-recovery); also grammarPanics fact
 M3  lexer.go consumeString `case 0:` -> `case 1:`                            RED  failing input `lex 225c` (unterminated
     string runs off the buffer: index out of range [5] with length 5)
 M5  lexer.go pop loop `> l.indent` -> `>= l.indent`                          RED  failing input `lex 0a203d` (index out of range [-1])
 M10 grammar_parse.go parseFString s := tok.Value[2:len-1] -> [2:len-2]       RED  failing input `parse 662222` (f"" : slice bounds out of range)
 M6  lexer.go AssignFollows l.bytes[l.pos+1] -> l.bytes[l.pos+2]              RED  no failing input exists (two sentinels still
     cover it): C19_facts_ok (maxLookahead) and the correspondence (`parse f(a==1)`) break -> no-failing-input-found
 M4  lexer.go: "Unexpected indent" check disabled                              RED  correspondence broken (104 token streams differ),
     property itself still holds -> no-failing-input-found
 M11 grammar_parse.go parseReturn: an extra p.l.Next() after p.next(EOL)       RED  no crash reachable (the parser still stops at the next EOF):
     C19_facts_ok (parserCalls) and the correspondence break -> no-failing-input-found
 M12 harmless: parseCall's local `names` -> `seen`, parseStatement's `tok` -> `first`   GREEN (exit 0)
 R1  fix 3f38189 reverted (concatStrings indexes Vars[0] again)                RED  C19_facts_ok / C19_concat_guard_ok break, the fixed-* corpus
     witnesses fail again (54 oracle failures of class concat-string-bare-fstring: a VIOLATION with failing input once the class is listed as fixed)
 R2  fix e24fab1 reverted (nextToken recursive again)                           RED  C19_facts_ok (nextTokenShape, clause summaries) breaks,
     corpus fixed-lexer-recursion-stack-overflow.ops crashes the child again (stack overflow)
 M13 grammar_parse.go:433 the `len(rhs.FString.Vars) == 0` guard of the both-f-string branch removed   RED  failing inputs
     (`f(name = "x" f"y" f"z")`, …: index out of range [0]); the model follows the concatGuardsBothFString fact (0 disagreements), C19_facts_ok breaks
 M7  harmless: local `next` renamed to `ch` throughout nextToken, `l.line++` / `l.col = 0` swapped   GREEN (exit 0, 0 disagreements)
"""
