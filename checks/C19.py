CLAIMED = False
SPEC = {
    "id": "C19",
    "props": "PlzVerif/Props/C19.lean",
    "extract": ["c19"],
    "harness": "c19",
    "driver": "Driver/C19.lean",
    "needs_plz": False,
    "level": "proof",
    "level_text": "lexer: full (total, in bounds, errors positioned, for every byte string); parser: model of the grammar core",
    "technique": "Lean proof over a byte-level lexer model + differential token streams + direct outcome oracle",
    "trusted": [
        "go/ast extractor harness/extract/c19 (sentinels, look-ahead offsets, switch classes and clause summaries, panic sites, recovery shape, unicode tables)",
        "correspondence harness/cmd/c19 vs Driver/C19.lean (token streams and parse outcomes; repo files, fragments, byte mutations, near-valid programs, exhaustive short strings)",
        "modelled, not verified: Model/AspLex.lean transcribes lexer.go; l.line/l.col (write-only) are left out",
    ],
    "assumptions": [
        "Go's utf8.DecodeRune and unicode.IsLetter/IsDigit behave as transcribed (tables regenerated from the toolchain)",
        "the Go runtime's stack limit is not part of the model: recursion depth is checked only by the stress oracle",
    ],
}
