CLAIMED = True
SPEC = {
    "id": "C35",
    "props": "PlzVerif/Props/C35.lean",
    "extract": ["c35", "c01"],   # c01: moveOutputKeepsOldOnEqualHash feeds genS.keepOld
    "harness": "c35",
    "driver": "Driver/C35.lean",
    "needs_plz": True,
    "level": "proof",
    "level_text": "Decision logic, all declared lists / output shapes, digests abstract: C35_exact (exact accepted set), C35_iff / C35_iff_checkers "
                  "(⇔ the property's condition `∃ algo ∈ hashfunction::hashcheckers, ∃ d declared, unprefix d = hex(outputHash_algo outs)` for every "
                  "target whose output is not one lone directory), C35_sound (the `only if` for every shape), C35_single_dir, C35_prefixed / "
                  "C35_unprefixed_verbatim / C35_hashes_untouched / C35_alias_idempotent / C35_nonhex_rejected / C35_wrong_length_rejected "
                  "(several colons, blanks, upper case, lengths). Step order: C35_no_trusted_leftover (failed verification ⇒ no output, "
                  "needsBuilding true for every definition, cache untouched; keep-old included), C35_success_verified, C35_filegroup_verified, "
                  "C35_main / C35_property (over ALL histories of builds with any definitions under any configurations — the key covers the "
                  "checkers: C35_key_covers_checkers —, arbitrary poisoned/stale cache contents and removals, a successful build ends with outputs "
                  "whose digest under the current hash function or a currently configured checker is declared). The two failures found on the "
                  "pinned tree are FIXED in /repo (filegroup check inside `if changed`: 2c4e62b; hashcheckers outside every hash: 477defb); their "
                  "witnesses are kept as theorems about the old fact values and as fixed-*.ops corpus files whose oracle must pass. Recorded "
                  "corners that are not property failures: C35_corner_{hashfunction_outside_checkers,single_dir,stale_memo,stale_memo_dir,"
                  "noverify}. Out of model: remote execution, post-build functions / output_dirs, remote_file downloads, http cache, crashes "
                  "between restore and verification, path-hash collisions (C09), `plz hash --update`.",
    "technique": "Lean 4 theorems over a facts-instantiated model of the check and of the buildTarget step order + regenerated facts + "
                 "in-process differential correspondence of checkRuleHashes/UnprefixedHashes + end-to-end histories on the real plz binary "
                 "with an independent Go spec as direct oracle",
    "trusted": [
        "go/ast extractor harness/extract/c35 (UnprefixedHashes shape and aliasing, first comparison, combine expression, length filter "
        "operator/multiplier/Size() operand, comparison, discarded hashing error, name guard, forced recalculation, single-file condition, "
        "memoisation, order of calls in calculateAndCheckRuleHash / buildTarget / retrieveArtifacts, VerifyHashes gate, RemoveOutputs on "
        "failure, where checkers and hash function come from, defaults, config-hash and rule-hash coverage)",
        "correspondence harness/cmd/c35 vs Driver/C35.lean: (i) core.BuildTarget.UnprefixedHashes in-process, exhaustive over an adversarial "
        "alphabet + random Unicode blanks; (ii) build.checkRuleHashes in-process through the verif hook on real files, all six algorithms, "
        "any checker set, verdict + error-message lists + aliased target.Hashes compared; (iii) generated end-to-end histories through the "
        "real plz binary (exit status, action ran, plz-out contents, stamp xattr, cache entries after every build)",
        "digest tables fed to the model are computed by the harness from the bytes it wrote (crypto/sha1, sha256, zeebo/blake3, "
        "cespare/xxhash, hash/crc32, crc64), independently of please; digests idealised: the theorems use only equality of hex strings, "
        "LenLaw (hex length = 2*Size) and lower-case hex",
        "modelled, not verified: Model/HashCheck.lean transcribes UnprefixedHashes, checkRuleHashes(OfType), outputHash, "
        "calculateAndCheckRuleHash, the local buildTarget path, retrieveArtifacts, Build's error path, the filegroup branch; "
        "a target's outputs are one content value with one stamp (per-output stamps agree after every completed build)",
        "direct oracles (Go spec on the files found in plz-out): success ⇒ some declared value is a digest of the outputs; failure ⇒ no "
        "output left, no new cache entry; declared-and-correct ⇒ not rejected",
    ],
    "assumptions": ["state.VerifyHashes is on (no --nohash_verification) and the build is not `plz hash --update`",
                    "declared values are valid UTF-8 (strings.TrimSpace modelled on code points)",
                    "the rule hash determines the declared hashes and the cache key determines the rule (C08 / C02 idealisation)",
                    "scratch filesystem supports user xattrs"],
    "harness_timeout": 3000,
}
MUTATIONS = """
Dry-runs on a scratch copy (VERIF_REPO=/var/tmp/mC35 ./check C35 quick, known findings loaded); every mutation also changes a
regenerated fact (facts-only sensitivity checked for m1-m11), so C35_facts_ok / genX_eq stop checking in each case.
m1  checkRuleHashesOfType: `len(h) == hasher.Size()*2` -> `== hasher.Size()`            exit 1: VIOLATION correct-hash-rejected (failing input:
    corpus corner-cases, rebuild after a rejected restore), 20/25 obligations, correspondence agrees (model follows lenMult=1)
m2  calculateAndCheckRuleHash: VerifyHashes gate no longer returns the error            exit 1: VIOLATION wrong-hash-accepted (+ output-left…),
    34 disagreements, 92 oracle failures
m3  retrieveArtifacts: verification error only logged (no RemoveOutputs / return false)  exit 1: VIOLATION wrong-hash-accepted (poisoned restore
    accepted; failing input from corpus corner-cases), 6 disagreements
m4  UnprefixedHashes: LastIndexByte -> IndexByte                                         exit 1: VIOLATION unprefix-differs-from-spec +
    correct-hash-rejected (`a:b:<v>` values), correspondence agrees (model follows lastColon=false)
m5  Build: RemoveOutputs on error dropped                                                exit 1: VIOLATION output-left-after-failed-verification
m6  checkRuleHashes first comparison: `h == hashStr` -> strings.EqualFold                exit 1: VIOLATION wrong-hash-accepted (upper-case value),
    24 disagreements
m7  buildTarget: storeInCache moved before calculateAndCheckRuleHash                     exit 1: VIOLATION failed-output-stored-in-cache, 25 disagreements
h1  harmless: locals renamed in UnprefixedHashes and checkRuleHashes, independent statements reordered   exit 0, facts identical
m13 ruleHash: the HashCheckers block removed again (= revert of fix 477defb)              exit 1: VIOLATION hashcheckers-change-not-reverified
    (failing input = corpus fixed-hashcheckers-…ops), 30/32 obligations (C35_facts_ok, C35_key_covers_checkers), correspondence agrees
m14 filegroup branch back to `if changed {check}` (= revert of fix 2c4e62b)               exit 1: VIOLATION filegroup-unchanged-skips-hash-check
    (8 oracle failures incl. corpus fixed-filegroup-…ops), 29/32 obligations, correspondence agrees
m12 (after /repo fix 656076b) UnprefixedHashes back to `hashes := target.Hashes[:]`: fact unprefixAliases=true, FactsOK false; the in-process
    oracle class unprefixed-hashes-rewrites-declared-list names the input (facts-only + oracle by construction, not dry-run end to end).
facts-only (extractor run on the mutated copy, FactsOK no longer true): m8 `combine := len(outputs) > 1`, m9 file names always written
    in outputHash, m10 writeRuleHash before checkRuleHashes, m11 TrimSpace dropped.
"""
