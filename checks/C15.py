CLAIMED = True
SPEC = {
    "id": "C15",
    "props": "PlzVerif/Props/C15.lean",
    "extract": ["c15"],
    "harness": "c15",
    "driver": "Driver/C15.lean",
    "needs_plz": False,
    "level": "proof",
    "level_text": (
        "Full: every history of the concurrent model (one atomic step per critical section of cmap.go, any number of "
        "threads/shards/interleavings, GetOrSet as a client of GetOrWait/Set/Get) is linearizable w.r.t. the sequential "
        "specification (forward simulation, linearization point = the critical section that returns); channel closed iff "
        "key added; no cross-key wake; waiters released exactly when their key is added; GetOrSet runs f at most once per "
        "key and returns a stored value. Partial: strong (single-instant) linearizability is proved for histories without "
        "Values; whole-map Values over several shards is a sequence of per-shard snapshots: a history of the model is proved NOT strongly linearizable (C15_witness_values_not_linearizable, known finding). "
        "Not modelled: the Go memory model below sync.RWMutex/close, panics inside f, Range (facts only)."),
    "technique": "Lean 4 forward simulation + inductive invariants over an interleaving Step relation; symbolic-execution facts; differential scripts; porcupine histories with Lean-checked certificates",
    "trusted": [
        "go/ast extractor harness/extract/c15: symbolic execution of shard.Set/LazySet/Get/Contains/Values/Range, Map.* and ErrMap.GetOrSet/Get into decision tables (roles, not names)",
        "correspondence harness/cmd/c15 vs Driver/C15.lean: deterministic multi-thread scripts (exhaustive to length 3/4 + random, with blocking and wake-ups), Go spec transcription vs Lean spec, real concurrent histories checked by porcupine v1.3.0 and their linearization certificates re-checked against the Lean specification",
        "modelled, not verified: Model/CMap.lean transcribes cmap.go and cerrmap.go; Go map as association list; channels as naturals; f() as a value",
        "idealisations: sync.RWMutex excludes (a critical section is one atomic step); close(ch) releases every receiver; schedules of the real code are sampled, not enumerated",
    ],
    "assumptions": [
        "the zero value of errV has a nil Err (c.isErr default = false)",
        "f passed to AddOrGet/GetOrSet returns and does not re-enter the same shard (LazySet calls f under the shard lock)",
        "Contains is specified as 'present or awaited' (DESIGN.md §5 reading decision; Lean witness C15_witness_contains_awaited)",
    ],
    "harness_timeout": 2400,
}

MUTATIONS = """
Dry-runs on a scratch copy (VERIF_REPO=/var/tmp/mC15a ./check C15 quick, known finding loaded), machine heavily loaded:
M1 shard.Set no longer closes existing.Wait            -> red: C15_facts_ok broken + lost-wakeup, seq-add/wait/chk, gos-stuck
                                                           (witness: eseq 4 0:get:3;1:gos:3:5:0;0:set:3:9;0:gos:3:1:0)
M2 shard.Get slow path without the re-check            -> red: facts + hist-not-linearizable on real concurrent histories
                                                           (47-159 hits per run over 3 seeds), channel-not-unique, values-weak-guarantee
M3 Add overwrites (dropped `if !overwrite return`)     -> red: facts + seq-add (seq 2 0:set:1:1;0:add:1:2;...) + hist-not-linearizable
M4 Values keeps placeholders (dropped Wait==nil filter)-> red: facts + seq-vals (seq 1 0:add:0:1;0:get:1;0:vals) + values-weak-guarantee
M5 GetOrSet forgets m.m.Set after f()                  -> red: facts + gos-stuck (gosrace ...), lost-wakeup, limiter-unbalanced, seq-gos
M6 shard.Set takes RLock instead of Lock               -> red: C15_facts_ok broken; the harness dies of Go's "concurrent map writes"
                                                           (correspondence-broken, no failing input: the runtime aborts the process)
M8 fast path returns first = (Wait != nil)             -> red: facts + early-wake, gos-f-not-once, gos-results-differ, hist-not-linearizable
M9 GetOrSet `else if first || wait == nil`             -> facts unreadable (compound condition) -> thorough correspondence; red:
                                                           gos-f-not-once, gos-results-differ, seq-gos
S1 seeded by the coordinator: LazySet looks up under RLock, then writes under Lock without re-checking -> facts unreadable
   (compound condition) -> thorough correspondence; red with concrete histories: map-operation-panicked (double close:
   hist 4 0:1:3:get:0:0;2:2:10:aog:0:301:panic;3:4:7:aog:0:401:401,t;...) and hist-not-linearizable (103 oracle failures);
   the harness recovers panicking map operations inside its goroutines and records them as observations
M10 Get fast path: RUnlock moved above the lookup (extractor only) -> getRows lock/access order differs
   (["RLock","RUnlock","access"]), C15_facts_ok and C15_accesses_under_lock's premise break
H1 harmless: Set rewritten with early returns, `cur, found :=`, close before store, if/else-if -> green, facts regenerated identical
"""
