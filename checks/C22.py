CLAIMED = True
SPEC = {
    "id": "C22",
    "props": "PlzVerif/Props/C22.lean",
    "extract": ["c22"],
    "harness": "c22",
    "driver": "Driver/C22.lean",
    "needs_plz": False,
    "level": "proof",
    "level_text": (
        "FULL. After the two fix: commits (9c9279b blacklist by whole path components, 9274bd1 SkipDir for directories only) "
        "C22_exact proves, for all trees, configurations, start directories and listing orders (unbounded, mutual structural "
        "induction), that FindAllBuildFiles(config, dir, \"\") yields exactly the specified list: the BUILD files of the "
        "directories under dir that are not plz-out, hidden, experimental or blacklisted by whole components -- same "
        "elements, same order; C22_exact_set (order-independent as a set), C22_sound (any prefix argument), "
        "C22_component_test, C22_spec_declarative (the recursive specification = the declarative statement). On record as "
        "theorems about the old structure Facts.canon: C22_old_witness_blacklist_string_prefix, "
        "C22_old_witness_nondir_skipdir_cuts_siblings, C22_witnesses_if_old_callback, C22_old_structure_refuted. "
        "Model: FindAllBuildFiles' callback interpreted from formulas regenerated from the source + godirwalk's sorted "
        "walk, symlink handling and SkipDir rules. Not modelled: label construction in findOriginalTask, subrepos, "
        "query/completions.go's separate walker, I/O errors and dangling symlinks (log.Fatalf), a non-directory root."),
    "technique": "Lean 4 theorems over an executable model of the walk + decision formulas regenerated from go/ast + differential correspondence on real directory trees",
    "trusted": [
        "go/ast extractor harness/extract/c22: if/else-if chain and blacklist condition of FindAllBuildFiles' callback as boolean formulas over 12 atoms (identifiers resolved by role), core.OutDir, godirwalk options set by fs.WalkMode, godirwalk version and its `!isDir -> break` rule read from the module cache, prefix argument of findOriginalTask",
        "correspondence harness/cmd/c22 vs Driver/C22.lean: plz.FindAllBuildFiles run in-process on trees created under $VERIF_SCRATCH (exhaustive family of 4608 shapes x blacklist/experimental configurations + seeded random trees with prefix-sharing names, symlinks, hidden and plz-out entries, sub-directory roots, non-empty prefix), outputs compared in order",
        "direct oracle: independent component-wise reference walker in Go (set comparison), failures classified by which of the two known deviations reproduces the output; anything else is class `unexplained`",
        "modelled, not verified: Model/Walk.lean (callback evaluation, godirwalk walk: sorted children, symlinks not followed, SkipDir semantics); atom semantics (valOf) are hand-written",
        "idealisation: path strings are compared by code point in the model and by byte in Go; identical on valid UTF-8, which the generator guarantees",
    ],
    "assumptions": [
        "entry names and configuration strings are valid UTF-8; the walk root is a clean relative path naming a directory",
        "theorems with cfgOK: prefix argument is \"\" (what findOriginalTask passes) and `plz-out` is not configured as a BUILD file name",
        "no I/O errors and no dangling symlink that would receive SkipDir (FindAllBuildFiles log.Fatalf's)",
    ],
}

MUTATIONS = """
Round-2 seed /tmp/seedout2/C22/patch.diff (BUILD file test `mode.IsRegular()`): exit 1 -- extractor: walk callback shape unreadable,
 Expected facts + thorough correspondence: 21 disagreements, oracle VIOLATION unexplained with input
 `a/BUILD -> symlink to a file, b/BUILD regular`: FindAllBuildFiles=["b/BUILD"] specified=["a/BUILD" "b/BUILD"].
 The generator now makes 14% of BUILD entries symlinks to a regular file (plus the exhaustive family and a corpus regression);
 the model yields a BUILD-named entry of ANY non-directory kind (regular file, symlink to a file or to a directory).

After the fix commits (facts must be propositionally equivalent to Facts.repaired):
 R1 re-introduce `strings.HasPrefix(name, dir)` in the blacklist loop     -> exit 1: C22_facts_ok fails (blCond no longer equivalent
    to Facts.repaired), oracle VIOLATION blacklist-string-prefix with input `blacklist out, output/BUILD` (class no longer known)
Before the fix commits:
Dry-runs on a scratch copy (VERIF_REPO=/var/tmp/mC22 ./check C22 quick), findings loaded from findings_inbox/C22.jsonl:
 M1 plz.go:252  drop `isDir &&` from the hidden test            -> exit 1, C22_facts_ok fails, VIOLATION class unexplained,
                                                                   input: hidden FILE .hid first in the root, BUILD.plz lost
 M2 plz.go:263  `dir == basename` -> `dir == name`               -> exit 1, facts + oracle: blacklist `ab` no longer hides a/ab/
 M3 plz.go:258  experimental branch removed                      -> exit 1, facts + oracle: ab/BUILD yielded although ab experimental
 M4 plz.go:252  `basename == core.OutDir` -> `name == core.OutDir` -> facts unreadable (unknown atom) -> Expected facts + thorough
                                                                   correspondence: 20 disagreements, oracle finds nested plz-out walked, exit 1
 M6 fs/walk.go  godirwalk.Options{Unsorted: true, ...}           -> exit 1, facts (sorted=false) + 25 order disagreements
 M7 harmless: callback params/locals renamed, operands reordered, De Morgan on the prefix test, range variable renamed
                                                                 -> exit 0, facts regenerated as different formulas, FactsOK decides equivalence
 M8 fix sketch A applied (`name == dir || HasPrefix(name, dir+"/")`) -> exit 0, model switches to the component test (blTest),
                                                                   combined class no longer reproduced
"""
