CLAIMED = True
SPEC = {
    "id": "C33",
    "props": "PlzVerif/Props/C33.lean",
    "extract": ["c20", "c33"],
    "harness": "c33",
    "driver": "Driver/C33.lean",
    "needs_plz": False,
    "level": "proof",
    "level_text": (
        "Declared restriction (buildRule/defaultFromConfig/populateTarget): C33_declared_visibility_exact and "
        "C33_declared_testonly_exact (an explicit argument — the empty list and False included — is the target's "
        "restriction; only omitted/None takes the package default, else the config default), composed with the visibility "
        "theorems in C33_explicit_declaration_decides; witness C33_witness_falsy_counts_as_unset for the truthiness variant. "
        "C33_cansee_characterisation (exactly what CanSee computes), C33_visible_complete and C33_complete "
        "(nothing the documented rules allow is ever refused; unconditional), C33_visible_exact_partial and "
        "C33_exact_partial (CheckDependencyVisibility returns nil iff every declared dependency is visible and "
        "respects test_only — for all dependency lists whose labels live in one repository), C33_test_only_exact "
        "(all repositories), C33_first_error (the error names the first offending dependency and its kind). "
        "Across repositories the check is too permissive in two places; both have Lean witnesses and are listed "
        "as known findings. Visibility patterns are component-wise by C20's Includes theorems. Not modelled: how "
        "visibility lists are parsed from BUILD files (asp), provide/require resolution of declared dependencies, "
        "the build step that calls the check; no end-to-end plz run."),
    "technique": "Lean 4 theorems over an executable transcription + regenerated facts + differential correspondence with an independent Go reference",
    "trusted": [
        "go/ast extractors harness/extract/c33 (sequence of tests and outcomes of CanSee and CheckDependencyVisibility with identifiers replaced by roles) and harness/extract/c20 (label facts)",
        "correspondence harness/cmd/c33 vs Driver/C33.lean: all small (source package, dependency package, visibility pattern, experimental dir, subrepo) combinations, random package trees with sibling-prefix packages, hidden sub-targets, PUBLIC, subrepos, test_only/test flags, dependency lists",
        "modelled, not verified: Model/Visibility.lean transcribes CanSee and CheckDependencyVisibility over Model/Label.lean",
        "op `bv`: a BUILD file (package(default_visibility/default_testonly) + one build_rule with omitted / None / [] / False / value arguments) is evaluated by the real parser and interpreter (hook asp.EvalForVerif of C16), target.Visibility / TestOnly read back, then the real CanSee / CheckDependencyVisibility for a plain dependent; all 1440 combinations exhaustively",
        "extractor also reads defaultFromConfig's not-set test, which buildRule arguments go through it, the config defaults and populateTarget's visibility condition",
        "hook: none for C33 itself (CanSee and CheckDependencyVisibility are exported; experimental dirs enter through NewBuildState)",
    ],
    "assumptions": [
        "declared dependencies are distinct labels different from the target itself (AddDependency de-duplicates and dies on a self-dependency)",
        "`Experimental` applies to the top-level repository only, as documented",
    ],
    "explanation": "Known findings (2 classes, subrepo-blind comparisons) are expected on the pinned tree; see findings_inbox/C33.jsonl.",
}

MUTATIONS = """
Round-3 seed (defaultFromConfig: `arg == nil || arg == None` -> `arg == nil || !arg.IsTruthy()`): VERIF_REPO=/tmp/confirm/C33 ./check C33 quick
                     exit 1: fact defaultUnsetTest flips (C33_facts_ok, C33_explicit_declaration_decides not discharged, 15/17), the model
                     follows the fact (0 disagreements), oracle VIOLATION explicit-visibility-replaced-by-package-default
                     `bv P _ E _ 617070` (package(default_visibility=["PUBLIC"]); build_rule(..., visibility=[]); dependent //app:x is
                     admitted) and explicit-testonly-replaced-by-package-default `bv _ T _ F 617070`.  Missed before the `bv` op existed
                     (the check built targets through the Go API only).
Dry-runs on scratch copies (VERIF_REPO=/var/tmp/mC33_<name> ./check C33 quick, inbox findings loaded):
 vis_no_parent       CanSee: vis.Includes(parent) -> vis.Includes(label) (hidden sub-targets no longer act as their parent)
                     exit 1: fact canSeeSteps changed (11/12), 21 disagreements, oracle: visibility-too-strict with a concrete `cs` line
 exp_ban_dropped     CanSee: `dep experimental && !label experimental` -> `&& label experimental`
                     exit 1: facts changed, 21 disagreements, oracle: visibility-deviates (outside target sees experimental one), visibility-too-strict
 testonly_skip       CheckDependencyVisibility: `!target.TestOnly` -> `target.TestOnly`
                     exit 1: fact checkSteps changed, 22 disagreements, oracle: check-deviates with a concrete `cd` line
 exp_exempt_dropped  CanSee: experimental exemption disabled (`if false && label.isExperimental(state)`)
                     exit 1: facts changed, 22 disagreements, oracle: visibility-too-strict
 harmless33          renamed the locals `parent`->`owner`, `vis`->`entry` in CanSee          exit 0, 12/12, 0 disagreements
"""
