CLAIMED = True
SPEC = {
    "id": "C13",
    "props": "PlzVerif/Props/C13.lean",
    "extract": ["c13"],
    "harness": "c13",
    "driver": "Driver/C13.lean",
    "needs_plz": False,
    "level": "proof",
    "level_text": "Theorems over an entry-stream model of httpCache/cmdCache Store and Retrieve: every retrieve-side fault (transport "
                  "cut, short entry, failing retrieve command, nothing stored) is a miss (full); fault-free round trip (full); store "
                  "side PARTIAL: the HTTP store commits after a read error - a miss later only when a short body was written "
                  "(C13_http_partial), a HIT lacking the file when the output had vanished (C13_http_witness), and the full statement "
                  "if the error were passed to the request (C13_http_if_error_propagates); the command store leaves a boundary-cut "
                  "archive with `cat > $KEY` (C13_cmd_witness) and, for a commit-on-success command, nothing only if the asynchronous "
                  "kill beats the pipe's close (C13_cmd_atomic_if_kill_wins / C13_cmd_atomic_race_witness).  All three store-side "
                  "failures were observed on the real code.  Not modelled: gzip/tar bytes, HTTP retries, the server (assumed to commit "
                  "exactly the requests whose body ended without error), partial restores left in plz-out by a missed retrieve.",
    "technique": "Lean 4 theorems over a stream model + regenerated facts + differential correspondence through cache.NewCache (Workers=0) against a loopback HTTP server and sh -c commands, read faults by vanished / mode-000 outputs (Store re-executed as uid nobody when the harness is root), transport faults by dropped connections",
    "trusted": [
        "go/ast extractor harness/extract/c13 (what each writer does on a walk error, deferred closes, Lstat/header/Open/copy order in storeFile, readTar and retrieve error handling, exit-status conjunction in cmdCache.Retrieve)",
        "correspondence harness/cmd/c13 vs Driver/C13.lean: commit yes/no and the later Retrieve's result; for the command cache the state the store command left is MEASURED (entries, cut or not) and handed to the model, which also checks it is a state it allows",
        "the loopback server's commit rule; archive/tar: end-of-input at an entry boundary is the end of the archive (observed, and a regenerated fact of readTar), a short body is an error",
        "modelled, not verified: Model/RemoteCache.lean",
    ],
    "assumptions": [
        "a vanished path is an error only for an output itself; inside a directory output a missing name is simply not walked (observed)",
        "the HTTP server commits exactly the PUTs whose body ended without error",
    ],
    "harness_timeout": 3000,
}

MUTATIONS = """
(filled in after the dry-runs)
"""
