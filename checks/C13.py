CLAIMED = True
SPEC = {
    "id": "C13",
    "props": "PlzVerif/Props/C13.lean",
    "extract": ["c13"],
    "harness": "c13",
    "driver": "Driver/C13.lean",
    "needs_plz": False,
    "level": "proof",
    "level_text": "Theorems over an entry-stream model of httpCache/cmdCache Store and Retrieve.  RETRIEVE side: every fault (transport cut, "
                  "short entry, failing retrieve command, nothing stored, and - command cache only - a stream without tar's end marker) is a "
                  "miss; these are how the model's retrieve functions are DEFINED, so the theorems are one-liners and the weight is on the tie: "
                  "one regenerated fact per return statement of readTar, the 404/non-200 arms, the exit-status conjunction, the fact that "
                  "cmdCache.Retrieve's input never ends cleanly, and correspondence runs with the body cut at 2/5/30/60 %.  Fault-free round trip "
                  "(full, by induction over the writer).  STORE side: ALL THREE FINDINGS ARE FIXED in /repo (7cc82ab: the HTTP writer fails "
                  "the request on a read error; 43938ff: the command cache's writer no longer writes tar's end marker after bailing "
                  "out) and the full-strength statements hold: C13_http_store_read_fault and C13_cmd_store_read_fault (every store "
                  "command, every amount taken in, every outcome of the kill race).  The old witnesses are kept conditional on the old "
                  "fact values.  History of the store side before the fixes: the HTTP store commits after a read error - a miss later only when "
                  "a short body was written (C13_http_partial, via a writer invariant), a HIT lacking files when the output had vanished or a "
                  "zero-length file was unreadable (two witnesses), and the full statement if the error were passed to the request "
                  "(C13_http_if_error_propagates).  Command store: after a read fault write() cancels AND finishes the archive, so `cat > $KEY` "
                  "keeps a well-formed archive that stops at the failed output (C13_cmd_witness) and a commit-on-success command commits it when "
                  "the asynchronous kill loses (C13_cmd_atomic_race_witness; nothing if it wins); every other leftover - a prefix cut anywhere, "
                  "what a store command that failed by itself wrote - is a miss (C13_cmd_naive_cut_is_miss, C13_cmd_command_failure).  Both "
                  "deterministic store-side failures and, three times under load, the race were observed on the real code.  Not modelled: "
                  "gzip/tar bytes, HTTP retries, the server (assumed to commit exactly the requests whose body ended without error), partial "
                  "restores left in plz-out by a missed retrieve.",
    "technique": "Lean 4 theorems over a stream model + regenerated facts + differential correspondence through cache.NewCache (Workers=0) against a loopback HTTP server and sh -c commands, read faults by vanished / mode-000 outputs (Store re-executed as uid nobody when the harness is root), transport faults by dropped connections",
    "trusted": [
        "go/ast extractor harness/extract/c13 (what each writer does on a walk error, deferred closes, Lstat/header/Open/copy order in storeFile, readTar and retrieve error handling, exit-status conjunction in cmdCache.Retrieve)",
        "correspondence harness/cmd/c13 vs Driver/C13.lean: commit yes/no and the later Retrieve's result; for the command cache the state the store command left is MEASURED block by block (entries, last one cut or not, end marker or not) and handed to the model, which also checks it is a state it allows",
        "the loopback server's commit rule; archive/tar: a real end-of-input at an entry boundary is the end of the archive (HTTP path), a short body is an error; the command cache's pipe never delivers a real end-of-input (regenerated fact), so there only the end marker ends an archive",
        "modelled, not verified: Model/RemoteCache.lean",
    ],
    "assumptions": [
        "a vanished path is an error only for an output itself; inside a directory output a missing name is simply not walked (observed)",
        "the HTTP server commits exactly the PUTs whose body ended without error",
    ],
    "harness_timeout": 3000,
}

MUTATIONS = """
Dry-runs on scratch copies (VERIF_REPO=/var/tmp/mC13<k> ./check C13 quick, findings inbox loaded), all compile.
This property's machinery was corrected several times BY its dry-runs and probes; the history is kept because it says
what each piece is for.

A  readTar: the non-EOF error arm after tr.Next() returns `true, err`
   -> first attempt caught only by the facts (`no-failing-input-found`): every cut-body case errored in the io.Copy arm
   (tar headers compress so well that a 60 % cut always lands inside a body) and one lumped fact covered all arms.
   Repaired: one fact per return statement of readTar, cuts at 2/5/30/60 %, store commands that fail by themselves.
   -> re-run: exit 1, 17/18, 14 disagreements, failing input class cmd-naive-store-keeps-partial-archive-after-command-failure
   (a leftover without end marker becomes a hit).
B  cmdCache.Retrieve: `return tarOk` (exit status of the retrieve command ignored)
   -> exit 1, 17/18, 11 disagreements, failing input class hit-after-retrieve-command-failure.
C  storeFile: os.Open before tw.WriteHeader (an unreadable file then leaves no header)
   -> exit 1, 17/18, 25 disagreements, failing input class http-hit-despite-short-body.  (That class exists because the first
   class boundary, "hit after an unreadable output", was wrong: on the pinned tree an unreadable ZERO-LENGTH file gives a
   complete entry, the rest of its directory is dropped and the archive commits - same root cause as a vanished output.)
D  cmd write(): the `cancel()` before `return` deleted
   -> first attempt caught only by the facts: the deterministic commit hid under the known RACE class.  Repaired: a run-level
   rate oracle (a commit-on-success command committed after MORE THAN HALF of >= 10 read faults).
   -> re-run: exit 1, 17/18, failing input class cmd-store-not-cancelled-after-read-error.
E  the FIX: httpCache.write takes *io.PipeWriter and on a walk error does w.CloseWithError(err); return
   -> exit 1 by design (16/18): C13_http_witness and C13_http_witness_empty_unreadable are stated on the generated facts and stop
   holding; oracle: class http-store-commits-after-read-error NOT reproduced, no new class, 0 disagreements - the model follows
   the fix through the facts (httpPropagates).  Restating the witnesses as conditional belongs to the fix phase.
F  harmless: httpCache.write's locals renamed (gzw, out, outDir)
   -> first attempt RED (a false alarm): the fact httpDeferred, added the same day, compared `gzw.Close` by NAME.
   Repaired: deferred closes are listed by the role of what is closed (pipe / gzip / tar).  -> re-run: exit 0, 18/18, 0 disagreements.
S  seeded change /tmp/seedout/C13/patch.diff: cmdCache.Retrieve's waiter closes the WRITE end of the pipe instead of the read end
   -> exit 1, 17/18 (fact cmdRetrieveInputNeverEndsCleanly flips), 9 disagreements, failing input class
   cmd-naive-store-keeps-partial-archive-after-command-failure: a stream cut at an entry boundary now ends cleanly and is a HIT.

Model corrections forced by the real code (each found by running a predicted case before claiming it):
  * a vanished name inside a DIRECTORY output is not a fault (the walk never lists it): `v` only as an output itself;
  * a commit-on-success store command does commit after a read fault now and then (the kill is asynchronous): the assumption
    "the kill wins" became the hypothesis of C13_cmd_atomic_if_kill_wins, with a witness for the other branch;
  * the command cache's reader NEEDS tar's end marker (its pipe never delivers end-of-input; Retrieve closes the read end):
    a boundary cut is a miss there - a finding I had written down for failing store commands did not exist and was withdrawn;
  * the store state is measured block by block (PAX records of non-ASCII names broke the first measurement).

FIX PHASE.  /repo 7cc82ab (HTTP writer: w.CloseWithError(err); return) and 43938ff (command cache writer: no tw.Close() after bailing
out) repair all three findings; on /repo now: exit 0, 22/22, 263 cases, 0 disagreements, oracle_fail = 0.  Re-introductions (git revert
on scratch copies): 7cc82ab -> exit 1, VIOLATION class http-store-commits-after-read-error, 21/22; 43938ff -> exit 1, VIOLATION class
cmd-naive-store-keeps-partial-archive-after-read-error, 20/22.  Thorough: exit 0, 18/18 at the time, 899 cases, 0 disagreements, 6 min 46 s.

Unchanged tree before the fix phase: exit 0, 18/18, 263 cases, 0 disagreements, oracle failures only in the listed classes; the race finding is
`NOT reproduced` on most runs.  Quick wall 214 s .. 1678 s for 3-4 CPU-min (shared lake lock; load average 40-150 on 16 cores).
Quiet machine (load < 30), after the fix phase: quick 24 s warm / 2.5 min with cold builds; thorough (899 cases) 2 min.
"""
