CLAIMED = True
SPEC = {
    "id": "C24",
    "props": "PlzVerif/Props/C24.lean",
    "extract": ["c24", "c23"],
    "harness": "c24",
    "driver": "Driver/C24.lean",
    "needs_plz": False,
    "level": "proof",
    "level_text": "partial: proved for every graph, package layout and file set — a target that consumes a changed file as a source, as "
                  "data or (since the fix: commit 8e86b2b) as a local file tool, in the closest package above the file, is marked changed "
                  "(ownership lemma), and with an unlimited level everything affected (consumers, targets diffGraphs found changed, and all "
                  "their transitive dependents) is reported. Not covered by the theorem and VIOLATED by the code (direct oracle): "
                  "definition changes that collide in the unframed rule hash of C08 (changed0 is an input of the model). Paths are modelled as component lists of clean "
                  "relative paths; RuleHash, scm and BUILD evaluation are not modelled (changed0 is an input of the model)",
    "technique": "Lean 4 proofs (closest-package walk finds the consumer's package; BFS closure of FindRevdeps without a limit) over a "
                 "transcription of changedTargets/HasSource + regenerated facts + differential correspondence with an independent oracle",
    "trusted": [
        "go/ast extractors harness/extract/c24 (changedTargets, Changes, HasSource, HasAbsoluteSource, diffGraphs, targetChanged, sourceHash, statement by statement) and harness/extract/c23 (FindRevdeps bookkeeping)",
        "correspondence harness/cmd/c24 vs Driver/C24.lean: exact label set of query.Changes / query.DiffGraphs under --include/--exclude configurations (incl. the `--exclude manual` the CLI always adds; planted cases where the directly changed target is hidden and its dependants are not) on random package trees (nested packages, directories without "
        "BUILD files, root package), directory sources, data files, label sources, file tools, levels 0/N/unlimited, before/after graphs with single-attribute edits",
        "modelled, not verified: Model/Changes.lean (changedTargets, HasAbsoluteSource) and Model/Query.lean (FindRevdeps)",
        "direct oracle: independent closest-package / consumption / reverse-closure computation in the harness, with class predicates for the known (C08 rule hash) and the repaired (file tool) root causes",
    ],
    "assumptions": [
        "file names, package names and source strings are clean relative paths (no empty components, no ./ or trailing /)",
        "a target only consumes files whose closest enclosing package is its own (plz rejects sources that cross a package boundary)",
        "include/exclude label filters are modelled (exact labels, every entry a conjunction); label patterns ending in *, the pseudo-label `test`, ExcludeTargets and subrepos are not; packages that subinclude a changed build_defs target are not followed (FindRevdeps is called with followSubincludes=false)",
        "FileLabel tools exist only in graphs built in-process: BUILD files turn a file given as a tool into a SystemPathLabel (parseSource), so the repaired finding changes-file-tool-not-a-source concerns states that the API, not the BUILD language, can produce",
    ],
    "explanation": "C24_ownership and C24_superset hold for all inputs, file tools included; the repaired tool finding is replayed from corpus/C24/fixed-*.ops; the rule-hash finding is C08's and is planted as the first generated case of every run.",
}

MUTATIONS = """
Dry-runs on scratch copies of /repo; as for C23/C25 the steps of `./check C24 quick` were run one by one with private
output directories (shared lake lock saturated), the two known classes loaded.
 M2 changes.go: root package name not mapped (`pkgName == "?"`)       -> C24_facts_ok fails; 1607 disagreements; NEW classes
      changes-consumer-missed (2284), changes-dependent-missed (429): files of the root package have no owner
 M3 build_target.go HasSource ranges over AllSources() only            -> C24_facts_ok fails; 2531 disagreements; changes-consumer-missed (3069): data files
 M4 build_target.go HasSource without the `s+"/"` prefix rule          -> C24_facts_ok fails; 3256 disagreements; changes-consumer-missed (4484): directory sources
 M5 changes.go `if level > 0` (was != 0)                               -> C24_facts_ok fails; 1523 disagreements; changes-dependent-missed (2710): --level -1 stops following dependents
 M8 changes.go RuleHash(..., runtime=false)                            -> C24_facts_ok fails; model unaffected (changed0 is an input); NEW class
      changes-definition-change-missed (53): data / test-command edits are not detected
 M1 changes.go `break` after the closest package removed               -> C24_facts_ok fails; 2 disagreements (a farther package also claims the file);
      over-reporting is not a miss: exit 1 with proof-broken / correspondence-broken `no-failing-input-found`
 H1 harmless: locals renamed in changes.go (filename->fn, pkgName->pn, labels->lbls) -> facts identical, 0 disagreements, only the two known classes
Fix phase: changes-file-tool-not-a-source repaired in /repo (8e86b2b). Re-introducing it (`git revert -n`) on a scratch clone:
 class changes-file-tool-not-a-source again on corpus/C24/fixed-*.ops and 1333 generated inputs; 992 disagreements; C24_facts_ok fails.
changes-rulehash-unframed is C08's defect (src/build/incrementality.go) and is left to C08.
 S1 seeded change /tmp/seedout/C24/patch.diff: the labels of the directly changed targets are filtered with state.ShouldInclude BEFORE they
      are handed to FindRevdeps. Needed include/exclude configurations, which the generator did not have: targets now carry labels
      (manual/go/py), every query runs under a filter (none, `--exclude manual`, -i/-e combinations), `hiddenSeedCase` plants a hidden
      directly-changed target with visible dependants, the oracle also checks level N (not only -1) and that nothing filtered is reported.
      VERIF_REPO=<copy> ./check C24 quick -> exit 1, VIOLATION violation-changes-dependent-missed with
      `changes u a/x.go - a:gen,a:t1,a:t2 a 0,1,2 0:-;1:0;2:1 0:x.go;1:-;2:- 0:-;1:-;2:- 0:manual;1:go;2:go - manual`
      ("//a:t1 depends on a target that consumes a changed file but is not reported; exclude=[manual]"); fact seedsFiltered=true breaks
      C24_facts_ok; the model (changedTargets with the regenerated seedsFiltered) follows the mutant: 0 disagreements.
"""
