CLAIMED = True
SPEC = {
    "id": "C25",
    "props": "PlzVerif/Props/C25.lean",
    "extract": ["c25"],
    "harness": "c25",
    "driver": "Driver/C25.lean",
    "needs_plz": False,
    "level": "proof",
    "level_text": "full for the repaired code: no needed target is proposed for removal (C25_targets), nor the rule of a needed hidden "
                  "sub-target (C25_subtargets), and no file a needed target uses as source or data is proposed for deletion (C25_srcs), for "
                  "every graph, gc_sibling labels, tests of tests and all arguments; `Needed` is the least fixpoint of roots, dependencies and "
                  "'a test of a needed target'. The four defects of the pinned code were repaired with fix: commits (9dea07a, 0ef96ba, f5ccc0d, "
                  "031fda8). Theorems are about the transcription Model/GC.lean; the model's recursion bounds are proved unreachable "
                  "(C25_main_acyclic: unconditional on graphs that hold their dependencies and have no DECLARED-dependency cycle inside one rule — a rank function exists, ruleRank_of_acyclic; C06 checks resolved dependencies, so a declared edge that provide/require resolves away is an assumption here); subrepos, `//pkg/...` arguments, wildcard labels and the BUILD file rewriting are "
                  "not modelled",
    "technique": "Lean 4 DFS-closure invariant for addTarget lifted through every pass, fixpoint closure of the repeated test pass, completeness of publicDependencies + regenerated "
                 "facts + differential correspondence with an independent least-fixpoint oracle",
    "trusted": [
        "go/ast extractor harness/extract/c25 (passes of targetsToRemove in order, addTarget, publicDependencies, gcSibling, isIncluded; parameters by position, locals by declaration order)",
        "correspondence harness/cmd/c25 vs Driver/C25.lean: exact removal lists (targets and files) of gc.GarbageCollect in dry-run mode on random graphs with binaries, tests, "
        "test_only targets, hidden sub-targets, gc_sibling labels, shared source/data files, filters, named/command-line/subinclude roots, provide/require, and planted delicate shapes",
        "modelled, not verified: Model/GC.lean transcribes targetsToRemove, addTarget, publicDependencies, gcSibling, isIncluded",
        "direct oracle: independent least-fixpoint computation of the needed set in the harness, with class predicates for the four (repaired) root causes",
    ],
    "assumptions": [
        "exact labels only in filter / keep / command-line arguments (label wildcards are C20's subject); no subrepos",
        "the dependency graph is acyclic (C06): publicDependencies has no visited set and does not terminate on a cycle inside one rule",
    ],
    "explanation": "C25_targets, C25_subtargets, C25_srcs hold for all graphs; the shapes of the four repaired findings are replayed on the "
                   "real code from corpus/C25/fixed-*.ops on every run and must pass the oracle.",
}

MUTATIONS = """
(The dry-runs below were made before the four fix: commits; after the repair each of the four old behaviours is itself a mutation
that must be caught: see the end of this block.)
Dry-runs on scratch copies of /repo (src/gc/gc.go); as for C23 the steps of `./check C25 quick` were run one by one with
private output directories (the shared lake lock was saturated), the four known classes loaded.
 M1 addTarget ignores Dependencies() (`[:0]`)              -> C25_facts_ok fails; 34 disagreements; NEW classes gc-removes-needed-other (36),
      gc-deletes-source-of-needed-target (29): targets reached only through provide/require resolution are removed
 M3 binaries are roots only with --conservative            -> C25_facts_ok fails; 10163 disagreements; gc-removes-needed-other (20103)
 M4 `keepSrcs[src] = false`                                -> C25_facts_ok fails; 2949 disagreements; gc-deletes-source-of-needed-target (3498)
 M6 subinclude roots dropped                               -> C25_facts_ok fails; 801 disagreements; gc-removes-needed-other (1009)
 M7 publicDependencies `!=` instead of `==`               -> C25_facts_ok fails; 2412 disagreements; gc-removes-needed-other (3060)
 M8 `!sibling.HasParent()` dropped                         -> C25_facts_ok fails; 5852 disagreements; no new oracle class (listing unneeded hidden
      sub-targets is not unsafe) => exit 1 with proof-broken / correspondence-broken `no-failing-input-found`
 H1 harmless: locals renamed (sibling->sib, subinclude->inc, depTarget->dt) -> facts identical, 0 disagreements, only the four known classes
Fix phase (all four findings repaired in /repo). Re-introducing each defect on a scratch clone (`git revert -n <fix>`), steps of the
check run privately against it:
 revert 9dea07a (gc_sibling)      -> class gc-sibling-overrides-keep again on corpus/C25/fixed-gc-sibling-overrides-keep.ops and 1014 generated inputs; 987 disagreements
 revert 0ef96ba (data files)      -> gc-data-file-not-kept on its fixed-*.ops witness and 1261 inputs; 1234 disagreements
 revert f5ccc0d (parent rule)     -> gc-rule-of-needed-subtarget-removed on its witness and 4556 inputs; 3627 disagreements
 revert 031fda8 (test fixpoint)   -> gc-test-of-later-kept-target on its witness and 323 inputs; 186 disagreements
In every case C25_facts_ok no longer proves either (the passes / addTarget facts differ).
"""
