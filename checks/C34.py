CLAIMED = True
SPEC = {
    "id": "C34",
    "props": "PlzVerif/Props/C34.lean",
    "extract": ["c34"],
    "harness": "c34",
    "driver": "Driver/C34.lean",
    "needs_plz": False,
    "level": "proof",
    "level_text": (
        "FULL for directory trees and regular files in both modes and for every source when hard-linking; PARTIAL overall: the "
        "statement is refuted for one shape (C34_faithful_refuted / C34_witness_toplevel_symlink_dereferenced: a top-level symlink "
        "copied with link=false is dereferenced, or the copy fails). Proved for all inputs (unbounded, mutual structural "
        "induction over the tree, any inode table): C34_faithful_dir (fresh destination: the call succeeds; every directory "
        "incl. empty ones, every symlink target verbatim, every file's bytes; same inode when linking, fresh inode with the "
        "requested mode when copying), C34_faithful_file, C34_faithful_symlink_link, C34_faithful_partial (everything except the "
        "witnessed shape, or everything once topLevelSymlinkAware), C34_recursive_link_faithful, C34_source_unchanged "
        "(successful calls, also onto pre-existing destinations incl. hard links of source files: no inode that existed is "
        "written -- depends on the extracted fact tempThenRename; C34_witness_in_place_write_destroys_source is the "
        "counterfactual), C34_fallback_replaces (link onto an existing file with fallback: fresh inode, source's mode), C34_modes. "
        "Model: the walk callback described at the destination entry; that each callback touches only its own destination "
        "path and MkdirAll supplies parents is validated by correspondence (incl. pre-existing destinations and error cases), "
        "not proved. Not modelled: I/O errors, cross-device rename fallback, special files, destination reached through a "
        "symlink to a directory, directory permission bits, link counts / timestamps."),
    "technique": "Lean 4 theorems over an executable model of the copy on an abstract file system with inodes + facts from go/ast + differential correspondence on real trees (inode identity via stat)",
    "trusted": [
        "go/ast extractor harness/extract/c34. Facts the model is parameterised by (the theorems follow the code): WriteFile's default mode, temp-file-and-rename vs in-place write, whether the non-directory case tests `info.Mode()&os.ModeSymlink != 0` and returns copySymlink(from, to) (exact AST form), CopyOrLinkFile recreating symlinks when linking, fallback copy taking the source's mode. Facts that only pin syntax (tripwires in C34_facts_ok, no theorem takes them as hypothesis): Lstat vs Stat, dispatch order of the walk callback, destination expression, copySymlink shape, arguments of RecursiveCopy / RecursiveLink",
        "correspondence harness/cmd/c34 vs Driver/C34.lean: fs.RecursiveCopyOrLinkFile on trees under $VERIF_SCRATCH (840-case exhaustive family: 10 source shapes x 7 destination states x 3 modes x 4 link/fallback settings; seeded random trees with hard-linked pairs, empty directories, relative/absolute/dangling nested symlinks, permission bits, 0-500 byte contents, pre-existing destinations); destination dumped with contents, permission bits, symlink targets and inode identity (stat dev/ino, kept alive against reuse); source snapshot before/after",
        "direct oracle: structural comparison source vs destination on the real file system (fresh destination) + source snapshot equality (always)",
        "modelled, not verified: Model/Copy.lean; os.Link / os.Symlink / rename / MkdirAll semantics as stated there",
    ],
    "assumptions": [
        "source and destination are on one file system, do not contain each other, and no destination path component is a symlink to a directory",
        "names are valid UTF-8; top-level symlink targets in generated cases are sibling-relative paths (nested symlink targets are arbitrary strings and never resolved)",
    ],
}

MUTATIONS = """
Seeded change /tmp/seedout/C34/patch.diff (WriteFile stages its temp file in $TMPDIR): exit 1 -- fact tempThenRename=false
 (C34_facts_ok fails), 20 disagreements, oracle VIOLATIONs source-modified and bystander-tree-modified with concrete inputs
 (destination pre-existing and hard-linked to a source / sibling file; the harness points TMPDIR at /dev/shm, another file system).

Dry-runs on a scratch copy (VERIF_REPO=/var/tmp/mC34 ./check C34 quick), findings loaded from findings_inbox/C34.jsonl:
 M1 copy.go:66  remove `if fileMode.IsSymlink() { return copySymlink(name, dest) }`
                                                   -> exit 1: fact callbackOrder changes (C34_facts_ok fails), 21 disagreements, oracle VIOLATION
                                                      class unexplained: nested dangling symlink `l -> ../x` makes the copy fail (corpus regression tree)
 M5 copy.go:62  dest := filepath.Join(to, filepath.Base(name))  (tree flattened)
                                                   -> exit 1: fact destExpr changes, 22 disagreements, oracle VIOLATION unexplained
                                                      ("directory src: 5 entries became 7")
 M4 copy.go:56  os.Lstat(from) -> os.Stat(from)    -> exit 1: fact usesLstat=false, 21 disagreements, oracle VIOLATION unexplained
                                                      (dangling top-level symlink with link=true: stat fails)
 M6 harmless: callback locals renamed (dest -> target, fileMode -> fm, info -> st)
                                                   -> exit 0, facts regenerated identically, 0 disagreements
 M7 fix sketch applied (`if info.Mode()&os.ModeSymlink != 0 { return copySymlink(from, to) }`)
                                                   -> exit 0: fact topLevelSymlinkAware=true, the model follows, oracle_fail=0,
                                                      known finding reported as NOT reproduced (stale), C34_faithful_partial then covers every source
"""
