CLAIMED = True
SPEC = {
    "id": "C29",
    "props": "PlzVerif/Props/C29.lean",
    "extract": ["c29"],
    "harness": "c29",
    "driver": "Driver/C29.lean",
    "needs_plz": False,
    "level": "proof",
    "level_text": (
        "Proved on the model (Model/CASFS.lean; its reading of fs.go pinned by C29_facts_ok): findNode is sound on every "
        "tree and complete on well-formed trees against an inductive description of the tree (C29_findNode_faithful); at API "
        "level, for names fs.ValidPath accepts, Stat succeeds exactly on the tree's entries and reports them "
        "(C29_stat_faithful, with a plain working directory C29_stat_faithful_wd: such names pass through filepath.Join/Clean "
        "unchanged); ReadDir(n<=0) returns an entry exactly when the tree has it directly in that directory "
        "(C29_readDir_lists_tree); `..` never escapes; Open returns exactly "
        "the entry at the end of the symlink chain for every sufficient fuel (C29_open_follows_chain, "
        "C29_open_fuel_independent) and terminates whenever the chain ends (C29_open_ok_no_loop); absolute targets fail "
        "cleanly; ReadDir(n<=0) lists exactly the directory. REPAIRED in /repo and now proved in full: symlink loops of any "
        "length fail with a clean error under the extracted depth limit (C29_open_loop_fails_cleanly, C29_open_never_diverges; "
        "fix c137312) and ReadDir pages as io/fs.ReadDirFile demands (C29_readDir_paging; fix 53c5c31); the old behaviours "
        "survive as negative controls (C29_unlimited_open_diverges_*, C29_stateless_readDir_violates_paging). A view with a "
        "working directory is a prefix and nothing more (C29_view_is_root_join: link resolution is root-relative). PARTIAL: "
        "three clauses remain false, each with a kernel-checked witness and a narrow known-finding class: Open accepts names "
        "fs.ValidPath rejects, Stat does not follow "
        "symlinks while Open does, paths through a symlinked directory are not resolved."
    ),
    "technique": "Lean 4 theorems over an executable model of findNode/open/ReadDir (fuel for the unbounded recursion, "
                 "cycle lemma for all fuels) + regenerated structural facts + differential correspondence in a child "
                 "process + real-file-system / fstest.TestFS / paging-contract oracle",
    "trusted": [
        "go/ast extractor harness/extract/c29 (search order and cut in findNode, the . and .. cases, open's single "
        "unbounded self-call after the IsAbs check, ReadDir's loop order, absence of io.EOF and of any state in dir; and "
        "canonical skeleton digests of findNode, open, Open, FindNode, Stat, New, ChangeDir, ReadDir, openDir, openFile and "
        "the four info constructors - any structural change of the transcribed code flips C29_skeletons_ok)",
        "correspondence harness/cmd/c29 vs Driver/C29.lean: FindNode/Stat/Open/ReadDir (views made by New(wd) and by "
        "ChangeDir(wd)) on generated Trees (nested dirs, "
        "duplicate names, relative/absolute/dangling/looping symlinks, working directories, unclean query paths) with an "
        "in-memory CAS; every op runs in a worker process with a 16 MB stack limit, a dead worker = `crash` = the model's "
        "outOfFuel",
        "direct oracle: the same tree materialised on disk (os.Lstat/ReadFile/ReadDir/EvalSymlinks), fstest.TestFS with "
        "os.DirFS as reference, the io/fs ReadDirFile paging contract",
        "modelled, not verified: Model/CASFS.lean (digest-addressed directories as a nested tree; blob contents as ids)",
        "not proved: that fuel = number of symlinks + 2 suffices for every loop-free chain (pigeonhole); the driver uses "
        "it and the correspondence run checks crash <-> outOfFuel on every generated case",
    ],
    "assumptions": [
        "Tree protos are closed (every referenced child digest is present); blobs are present in the CAS",
        "fstest.TestFS is run only on trees whose links stay inside the tree and do not dangle (the view has no "
        "ReadLinkFS, so TestFS insists on opening every listed entry)",
    ],
    "harness_timeout": 3000,
    "search_rounds": 1,   # one widened (thorough-tier) sweep when a proof/correspondence breaks without an oracle hit
}

MUTATIONS = """
Dry-runs on scratch copies (VERIF_REPO=/var/tmp/mC29_*; ./check C29 quick, inbox findings loaded):
M1 info.go newFileInfo: size: f.Digest.SizeBytes -> 0            exit 1: 24 disagreements, `stat-differs-from-tree` (c/c: real size 7, view 0)
M2 findNode: range wd.Files -> wd.Files[min(1,len):] (skips the first file)
                                                                 exit 1: extractor reports the loop unreadable -> Expected facts + thorough tier;
                                                                 22 disagreements, `stat-misses-existing-entry`, `read-fails-on-readable-file`,
                                                                 `testfs-listed-entry-cannot-be-opened`, each with a concrete path
M3 open: `if filepath.IsAbs(…)` -> `if false && filepath.IsAbs(…)`  exit 1 (correspondence: abslink vs notexist; the view still fails cleanly, so
                                                                 no oracle hit: `no-failing-input-found`) — see the note in the final report
M4 dir.ReadDir: len(ret) == n -> len(ret) == n-1                 exit 1: 21 disagreements, no new oracle class (paging is already a known
                                                                 finding): `correspondence-broken … no-failing-input-found`
H1 harmless: rename `rest` -> `remainder` in fs.go               exit 0 (0 disagreements, facts regenerated identically)
After the skeleton-digest facts were added (extractor-only re-check on a scratch copy): H1 still regenerates identical
facts; `filepath.Join(filepath.Dir(name), …)` -> `filepath.Join(name, …)` in open flips skelOpenRec (C29_skeletons_ok fails).
Fix phase: with the depth limit (c137312) and the ReadDir offset (53c5c31) in /repo, reverting c137312 on a scratch copy gives
exit 1, `VIOLATION … violation-symlink-loop-stack-overflow.json` (concrete tree/path), 32/34 obligations (depth-limit fact, skeleton).
The seeded change /tmp/seedout/C29/patch.diff (open -> Open inside open) gives `read-returns-wrong-content` (wd "sub", up: view
"blob-2xx", tree "blob-1x") and `read-fails-on-readable-file` on corpus/C29/views-with-working-dir.ops.
"""
