CLAIMED = True
SPEC = {
    "id": "C07",
    "props": "PlzVerif/Props/C07.lean",
    "extract": ["c08", "c07"],
    "harness": "c07",
    "driver": "Driver/C07.lean",
    "needs_plz": True,
    "level": "proof",
    "level_text": "C07_partial_rule_hash (partial w.r.t. the property: rule hash only; unbounded): the rule-hash pre-image is invariant under every permutation of every map-typed field "
                  "(Provides, Env, EntryPoints, Commands, named sources/outputs/data) and of the dependency insertion order, for the "
                  "schema and the per-accessor sort facts regenerated from ruleHash / hashMap / DeclaredDependencies / DeclaredOutputNames "
                  "/ allBuildInputs / getCommand on this run (C07_facts_ok: every map range is sorted or an order-insensitive maximum); "
                  "C07_sort_needed shows each sort is necessary. C07_hash_check_stable (full): output-hash checking leaves the rule hash of an unchanged target alone - true "
                  "since fix 656076b (UnprefixedHashes works on a copy; regenerated fact unprefixedAliases=false); the repaired defect "
                  "is kept as C07_witness_hash_check_aliasing / C07_partial_hash_check_aliasing about the old fact value. "
                  "Package level: C07_partial_parse_order / C07_partial_invocations_agree (partial: hypothesis ConfigIsolated - evaluating a package "
                  "leaves the cached frozen CONFIG of subincluded files untouched - is C17's non-interference property, stated here as an explicit "
                  "hypothesis, and Model/ParseOrder.lean abstracts the interpreter to CONFIG merging): what is reported for a package's targets is "
                  "the same for every schedule of package evaluations, i.e. independent of the other requested targets, their order, -n and the "
                  "scheduler; C07_parse_order_copying discharges it for the copying Merge, C07_witness_borrowed_overlay shows it fails when Merge "
                  "adopts the subincluded overlay by reference. On the real binary this is decided end to end only (e2ecfg: generated repositories "
                  "with 2-3 CONFIG-setting build_defs files subincluded in different subsets, a slow generated build_defs file to skew the parse "
                  "order; per target, everything plz hash --detailed reports is compared across invocations differing only in the other targets "
                  "requested, their order and -n, each from a clean plz-out; oracle class hash-depends-on-what-else-was-parsed). "
                  "Source and config hashes and scheduling are otherwise not modelled: they are covered only by the end-to-end oracle "
                  "(plz hash --detailed repeated with -n 1 / -n 16, permuted target order and //...).",
    "technique": "Lean 4 theorems (sorted-permutation uniqueness) over the rule-hash model + regenerated sort facts + in-process "
                 "shuffled/concurrent construction + end-to-end repetition of plz hash",
    "trusted": [
        "go/ast extractors harness/extract/c08 (write schema, sort flags per accessor) and harness/extract/c07 (classification of every "
        "range over a map-typed expression in the functions behind the rule hash; map types recognised syntactically)",
        "correspondence harness/cmd/c07 (verif/harness/rulehash) vs Driver/C07.lean: real build.RuleHash under shuffled insertion orders, "
        "from concurrent goroutines and repeatedly on one target, against sha1 of the model pre-image of each encoding",
        "end-to-end oracle: the real plz binary on generated repositories (no model counterpart)",
        "SHA-1 idealised as injective; Go map keys are distinct (MapsOK)",
        "modelled, not verified: Model/RuleHash.lean",
    ],
    "assumptions": [
        "the order in which BUILD statements add dependencies and fill maps is the only source of order variation inside one target",
        "source hash and config hash determinism is observed end to end only (the source hash follows ExportedDependencies() in declaration "
        "order: fact depOrderAccessors; deterministic because a BUILD file is evaluated sequentially)",
        "RuleHash memoises the pre-build hash on the first call; the target is not edited between calls except by post-build functions",
    ],
}
MUTATIONS = """
Dry-runs on a scratch copy (VERIF_REPO=/var/tmp/mC07 ./check C07 quick):
 M1 incrementality.go: drop `sort.Strings(provideKeys)` in ruleHash -> exit 1: providesSorted=false breaks C07_facts_ok (8/9),
    extract/c07 lists the range as UNSORTED, failing inputs both in-process (violation-rulehash-depends-on-order: a `perm` op whose
    shuffled constructions give several rule hashes) and end to end (violation-plz-hash-nondeterministic: two `plz hash --detailed`
    invocations print different rule hashes).
 M2 build_target.go: drop `sort.Sort(ret)` in DeclaredDependencies -> exit 1, depsSorted=false, failing input in-process
    (dependencies added in another order hash differently).
 M3 hashMap: drop `sort.Strings(keys)` -> exit 1, in-process and end-to-end failing inputs.
 M4 allBuildInputs: drop `sort.Strings(keys)` -> exit 1, in-process and end-to-end failing inputs (named sources).
 M5 harmless: rename provideKeys -> langs -> exit 0.
 M6 (after fix 656076b) re-introduce the aliasing: `hashes := target.Hashes[:]` in UnprefixedHashes -> see below.
 M7 (round-3 seed /tmp/seedout3/C07/patch.diff) objects.go: pyConfig.Merge adopts the subincluded frozen overlay by reference
    ("borrowed") and later merges write into it -> exit 1: VIOLATION replay=.build/replays-alt/C07/
    violation-hash-depends-on-what-else-was-parsed.json, input `e2ecfg 1 2 1 1` (corpus parse-order-config.ops and generated
    ops): //s1:t hashes differently in `plz hash --detailed -n 1 //s0:t //s1:t` and `... -n 1 //m0:x0 //m0:x1 //s1:t //s0:t`.
    /repo: exit 0 (16/16, 1938 cases, 0 disagreements).
"""
