CLAIMED = True
SPEC = {
    "id": "C10",
    "props": "PlzVerif/Props/C10.lean",
    "extract": ["c08", "c10"],
    "harness": "c10",
    "driver": "Driver/C10.lean",
    "needs_plz": True,
    "level": "proof",
    "level_text": "Model: GeneralBuildEnvironment -> TargetEnvironment -> BuildEnvironment -> withUserProvidedEnv (incl. os.Expand and "
                  "fs.ExpandHomePath), Configuration.getBuildEnv/Hash, and the rule hash's pass_env item. Proved: C10_other_no_rehash "
                  "(full: variables outside pass_env / [build] passenv change neither hash), C10_partial_hermetic (the action environment "
                  "depends on the caller only through the pass lists - and HOME when there are secrets/system tools), "
                  "C10_passenv_rehash_single / C10_config_rehash_single (one passed variable: a changed value changes the hash), "
                  "C10_passenv_rehash (general: equal hashes force equal name=value runs). C10_deterministic (full since fix 13a77d9: target.Env is applied in "
                  "sorted key order; the repaired defect is kept as C10_witness_userenv_order_unsorted). DISPROVED at full strength by "
                  "kernel-checked witnesses: Hermetic (C10_witness_home_leak), rehash on every pass_env change "
                  "(C10_witness_passenv_unframed, C10_witness_config_unframed). C10_facts_ok pins every read of the process "
                  "environment on the build path, every key written and every cmd.Env assignment. Not modelled: sandbox/namespaces, "
                  "stamping (SCM_*), test/run environments, label tools/sources (paths come from the real accessors).",
    "technique": "Lean 4 theorems over a transcription of the environment functions + regenerated env-read/key/cmd.Env facts + "
                 "in-process differential runs under os.Setenv variations + the real executor + end-to-end plz under env -i",
    "trusted": [
        "go/ast extractors harness/extract/c10 (environment reads, keys written, cmd.Env assignments, action env source) and c08 (write schema)",
        "correspondence harness/cmd/c10 (verif/harness/rulehash) vs Driver/C10.lean: core.BuildEnvironment().ToSlice(), Configuration.Hash() and "
        "build.RuleHash under generated caller environments, compared entry by entry with the model; the real process.Executor runs "
        "/usr/bin/env and its output is compared with ToSlice()",
        "end-to-end oracle: the real plz binary under env -i with changed / added caller variables (re-run counts from an external action log)",
        "SHA-1 idealised as injective; path strings derived from the build graph are taken from the real accessors",
        "modelled, not verified: Model/Env.lean",
    ],
    "assumptions": [
        "variables listed in pass_unsafe_env / [build] passunsafeenv are exempt from the rebuild requirement (documented as unsafe)",
        "[buildenv] keys and group names are ASCII and do not collide after upper-casing",
    ],
}
MUTATIONS = """
Dry-runs on a scratch copy (VERIF_REPO=/var/tmp/mC07 ./check C10 quick):
 M1 build_env.go TargetEnvironment: `env["BUILT_BY"] = os.Getenv("USER")` -> exit 1: envReads / envKeys facts break C10_facts_ok
    (12/13), 24 model disagreements, failing input violation-caller-env-leaks-into-action-env (`hermetic` op: two callers that
    agree on every passed name, different action environments).
 M2 process.go: `cmd.Env = append(os.Environ(), env...)` -> exit 1: cmdEnvAssignments fact, failing inputs
    violation-action-sees-other-variables (`exec` op: the child's `env -0` output is not ToSlice()) and end to end
    violation-e2e-unlisted-variable-visible (a genrule's env dump contains C10_OTHER).
 M3 incrementality.go: drop `h.Write([]byte(os.Getenv(env)))` -> c08 facts unreadable, failing inputs
    violation-passenv-change-not-rehashed (in-process) and violation-e2e-passenv-change-not-rebuilt (plz does not re-run the action).
 M4 config.go Hash: skip the build-env loop -> exit 1, failing inputs violation-config-passenv-change-not-rehashed and
    violation-e2e-config-passenv-change-not-rebuilt (all 13 theorems still check: Hash is tied by correspondence, not by a fact).
 M5 harmless: rename env -> benv inside TargetEnvironment -> exit 0 (phase-3 log; key extraction follows BuildEnv-typed variables).
 M6 GeneralBuildEnvironment: "LANG": os.Getenv("LANG") -> exit 1, envReads fact + failing input violation-caller-env-leaks-into-action-env.
 M7 (after fix 13a77d9) re-introduce `for k, v := range target.Env` in withUserProvidedEnv -> see below.
"""
