CLAIMED = True
SPEC = {
    "id": "C14",
    "props": "PlzVerif/Props/C14.lean",
    "extract": ["c14"],
    "harness": "c14",
    "driver": "Driver/C14.lean",
    "needs_plz": False,
    "level": "proof",
    "level_text": "Theorems over the model of clean()/shouldClean/markDir for EVERY order of the candidates (the sort's comparator "
                  "is not a strict weak order): never a marked entry, only whole recognised unmarked entries, accounting without "
                  "wrap-around, and - when the pass runs - total below the low-water mark (then so is everything unprotected that "
                  "is left) or every unprotected renameable entry gone; refinement C14_meets_spec: every possible outcome satisfies "
                  "the order-free specification specOK, which Lean evaluates on the outcomes of the real cleaner.  Failures are "
                  "in the model separately: a failed rename keeps the entry, a failed removal of the renamed entry leaves it "
                  "half-removed (C14_witness_half_removed; whole-entries is stated for successful removals).  The full "
                  "statement was refuted three times on the real code; ONE IS FIXED (/repo cfa9e37): in compressed caches the "
                  "temporary of a store in flight was recognised but not protected - Store now marks it, C14_store_tmp_protected and "
                  "C14_inflight_tmp_never_evicted are full for both modes, the old witness is conditional on the old fact value.  "
                  "ALSO FIXED (/repo 2a5162f): the isMarked test and the rename were "
                  "two steps, so an entry retrieved in between was removed (C14_witness_marked_in_window, now conditional on the old "
                  "fact value); the loop now tests and renames under the mutex (facts: loop shape + the helper's lock/test/rename "
                  "sequence) and C14_marked_before_rename_protected holds.  Still open, by design: read literally the bound also "
                  "fails between the water marks (hysteresis).  Two interleavings are exercised on the real code: a "
                  "Store suspended at each of its operations while the cleaner runs, and entries retrieved while the cleaner is "
                  "suspended between its walk and its eviction loop, or between the loop's isMarked test of an entry and its "
                  "rename.  Rename / removal failures are in the model (rn, rm) but are not provoked on the real code.",
    "technique": "Lean 4 theorems quantified over all permutations + order-free specification evaluated on real outcomes + exact comparison where the order is determined + regenerated facts",
    "trusted": [
        "go/ast extractor harness/extract/c14 (name shapes of shouldClean, markDir keys, getFullPath concatenation, the ORDER of Store's calls - mark before remove/store/rename - and of retrieveFiles' - exists, mark, restore -, skeleton and loop order of clean)",
        "correspondence harness/cmd/c14 vs Driver/C14.lean: shouldClean on fuzzed names; real passes over generated cache directories (marks made by real Store / Retrieve) judged by specOK in Lean and by an independent Go statement of the rules; exact outcome when candidates are a grace period apart (compressed caches only)",
        "modelled, not verified: Model/Clean.lean; sizes are those the harness measures with its own walk (lstat sizes, directories included); rename(2) atomic",
        "plain caches on a relatime filesystem: clean()'s own findSize walk reads each entry directory before os.Stat takes its access time, so eviction ORDER there is not reproducible - no theorem depends on the order",
    ],
    "assumptions": [
        "one cleaner pass at a time; entries are not removed by others during the pass; marking during the pass is covered only at the one point between walk and loop",
        "keys are sha1 (20 bytes) or sha256 (32 bytes): padded base64 of 28 / 44 characters",
    ],
}

MUTATIONS = """
Dry-runs on scratch copies (VERIF_REPO=/var/tmp/mC14<k> ./check C14 quick, findings inbox loaded), all compile:

A  shouldClean: name[27] == '=' -> name[26] == '='   (off-by-one in the padding position of sha1 keys)
   -> exit 1.  fact nameShapes changes, 10/13 obligations, 22 disagreements; failing inputs in four classes
   (entry-name-recognition, returned-total-wrong, bound-not-met, unprotected-above-low-after-pass).
B  clean: the `if _, marked := cache.isMarked(entry.Path); marked { continue }` block of the eviction loop deleted
   -> FIRST ATTEMPT caught only by the facts tie: exit 1 `proof-broken ... no-failing-input-found`, 0 disagreements.
   Cause: sequentially that test is dead code (marked entries are never candidates); it matters only for entries
   marked between the walk and the loop, which the model has (marks') and C14_never_marked is stated with, but no
   real-code run exercised.  Repaired: add-only call site verifOp("clean-sorted") in clean(), layout flag mark=3
   (a real Retrieve while the cleaner is suspended there), specOK and C14_meets_spec generalised to marks'.
   -> RE-RUN: exit 1, 12/13, 9 disagreements, failing input (class entry-marked-during-pass-evicted): the corpus
   layout `lay c 1500 1200 1 ...` - the oldest tarball, retrieved after the walk, is evicted.
C  clean: `totalSize -= entry.Size` deleted
   -> exit 1.  fact evictLoop changes, 12/13, 21 disagreements; failing input class returned-total-wrong.
D  markDir: `cache.added[path+"="] = size` deleted   (the plain-mode temporary loses its protection)
   -> exit 1.  fact markKeys changes, 12/13, 4 disagreements; failing input `fl u <k>`, class
   plain-temp-unprotected-during-store.  (Before the in-flight oracle named its class by mode this would have been
   filed under the known compressed finding and passed.)
E  clean: `if totalSize < lowWaterMark` -> `<=`
   -> exit 1.  fact lowTest changes, 12/13, 3 disagreements; failing inputs bound-not-met and
   unprotected-above-low-after-pass (the generator reaches total == low).
F  harmless: clean's locals renamed (totalSize, entries, size)
   -> exit 0, 13/13, facts identical to Expected, 0 disagreements.  (The first extractor matched the local `size` by
   name and would have raised a false alarm here; it now finds the variable through its `findSize` assignment.)

After the review by grpA (AUDIT.md): evict's single `ok` split into rename / removal failures (Outcome with a half-removed
group), the test-to-rename window exercised through a second add-only pause point (third finding), Store's and
retrieveFiles' call ORDER extracted.  Mutations A-F were run before that refactor; B was re-run after the late-mark
extension; the set was re-run in full after the refactor and the fixes, see below.

FIX PHASE.  Three findings repaired in /repo: cfa9e37 (Store marks its temporary), 2a5162f (test and rename under the mutex);
no-clean-below-high-water-mark stays (by design).  Re-introductions (git revert of each fix on a scratch copy): cfa9e37 -> exit 1,
VIOLATION class compressed-temp-unprotected-during-store, 21/23; 2a5162f -> exit 1, VIOLATION class
entry-marked-between-test-and-rename-evicted, 21/23.  Seeded change /tmp/seedout/C14/patch.diff (loop consults a snapshot of the
marks): exit 1, VIOLATION class entry-marked-after-cleaning-started-evicted, 5 disagreements.

Mutation set re-run on the repaired base (all compile), quick 14-35 s each on a quiet machine:
  A name[26]      -> exit 1, 20/23, 25 disagreements, four classes (entry-name-recognition, returned-total-wrong, bound-not-met, ...)
  B renameUnlessMarked no longer looks at the marks (the repaired loop has no separate isMarked skip to delete)
                  -> exit 1, 21/23, 12 disagreements, three classes (marked during pass / after cleaning started / between test and rename)
  C no subtraction -> exit 1, 22/23, 20 disagreements, returned-total-wrong
  D markDir drops added[path+"="] -> exit 1 by the facts only (`no-failing-input-found`, 0 disagreements).  Since cfa9e37 Store marks
                  its temporary directly, so that second key no longer protects anything this process stores or retrieves in any
                  scenario the harness can produce (it only protected, incidentally, another process's temporary of a key this process
                  had retrieved).  A semantic change without a counterexample: reported as such.
  E `<=`          -> exit 1, 22/23, bound-not-met + unprotected-above-low-after-pass
  F harmless rename (incl. the new `renamed` local) -> exit 0, 23/23, 0 disagreements.

Unchanged tree before the fix phase: exit 0, 13/13, 613-617 cases, 0 disagreements, oracle failures only in the two listed classes.
Measured quick wall times 243 s .. 854 s for 2-4 CPU-min per run (shared lake lock); harness alone ~14 s.
Thorough tier: exit 0, 13/13 incl. leanchecker, 6,757 cases (2,500 real passes over layouts), 0 disagreements, oracle
failures only in the two listed classes; 16 min 33 s wall for 4.4 CPU-min (shared lake lock).
Quiet machine (load < 30), after the fix phase: quick 24 s warm / 75 s with cold builds; thorough (6,761 cases, 2,500 real passes) 34 s.
"""
