CLAIMED = True
SPEC = {
    "id": "C04",
    "props": "PlzVerif/Props/C04.lean",
    "extract": ["c04"],
    "harness": "c04",
    "driver": "Driver/C04.lean",
    "needs_plz": True,
    "level": "proof",
    "level_text": (
        "Full on the model: over every reachable state of the scheduler model (one action per atomic action of "
        "queueResolvedTarget / queueTargetAsync / addPendingBuild / taskDone / Stop / the dispatcher and worker goroutines / "
        "build.Build; any dependency relation, any number of workers, activations from anywhere, any interleaving) a "
        "target's build starts at most once, only after every dependency finished and IsBuilt, every completed target has "
        "exactly one terminal report matching its state, states only move forward. Partial w.r.t. the code: Go memory "
        "model and channel semantics trusted; parse-time graph discovery and provide/require abstracted to nondeterministic "
        "activation over resolved edges; NOT modelled: remote execution (there a failing EnsureDownloaded after the "
        "TargetBuilt report yields a second terminal report), --prepare/--shell (errStop: Stopped without FinishBuild), "
        "test steps (Built -> Stopped), post-build functions; buildTarget is one step (pinned by the sk_buildTarget fact)."),
    "technique": "Lean 4 inductive invariant (22 clauses) over an action-labelled transition system; skeleton/CAS/enum facts; trace validation of real plz runs",
    "trusted": [
        "go/ast extractor harness/extract/c04 (enum order, IsBuilt, atomic load/store/CAS, CAS pairs, scheduling skeletons with role-renamed identifiers)",
        "correspondence harness/cmd/c04 vs Driver/C04.lean: real plz builds of generated genrule DAGs at -n 1,2,4,16 with flock-protected start/end logs, plus `plz query deps` runs (NeedBuild off) on packages that subinclude targets, where a non-building queuer of a target is still alive when a subinclude forces the target's build; the Lean driver replays each observed log through the model as an acceptor",
        "modelled, not verified: Model/Sched.lean transcribes state.go:1140-1224, build_target.go:839-845,1217-1233, plz.go:28-130, build_step.go:62-88",
        "idealisations: atomics and channel close are atomic; real interleavings are sampled, not enumerated; the two-CAS sequence to Active is one step",
    ],
    "assumptions": ["generated repositories use only genrule (srcs edges, require/provide with one-to-many provides, post_build add_dep) in up to three packages; each case starts from an empty plz-out and cache"],
    "harness_timeout": 6000,
}

MUTATIONS = """
Dry-runs on a scratch copy (VERIF_REPO=/var/tmp/mC04a ./check C04 quick); the machine ran at load average 100-280:
A queueTargetAsync without `t.WaitForBuild(target.Label)`  -> red: C04_facts_ok broken (skeleton) + 50 oracle failures on real runs:
     plz fails with "cannot calculate hash for plz-out/gen/p0/t0.out: file does not exist" (exit-nonzero-without-failure,
     needed-target-not-built), witness: trace deps=0:;1:0;2:0;3:0;4:0;5:1,2,3,4 ... ev=S0,E0 rc=2; 23 model/impl disagreements
C IsBuilt `s <= DependencyFailed`                            -> C04_facts_ok broken (btIsBuilt differs; checked with the extractor on the
     mutated file; the full ./check was killed by its 3000 s limit at load average 277 before reaching the verdict)
H harmless: dep->declared, err->qerr, an added log.Debug line in queueTargetAsync -> green (exit 0): facts regenerated identical,
     9/9 obligations, 55 cases, no oracle failure (892 s).  A first attempt at load average >200 had shown two
     environment-induced real-run failures (a 120 s timeout, a plz error); since then environment-sensitive failures are
     confirmed by an isolated re-run before they are reported (harness/cmd/c04 confirm()).
S4 round-2 seed: `if target.SyncUpdateState(Active, Pending)` without `building &&` at the end of queueTargetAsync (a queuer that does not
     build and therefore has not waited for the dependencies sends the build task) -> with `plz build` every queuer builds, so it shows
     only with NeedBuild off: red on the binary built from the seeded tree with the query-subinclude shape, concrete input
     `run deps=0:1;1:;2:;3: pk=0,1,2,3 roots=0,2 n=4 ... q=1 sub=1:3,2:0`: exit-nonzero-without-failure (target 0 is handed to a worker
     before its dependency 1 is built: 'cannot calculate hash for plz-out/gen/p1/t1.out') and model/implementation disagreement
     (exit-mismatch model=0 real=nz); clean binary: S3,E3,S1,E1,S0,E0 rc=0. Also C04_facts_ok (sk_queueTargetAsync).
S2 seeded by the coordinator: queueTargetAsync leaves its loop when `!called || len(deps) >= len(DeclaredDependencies())`
     (wrong under require/provide + a post-build add_dep) -> red with a concrete replay: C04_facts_ok broken AND
     started-before-dependency-finished on the real binary (9-11 oracle failures per quick run: corpus cases and the
     generated `provides-late` shape, e.g. trace ... prov=2:0.1 req=4 late=0:4.3 sleep=0,0,0,800,0 ev=S0,E0,S1,E1,S3,S4,E4,E3 rc=0);
     the Lean acceptor rejects the same trace (start of 4 not enabled before the end of the late dependency 3)
See checks/C05.py for the failure-path mutations of the same functions.
"""
