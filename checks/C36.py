CLAIMED = True
SPEC = {
    "id": "C36",
    "props": "PlzVerif/Props/C36.lean",
    "extract": ["c20", "c36"],
    "harness": "c36",
    "driver": "Driver/C36.lean",
    "needs_plz": False,
    "level": "proof",
    "level_text": (
        "Full: C36_exact (state.ShouldInclude = true iff the documented rule Selected holds: some include group "
        "fully carried or no include given, no exclude group fully carried, no exclude build pattern selects the "
        "target), C36_exclusion_wins, C36_pattern_exclusion_wins, C36_wildcard_exact (trailing * = prefix), "
        "C36_has_label_exact (implicit test label), C36_group_exact with C36_split_is_split, C36_expand_exact "
        "(membership in the :all / /... expansion, with justTests) and C36_expand_order_independent (package map "
        "order), for all targets, label sets, argument lists and package lists. Exclude build patterns are exact "
        "by C20's Includes theorems. Not modelled: the final sort.Sort (the driver sorts), subrepo packages in the "
        "package map, relative (':x') exclude labels which need a repo root, the plz command-line parsing."),
    "technique": "Lean 4 theorems over an executable transcription + regenerated facts + differential correspondence with an independent Go reference",
    "trusted": [
        "go/ast extractors harness/extract/c36 (wildcard/separator literals, argument roles in match, implicit test label, loop order and assignments in ShouldInclude, default, ExcludeTargets via Includes, expansion shape) and harness/extract/c20 (label facts)",
        "correspondence harness/cmd/c36 vs Driver/C36.lean: all (pattern,label) pairs over {a b * ,} up to length 3 (4), all small target/include/exclude combinations, random graphs with sibling-prefix packages and build-pattern excludes through SetIncludeAndExclude / ExpandLabels",
        "modelled, not verified: Model/Filter.lean transcribes match, HasLabel, HasAllLabels, ShouldInclude, SetIncludeAndExclude, BuildState.ShouldInclude, expandOriginalPseudoTarget; Go maps as lists (theorem: order independent)",
    ],
    "assumptions": [
        "packages are top-level-repo packages (PackageMap keys of subrepo packages are '@sub//name' strings, outside the statement)",
        "label-like excludes are absolute labels that parse; anything else makes the real code exit (log.Fatalf) or need a repository root",
    ],
}

MUTATIONS = """
Dry-runs on scratch copies (VERIF_REPO=/var/tmp/mC36_<name> ./check C36 quick):
 excl_first     BuildTarget.ShouldInclude: exclude loop moved before the include loop (an include group overrides an exclusion)
                exit 1: facts loopOrder changed (10/12), model follows (0 disagreements), oracle: filter-exclusion-not-applied,
                expand-deviates, filter-deviates with concrete `si`/`ex` op lines
 match_swapped  HasLabel: match(label, l) -> match(l, label) (wildcard read from the target's label)
                exit 1: fact hasLabelPatternIsQuery=false (11/12), 22 disagreements, oracle: match-deviates, has-label-deviates, ...
 test_implicit  HasLabel: `label == "test" && target.IsTest()` -> `label == "test"`
                exit 1: fact testLabelNeedsIsTest=false (11/12), 20 disagreements, oracle: has-label-deviates, filter-deviates, expand-deviates
 excl_matches   BuildState.ShouldInclude: ExcludeTargets tested with Matches instead of Includes (string prefix)
                exit 1: fact stateExcludeTargetsVia changed (11/12), 12 disagreements, oracle: exclude-pattern-string-prefix, expand-deviates
 harmless36     renamed the include loop variable in ShouldInclude                              exit 0, 12/12, 0 disagreements
"""
