CLAIMED = True
SPEC = {
    "id": "C20",
    "props": "PlzVerif/Props/C20.lean",
    "extract": ["c20", "c22"],   # c22: how FindAllBuildFiles (command-line expansion of //p/...) treats experimental dirs and the blacklist
    "harness": "c20",
    "driver": "Driver/C20.lean",
    "needs_plz": False,
    "level": "proof",
    "level_text": (
        "Command line: `//p/...` is expanded by FindAllBuildFiles (a directory walk, not Includes); C20_cmdline_expansion_exact "
        "ties the walk (C22's model, regenerated callback formulas) to Includes: a package is selected iff the pattern "
        "includes it, it has a BUILD file and no directory from p down to it is plz-out/hidden/experimental (root-relative "
        "whole path)/blacklisted. Includes (expandOriginalPseudoTarget, visibility, --exclude, isExperimental): exactness proved for all "
        "package strings against a component-wise specification (C20_includes_subtree_exact, _all_exact, "
        "_single_exact, _never_sibling, C20_experimental_exact). Matches and validateSandbox: completeness "
        "proved unconditionally; exactness proved conditionally on the regenerated facts saying the test is by "
        "component; on the pinned tree (raw HasPrefix) witnesses plus the exact characterisation and a partial "
        "theorem outside the two known classes. Round trip: proved for every input string, every nesting of "
        "subrepo prefixes and every valid context, for parse results outside three known classes "
        "(C20_roundtrip_partial, C20_roundtrip_explicit, C20_print_parse, C20_valid_explicit_parses); each class "
        "has a Lean witness. Not modelled: parseMaybeRelativeBuildLabel (filepath.Join, repo-root lookup), "
        "subrepo/arch handling, TargetSet (map lookups)."),
    "technique": "Lean 4 theorems over an executable transcription of build_label.go + regenerated facts + exhaustive differential correspondence",
    "trusted": [
        "go/ast extractor harness/extract/c20 (ContainsAny sets, reserved suffixes, dispatch literals, validator calls per parser branch, `+ \"/\"` at each HasPrefix site, which method each call site uses)",
        "correspondence harness/cmd/c20 vs Driver/C20.lean: every string over {/ : . a b @ _ #} up to length 6 (thorough 7), contexts, fuzzed strings with metacharacters / NUL / invalid UTF-8, all small (pattern, package) pairs, generated package trees through Includes, Matches, isExperimental and validateSandbox",
        "modelled, not verified: Model/Label.lean transcribes ParseBuildLabelParts, parseBuildLabelSubrepo, String, validators, Parent, Includes, Matches, isExperimental, validateSandbox; Go byte strings as List Char (one byte = one Char)",
        "command-line op `cl`: repositories materialised under $VERIF_SCRATCH, real plz.FindAllBuildFiles + the three lines of findOriginalTask that turn a BUILD file into a package (copied into the harness), vs LabelWalk.cmdlineSelect; oracle: Includes + documented exclusions",
        "go/ast extractor harness/extract/c22 (grpF's): callback formulas of FindAllBuildFiles",
        "hooks: core.BuildLabel.IsExperimentalForVerif, asp.ValidateSandboxForVerif (thin wrappers, //go:build verif)",
    ],
    "assumptions": [
        "patterns are compared on package names; Includes (and Matches for `...`/`all`) ignore the Subrepo field, as the code does — selection across subrepos is outside the statement",
        "round trip is stated for contexts whose current package is a valid package name and whose subrepo argument contains no ':' or '//'; the printed form is re-parsed in the empty context",
    ],
    "explanation": "Two findings repaired by fix: commits (matches-string-prefix, sandbox-experimental-string-prefix); five narrow classes remain known, see findings_inbox/C20.jsonl.",
}

MUTATIONS = """
Dry-runs on scratch copies (VERIF_REPO=/var/tmp/mC20_<name> ./check C20 quick, inbox findings loaded):
 includes_noslash   Includes: HasPrefix(that.PackageName, label.PackageName+"/") -> without +"/"
                    exit 1: facts includesSlash=false breaks C20_facts_ok (30/32), model follows the fact (0 disagreements),
                    oracle: VIOLATION includes-string-prefix  `inc 70:2e2e2e:- 70666f6f:78:-` (//p/... includes //pfoo:x)
                    and experimental-string-prefix `exp 657870666f6f:78:- 657870`
 pkg_dblslash       validatePackageName: dropped !strings.Contains(name, "//")
                    exit 1: fact pkgForbidsDoubleSlash=false (31/32), 20 disagreements, oracle: parse-yields-invalid-package
                    `rt 2f2f2e2f2f2e - -` (//.//. ) and explicit-label-misparsed
 colon_dots         ParseBuildLabelParts: dropped `|| name == "..."` (//:... accepted)
                    exit 1: facts unchanged (32/32), 20 disagreements, oracle: explicit-label-misparsed `rt 2f2f3a2e2e2e - -`
 parent_trimprefix  Parent: strings.TrimLeft -> strings.TrimPrefix
                    exit 1: facts unchanged, 4 disagreements, oracle: parent-deviates `par 70:5f5f782379:73`, matches-deviates
 harmless           renamed idx->pos and swapped two independent assignments in ParseBuildLabelParts, swapped the two
                    disjuncts of Includes, renamed the loop variables of validateSandbox        exit 0, 32/32, 0 disagreements
 identity           no-op patch                                                                 exit 0
Round-2 seed (FindAllBuildFiles: blacklist and experimental dirs merged into one loop with the blacklist's base-name match, so
every directory whose LAST component equals an experimental dir's name is pruned): VERIF_REPO=/tmp/confirm/C20 ./check C20 quick
                    exit 1: c22 facts unreadable (C20_facts_ok not discharged), 23 disagreements on `cl` ops, oracle VIOLATION
                    cmdline-experimental-basename-match `cl - 6578706572696d656e74616c _ 7372632f65…` = //... with experimental
                    dir "experimental" over {src/experimental, src/experimental/deep, experimental/x, src/lib, srcx} selects
                    {src/lib, srcx}, documented {src/experimental, src/experimental/deep, src/lib, srcx}.  Missed before the
                    `cl` op existed (C20 only exercised Includes/Matches in process).
Fix phase (after fix: commits ca7c080 Matches by component, 7c14979 validateSandbox experimental dirs by component):
 reintro_matches    Matches `...` case back to raw strings.HasPrefix
                    exit 1: facts matchesSlash=false (36/38), VIOLATION matches-string-prefix with a failing `mat` op line
 reintro_sandbox    validateSandbox experimental test back to raw strings.HasPrefix
                    exit 1: facts sandboxExpSlash=false (36/38), proof-broken (the class was still listed as known in
                    known_findings.json at the time; the oracle does produce sandbox-experimental-string-prefix inputs)
"""
