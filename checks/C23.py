CLAIMED = True
SPEC = {
    "id": "C23",
    "props": "PlzVerif/Props/C23.lean",
    "extract": ["c23"],
    "harness": "c23",
    "driver": "Driver/C23.lean",
    "needs_plz": False,
    "level": "proof",
    "level_text": "somepath: full in both renderings (sound and complete on every graph, memo included; default mode: the printed rule list is the compacted image of a real chain and a chain of rules itself). revdeps default mode without a limit: every dependant crossing a rule boundary is reported (partial). deps/revdeps: soundness full "
                  "(everything reported is within the level limit, for every graph), completeness VIOLATED by the code: "
                  "three machine-checked witnesses + C23_deps_not_exact / C23_revdeps_not_complete (a fourth root cause, isSameTarget resolving the parent through the graph, was repaired with fix: commit 5bb75ab); "
                  "theorems are about the transcriptions in Model/Query.lean; ShouldInclude filters, subincludes, subrepos, "
                  "`except` and dot output are not modelled",
    "technique": "Lean 4 invariant proofs (weighted-path upper bounds for DFS levels / queue depths, DFS closure for somepath) "
                 "+ concrete witnesses + regenerated facts + differential correspondence with an independent 0-1 distance oracle",
    "trusted": [
        "go/ast extractor harness/extract/c23 (level increments and print branch of deps, cut-off test, Deps entry, FIFO ends, depth/gate/report tests of findRevdeps, buildRevdeps, FindRevdeps seeding and child filter, the revdeps lookup, isSameTarget, guard chain and marking of somePath)",
        "correspondence harness/cmd/c23 vs Driver/C23.lean: exact printed lines / reported sets / paths on every DAG on <= 4 targets "
        "(thorough: 5) x roots x levels, random graphs with hidden sub-targets, orphan and oddly named targets, provide/require, planted delicate shapes",
        "modelled, not verified: Model/Query.lean transcribes deps, FindRevdeps/findRevdeps/isSameTarget, somePath/SomePath; Go maps as membership lists",
        "direct oracle: independent Bellman-Ford 0/1 distances and reachability in the harness, with class predicates for the three known and the one repaired root cause",
        "revdeps with a level limit from a root that has >= 2 hidden children is checked by the oracle only (the real code pushes the children in Go map order)",
    ],
    "assumptions": [
        "no include/exclude label filters (state.ShouldInclude is true), no subincludes/subrepos in the queried graph",
        "every declared dependency and every provided label is a target of the graph (TargetOrDie would exit otherwise)",
        
    ],
    "explanation": "C23_deps_sound, C23_revdeps_sound, C23_somepath_sound/complete/call hold for all graphs; "
                   "C23_witness_* exhibit the three known findings and are replayed on the real code from corpus/C23/known-*.ops; the repaired one is replayed from corpus/C23/fixed-*.ops and must pass.",
}

MUTATIONS = """
Dry-runs on scratch copies of /repo (src/query/*.go).  Because a dozen checks were queued on the shared lake lock
while these were done, the steps of `./check C23 quick` were run one by one against the copy with private output
directories (extractor -> Props/C23.lean re-elaborated with the regenerated facts -> harness built against the copy
-> Lean driver -> diff); the known-finding classes of findings_inbox/C23.jsonl were loaded.
 M1 deps.go:53 last branch `currentLevel` (was currentLevel+1)      -> facts incs [1,0,0]: C23_facts_ok fails; model follows
      (0 disagreements); NEW oracle class deps-extra (156 inputs) => VIOLATION with failing input
 M2 deps.go cut-off `currentLevel > targetLevel` (was ==)           -> C23_facts_ok fails; 6409 disagreements; NEW classes
      deps-missing-other (8762, nothing printed for --level -1) and deps-extra
 M3 reverse_deps.go gate `next.depth <= r.maxDepth`                -> C23_facts_ok + both revdeps witnesses fail; model follows;
      NEW class revdeps-extra (2866)
 M4 reverse_deps.go `if depth >= 0` (was > 0)                      -> C23_facts_ok fails; 2562 disagreements; NEW class revdeps-extra (3249)
 M5 somepath.go parent rule disabled (`false && target1.Parent…`)  -> C23_facts_ok fails; 631 disagreements; NEW class somepath-missed (226)
 M7 reverse_deps.go `PushFront` (LIFO)                             -> C23_facts_ok fails; 86 disagreements; NEW class revdeps-missing-other
 M8 somepath.go `return path` (target1 not prepended)              -> C23_facts_ok fails; 2443 disagreements; NEW class somepath-not-a-chain (2292)
 H1 harmless: deps.go locals renamed (dep->dp, l->lab)              -> facts regenerated identically, 0 disagreements, only the four known classes
Fix phase: revdeps-orphan-subtargets-cost-one repaired in /repo (5bb75ab). Re-introducing it (`git revert -n`) on a scratch clone:
 class revdeps-orphan-subtargets-cost-one again on corpus/C23/fixed-*.ops and 101 generated inputs; 93 disagreements; C23_facts_ok fails.
deps-subtarget-to-own-rule-edge was NOT repaired: the small patch (free edge in the printing branch) leaves the class alive at the level
boundary (466 of 586 inputs still fail) because deps returns at `currentLevel == targetLevel` before looking at dependencies.
The two first-visit-depth findings were not repaired: a correct level-limited result needs best-depth bookkeeping (re-expansion or a
0-1 BFS), which changes the structure of both functions and the shape of the printed tree — not a small patch.
"""
