SPEC = {
    "id": "C27",
    "props": "PlzVerif/Props/C27.lean",
    "extract": ["c27"],
    "harness": "c27",
    "driver": "Driver/C27.lean",
    "level": "proof",
    "trusted": [
        "go/ast extractor harness/extract/c27 (enum order, comparison operator and operand roles of MergeCoverageLines)",
        "correspondence harness/cmd/c27 vs Driver/C27.lean (differential; exhaustive pairs up to length 3/4 + random)",
        "modelled, not verified: Model/Coverage.lean transcribes MergeCoverageLines and Aggregate; Go slices as Lean lists",
    ],
    "assumptions": ["LineCoverage values are compared as unsigned integers (uint8) as in Go"],
}
