CLAIMED = True
SPEC = {
    "id": "C26",
    "props": "PlzVerif/Props/C26.lean",
    "extract": ["c26"],
    "harness": "c26",
    "driver": "Driver/C26.lean",
    "needs_plz": True,
    "level": "proof",
    "level_text": (
        "Full for the summary and the verdict, correspondence for parsing. Proved for all lists of cases and runs (Props/C26.lean): every case is counted by "
        "exactly one of the five displayed counters passed / errored / failed / skipped / flakes and 'tests run' is their sum (C26_partition_case, "
        "C26_partition; a flake has at least two executions: C26_flake_has_retry); the verdict AllSucceeded is equivalent to 'no failed and no errored case' "
        "when every case has an execution (C26_verdict_iff_no_failures); through doFlakeRun's loop the target passes exactly when every case that ran has a "
        "successful or skipped execution in one of the at most `flakiness` executed runs, which form a prefix of the runs and stop after the first all-green "
        "one (C26_passes_iff, C26_runs_within_allowance); appendResult gives one main execution plus one per flaky/rerun child (C26_xml_case_executions); "
        "a JUnit report is a tree of suites nested to any depth: the parsed cases are exactly the cases at every depth, every counter is the sum over the tree and the "
        "target passes iff no case anywhere failed or errored (C26_tree_all_cases, C26_tree_counts, C26_tree_verdict, by induction over the tree; the fact "
        "nestedTraversal pins that toCoreTestSuite calls itself on every element of TestSuites); nested suites and bare test cases are reported completely and an unfinished Go test is an error (C26_nested_cases_reported, C26_bare_case_reported, "
        "C26_go_unfinished_is_error - these hold for the code after the four fix: commits 1fbcce1, 0ae0df7, ace53fa, c753b62; the C26_old_* theorems record "
        "what the old fact values meant). Parsing itself (encoding/xml, go-junit-report) is NOT modelled: correspondence only."
    ),
    "technique": "Lean proof about the counters, Add and the flake loop; go/ast facts for every counter condition, Add's matching rule, the loop shape, "
                 "appendResult's chain, the XML struct tags and the go result switch; differential run of the real parsers on rendered outcome sets",
    "trusted": [
        "go/ast extractor harness/extract/c26 (conditions of Success/Skip/Failures/Errors, of the five counters and AllSucceeded with sorted conjuncts, "
        "findMatchingTestCase, Add, doFlakeRun's loop bounds/steps, appendResult chain and loops, which field every append* sets, xml tags of jUnitXMLTest, "
        "whether jUnitXMLTestSuite can hold nested suites, fields of the synthetic bare test case, sniffing prefixes, the go result switch)",
        "hook src/test/c26_verif.go (exports parseTestResults)",
        "correspondence harness/cmd/c26 vs Driver/C26.lean: all execution lists up to length 3 over the 8 flag combinations, all pairs of small cases, all "
        "flake loops of two cases x five outcomes x up to 2 (quick) / 3 (thorough) runs x allowance 1..3, random loops with repeated names and class names; "
        "outcome sets rendered to JUnit XML in four layouts (flat, <testsuites>, bare, nested) with XML metacharacters, CDATA, char refs, shuffled children, "
        "and to `go test -v` text with subtests; several result files per target",
        "the flake loop is replayed in the harness on the real Add/AllSucceeded following the regenerated loop shape (doFlakeRun itself needs a test process)",
        "the counters isPass/isError/isFailure/isSkip and allSucceeded are written by hand in Model/TestResults.lean; their *Cond facts only pin the source text of the "
        "conditions (sorted conjuncts), the semantic tie is the exhaustive correspondence over all execution lists up to length 3; only the flake counter and the parser conversions follow a fact",
        "modelled, not verified: Model/TestResults.lean; not modelled: encoding/xml, go-junit-report, reading of result files from disk, the UnitTest++ <test> format, durations/properties/output text",
        "direct oracle: an independent reading of the outcome set (every case of every suite, an unfinished Go test is an error, flaky = passed after a failed/errored execution)",
    ],
    "assumptions": [
        "a test case element carries at most one of failure/error/skipped, flaky* children only with a passing main result and rerun* only with a failing one (otherwise only the model-vs-code comparison applies)",
        "Go test names are taken from what `go test` can print (no spaces or newlines)",
    ],
}

MUTATIONS = """
After the fix phase: re-introducing a repaired defect (reverting c753b62 on a scratch copy) must be red again - see the end of this block.
(The runs below were made before the fix phase, on the tree with the four defects still present.)
Dry-runs on scratch copies (VERIF_REPO) with findings_inbox/C26.jsonl loaded; every run rebuilds plz from the copy:
 m1 Passes: `result.Skip() == nil` dropped                 -> exit 1: facts (17/18), 20 disagreements, failing inputs summary-mismatch and, through
                                                               `plz test`, e2e-summary-mismatch ("2 tests run; 2 passed, 1 skipped")
 m2 AllSucceeded no longer accepts a skipped case           -> exit 1: facts, disagreements, summary-mismatch + e2e-summary-mismatch (a skipped test fails the target)
 m3 doFlakeRun: `flakes < Flakiness` (off by one)           -> exit 1: facts (flakeLoopCond) and a concrete failing input from the real binary: e2e-summary-mismatch
 m5 go_results: `case gtr.Skip` sets Failure                -> exit 1: facts (goSets; the model follows them, 0 disagreements), failing input parsed-cases-mismatch
 m6 findMatchingTestCase matches on Name only               -> exit 1: facts, 20 disagreements, summary-mismatch + flake-merge-mismatch with inputs
 m7 xml tag of <skipped> renamed to "skip"                  -> exit 1: facts (caseTags), parsed-cases-mismatch + e2e-summary-mismatch
 m8 looksLikeJUnitXMLTestResults loses the "<test" prefix   -> exit 1: facts (xmlPrefixes), 21 disagreements, parsed-cases-mismatch + e2e-summary-mismatch
 m9 appendRerunError sets Failure instead of Error          -> exit 1: facts (appendSets), disagreements, parsed-cases-mismatch
 h1 harmless: conjuncts of the Passes condition reordered, loop variable renamed -> exit 0 (conditions are compared with sorted conjuncts and a canonical variable name)
 r1 (after the fix phase) FlakyPasses reverted to `Success() != nil && len(Executions) > 1`   -> exit 1: C26_facts_ok, flaky_strict, C26_partition* no longer check
                                                               (19/21) and the oracle reports 51 failing inputs of class flaky-count-includes-clean-reruns
                                                               (printed as a VIOLATION with its input once that class is marked fixed in known_findings.json)
 s1 (independently seeded) Add indexes cases in a map keyed by ClassName + "." + Name                 -> exit 1: facts readable (addMatchKind = "concat", sep "."): C26_facts_ok
                                                               broken (22/23), 20 disagreements, failing input `flake 2 com.acme.Parser|v2.roundtrip:F ; com.acme.Parser.v2|roundtrip:P`
                                                               (property: 2 tests, 1 failed, target fails; real: 1 test, 1 flake, target passes) - classes flake-merge-mismatch, summary-mismatch.
                                                               Generators now contain a family of colliding (class, name) pairs (re-splits of a dotted string, same name in
                                                               different classes, same class with different names) in the Add sequences, the XML documents and the plz test part.
 s3 (round-3 seed) toCoreTestSuite walks nested suites with a worklist that ranges over a snapshot (only direct children are visited)
                                                            -> exit 1: nestedTraversal = "other:range over pending" breaks C26_facts_ok / C26_tree_*; 20 disagreements; failing input e.g.
                                                               `parse t:tree:(lvl.ok1(lvl.ok2(lvl.ok3;lvl.bad3:F)))`: property tests=4 fail=1 all=0, real tests=2 all=1 (class nested-testsuite-cases-dropped).
                                                               Generators: suite trees of depth 1..5 with cases at every level (op `t:tree:` / `t:trees:`), exhaustive chains with the only failure at level k.
"""
