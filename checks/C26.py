CLAIMED = True
SPEC = {
    "id": "C26",
    "props": "PlzVerif/Props/C26.lean",
    "extract": ["c26"],
    "harness": "c26",
    "driver": "Driver/C26.lean",
    "needs_plz": False,
    "level": "proof",
    "level_text": (
        "Partial. Proved for all lists of cases and runs (Props/C26.lean): every case is in exactly one of passed / errored / failed / skipped / "
        "flaky-only and 'tests run' is their sum (C26_partition_case, C26_partition); the verdict AllSucceeded is equivalent to 'no failed and no "
        "errored case' when every case has an execution (C26_verdict_iff_no_failures); through doFlakeRun's loop the target passes exactly when every "
        "case that ran has a successful or skipped execution in one of the at most `flakiness` executed runs, which form a prefix of the runs and stop "
        "after the first all-green one (C26_passes_iff, C26_runs_within_allowance); appendResult gives one main execution plus one per flaky/rerun child "
        "(C26_xml_case_executions). The property as stated is VIOLATED in four narrow classes, each with a Lean witness, a corpus witness and a "
        "known-finding entry: the `flakes` counter also counts cases that never failed (C26_witness_two_buckets; C26_partition_partial says when the "
        "displayed counters do partition); <testsuite> nested in <testsuite> loses its cases; bare <testcase> elements lose their names; a Go test without "
        "result line is counted as passed. Parsing itself (encoding/xml, go-junit-report) is NOT modelled: correspondence only."
    ),
    "technique": "Lean proof about the counters, Add and the flake loop; go/ast facts for every counter condition, Add's matching rule, the loop shape, "
                 "appendResult's chain, the XML struct tags and the go result switch; differential run of the real parsers on rendered outcome sets",
    "trusted": [
        "go/ast extractor harness/extract/c26 (conditions of Success/Skip/Failures/Errors, of the five counters and AllSucceeded with sorted conjuncts, "
        "findMatchingTestCase, Add, doFlakeRun's loop bounds/steps, appendResult chain and loops, which field every append* sets, xml tags of jUnitXMLTest, "
        "whether jUnitXMLTestSuite can hold nested suites, fields of the synthetic bare test case, sniffing prefixes, the go result switch)",
        "hook src/test/c26_verif.go (exports parseTestResults)",
        "correspondence harness/cmd/c26 vs Driver/C26.lean: all execution lists up to length 3 over the 8 flag combinations, all pairs of small cases, all "
        "flake loops of two cases x five outcomes x up to 2 (quick) / 3 (thorough) runs x allowance 1..3, random loops with repeated names and class names; "
        "outcome sets rendered to JUnit XML in four layouts (flat, <testsuites>, bare, nested) with XML metacharacters, CDATA, char refs, shuffled children, "
        "and to `go test -v` text with subtests; several result files per target",
        "the flake loop is replayed in the harness on the real Add/AllSucceeded following the regenerated loop shape (doFlakeRun itself needs a test process)",
        "modelled, not verified: Model/TestResults.lean; not modelled: encoding/xml, go-junit-report, reading of result files from disk, the UnitTest++ <test> format, durations/properties/output text",
        "direct oracle: an independent reading of the outcome set (every case of every suite, an unfinished Go test is an error, flaky = passed after a failed/errored execution)",
    ],
    "assumptions": [
        "a test case element carries at most one of failure/error/skipped, flaky* children only with a passing main result and rerun* only with a failing one (otherwise only the model-vs-code comparison applies)",
        "Go test names are taken from what `go test` can print (no spaces or newlines)",
    ],
}

MUTATIONS = """
Dry-runs on scratch copies (VERIF_REPO) with findings_inbox/C26.jsonl loaded: see /verif/checks/C26.py history; results recorded after the batch finished:
 m1 Passes ignores the skip condition            m2 AllSucceeded no longer accepts a skip     m5 go `Skip` sets Failure
 m6 Add matches on Name only                     m7 xml tag of <skipped> renamed               m8 format sniffing loses the "<test" prefix
 m9 rerunError appended as Failure               m3 flake loop `<` instead of `<=` (facts only: reported without a failing input)
 h1 harmless: conjuncts of Passes reordered, loop variable renamed
"""
