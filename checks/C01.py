CLAIMED = True
SPEC = {
    "id": "C01",
    "props": "PlzVerif/Props/C01.lean",
    "extract": ["c01"],
    "harness": "e2ebuild",
    "harness_args": ["-mode", "c01"],
    "driver": "Driver/E2EBuild.lean",
    "needs_plz": True,
    "level": "proof",
    "level_text": "C01_main_if_injective: for every history (builds of arbitrary intermediate repository states, arbitrary removals from plz-out), "
                  "every deterministic action semantics and every well-formed dependency-ordered target list, an incremental build gives "
                  "each requested target and dependency exactly its clean-build output — CONDITIONAL on injectivity of the rule and path "
                  "pre-images (the statements of C08/C09). Witnesses (kernel-checked, replayed on the real binary, known findings) show "
                  "both hypotheses fail for the pre-images as coded: directory entry names (C01_witness), permission bits "
                  "(C01_witness_mode_not_hashed), lingering optional outputs (C01_witness_optional_output_lingers), unframed rule "
                  "pre-image (C01_witness_rule_preimage_not_injective). Model instantiated with facts regenerated from "
                  "needsBuilding/moveOutput/sourceHash; end-to-end correspondence of output trees and executed-action sets with the real plz.",
    "technique": "Lean 4 invariant proof over build histories (refinement to clean build) + regenerated facts + end-to-end differential correspondence with plz",
    "trusted": [
        "go/ast extractor harness/extract/c01 (needsBuilding comparisons, moveOutput keep-old branch, sourceHash writes, xattr layout)",
        "correspondence harness/cmd/e2ebuild (-mode c01) vs Driver/E2EBuild.lean: generated edit histories, real plz build after every step, "
        "output trees + executed-action sets compared; direct oracle = clean build of the same sources in a fresh directory",
        "modelled, not verified: Model/Build.lean transcribes buildTarget/needsBuilding/moveOutput for local genrule-style targets; "
        "commands are abstract deterministic functions; digests idealised as identity on pre-images",
        "out of model: remote execution, subrepos, post-build functions, stamping, filegroups, secrets, config changes",
    ],
    "assumptions": ["SHA-1 modelled as injective on pre-images", "actions are deterministic functions of their declared inputs",
                    "scratch filesystem supports user xattrs (plz falls back to files otherwise)"],
    "harness_timeout": 1500,
}
MUTATIONS = """
needsBuilding: stop comparing the source hash        -> C01_facts_ok fails + e2e oracle: stale output (class incremental-differs-from-clean)
moveOutput: always keep old output when it exists    -> correspondence + oracle
"""
