CLAIMED = True
SPEC = {
    "id": "C16",
    "props": "PlzVerif/Props/C16.lean",
    "extract": ["c16", "c18"],
    "harness": "c16",
    "driver": "Driver/C16.lean",
    "needs_plz": False,
    "level": "proof",
    "level_text": (
        "Partial, with the full statement refuted by witnesses. Proved for all inputs: the transcription of "
        "interpretOps evaluates exactly the tree aspGroup for any state and any operand evaluator (side effects included) "
        "provided evaluating operands does not change the truthiness of values (Stable; satisfied e.g. when operands "
        "leave the dict heap alone, stable_of_dicts_kept; necessary: C16_witness_lazy_recheck); on every chain as written "
        "- prefix '-' and 'not' hoisted the way the parser does it, of any length - that tree is the tree of the Python "
        "grammar (precedence climbing) whenever no operator swallows (C16_ops_partial_with_prefix; corollaries: at most two "
        "operators, non-increasing precedences); the class predicate 'swallows' is exact (iff the trees differ) on all chains "
        "of up to 4 binary operators and up to 3 with prefixes; the integer operators + - * // % give Python's value for ALL "
        "operands whose result fits 64 bits (C16_intop_agrees; // and % after the two repairs are floorDiv/floorMod, proved "
        "equal to Int.fdiv/Int.fmod), a zero divisor is an error on both sides; sorted/reversed (after the repair) change the "
        "heap by exactly one new array (C16_sorted_copies, C16_reversed_copies). The full statement (every program on which "
        "both evaluate renders the same globals) is refuted by six machine-checked witnesses at today's facts, one per root "
        "cause, each a listed known finding; three further root causes were repaired in /repo and their witnesses are kept "
        "as theorems about the model at the old fact values (C16_old_*). The statement / builtin layer of the two evaluators "
        "(Model/AspInterp.lean, Model/PyInterp.lean) is tied to the real interpreter and to python3 only by correspondence; "
        "sorted(key=, reverse=) is modelled in both interpreters: C16_sort_agrees - the asp model's sort (Go's insertion sort, "
        "front to back) and the reference's stable sort compute the same function for all lists and every strict weak order "
        "on the keys, also with the comparison flipped (reverse=True: tied elements keep their original order); sorting "
        "ascending and reversing afterwards is a different function (C16_reverse_after_differs, "
        "C16_witness_sorted_reverse_after at the fact sortedReverse = reverse-after). "
        "at program level: C16_program_int_partial, by structural induction over programs (Lemmas/AspIntProgram.lean) - for "
        "EVERY integer program (x = e)* with e ::= n | x | (e) | e op e, op in + - * // %, any number of statements, any "
        "nesting depth, names referring to earlier assignments, whenever the mathematical meaning is defined (literals the "
        "parser accepts, names bound, intermediate results within 64 bits, no zero divisor) both interpreters run the program "
        "and render exactly that meaning (so they do not disagree); C16_program_arith is its one-statement instance. The "
        "program-level statement for the whole modelled grammar (strings, lists, dicts, control flow, functions, "
        "comprehensions, builtins, multi-operator chains; error-class agreement) is NOT proved: it is stated in Props/C16.lean "
        "with what is missing; outside the integer fragment program-level statements are decided samples "
        "(C16_sample_complex_program: nested comprehensions + sorted + string ops) and the differential oracle."
    ),
    "technique": "Lean proofs about a transcription of interpretOps + differential three-way tie (asp, Lean asp model, Lean Python reference, python3) with repair-based classification of disagreements",
    "trusted": [
        "go/ast extractor harness/extract/c16 (Precedence() table, Lazy(), operators map, pyInt.Operator cases incl. the bodies of the helpers floorDiv/floorMod, list +, Freeze, sorted/reversed, how sorted honours reverse= (comparator flipped vs. slices.Reverse afterwards) and which sort function it calls, Constant(), interpretSlice, shape of interpretOps: comparison, recursion on ops[1:], hand-back to interpretOp)",
        "correspondence harness/cmd/c16: real asp (hook EvalForVerif, package files and subincluded files) vs Driver/C16.lean; python3 vs the Lean Python reference",
        "python3 (CPython on this machine) as the meaning of 'Python'; range/zip/enumerate/reversed/map/filter wrapped to return lists",
        "modelled, not verified: Model/AspEval.lean, AspInterp.lean (asp as it is: Go slices, constant pool, Go integer semantics), Model/PyRef.lean, PyInterp.lean (reference)",
        "classification of a disagreement: the program is re-run on the real interpreter with one root cause repaired in its text (explicit parentheses, floor-mod / floor-div helpers, copying helper, non-constant literal) or, for +=, with python3 given the rebinding form",
    ],
    "assumptions": [
        "documented subset: integers (64-bit range), strings, lists, dicts with string keys, functions, if/for, comprehensions, the builtins listed in the statement; no floats (true division '/' is compared with the model only)",
        "comparison chaining (a < b < c) is a Python form the BUILD grammar does not have and is not generated",
        "programs on which python3 raises are outside the subset; programs on which asp raises are not covered by the statement",
        "float64 conversion of NaN/Inf/out-of-range values is the amd64 one (-2^63); only relevant for the old // code path (mutation runs)",
        "string % formatting, format(), f-strings, str() of containers, min/max(key=), non-ASCII upper/lower/slices: direct oracle only where generated, not modelled",
        "sorted is modelled as the stable sort for every length (sort.SliceStable since the repair b20b4fa, pinned by the fact sortedSortFns); under the old fact value (sort.Slice) the model refuses keyed sorts of more than 12 elements",
        "dict literals are generated in sorted key order (asp dicts iterate in sorted order, Python's in insertion order)",
    ],
}

MUTATIONS = """
Dry-runs on a scratch copy (VERIF_REPO=/var/tmp/mC16, ./check C16 quick), all compile:
 M1  grammar.go  Precedence(): Add/Subtract 2 -> 3            RED  failing input a = 1 - 2 * 3 - 4 (asp -7, python -9),
                                                                   class asp-python-disagree-unexplained; C16_facts_ok fails (table order)
 M2  objects.go  pyInt Multiply: i * o -> i + o                RED  same input (asp 0); facts: intOps Multiply |-> "+"
 M3  builtins.go sorted: LessThan/GreaterThan swapped          RED  l = [3,1,2]; s = sorted(l) -> [3,2,1]; 20 model disagreements
 M4  interpreter.go interpretOps: lazy test != -> ==           RED  r = 7 and -3 - 2 (asp 7, python -5)
 M5  objects.go  pyIndex: i = l + i -> l + i + 1               RED  concrete program with a negative slice bound
 M6  objects.go  list +: slices.Clip(append(..)) -> append(..) RED  (after adding the fact listAddClips and the scenario "a sum used twice"):
                                                                   C16_facts_ok fails + 20 model disagreements; first version of the check missed it
 M9  objects.go  pyDict.Keys(): sort dropped                   RED  rendered dict order / d.keys() differ from python
 M10 objects.go  pyInt <=  ->  <                               RED  concrete program (g5 false vs true)
 M7  interpreter.go rename local nobj -> rhs in interpretOps   GREEN (harmless)
 S2  round-2 seed: builtins.go sorted always sorts ascending and calls slices.Reverse for reverse=True   first version of the check MISSED it (sorted(key=) was oracle-only and
     hardly generated); after modelling key=/reverse=, the facts sortedReverse/sortedSortFns and the sorted-key generator: RED, see the VIOLATION line in the commit message
 R5  builtins.go sorted: sort.SliceStable -> sort.Slice (re-introduces the repaired sorted-not-stable-beyond-12)   facts sortedSortFns flips, C16_facts_ok and C16_old_sort_beyond_12 fail;
     the sorted-key-long generator gives the concrete failing program (class sorted-not-stable-beyond-12, no longer known)
After the three repairs in /repo (fix: commits ec296ec, 04757e8, 95d3a82), the re-introducing mutations (scratch copies, ./check C16 quick):
 R1  objects.go  floorMod(i, o) -> i % o                       RED  VIOLATION violation-int-mod-go-sign.json (concrete program, class no longer known);
                                                                   facts intOps Modulo |-> "%", 4 theorems no longer check; model follows: 0 disagreements
 R2  objects.go  floorDiv(i, o) -> float64 detour              RED  VIOLATION violation-floordiv-float64-detour.json (big-int scenario); 5 theorems fail;
                                                                   0 disagreements: the exact float64 model (f64RoundPos) agrees with the real float code on all cases
 H1  harmless rewrites after the repairs: nobj -> rhs and a comment in interpretOps, floorMod's parameters/local renamed,
     sorted copies with slices.Clone(l)[:len(l):len(l)]                         GREEN (facts unchanged, 45/45, 0 disagreements)
 R3  builtins.go sorted/reversed: clone -> l[:]                RED  VIOLATION violation-sorted-reversed-in-place.json; 4 theorems fail; 0 disagreements
                                                                   (C17 on the same copy: RED through C17_toplevel_partial / facts, no concrete package set found at quick)
"""
