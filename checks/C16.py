CLAIMED = True
SPEC = {
    "id": "C16",
    "props": "PlzVerif/Props/C16.lean",
    "extract": ["c16", "c18"],
    "harness": "c16",
    "driver": "Driver/C16.lean",
    "needs_plz": False,
    "level": "proof",
    "level_text": (
        "Partial, with the full statement refuted by witnesses. Proved for all inputs: the transcription of "
        "interpretOps evaluates exactly the tree aspGroup (any state, operands with side effects); that tree is the "
        "tree of the Python grammar (precedence climbing) whenever no operator swallows - in particular for at most two "
        "operators and for non-increasing precedences; the integer operators + - * // % give Python's value except % on "
        "operands of different sign. The full statement (every program on which both evaluate renders the same globals) "
        "is refuted by seven machine-checked witnesses, one per root cause, each a listed known finding. The statement "
        "/ builtin layer of the two evaluators (Model/AspInterp.lean, Model/PyInterp.lean) is tied to the real "
        "interpreter and to python3 only by correspondence; no whole-program agreement theorem is claimed."
    ),
    "technique": "Lean proofs about a transcription of interpretOps + differential three-way tie (asp, Lean asp model, Lean Python reference, python3) with repair-based classification of disagreements",
    "trusted": [
        "go/ast extractor harness/extract/c16 (Precedence() table, Lazy(), operators map, pyInt.Operator cases, list +, Freeze, sorted/reversed, Constant(), interpretSlice)",
        "correspondence harness/cmd/c16: real asp (hook EvalForVerif, package files and subincluded files) vs Driver/C16.lean; python3 vs the Lean Python reference",
        "python3 (CPython on this machine) as the meaning of 'Python'; range/zip/enumerate/reversed/map/filter wrapped to return lists",
        "modelled, not verified: Model/AspEval.lean, AspInterp.lean (asp as it is: Go slices, constant pool, Go integer semantics), Model/PyRef.lean, PyInterp.lean (reference)",
        "classification of a disagreement: the program is re-run on the real interpreter with one root cause repaired in its text (explicit parentheses, floor-mod helper, copying helper, non-constant literal) or, for +=, with python3 given the rebinding form",
    ],
    "assumptions": [
        "documented subset: integers (64-bit range), strings, lists, dicts with string keys, functions, if/for, comprehensions, the builtins listed in the statement; no floats (true division '/' is compared with the model only)",
        "comparison chaining (a < b < c) is a Python form the BUILD grammar does not have and is not generated",
        "programs on which python3 raises are outside the subset; programs on which asp raises are not covered by the statement",
        "integers beyond 2^53 flowing through // (float64 detour) are outside the model",
        "string % formatting, format(), f-strings, str() of containers, sorted(key=), non-ASCII upper/lower/slices: direct oracle only where generated, not modelled",
    ],
}

MUTATIONS = """
(filled in after the dry-runs)
"""
