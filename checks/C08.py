CLAIMED = True
SPEC = {
    "id": "C08",
    "props": "PlzVerif/Props/C08.lean",
    "extract": ["c08"],
    "harness": "c08",
    "driver": "Driver/C08.lean",
    "needs_plz": True,
    "level": "proof",
    "level_text": "full-strength statement (Complete: equal rule-hash pre-images imply equal values of every listed attribute) is "
                  "DISPROVED for the pinned code by kernel-checked witnesses (C08_violated, C08_witness_*: unframed writes, "
                  "hashMap k=v, attributes never written: tools, named secrets; the names of named source groups are written since fix 3daf225: C08_partial_named_srcs). Proved instead, for the "
                  "schema regenerated from ruleHash on this run: C08_coverage (every other listed attribute is written exactly "
                  "once, unconditionally - dropping a field breaks it), C08_partial_{single,scalar,bool,list,list_edit,map,"
                  "command,file_content,sandbox,srcs} (one-attribute changes are always seen, up to equal concatenations for "
                  "lists/maps), C08_full_framed (framing every write over the same schema determines every attribute; unbounded, "
                  "via Frame.Uniq). C08_prebuild_{stamp,command,outs} "
                  "(the memoised hash every later build step uses is the hash of the target AFTER its pre-build function ran - fact "
                  "earlyRuleHashCalls = []; C08_witness_early_memo shows an earlier memoising call makes the stamp blind to set_command). "
                  "Not modelled: the construction API (Add*), post-build rule hash, remote execution digests.",
    "technique": "Lean 4 theorems over a schema-interpreting model of the rule-hash pre-image + write schema regenerated from "
                 "ruleHash/hashMap/hashBool + differential correspondence sha1(model pre-image) = build.RuleHash",
    "trusted": [
        "go/ast extractor harness/extract/c08 (write idioms of ruleHash mapped to attributes by a hand-written table; shapes of "
        "hashMap/hashBool/hashOptionalBool; which accessors sort)",
        "correspondence harness/cmd/c08 vs Driver/C08.lean: real build.RuleHash on targets built through the BuildTarget API vs "
        "SHA-1 (implemented in Lean) of the model pre-image; additionally an independent Go transcription of the pre-image is checked "
        "against the real hash and diffed with the model's bytes",
        "SHA-1 idealised as injective on pre-images",
        "modelled, not verified: Model/RuleHash.lean (accessors AllSources/DeclaredDependencies/GetCommand/... and the schema interpreter)",
        "direct oracle: targets differing in a listed attribute with equal real RuleHash, classified by an independent Go spec",
        "end-to-end oracle (plz binary): targets whose command / outputs are set by a pre_build function from a dependency's labels must "
        "show the new result after the label changed (e2e08 ops; no model counterpart)",
    ],
    "assumptions": [
        "targets are well formed as the BuildTarget Add* API leaves them (outputs sorted and distinct, map keys distinct, no self dependency)",
        "sources and tools enter the hash only through their String() form",
    ],
}
MUTATIONS = """
Dry-runs on a scratch copy (VERIF_REPO=/var/tmp/mC08 ./check C08 quick):
 M1 incrementality.go: drop the `for _, secret := range target.Secrets` loop -> exit 1: C08_facts_ok / C08_coverage and one
    partial stop checking (27/30), failing input `pair … secrets=61 ; … secrets=62` (corpus basics) reported as
    unexplained-rulehash-collision.
 M3 hashMap: write `ep + eps[ep]` (no "=") -> extractor exits 3 (hashMap shape), thorough correspondence: 22 disagreements,
    failing input (env {"k":"vw"} vs {"kv":"w"}, generator mutation env-kv-shift) -> exit 1.
 M4 drop `hashOptionalBool(h, target.Sandbox)` -> exit 1: coverage broken (27/30), failing input `pair … ; … flags=sandbox`.
 M5 harmless: rename h -> hasher2, loop variable dep -> d, move `outs := …` to the top -> exit 0 (see phase-2 log).
 M8 hashBool(h, target.IsBinary) -> hashOptionalBool(…): all 30 theorems still check (single-attribute results survive), but the
    pre-image changed: 21 disagreements against the pinned Go transcription -> exit 1, correspondence-broken no-failing-input-found.
 M9 build_target.go AllSources: `allBuildInputs(target.Sources, nil)` (named sources no longer hashed) -> facts unreadable,
    thorough correspondence + failing input (two targets differing in a named source) -> exit 1.
 M10 drop `h.Write([]byte(os.Getenv(env)))` -> facts unreadable (pass_env idiom), failing input: same target under two callers with
    a different pass_env value, same rule hash -> exit 1.
 M11 (after fix 3daf225) revert to `for _, source := range target.AllSources()` -> see the commit message of the C08 follow-up.
A reordering of the writes inside ruleHash is *not* treated as harmless: it changes every rule hash (the pinned Go transcription
used for classification no longer matches) and is reported as correspondence-broken.
"""
