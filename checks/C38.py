CLAIMED = False
SPEC = {
    "id": "C38",
    "props": "PlzVerif/Props/C38.lean",
    "extract": ["c38", "c19"],
    "harness": "c38",
    "driver": "Driver/C38.lean",
    "needs_plz": False,
    "level": "translation_validation",
    "level_text": "per program: real formatter, then real asp evaluation before/after, token streams through the proved lexer model, second pass = identity; proved (full): please's own simplify step preserves the meaning of the statement list and is idempotent; the buildtools formatter itself is not modelled",
    "technique": "translation validation of the third-party formatter + Lean proof of the subinclude-merging step",
    "trusted": [
        "go/ast extractor harness/extract/c38 (pipeline order of format(), loop shape of simplify, what subinclude() accepts) and c19 (lexer facts)",
        "correspondence harness/cmd/c38 vs Driver/C38.lean (simplify on statement lists: exhaustive short lists + random; layout-normalised token comparison of before/after through the lexer model)",
        "the evaluation oracle: asp values of all package-level names (EvalForVerifC38) and `plz query print --json` attributes of every target",
        "modelled, not verified: Model/FmtSimplify.lean transcribes simplify(); statements other than string-only subincludes are opaque",
    ],
    "assumptions": [
        "subinclude(a, b) means subinclude(a); subinclude(b) (the interpretation `exec` of the model)",
        "programs with subinclude are not evaluated in-process (they need a build); they are covered by the simplify theorems, the token comparison and the idempotence check",
    ],
}
