CLAIMED = True
SPEC = {
    "id": "C38",
    "props": "PlzVerif/Props/C38.lean",
    "extract": ["c38", "c19"],
    "harness": "c38",
    "driver": "Driver/C38.lean",
    "needs_plz": False,
    "level": "translation_validation",
    "level_text": "per program: real formatter, then real asp evaluation before/after, token streams through the proved lexer model, second pass = identity; proved (full): please's own simplify step preserves the meaning of the statement list and is idempotent; the buildtools formatter itself is not modelled",
    "technique": "translation validation of the third-party formatter + Lean proof of the subinclude-merging step",
    "trusted": [
        "go/ast extractor harness/extract/c38 (pipeline order of format(), loop shape of simplify, what subinclude() accepts) and c19 (lexer facts)",
        "correspondence harness/cmd/c38 vs Driver/C38.lean (simplify on statement lists: exhaustive short lists + random; layout-normalised token comparison of before/after through the lexer model)",
        "the evaluation oracle: asp values of all package-level names (EvalForVerifC38) and `plz query print --json` attributes of every target",
        "modelled, not verified: Model/FmtSimplify.lean transcribes simplify(); statements other than string-only subincludes are opaque",
    ],
    "assumptions": [
        "subinclude(a, b) means subinclude(a); subinclude(b) (the interpretation `exec` of the model)",
        "programs with subinclude are not evaluated in-process (they need a build); they are covered by the simplify theorems, the token comparison and the idempotence check",
    ],
}

MUTATIONS = """
Dry-runs on a scratch copy (VERIF_REPO=/var/tmp/c38dev ./check C38 quick, findings_inbox/C38.jsonl loaded):
 M1 fmt.go simplify: i := len(f.Stmt) - 2 -> - 3              RED  failing input `simp o;o;s:-;s:-` (simplify-leaves-adjacent-subincludes;
    the last pair is never merged); C38_facts_ok (loopInit) breaks too
 M2 fmt.go simplify: append(call.List, next.List...) -> append(next.List, call.List...)
                                                              RED  failing input `simp o;o;s://a:b;s://c:d,//e:f` (simplify-changes-label-sequence)
 M5 fmt.go simplify: slices.Delete(f.Stmt, i+1, i+2) -> (i, i+1)   RED  failing input `simp o;o;s://a:b;s:-` (labels lost)
 M3 fmt.go subinclude(): the *build.StringExpr test disabled  RED  failing inputs: `fmt subinclude(LABEL)\nsubinclude("//x:y", …)` is no longer
    idempotent (second pass differs), `simp o;o;o;n` (hook sees a non-string argument in a "string-only" call)
 M4 fmt.go format(): the simplify(f) call removed             RED  no failing input exists (formatting without merging still preserves meaning):
    C38_facts_ok (formatPipeline) breaks -> no-failing-input-found
 M6 harmless: locals call/next renamed to cur/nxt, the two Force* assignments swapped   GREEN (exit 0, 0 disagreements)
"""
