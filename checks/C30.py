CLAIMED = True
SPEC = {
    "id": "C30",
    "props": "PlzVerif/Props/C30.lean",
    "extract": ["c30"],
    "harness": "c30",
    "driver": "Driver/C30.lean",
    "needs_plz": False,
    "level": "proof",
    "level_text": (
        "Proof on the model (every execution of the model: zero supervisor latency, a Wait/deadline tie goes to Wait), "
        "PARTIAL: Model/Exec.lean is a transition system of the supervisor (running -> SIGTERM to the "
        "group -> 30 ms -> SIGKILL to the group -> 1 s -> return; the Wait result is received at most once) composed with an "
        "arbitrary process group (members may exit, fork, close pipes, ignore SIGTERM, setsid at any moment). Proved by an "
        "inductive invariant over all reachable states: the action is reported no later than deadline + termWait + killWait "
        "(C30_timeout_bound, = 1030 ms with the extracted durations: the sum of the two waits, a statement about the "
        "supervisor's structure), a command running past its deadline is reported as timed out (C30_overrun_is_timeout) and after a timed-out return no group member is alive "
        "nor can appear (C30_group_dead_after_timeout, resting on the extracted facts secondRoundAlways and killsGroup, each "
        "shown necessary by a negative control: C30_control_kill_round_skipped, C30_control_leader_only); the scripted runs the harness compares with the code are executions of that "
        "system (C30_script_run_is_execution), so both theorems apply to them (C30_script_timeout). The normal-exit clause is false: kernel-checked witness "
        "C30_normal_exit_witness (a child that gave up the pipes survives), partial theorem C30_normal_exit_partial. The "
        "kernel (kill(-pgid) reaches every current member, SIGKILL cannot be ignored), real time/scheduling and pipe "
        "inheritance are assumptions of the model."
    ),
    "technique": "Lean 4 inductive invariant over a supervisor x process-group transition system + regenerated "
                 "signal/timing facts + differential runs of ExecWithTimeout on generated scripts with /proc marker survivors",
    "trusted": [
        "go/ast extractor harness/extract/c30 (signal order and waits of killProcess, unconditional second round, "
        "kill(-pid), which select branch kills, Setpgid; canonical skeleton digests of killProcess, sendSignal, runCommand "
        "and ExecWithTimeout from cmd.Start() on)",
        "correspondence harness/cmd/c30 vs Driver/C30.lean (runScript): ExecWithTimeout on bash scripts whose leader and "
        "background children ignore SIGTERM / hold or give up the output pipes / exit early or never; outcome "
        "(normal|timeout) and number of marked survivors 600 ms after the return",
        "direct oracle: a timed-out action returns within deadline+1030 ms (+4 s slack, one-sided) and leaves no marked "
        "process; no action leaves a marked process after being reported finished; survivors by C30MARK in "
        "/proc/<pid>/environ (never by command line), killed by pid; a miss is re-run alone three times",
        "kernel assumptions (DESIGN 3): kill(-pgid, SIGKILL) ends every current member of the group, fork cannot escape a "
        "pending group signal, dead processes do nothing",
        "modelled, not verified: Model/Exec.lean; scheduling latency, process start-up, zombies, Pdeathsig, namespaces "
        "and the sandbox wrapper are outside it",
    ],
    "assumptions": [
        "processes that leave the process group (setsid) are outside the property's quantifier and outside the theorems",
        "cases whose leader exits exactly at the deadline are racy by construction: oracle only, no model comparison",
    ],
    "harness_timeout": 3000,
}

MUTATIONS = """
Dry-runs on scratch copies (VERIF_REPO=/var/tmp/mC30_*; ./check C30 quick, inbox findings loaded):
M1 killProcess: second round sends SIGTERM instead of SIGKILL      exit 1: signals fact differs (11/12), 5 disagreements,
                                                                   `group-member-survives-timeout` (TERM-ignoring tree alive after the return)
M2 sendSignal: syscall.Kill(-pid) -> syscall.Kill(pid)             exit 1: killsGroup fact false, 13 disagreements,
                                                                   `group-member-survives-timeout` (background children outlive the timeout)
M3 ExecCommand: Setpgid true -> false                              exit 1: setpgid fact false, 23 disagreements, `group-member-survives-timeout`
M4 killProcess: SIGKILL wait time.Second -> 10*time.Second         exit 1: killWait fact 10000 > 2000 (10/12), `timeout-reported-too-late`
                                                                   (reported ~11 s after a 0.7 s deadline; the miss reproduced on 3 re-runs alone)
H1 harmless: rename the local `success` -> `termOK`                exit 0.  (A first attempt, run at load average > 250 with 700 ms
                                                                   timeouts, exited 1: one case whose leader exits at 200 ms was reported as a
                                                                   timeout on all four attempts - bash needed > 700 ms to start.  Timeouts are
                                                                   now 2-3 s against scripted exits of at most 200 ms; re-run: exit 0.)
After the skeleton-digest facts were added (extractor-only re-check on a scratch copy): H1 still regenerates identical facts.
"""
