CLAIMED = True
SPEC = {
    "id": "C31",
    "props": "PlzVerif/Props/C31.lean",
    "extract": ["c31", "c01"],
    "harness": "c31",
    "driver": "Driver/C31.lean",
    "needs_plz": True,
    "level": "proof",
    "level_text": "PARTIAL. Proved on the model, for every interleaving (all reachable states of an inductive Step relation over "
                  "plz-out, the per-target lock table, the repo lock and the program counters of any number of processes with any "
                  "number of workers each): mutual exclusion of same-target critical sections (C31_mutex, C31_lock_held); a reader of "
                  "a dependency's outputs always sees its complete clean output although it holds no lock on it (C31_reader_sees_clean); "
                  "an output never changes once a process has finished it — later entrants find needsBuilding = false or rebuild to the "
                  "same bytes and moveOutput keeps the file (C31_output_stable, C31_second_entrant_up_to_date); no invocation ever takes "
                  "an error path (C31_never_fails); no deadlock and every execution has at most |ps|*(2+11*|targets|) steps, so all "
                  "invocations exit 0 (C31_progress, C31_bounded, C31_all_succeed); final plz-out = a single clean build of each "
                  "process's request (C31_final_eq_clean); each action runs at most once, and exactly once iff it was stale initially "
                  "(C31_runs_le_one, C31_runs_exact); what nobody asked for is untouched (C31_unrequested_untouched); the same "
                  "discipline for the test step on its own small model (C31_test_mutex, C31_test_runs_bounded, C31_test_runs_once, "
                  "C31_test_results_valid, C31_test_progress). CONDITIONAL like C01 on injective rule/path hash pre-images (C08/C09). The model "
                  "is instantiated with facts regenerated from lock.go / buildTarget / moveOutput / please.go (repo lock mode: shared; "
                  "C31_serialised_if_exclusive covers the other mode); C31_lock_needed is the kernel-checked negative control (a lock "
                  "that does not exclude makes an invocation fail). flock(2), rename(2) and the schedules of real processes are "
                  "trusted / sampled end to end (2..4 simultaneous plz build / build --rebuild / test over overlapping targets).",
    "technique": "Lean 4 inductive invariant over all interleavings of a multi-process transition system (refinement to the clean build) "
                 "+ regenerated locking facts + executable next proved equal to Step + end-to-end differential correspondence with "
                 "simultaneous real plz processes + exhaustive model-level interleaving search under the regenerated facts",
    "trusted": [
        "go/ast extractor harness/extract/c31 (position of AcquireExclusiveFileLock / deferred ReleaseFileLock relative to needsBuilding … "
        "moveOutputs … calculateAndCheckRuleHash in buildTarget; flock flags of target lock, repo lock modes and release; the two Flock "
        "calls of acquireFileLock; BuildLockFile/TestLockFile are siblings of the removed tmp dir; prepareDirectories removes TmpDir only; "
        "moveOutput = RemoveAll + os.Rename; repo lock mode per caller; the same bracket in test_step.go; --nolock is never read) and "
        "harness/extract/c01 (needsBuilding comparisons, moveOutput keep-old)",
        "correspondence harness/cmd/c31 vs Driver/C31.lean: generated repositories + histories (fresh / partly built / stale plz-out), "
        "2..4 simultaneous real plz invocations with seeded offsets and thread counts; exit statuses, output trees and per-action "
        "execution counts compared; direct oracle = all exit 0, trees equal a single clean build in a fresh directory (whole plz-out/gen "
        "when starting fresh), no overlapping executions of one action/test in the flock-protected event log, no repeated action",
        "modelled, not verified: Model/Lock.lean transcribes buildTarget's local path for genrule-style targets as atomic filesystem steps "
        "(acquire, needsBuilding, RemoveAll(tmp), action, StoreTargetMetadata, moveOutput keep | RemoveAll+Rename, xattr stamp, release); "
        "stamp computed at check time (PathHasher memo); xattr mode (stamp lives on the output file); one output per target (an output "
        "tree is one value); Model/LockTest.lean transcribes test_step.go's lock / needToRun / RemoveTestOutputs / run / cached results",
        "trusted: flock(2) excludes between open file descriptions; rename(2) is atomic; a worker's writes go to its tmp dir only",
        "out of model: the test step's own state machine (checked by the facts bracket and the end-to-end oracle only), remote execution, "
        "cache, subrepos, post-build functions, filegroups, `plz clean`/`plz update` running concurrently",
    ],
    "assumptions": ["SHA-1 modelled as injective on pre-images (C08/C09 hypotheses hR, hP)",
                    "actions are deterministic functions of their declared inputs",
                    "sources and BUILD files do not change while the invocations run",
                    "scratch filesystem supports user xattrs and flock"],
    "harness_timeout": 2400,
    "search_rounds": 1,   # one widened (thorough-tier) sweep when a proof/correspondence breaks without a failing input
    "explanation": "The --nolock flag (src/please.go:90) is declared but read nowhere (fact noLockFlagReads = 0): it cannot serve as a "
                   "negative control; the negative control is the model witness C31_lock_needed plus the mutation dry-runs.",
}
MUTATIONS = """
All on a scratch copy (VERIF_REPO=/var/tmp/mC31 ./check C31 quick), /repo untouched.  "facts" = C31_facts_ok no longer
checks; "oracle" = the direct oracle found concrete failing inputs on the real binary (replay files written).

M1 buildTarget: AcquireExclusiveFileLock + deferred release removed        -> exit 1: facts + oracle (overlapping-executions-of-one-target,
                                                                               action-ran-more-than-once (x4), concurrent-invocation-failed
                                                                               "rule //q:t2 failed to create output plz-out/tmp/…" exit 2,
                                                                               concurrent-differs-from-clean: //q:t2 missing) — exactly the
                                                                               behaviour of the kernel-checked model witness C31_lock_needed
M2 lock.go: AcquireExclusiveFileLock asks for LOCK_SH instead of LOCK_EX    -> exit 1: facts + oracle (same classes, also test-run-count-out-of-range)
M3 buildTarget: `defer core.ReleaseFileLock(file)` -> immediate release     -> exit 1: facts + oracle (same classes)
M8 lock.go acquireFileLock: blocking Flock after the LOCK_NB probe dropped  -> exit 1: facts + oracle (same classes)
M5 moveOutput: `else if bytes.Equal(old,new)` -> `else if false && bytes.Equal…` -> FIRST RESULT: NOT CAUGHT (exit 0, 37/37).  The C01 extractor still saw the
                                                                               comparison (keepOld stayed true) and no real schedule hits the
                                                                               RemoveAll..Rename window.  GAP CLOSED by (a) a deterministic
                                                                               end-to-end oracle — an output whose contents did not change across a
                                                                               par step must still be the same inode (class
                                                                               unchanged-output-was-replaced; counter same-bytes-rebuild-kept-file
                                                                               shows it is exercised), (b) fact moveOutputKeepCond (shape of the
                                                                               guard of moveOutput's early return), (c) a corpus step with forced
                                                                               rebuilds of up-to-date targets.
                                                                               SECOND RESULT: exit 1: facts (30/31) + oracle
                                                                               "//p:t2: contents unchanged, inode 3948803 -> 3948841, executed 1 times"
M9 moveOutput: bytes.Equal(oldHash, newHash) -> bytes.Equal(newHash, newHash) -> extractor level only (private VERIF_GENERATED): moveOutputKeepCond becomes
                                                                               "bytes.Equal(hashOf(param2), hashOf(param2))" != expected -> facts fail
                                                                               (locals are recorded by WHAT THEY ARE THE HASH OF, not by name)
M6 harmless: local `file` -> `buildLock`, flock mode parameter `how` ->     -> exit 0, 30/30, facts regenerated (facts record roles: recv, param<k>,
   `lockMode` everywhere in lock.go, receiver `target` -> `t` in BuildLockFile  method names — not identifiers)
M7 please.go runPlease: AcquireSharedRepoLock -> AcquireExclusiveRepoLock   -> exit 0, 37/37: invocations serialise, the property still holds
                                                                               (C31_serialised_if_exclusive); first attempt was a FALSE ALARM caused
                                                                               by two non-vacuity witnesses that depended on the regenerated repo-lock
                                                                               mode — fixed (witnesses now hold under either mode)
Lessons folded back into the machinery: a plz binary that cannot be STARTED, or does not finish within 900 s, is an
infrastructure error (harness exit 4/5), never an oracle verdict (another engineer's cleanup removed the mutated binary
in the middle of the first M1 run; load average was > 150 during validation).
"""
