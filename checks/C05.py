CLAIMED = True
SPEC = {
    "id": "C05",
    "props": "PlzVerif/Props/C05.lean",
    "extract": ["c04"],
    "harness": "c05",
    "driver": "Driver/C05.lean",
    "needs_plz": True,
    "level": "proof",
    "level_text": (
        "On the scheduler model of C04 (any graph, failures, workers, schedules): a measure strictly decreases on every "
        "state-changing step, so every execution is finite (no fairness needed); on acyclic graphs every reachable "
        "state is either final (queues closed and drained, workers done) or has an enabled program step (no deadlock), "
        "with numPending counting exactly the live tasks until Stop (C05_no_deadlock_build_phase_partial); a target whose "
        "dependency failed is never started; a failure (failed command, asyncError abort) is reported once, never lost "
        "and sets the flag the exit status is derived from. Completeness half (C05_final_complete): every maximal "
        "keep-going run (requests during the initial scan, no stop from outside, no asyncError) on an acyclic graph ends "
        "Final with the task counter at 0, sets the exit flag iff some target failed, reports every requested target exactly "
        "once - as failed/dependency-failed exactly when it failed or transitively depends on a failed target, built/cached "
        "otherwise (state Built). PARTIAL, explicitly: the parse phase - SyncParsePackage / "
        "WaitForPackage waiters, ErrMap.GetOrSet subinclude waiters, parse tasks - is NOT in the model (three of the five "
        "anchors); the hang the property is motivated by (waiter on a package whose parse failed) is excluded by no theorem; "
        "those functions are pinned as skeleton facts and exercised end to end only (syntax errors, missing packages, "
        "several waiters on one unparsable package, 60 s limit). Also outside the model: real time, the 5 s inactivity "
        "timer, the cycle detector (C06), final states of runs stopped from outside (no --keep_going, cycle check, asyncError: only 'flag set' is proved), the translation of the flag into the process exit status (toExitCode, MonitorState; end to end only)."),
    "technique": "Lean 4 termination measure + liveness invariants + induction along the dependency order; end-to-end failure injection on the real plz binary",
    "trusted": [
        "go/ast extractor harness/extract/c04 (skeletons of taskDone, Stop, asyncError, checkForCycles, queueTargetAsync, build.Build, plz.Run; parse phase: addPendingParse, LogParseResult, SyncParsePackage, WaitForPackage; output/targets.go handleOutput (the --keep_going stop site); initial numPending and queue sizes)",
        "correspondence harness/cmd/c05 vs Driver/C05.lean: real plz runs with injected exit 1, undefined dependencies, syntax errors, missing packages, cycles of length 1..4, --keep_going on/off, -n 1,2,4,16, 60 s limit; the Lean driver replays the log through the model and computes the expected exit status independently",
        "modelled, not verified: Model/Sched.lean (see C04)",
        "idealisations: wall-clock time is not modelled; plz exit status 0 vs non-zero only",
    ],
    "assumptions": ["each run starts from an empty plz-out and cache; genrule-only repositories", "a failure to parse a package (syntax error, self-dependency) fails every target of that package"],
    "harness_timeout": 6000,
}

MUTATIONS = """
Dry-runs on a scratch copy (VERIF_REPO=/var/tmp/mC04a ./check C05 quick), machine at load average 100-280:
B queueTargetAsync `t.State() > DependencyFailed` (off by one)  -> red: C05_facts_ok broken (skeleton) + did-not-terminate on a real
     run with a failing leaf below a chain (the dependent of a DependencyFailed target is queued and its build cannot proceed)
E build.Build without FinishBuild() on the failure path        -> red: facts broken + did-not-terminate x5 (every --keep_going run
     with a failing command: dependents wait forever on finishedBuilding)
S3 seeded by the coordinator: `if t.State() >= Built { continue }` at the top of the dependency wait loop (Failed and
     DependencyFailed sort above Built) -> red with concrete inputs: C05_facts_ok broken (waitLoop / waitSkip = some "Built";
     the driver's fireG then follows the code) AND on the real binary: started-after-dependency-failed on the raw log (warm
     case: trace ... warm=1 touch=0 ev=S0,S1,F1,E0,S3,E3 rc=2 - target 3 ran on the stale output of its dependency-failed
     dependency) and dependent-of-failed-target-was-run (fresh case: plz lists target 2 as failed, 'cannot calculate hash')
A (see C04) no WaitForBuild                                     -> red there
H (see C04) harmless renames + log line                         -> facts identical
"""
