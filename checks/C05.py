CLAIMED = True
SPEC = {
    "id": "C05",
    "props": "PlzVerif/Props/C05.lean",
    "extract": ["c04"],
    "harness": "c05",
    "driver": "Driver/C05.lean",
    "needs_plz": True,
    "level": "proof",
    "level_text": (
        "On the scheduler model of C04 (any graph, failures, workers, schedules): a measure strictly decreases on every "
        "state-changing step, so every execution is finite (no fairness needed); on acyclic graphs every reachable "
        "state is either final (queues closed and drained, workers done) or has an enabled program step (no deadlock), "
        "with numPending counting exactly the live tasks until Stop (C05_no_deadlock_build_phase_partial); a target whose "
        "dependency failed is never started; a failure (failed command, asyncError abort) is reported once, never lost "
        "and sets the flag the exit status is derived from. Completeness half (C05_final_complete): every maximal "
        "keep-going run (requests during the initial scan, no stop from outside, no asyncError) on an acyclic graph ends "
        "Final with the task counter at 0, sets the exit flag iff some target failed, reports every requested target exactly "
        "once - as failed/dependency-failed exactly when it failed or transitively depends on a failed target, built/cached "
        "otherwise (state Built). Liveness outside the task counting (three repaired hangs, /repo 377a4ab, ed8e9e3, 52b6f63): "
        "the model carries forwardResults' set of active targets, which arms the idle-time cycle check only while empty, and the "
        "goroutines waiting for a target in WaitForBuiltTarget (the parse of a package that subincludes it), woken through pendingTargets; "
        "how a FAILED target is treated by each (failure results clear the active set; build.Build signals the waiters; a target that has "
        "already failed is not waited for) is read from the code as facts. With those facts: on ANY graph, cycles included, keep-going or "
        "not, every reachable state is final, or has an enabled step, or has the cycle check enabled, which closes the queues and sets "
        "the exit flag (C05_no_deadlock_with_cycle_check, C05_keep_going_terminates: every maximal execution is finite and ends Final); "
        "on acyclic graphs no_deadlock covers the waiters and a maximal keep-going run leaves no goroutine waiting "
        "(C05_waiters_all_released). For each repaired defect a kernel-checked witness that under the OLD fact value the model reaches "
        "a state that only an external Stop can change (C05_old_active_set_blocks_cycle_check, C05_old_failed_subinclude_never_wakes_waiter, "
        "C05_old_waiter_after_failure_waits_for_ever) and the repaired counterpart (C05_failure_and_cycle_ends_by_cycle_check, "
        "C05_failed_subinclude_run_ends). PARTIAL, explicitly: the parse phase - SyncParsePackage / "
        "WaitForPackage waiters, ErrMap.GetOrSet subinclude waiters, parse tasks - is NOT in the model (three of the five "
        "anchors); the hang the property is motivated by (waiter on a package whose parse failed) is excluded by no theorem; "
        "(the WaitForBuiltTarget waiters ARE modelled, abstractly: one waiter per target, its parse task counted during the initial scan); "
        "those functions are pinned as skeleton facts and exercised end to end only (syntax errors, missing packages, "
        "several waiters on one unparsable package, 60 s limit). Also outside the model: real time, the 5 s inactivity "
        "timer (the cycle check may fire whenever no target is active), the cycle detector itself (C06; hypothesis: no cycle reported => acyclic), final states of runs stopped from outside (no --keep_going, cycle check, asyncError: only 'flag set' is proved), the translation of the flag into the process exit status (toExitCode, MonitorState; end to end only)."),
    "technique": "Lean 4 termination measure + liveness invariants + induction along the dependency order; end-to-end failure injection on the real plz binary",
    "trusted": [
        "go/ast extractor harness/extract/c04 (skeletons of taskDone, Stop, asyncError, checkForCycles, queueTargetAsync, build.Build, plz.Run; parse phase: addPendingParse, LogParseResult, SyncParsePackage, WaitForPackage; forwardResults (skeleton + structured: key type of the active set, guards of add/delete, arming of the cycle check), LogBuildResult / TargetFailed / WaitForBuiltTarget (skeletons + structured: who closes pendingTargets when, Build's calls after SetState(Failed), the early-return condition); output/targets.go handleOutput (the --keep_going stop site); initial numPending and queue sizes)",
        "correspondence harness/cmd/c05 vs Driver/C05.lean: real plz runs with injected exit 1, undefined dependencies, syntax errors, missing packages, cycles of length 1..4, a command failure together with a cycle elsewhere in the requested set, packages that subinclude a target that fails / whose dependency fails / that has already failed when the package is parsed (late add_dep) / that builds, --keep_going on/off, -n 1,2,4,16, 60 s limit; the Lean driver replays the log through the model and computes the expected exit status independently",
        "modelled, not verified: Model/Sched.lean (see C04)",
        "idealisations: wall-clock time is not modelled; plz exit status 0 vs non-zero only",
    ],
    "assumptions": ["each run starts from an empty plz-out and cache; genrule-only repositories", "a failure to parse a package (syntax error, self-dependency) fails every target of that package"],
    "harness_timeout": 6000,
}

MUTATIONS = """
Dry-runs on a scratch copy (VERIF_REPO=/var/tmp/mC04a ./check C05 quick), machine at load average 100-280:
B queueTargetAsync `t.State() > DependencyFailed` (off by one)  -> red: C05_facts_ok broken (skeleton) + did-not-terminate on a real
     run with a failing leaf below a chain (the dependent of a DependencyFailed target is queued and its build cannot proceed)
E build.Build without FinishBuild() on the failure path        -> red: facts broken + did-not-terminate x5 (every --keep_going run
     with a failing command: dependents wait forever on finishedBuilding)
S3 seeded by the coordinator: `if t.State() >= Built { continue }` at the top of the dependency wait loop (Failed and
     DependencyFailed sort above Built) -> red with concrete inputs: C05_facts_ok broken (waitLoop / waitSkip = some "Built";
     the driver's fireG then follows the code) AND on the real binary: started-after-dependency-failed on the raw log (warm
     case: trace ... warm=1 touch=0 ev=S0,S1,F1,E0,S3,E3 rc=2 - target 3 ran on the stale output of its dependency-failed
     dependency) and dependent-of-failed-target-was-run (fresh case: plz lists target 2 as failed, 'cannot calculate hash')
R1 pre-fix tree 2a5162f (git worktree; = reverting 377a4ab, ed8e9e3, 52b6f63): VERIF_REPO=/tmp/c05old ./check C05 quick -> red: C05_facts_ok
     broken (activeSet key:*BuildTarget / del guarded by target!=nil; no TargetFailed; return-at-once without the failed states) AND
     VIOLATION with concrete replays: did-not-terminate-failure-and-cycle, did-not-terminate-failing-subinclude,
     did-not-terminate-subinclude-of-already-failed-target (corpus/C05/fixed-*.ops and generated cases)
R2 binary with 377a4ab+ed8e9e3 only (no 52b6f63): sub-late case -> did-not-terminate-subinclude-of-already-failed-target
S5 round-2 seed: build.Build calls FinishBuild() before RemoveOutputs/SetState(Failed) on the failure path (dependants woken while the
     target is still Building pass the DependencyFailed test) -> red on the binary built from the seeded tree with the warm
     failure-with-slow-output-removal shape (first invocation leaves a 40000-file directory as the failing target's output), concrete
     input `run deps=0:;1:0;2:1 pk=0,0,0 roots=2 n=4 kg=1 fail=0:exit ... warm=1 touch=1,2 big=0`: dependent-of-failed-target-was-run
     (plz lists target 1 as failed, 'Error preparing sources ... no such file'); clean binary: S0,F0 rc=2 only. Also C05_facts_ok
     (sk_Build, wakeFacts failed-then).
A (see C04) no WaitForBuild                                     -> red there
H (see C04) harmless renames + log line                         -> facts identical
"""
