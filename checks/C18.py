CLAIMED = True
SPEC = {
    "id": "C18",
    "props": "PlzVerif/Props/C18.lean",
    "extract": ["c16", "c18"],
    "harness": "c18",
    "driver": "Driver/C18.lean",
    "needs_plz": False,
    "level": "proof",
    "level_text": (
        "Partial, with the full statement refuted by witnesses. Full statement (a program over X gives the same globals "
        "whether X is defined in the file or imported through subinclude) is refuted on the asp model by three "
        "machine-checked witnesses (== on a list and on a dict, a type switch; each states which run succeeds and with "
        "what error the other fails), each a listed known finding; the third root cause (native builtins asserting "
        "args[i].(pyList)) was repaired in /repo: its witness is kept at the old table (C18_old_builtin_asserts_pylist), "
        "the same program is transparent today, and every list builtin of the model gives the same computation on the "
        "frozen wrapper as on the plain list for all heaps and slices (C18_builtins_transparent). Proved "
        "for all states and arguments: index, in, len, iteration, + with the frozen list on the left, list * int, and the "
        "dict operations index / in / len / | (left) do not look at the frozen wrapper (pinned by the regenerated facts "
        "that pyFrozenList embeds pyList and redefines only IndexAssign / MarshalJSON); + with the frozen list on the "
        "right is the plain sum exactly when pyList.Operator has its pyFrozenList branch (regenerated fact "
        "addAcceptsFrozen, C18_add_frozen_right; without it the sum fails) and clips its RESULT like the plain branch "
        "(regenerated fact addFrozenClipsResult, read from where slices.Clip sits in that branch): then the sum has no spare "
        "capacity and every later + on it only extends the heap, so two values derived from one sum cannot overwrite each other "
        "(C18_sum_with_frozen_then_add_never_writes, all states and lists); C18_witness_unclipped_sum shows the fact is necessary "
        "(append(slices.Clip(l), …) gets growslice's capacity, modelled with the allocator's size classes); == differs from the unfrozen comparison only "
        "by the wrapper-type test; every builtin that the regenerated table marks as accepting frozen lists gets the "
        "same slice from the wrapper as from the plain list, every other one rejects it. The table itself "
        "(C18_table_today) is decided on the regenerated facts. map / filter / reduce / isinstance / % formatting are "
        "exercised by the direct oracle only. Values taken from CONFIG are not covered."
    ),
    "technique": "finite regenerated table + one lifting lemma per assertion pattern (Lean) + differential local-vs-imported runs on the real interpreter",
    "trusted": [
        "go/ast extractor harness/extract/c18 (setNativeCode table, per-function type assertions and pyFrozenList mentions, implementation of ==, the pyFrozenList branch of list + and what each branch of Add returns (position of slices.Clip), the embedding and own methods of pyFrozenList)",
        "correspondence harness/cmd/c18 (asplib/c18.go): every application on locally defined and really subincluded values vs Driver/C18.lean",
        "modelled, not verified: Model/AspInterp.lean (builtins, asListFor, deepEq, sliceOp, unpack)",
        "class of a difference = the mechanism of the application that was run (named in the op line)",
    ],
    "assumptions": [
        "frozen values are produced by subinclude (scope.Freeze); CONFIG values are not exercised",
        "applications are the fixed list in asplib/c18.go (the operations named in the property plus slices, unpacking, *, |, isinstance, % formatting, str, join, dict methods), each on several generated values (exhaustive over the list)",
    ],
}

MUTATIONS = """
Dry-runs on a scratch copy (VERIF_REPO=/var/tmp/mC16, ./check C18 quick), all compile:
 M1  builtins.go lenFunc rejects pyFrozenList            application "len" differs -> class frozen-value-behaves-differently-unexplained
 M2  builtins.go asStringList no longer unwraps          application "join" differs -> unexplained; table row of join changes (C18_table_today)
 M3  objects.go  list + : pyFrozenList operand branch removed   application "add-left" differs -> unexplained
 M4  builtins.go enumerate: locals renamed, assertion split   GREEN (harmless; the extractor records asserted types, not names)
 M5  builtins.go any() unwraps pyFrozenList (a fix)      RED as designed: C18_table_today no longer checks; C18_builtins_lifted covers `any` from then on
(results in the batch log; see final report)
Results of M1-M3: concrete VIOLATION (class frozen-value-behaves-differently-unexplained); M4 green.
After the repair b818e89 (list builtins go through asList):
 R4  builtins.go sorted: asList(args[0]) -> args[0].(pyList)   RED  4 theorems no longer check (C18_table_today, C18_builtins_transparent, C18_fixed_builtin_sample, ...),
                                                                   table row of sorted flips; 32 oracle failures of class native-builtin-asserts-pylist, which are reported as a
                                                                   concrete failing input as soon as known_findings.json lists the class as fixed (at the time of the run it was still "known")
 S3  round-3 seed: objects.go list + with a pyFrozenList operand: slices.Clip(append(l, …)) -> append(slices.Clip(l), …)   first version MISSED it (no single application shows anything);
     after the two-derived applications (x = L + X; y = x + [a]; z = x + [b]; look at y; also +=, *), the fact addFrozenClipsResult and the growslice model: RED, see commit message
"""
