// C16 harness: the BUILD language (asp) against python3 on its documented subset.
//
// Three ties per generated program:
//
//	asp b|d <prog>   real interpreter (package file | subincluded .build_defs file)  vs  Lean asp model
//	py <prog>        python3                                                           vs  Lean Python reference
//	direct oracle    real interpreter vs python3 on the same text; a disagreement is classified by repairing one
//	                 root cause at a time in the program text and re-running the real code.
package asplib

import (
	"os"
	"regexp"
	"sort"
	"strings"

	"verif/harness/lib"
)

var hugeInt = regexp.MustCompile(`[0-9]{16,}`)
var beyondInt64 = regexp.MustCompile(`[0-9]{19,}`)

type repair struct {
	key     string
	class   string
	pySide  bool // the rewriting is applied to the python3 text only (otherwise to the asp text only)
	both    bool // … or to both texts
	apply   func(o *PrintOpts)
	present func(f *features) bool // class predicate: can the program exhibit this root cause at all?
}

var repairs = []repair{
	{"G", "ops-right-operand-swallows-rest", false, false, func(o *PrintOpts) { o.TreeSwallow = true }, func(f *features) bool { return f.swallow }},
	{"L", "lazy-operator-rechecks-truthiness", false, false, func(o *PrintOpts) { o.TreeLazy = true }, func(f *features) bool { return f.lazyTight }},
	{"M", "int-mod-go-sign", false, false, func(o *PrintOpts) { o.Mod = true }, func(f *features) bool { return f.mods > 0 }},
	{"D", "floordiv-float64-detour", false, false, func(o *PrintOpts) { o.FloorDiv = true }, func(f *features) bool { return f.fdivs > 0 }},
	{"A", "list-add-appends-in-place", false, false, func(o *PrintOpts) { o.AddCopy = true }, func(f *features) bool { return f.adds > 0 || f.augs > 0 }},
	{"S", "slice-shares-backing-array", false, false, func(o *PrintOpts) { o.SliceCopy = true }, func(f *features) bool { return f.slices > 0 }},
	{"SR", "sorted-reversed-in-place", false, false, func(o *PrintOpts) { o.SortCopy = true }, func(f *features) bool { return f.sorts > 0 }},
	{"ST", "sorted-tie-order", false, false, func(o *PrintOpts) { o.StableSort = true }, func(f *features) bool { return f.keySorts > 0 && f.maxLit <= 12 }},
	{"STL", "sorted-not-stable-beyond-12", false, false, func(o *PrintOpts) { o.StableSort = true }, func(f *features) bool { return f.keySorts > 0 && f.maxLit > 12 }},
	{"K", "constant-list-literal-shared", false, false, func(o *PrintOpts) { o.ConstFresh = true }, func(f *features) bool { return f.constLists > 0 }},
	{"R", "augassign-rebinds-list", true, false, func(o *PrintOpts) { o.AugRebind = true }, func(f *features) bool { return f.augs > 0 || f.appends > 0 }},
	{"U", "str-case-mapping-single-rune", false, true, func(o *PrintOpts) { o.FoldCase = true }, func(f *features) bool { return f.sharpS && f.caseCalls > 0 }},
}

type harness struct {
	r     *lib.Run
	asp   *AspRunner
	py    *PyRunner
	pyMem map[string]string
}

func (h *harness) runAsp(mode, src string) string {
	if mode == "d" {
		return h.asp.Defs(src)
	}
	return h.asp.Build(src)
}

func (h *harness) runPy(src string) string {
	if v, ok := h.pyMem[src]; ok {
		return v
	}
	v := h.py.Run(src)
	if len(h.pyMem) > 20000 {
		h.pyMem = map[string]string{}
	}
	h.pyMem[src] = v
	return v
}

func usesTrueDiv(p []*S) bool {
	found := false
	var we func(e *E)
	we = func(e *E) {
		if e == nil {
			return
		}
		for _, o := range e.Ops {
			if o.Op == "/" {
				found = true
			}
			we(o.E)
		}
		for _, a := range e.A {
			we(a)
		}
	}
	var ws func(ss []*S)
	ws = func(ss []*S) {
		for _, s := range ss {
			for _, e := range s.E {
				we(e)
			}
			for _, c := range s.Conds {
				we(c)
			}
			ws(s.Body)
			for _, b := range s.Blocks {
				ws(b)
			}
		}
	}
	ws(p)
	return found
}

// agrees runs the program with the given set of repairs on both sides and compares.
func (h *harness) agrees(prog []*S, mode string, set map[string]bool) bool {
	ok, _ := h.agreesOut(prog, mode, set)
	return ok
}

// agreesOut also returns what the real interpreter printed for the repaired text.
func (h *harness) agreesOut(prog []*S, mode string, set map[string]bool) (bool, string) {
	var ao, po PrintOpts
	for _, rp := range repairs {
		if set[rp.key] {
			if rp.pySide || rp.both {
				rp.apply(&po)
			}
			if !rp.pySide || rp.both {
				rp.apply(&ao)
			}
		}
	}
	a := h.runAsp(mode, Print(prog, ao))
	if a == "ERR" {
		return false, a
	}
	return a == h.runPy(Print(prog, po)), a
}

// classify attributes a disagreement to root causes: first a single repair, then the minimal subset of all.
func (h *harness) classify(prog []*S, mode string, f *features, aspOut string) []string {
	var cands []repair
	for _, rp := range repairs {
		if rp.present(f) {
			cands = append(cands, rp)
		}
	}
	var failing []repair
	unchanged := 0
	for _, rp := range cands {
		ok, out := h.agreesOut(prog, mode, map[string]bool{rp.key: true})
		if ok {
			return []string{rp.class}
		}
		if out == "ERR" && !rp.pySide {
			failing = append(failing, rp)
		} else if out == aspOut {
			unchanged++
		}
	}
	// the repaired program leaves the part of the language the interpreter can evaluate (e.g. a slice a[2:-2]
	// of a short list) and no other repair has any effect: the one repair that changes the outcome is the cause
	if len(failing) == 1 && unchanged == len(cands)-1 {
		return []string{failing[0].class}
	}
	all := map[string]bool{}
	for _, rp := range cands {
		all[rp.key] = true
	}
	if len(cands) < 2 || !h.agrees(prog, mode, all) {
		return []string{"asp-python-disagree-unexplained"}
	}
	for _, rp := range cands {
		delete(all, rp.key)
		if !h.agrees(prog, mode, all) {
			all[rp.key] = true
		}
	}
	var out []string
	for _, rp := range cands {
		if all[rp.key] {
			out = append(out, rp.class)
		}
	}
	sort.Strings(out)
	return out
}

// runOp handles one op line (generated or replayed).
func (h *harness) runOp(op string) {
	r := h.r
	f := strings.SplitN(op, " ", 3)
	switch {
	case len(f) == 3 && f[0] == "aspo" && (f[1] == "b" || f[1] == "d"):
		// oracle only: a program outside the modelled core (non-ASCII text); nothing is sent to the Lean driver
		prog, ok := DecodeProg(f[2])
		if !ok {
			return
		}
		src := Print(prog, PrintOpts{})
		h.oracle(op, prog, f[1], src, h.runAsp(f[1], src), featuresOf(prog))
	case len(f) == 3 && f[0] == "asp" && (f[1] == "b" || f[1] == "d"):
		prog, ok := DecodeProg(f[2])
		if !ok {
			r.Emit(op, "bad-op", false)
			return
		}
		mode := f[1]
		src := Print(prog, PrintOpts{})
		out := h.runAsp(mode, src)
		ft := featuresOf(prog)
		if hugeInt.MatchString(out) {
			r.Count("outcome:int-beyond-2^53")
		}
		r.Emit(op, out, out != "ERR" && ft.size >= 8)
		h.oracle(op, prog, mode, src, out, ft)
	case len(f) == 2 && f[0] == "py" || len(f) == 3 && f[0] == "py":
		rest := strings.TrimPrefix(op, "py ")
		prog, ok := DecodeProg(rest)
		if !ok {
			r.Emit(op, "bad-op", false)
			return
		}
		out := h.runPy(Print(prog, PrintOpts{}))
		r.Emit(op, out, out != "ERR" && featuresOf(prog).size >= 8)
	default:
		r.Emit(op, "bad-op", false)
	}
}

// oracle: the property itself on the real code — if asp evaluates the program, python3 must give the same values.
func (h *harness) oracle(op string, prog []*S, mode, src, aspOut string, ft *features) {
	r := h.r
	if aspOut == "ERR" {
		r.Count("outcome:asp-error")
		return
	}
	if usesTrueDiv(prog) {
		r.Count("outcome:true-division-not-compared")
		return
	}
	pyOut := h.runPy(src)
	if strings.HasPrefix(pyOut, "ERR") {
		r.Count("outcome:python-error")
		return
	}
	if aspOut == pyOut {
		r.Count("outcome:agree")
		return
	}
	if beyondInt64.MatchString(pyOut) {
		// "all integers are 64-bit signed integers" (docs/language.html): Python's unbounded result is outside
		// the documented subset
		r.Count("outcome:python-int-beyond-64-bit")
		return
	}
	r.Count("outcome:disagree")
	for _, cls := range h.classify(prog, mode, ft, aspOut) {
		r.OracleFail(cls, op, "asp="+aspOut+" python3="+pyOut+" source="+strings.ReplaceAll(src, "\n", "\\n"))
	}
}

func (h *harness) count(kind string, ft *features) {
	r := h.r
	r.Count("gen:" + kind)
	if ft.swallow {
		r.Count("feature:chain-swallows")
	}
	if ft.maxChain >= 3 {
		r.Count("feature:chain>=3ops")
	}
	if ft.mods > 0 {
		r.Count("feature:mod")
	}
	if ft.unary > 0 {
		r.Count("feature:prefix-op")
	}
	if ft.lazy > 0 {
		r.Count("feature:and-or")
	}
	if ft.slices > 0 {
		r.Count("feature:slice")
	}
	if ft.sorts > 0 {
		r.Count("feature:sorted-reversed")
	}
	if ft.defs > 0 {
		r.Count("feature:def")
	}
	if ft.comps > 0 {
		r.Count("feature:comprehension")
	}
	if ft.idxAssigns > 0 {
		r.Count("feature:index-assign")
	}
	if ft.augs > 0 {
		r.Count("feature:aug-assign")
	}
	if ft.constLists > 0 {
		r.Count("feature:const-list")
	}
	if ft.nonASCII {
		r.Count("feature:non-ascii")
	}
}

// program sends one generated program through all ties.
func (h *harness) program(kind string, prog []*S, modes string, model bool) {
	prog = Normalize(prog)
	ft := featuresOf(prog)
	h.count(kind, ft)
	sx := ProgSexp(prog)
	if !model {
		// oracle only: outside the modelled core (non-ASCII text, …)
		src := Print(prog, PrintOpts{})
		for _, m := range modes {
			out := h.runAsp(string(m), src)
			h.oracle("aspo "+string(m)+" "+sx, prog, string(m), src, out, ft)
		}
		return
	}
	for _, m := range modes {
		h.runOp("asp " + string(m) + " " + sx)
	}
	if !usesTrueDiv(prog) {
		h.runOp("py " + sx)
	}
}

func MainC16() {
	r := lib.Start()
	defer r.Finish()
	reseed(r)
	r.Rule = "asp evaluated the program without error and the program has at least 8 syntax nodes; distinct by op line"
	scratch := os.Getenv("VERIF_SCRATCH")
	if scratch == "" {
		scratch = r.OutDir
	}
	h := &harness{r: r, asp: NewAspRunner(scratch), py: NewPyRunner(scratch), pyMem: map[string]string{}}
	defer h.py.Close()
	if ops := r.ReplayOps(); ops != nil {
		for _, op := range ops {
			h.runOp(op)
		}
		return
	}

	// 1. exhaustive operator sequences over a representative operator set (fixed operands)
	opset := []string{"+", "-", "*", "%", "//", "<", "==", "and", "or"}
	for n := 1; n <= r.N(3, 4); n++ {
		exhaustiveChains(opset, n, func(p []*S) { h.program("chain-exhaustive", p, "b", true) })
	}
	r.Exhaust = true

	// 2. random programs
	for i := 0; i < r.N(450, 8000); i++ {
		g := NewG(r.Rng)
		g.div = r.Rng.Chance(10)
		h.program("chain-random", g.ChainProgram(), "bd", true)
	}
	for i := 0; i < r.N(450, 6000); i++ {
		g := NewG(r.Rng)
		h.program("scenario", g.Scenario(i%nScenarios), "bd", true)
	}
	for i := 0; i < r.N(600, 10000); i++ {
		g := NewG(r.Rng)
		h.program("program", g.Program(), "bd", true)
	}
	// sorted(key=…, reverse=…) over lists with tied keys, short and long (sort.Slice, which sorted used to call, is stable
	// only up to 12 elements: repaired finding sorted-not-stable-beyond-12)
	for i := 0; i < r.N(300, 3000); i++ {
		g := NewG(r.Rng)
		h.program("sorted-key", g.SortedKeyProgram(false), "bd", true)
	}
	for i := 0; i < r.N(40, 500); i++ {
		g := NewG(r.Rng)
		h.program("sorted-key-long", g.SortedKeyProgram(true), "bd", true)
	}
	// 3. outside the modelled core: non-ASCII text (oracle only)
	for i := 0; i < r.N(100, 2500); i++ {
		g := NewG(r.Rng)
		g.ascii = false
		h.program("program-nonascii", g.Program(), "bd", false)
	}
}
