// C18 harness: a value used where it was defined against the same value imported through subinclude (frozen).
//
// Op line:   fz ( pair <value-expr> ( prog <statements over X> ) )
// Output:    local=<globals|ERR>|imported=<globals|ERR>
//
//	local:     X = <value>; <statements>                         in one package file
//	imported:  X = <value> in a .build_defs file; the package subincludes it and runs <statements>
package asplib

import (
	"fmt"
	"os"
	"strings"

	"verif/harness/lib"
)

const c18Label = "//fz:d"

type c18App struct {
	name    string
	class   string // root cause when the imported run differs from the local one ("" = must not differ)
	model   bool   // within the modelled core
	kinds   string // which value kinds it applies to: l (int list) s (str list) n (nested) p (pair list) d (dict) e (dict of lists)
	build   func(g *G, x *E) []*S
	needsFn bool
}

const (
	clsEq      = "eq-deepequal-frozen-type"
	clsBuiltin = "native-builtin-asserts-pylist"
	clsSwitch  = "type-switch-misses-frozen-wrapper"
)

func r1(e *E) []*S { return []*S{Asg("r", e)} }

var c18Apps = []c18App{
	// the operations named by the property
	{name: "eq-literal", class: clsEq, model: true, kinds: "lsnpde", build: nil}, // filled in by valueApps (needs the literal)
	{name: "ne-literal", class: clsEq, model: true, kinds: "lsnpde", build: nil},
	{name: "eq-self", class: "", model: true, kinds: "lsnpde", build: func(g *G, x *E) []*S { return r1(Bin(x, "==", x)) }},
	{name: "len", class: "", model: true, kinds: "lsnpde", build: func(g *G, x *E) []*S { return r1(Call("len", x)) }},
	{name: "in", class: "", model: true, kinds: "l", build: func(g *G, x *E) []*S { return r1(Bin(I(2), "in", x)) }},
	{name: "not-in", class: "", model: true, kinds: "l", build: func(g *G, x *E) []*S { return r1(Bin(I(77), "notin", x)) }},
	{name: "in-str", class: "", model: true, kinds: "sd", build: func(g *G, x *E) []*S { return r1(Bin(Str("a"), "in", x)) }},
	{name: "add-right", class: "", model: true, kinds: "l", build: func(g *G, x *E) []*S { return r1(Bin(x, "+", g.L(I(9)))) }},
	{name: "add-left", class: "", model: true, kinds: "l", build: func(g *G, x *E) []*S { return r1(Bin(g.L(I(9)), "+", x)) }},
	{name: "add-self", class: "", model: true, kinds: "ls", build: func(g *G, x *E) []*S { return r1(Bin(x, "+", x)) }},
	// two values derived from one intermediate sum, then a look at the first: spare capacity behind the sum would let
	// the second derivation overwrite the first.  A plain left operand longer than X (4..9 against 2..4 elements).
	{name: "add-left-two-derived", class: "", model: true, kinds: "ls", build: func(g *G, x *E) []*S {
		return []*S{Asg("x", Bin(g.ints(4+g.r.Intn(6)), "+", x)), Asg("y", Bin(Nm("x"), "+", g.L(I(101)))), Asg("z", Bin(Nm("x"), "+", g.L(I(202)))), Asg("r", Nm("y"))}
	}},
	{name: "augadd-two-derived", class: "", model: true, kinds: "ls", build: func(g *G, x *E) []*S {
		return []*S{Asg("x", g.ints(4 + g.r.Intn(6))), Aug("x", x), Asg("y", Bin(Nm("x"), "+", g.L(I(101)))), Asg("z", Bin(Nm("x"), "+", g.L(I(202)))), Asg("r", Nm("y"))}
	}},
	{name: "add-left-mul-two-derived", class: "", model: true, kinds: "ls", build: func(g *G, x *E) []*S {
		return []*S{Asg("x", Bin(g.ints(4+g.r.Intn(6)), "+", x)), Asg("w", Bin(Nm("x"), "*", I(2))), Asg("y", Bin(Nm("x"), "+", g.L(I(101), I(102)))), Asg("z", Bin(Nm("x"), "+", g.L(I(202)))), Asg("r", Nm("y"))}
	}},
	{name: "add-left-aug-derived", class: "", model: true, kinds: "ls", build: func(g *G, x *E) []*S {
		return []*S{Asg("x", Bin(g.ints(4+g.r.Intn(6)), "+", x)), Asg("y", Nm("x")), Aug("y", g.L(I(101))), Asg("z", Bin(Nm("x"), "+", g.L(I(202)))), Asg("r", Nm("y"))}
	}},
	{name: "add-left-short-two-derived", class: "", model: true, kinds: "ls", build: func(g *G, x *E) []*S {
		return []*S{Asg("x", Bin(g.ints(1+g.r.Intn(3)), "+", x)), Asg("y", Bin(Nm("x"), "+", g.L(I(101)))), Asg("z", Bin(Nm("x"), "+", g.L(I(202)))), Asg("r", Nm("y"))}
	}},
	{name: "add-right-two-derived", class: "", model: true, kinds: "ls", build: func(g *G, x *E) []*S {
		return []*S{Asg("x", Bin(x, "+", g.ints(4+g.r.Intn(6)))), Asg("y", Bin(Nm("x"), "+", g.L(I(101)))), Asg("z", Bin(Nm("x"), "+", g.L(I(202)))), Asg("r", Nm("y"))}
	}},
	{name: "sorted", class: clsBuiltin, model: true, kinds: "ls", build: func(g *G, x *E) []*S { return r1(Call("sorted", x)) }},
	{name: "sorted-reverse", class: clsBuiltin, model: true, kinds: "ls", build: func(g *G, x *E) []*S {
		return r1(CallKw("sorted", []*E{x, Tr()}, []string{"", "reverse"}))
	}},
	{name: "reversed", class: clsBuiltin, model: true, kinds: "lsnp", build: func(g *G, x *E) []*S { return r1(Call("reversed", x)) }},
	{name: "enumerate", class: clsBuiltin, model: true, kinds: "lsn", build: func(g *G, x *E) []*S { return r1(Call("enumerate", x)) }},
	{name: "any", class: clsBuiltin, model: true, kinds: "lsn", build: func(g *G, x *E) []*S { return r1(Call("any", x)) }},
	{name: "all", class: clsBuiltin, model: true, kinds: "lsn", build: func(g *G, x *E) []*S { return r1(Call("all", x)) }},
	{name: "zip-self", class: clsBuiltin, model: true, kinds: "ls", build: func(g *G, x *E) []*S { return r1(Call("zip", x, x)) }},
	{name: "zip-local", class: clsBuiltin, model: true, kinds: "ls", build: func(g *G, x *E) []*S {
		return []*S{Asg("o", g.Comp(Nm("e"), []string{"e"}, x, nil)), Asg("r", Call("zip", Nm("o"), x))}
	}},
	{name: "min", class: clsBuiltin, model: true, kinds: "ls", build: func(g *G, x *E) []*S { return r1(Call("min", x)) }},
	{name: "max", class: clsBuiltin, model: true, kinds: "ls", build: func(g *G, x *E) []*S { return r1(Call("max", x)) }},
	{name: "map", class: clsBuiltin, kinds: "l", build: func(g *G, x *E) []*S {
		return r1(Call("map", Lam([]string{"e"}, Bin(Nm("e"), "*", I(2))), x))
	}},
	{name: "filter", class: clsBuiltin, kinds: "l", build: func(g *G, x *E) []*S {
		return r1(Call("filter", Lam([]string{"e"}, Bin(Nm("e"), ">", I(1))), x))
	}},
	{name: "reduce", class: clsBuiltin, kinds: "l", build: func(g *G, x *E) []*S {
		return r1(Call("reduce", Lam([]string{"a", "b"}, Bin(Nm("a"), "+", Nm("b"))), x))
	}},
	// further uses of a list or dict
	{name: "index", class: "", model: true, kinds: "lsnp", build: func(g *G, x *E) []*S { return r1(Idx(x, I(0))) }},
	{name: "index-neg", class: "", model: true, kinds: "ls", build: func(g *G, x *E) []*S { return r1(Idx(x, I(-1))) }},
	{name: "slice", class: clsSwitch, model: true, kinds: "lsn", build: func(g *G, x *E) []*S { return r1(Sl(x, I(0), I(1))) }},
	{name: "slice-open", class: clsSwitch, model: true, kinds: "ls", build: func(g *G, x *E) []*S { return r1(Sl(x, I(1), nil)) }},
	{name: "for", class: "", model: true, kinds: "ls", build: func(g *G, x *E) []*S {
		return []*S{Asg("r", g.L()), For([]string{"e"}, x, Aug("r", g.L(Nm("e"))))}
	}},
	{name: "for-unpack", class: "", model: true, kinds: "p", build: func(g *G, x *E) []*S {
		return []*S{Asg("r", g.L()), For([]string{"a", "b"}, x, Aug("r", g.L(Nm("b"), Nm("a"))))}
	}},
	{name: "comprehension", class: "", model: true, kinds: "lsn", build: func(g *G, x *E) []*S {
		return r1(g.Comp(Nm("e"), []string{"e"}, x, nil))
	}},
	{name: "comprehension-unpack", class: "", model: true, kinds: "p", build: func(g *G, x *E) []*S {
		return r1(g.Comp(Nm("b"), []string{"a", "b"}, x, nil))
	}},
	{name: "unpack", class: clsSwitch, model: true, kinds: "p", build: func(g *G, x *E) []*S {
		return []*S{{K: "un", Xs: []string{"r", "q"}, E: []*E{Idx(x, I(0))}}, {K: "un", Xs: []string{"u", "w"}, E: []*E{x}}}
	}},
	{name: "mul-right", class: "", model: true, kinds: "l", build: func(g *G, x *E) []*S { return r1(Bin(x, "*", I(2))) }},
	{name: "mul-left", class: clsSwitch, model: true, kinds: "l", build: func(g *G, x *E) []*S { return r1(Bin(I(2), "*", x)) }},
	{name: "sorted-list-of", class: clsSwitch, model: true, kinds: "l", build: func(g *G, x *E) []*S {
		return r1(Call("sorted", g.L(g.L(I(99)), x)))
	}},
	{name: "join", class: "", model: true, kinds: "s", build: func(g *G, x *E) []*S { return r1(Meth(Str(","), "join", x)) }},
	{name: "truth", class: "", model: true, kinds: "lsde", build: func(g *G, x *E) []*S {
		return []*S{Asg("r", Call("bool", x)), Asg("q", If(I(1), x, I(2))), Asg("w", Bin(x, "or", I(5)))}
	}},
	{name: "isinstance-list", class: clsSwitch, kinds: "ls", build: func(g *G, x *E) []*S { return r1(Call("isinstance", x, Nm("list"))) }},
	{name: "isinstance-dict", class: clsSwitch, kinds: "de", build: func(g *G, x *E) []*S { return r1(Call("isinstance", x, Nm("dict"))) }},
	{name: "str", class: "", kinds: "lsd", build: func(g *G, x *E) []*S { return r1(Call("str", x)) }},
	{name: "percent", class: clsSwitch, kinds: "s", build: func(g *G, x *E) []*S { return r1(Bin(Str("%s-%s"), "%", Sl(x, nil, nil))) }},
	{name: "percent-list", class: clsSwitch, kinds: "s", build: func(g *G, x *E) []*S { return r1(Bin(Str("%s"), "%", x)) }},
	// dicts
	{name: "dict-index", class: "", model: true, kinds: "de", build: func(g *G, x *E) []*S { return r1(Idx(x, Str("a"))) }},
	{name: "dict-get", class: "", model: true, kinds: "de", build: func(g *G, x *E) []*S {
		return []*S{Asg("r", Meth(x, "get", Str("a"))), Asg("q", Meth(x, "get", Str("zz"), I(0)))}
	}},
	{name: "dict-keys", class: "", model: true, kinds: "de", build: func(g *G, x *E) []*S { return r1(Meth(x, "keys")) }},
	{name: "dict-values", class: "", model: true, kinds: "d", build: func(g *G, x *E) []*S { return r1(Meth(x, "values")) }},
	{name: "dict-items", class: "", model: true, kinds: "d", build: func(g *G, x *E) []*S { return r1(Meth(x, "items")) }},
	{name: "dict-items-loop", class: "", model: true, kinds: "d", build: func(g *G, x *E) []*S {
		return []*S{Asg("r", g.L()), For([]string{"k", "v"}, Meth(x, "items"), Aug("r", g.L(Nm("k"))))}
	}},
	{name: "dict-copy", class: "", model: true, kinds: "de", build: func(g *G, x *E) []*S {
		return []*S{Asg("r", Meth(x, "copy")), IdxAsg("r", Str("n"), I(1))}
	}},
	{name: "dict-union-left", class: "", model: true, kinds: "d", build: func(g *G, x *E) []*S { return r1(Bin(x, "|", Dict(Str("z"), I(1)))) }},
	{name: "dict-union-right", class: clsSwitch, model: true, kinds: "d", build: func(g *G, x *E) []*S { return r1(Bin(Dict(Str("z"), I(1)), "|", x)) }},
	{name: "dict-value-sorted", class: clsBuiltin, model: true, kinds: "e", build: func(g *G, x *E) []*S { return r1(Call("sorted", Idx(x, Str("a")))) }},
	{name: "dict-value-eq", class: clsEq, model: true, kinds: "e", build: nil},
	{name: "nested-inner-eq", class: "", model: true, kinds: "n", build: nil},
	{name: "nested-inner-sorted", class: "", model: true, kinds: "n", build: func(g *G, x *E) []*S { return r1(Call("sorted", Idx(x, I(0)))) }},
}

type c18 struct {
	r   *lib.Run
	asp *AspRunner
	seq int
}

// value builds a literal of the given kind; the same tree is used for the definition and (copied) for comparisons.
func c18Value(g *G, kind byte) func() *E {
	r := g.r
	n := 2 + r.Intn(3)
	ints := make([]int, n)
	for i := range ints {
		ints[i] = r.Intn(9)
	}
	ws := []string{"a", "b", "src", "x.go", "lib"}
	lib.Shuffle(r, ws)
	li := func(vals []int) func() *E {
		return func() *E {
			es := make([]*E, len(vals))
			for i, v := range vals {
				es[i] = I(v)
			}
			return g.L(es...)
		}
	}
	switch kind {
	case 'l':
		return li(ints)
	case 's':
		return func() *E {
			es := make([]*E, n)
			for i := range es {
				es[i] = Str(ws[i%len(ws)])
			}
			return g.L(es...)
		}
	case 'n':
		return func() *E { return g.L(li(ints)(), li(ints[:1])()) }
	case 'p':
		return func() *E { return g.L(g.L(I(ints[0]), Str(ws[0])), g.L(I(ints[1]), Str(ws[1]))) }
	case 'd':
		return func() *E { return Dict(Str("a"), I(ints[0]), Str("b"), I(ints[1])) }
	default:
		return func() *E { return Dict(Str("a"), li(ints)(), Str("b"), li(ints[:1])()) }
	}
}

func (app *c18App) stmts(g *G, mk func() *E, kind byte) []*S {
	x := Nm("X")
	switch app.name {
	case "eq-literal":
		return []*S{Asg("r", Bin(x, "==", mk())), Asg("q", Bin(mk(), "==", x))}
	case "ne-literal":
		return r1(Bin(x, "!=", mk()))
	case "dict-value-eq":
		return r1(Bin(Idx(x, Str("a")), "==", mk().A[1]))
	case "nested-inner-eq":
		return r1(Bin(Idx(x, I(0)), "==", mk().A[0]))
	}
	return app.build(g, x)
}

func fzSexp(v *E, prog []*S) string {
	return "( pair " + v.Sexp() + " " + ProgSexp(prog) + " )"
}

func decodeFz(s string) (v *E, prog []*S, ok bool) {
	defer func() {
		if r := recover(); r != nil {
			v, prog, ok = nil, nil, false
		}
	}()
	x, err := parseSx(s)
	if err != nil || !x.list || len(x.kids) != 3 || x.kids[0].atom != "pair" {
		return nil, nil, false
	}
	v = toE(x.kids[1])
	p := x.kids[2]
	if !p.list || len(p.kids) == 0 || p.kids[0].atom != "prog" {
		return nil, nil, false
	}
	prog = []*S{}
	for _, y := range p.kids[1:] {
		prog = append(prog, toS(y))
	}
	return v, prog, true
}

// run evaluates both forms on the real interpreter.
func (h *c18) run(v *E, prog []*S) (local, imported string) {
	h.asp.fresh() // once per pair: a reset between registering the file and subincluding it would lose the target
	h.seq++
	eval := func(name, src string) string {
		out, err := h.asp.EvalPackage(name, src, false)
		if err != nil {
			debugErr(src, err)
			return "ERR"
		}
		return out
	}
	lp := append([]*S{Asg("X", v)}, prog...)
	local = eval(fmt.Sprintf("fzl%d", h.seq), Print(lp, PrintOpts{}))
	label := h.asp.AddDefs(fmt.Sprintf("fz%d", h.seq), "d", Print([]*S{Asg("X", v)}, PrintOpts{}))
	ip := append([]*S{Ex(Call("subinclude", Str(label)))}, prog...)
	imported = eval(fmt.Sprintf("fzi%d", h.seq), Print(ip, PrintOpts{}))
	return
}

func appByName(n string) *c18App {
	for i := range c18Apps {
		if c18Apps[i].name == n {
			return &c18Apps[i]
		}
	}
	return nil
}

// runOp: "fz <application> ( pair <value> ( prog … ) )".  The application name selects the root-cause class of a
// difference (by the mechanism the statement goes through); an unknown name or an application that is not
// expected to differ gives the class "…-unexplained".
func (h *c18) runOp(op string) {
	r := h.r
	f := strings.SplitN(op, " ", 3)
	if len(f) != 3 || f[0] != "fz" {
		r.Emit(op, "bad-op", false)
		return
	}
	v, prog, ok := decodeFz(f[2])
	if !ok {
		r.Emit(op, "bad-op", false)
		return
	}
	app := appByName(f[1])
	local, imported := h.run(v, prog)
	if app == nil || app.model {
		r.Emit(op, "local="+local+"|imported="+imported, local != "ERR")
	}
	// the property: the imported (frozen) value behaves as the local one
	switch {
	case local == "ERR":
		r.Count("outcome:local-error")
	case local == imported:
		r.Count("outcome:same")
	default:
		cls := "frozen-value-behaves-differently-unexplained"
		if app != nil && app.class != "" {
			cls = app.class
		}
		r.Count("outcome:differs")
		r.OracleFail(cls, op, "local="+local+" imported="+imported+" source="+strings.ReplaceAll(Print(prog, PrintOpts{}), "\n", "\\n"))
	}
}

func MainC18() {
	r := lib.Start()
	defer r.Finish()
	reseed(r)
	r.Rule = "the application evaluates without error on the locally defined value; distinct by op line"
	scratch := os.Getenv("VERIF_SCRATCH")
	if scratch == "" {
		scratch = r.OutDir
	}
	h := &c18{r: r, asp: NewAspRunner(scratch)}
	if ops := r.ReplayOps(); ops != nil {
		for _, op := range ops {
			h.runOp(op)
		}
		return
	}
	// every application on every kind of value it applies to, several values each
	rounds := r.N(6, 60)
	for round := 0; round < rounds; round++ {
		for i := range c18Apps {
			app := &c18Apps[i]
			for _, kind := range []byte(app.kinds) {
				g := NewG(r.Rng)
				mk := c18Value(g, kind)
				prog := Normalize(app.stmts(g, mk, kind))
				v := normE(mk())
				r.Count("app:" + app.name)
				h.runOp("fz " + app.name + " " + fzSexp(v, prog))
			}
		}
	}
	r.Exhaust = true
}
