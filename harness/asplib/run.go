// Runners: the real asp interpreter (in-process, through the verif hook) and python3 (one child process).
package asplib

import (
	"bufio"
	"encoding/json"
	"fmt"
	"io"
	"os"
	"os/exec"
	"path/filepath"
	"strings"

	"github.com/thought-machine/please/src/cli"
	"github.com/thought-machine/please/src/core"
	"github.com/thought-machine/please/src/parse"
	"github.com/thought-machine/please/src/parse/asp"
)

// AspRunner evaluates BUILD-language source with the interpreter of the tree under test.
type AspRunner struct {
	root  string
	state *core.BuildState
	p     *asp.Parser
	n     int
	used  int
}

// NewAspRunner changes into a private directory below scratch: subincluded files are opened relative to the
// working directory (plz-out/gen/<pkg>/<file>).
func NewAspRunner(scratch string) *AspRunner {
	root := filepath.Join(scratch, "asproot")
	if err := os.MkdirAll(root, 0o755); err != nil {
		panic(err)
	}
	if err := os.Chdir(root); err != nil {
		panic(err)
	}
	cli.InitLogging(0)
	r := &AspRunner{root: root}
	r.reset()
	return r
}

func (r *AspRunner) reset() {
	r.state = core.NewDefaultBuildState()
	parse.InitParser(r.state)
	r.p = parse.GetAspParser(r.state)
	r.used = 0
	os.RemoveAll(filepath.Join(r.root, "plz-out"))
}

func firstLine(s string) string {
	if i := strings.IndexByte(s, '\n'); i >= 0 {
		return s[:i]
	}
	return s
}

func (r *AspRunner) fresh() {
	r.used++
	if r.used > 400 {
		r.reset()
	}
}

// AddDefs registers a built target //<pkg>:<name> whose single output is a file with the given content.
func (r *AspRunner) AddDefs(pkgName, name, content string) string {
	dp := core.NewPackage(pkgName)
	t := core.NewBuildTarget(core.BuildLabel{PackageName: pkgName, Name: name})
	t.AddOutput(name + ".build_defs")
	t.Visibility = core.WholeGraph
	t.SetState(core.Built)
	r.state.AddTarget(dp, t)
	r.state.Graph.AddPackage(dp)
	dir := filepath.Join("plz-out", "gen", pkgName)
	if err := os.MkdirAll(dir, 0o755); err != nil {
		panic(err)
	}
	if err := os.WriteFile(filepath.Join(dir, name+".build_defs"), []byte(content), 0o644); err != nil {
		panic(err)
	}
	return "//" + pkgName + ":" + name
}

// EvalPackage interprets src as the BUILD file of a fresh package (as ParseFile does) and renders its globals.
func (r *AspRunner) EvalPackage(pkgName, src string, types bool) (out string, err error) {
	defer func() {
		if e := recover(); e != nil {
			out, err = "", fmt.Errorf("panic: %v", e)
		}
	}()
	pkg := core.NewPackage(pkgName)
	pkg.Filename = pkgName + "/BUILD"
	return r.p.EvalForVerif(pkg, []byte(src), core.ParseModeNormal, types)
}

// Build evaluates a program as a package file.
func (r *AspRunner) Build(src string) string {
	r.fresh()
	r.n++
	out, err := r.EvalPackage(fmt.Sprintf("p%d", r.n), src, false)
	if err != nil {
		debugErr(src, err)
		return "ERR"
	}
	return out
}

var debug = os.Getenv("C16_DEBUG") != ""

func debugErr(src string, err error) {
	if debug {
		fmt.Fprintf(os.Stderr, "ASPERR %s\n%s----\n", firstLine(err.Error()), src)
	}
}

// Defs evaluates a program as a .build_defs file that an otherwise empty package subincludes
// (parseSubinclude: optimise + optimiseExpressions; Subinclude: interpret, Freeze, SetAll).
func (r *AspRunner) Defs(src string) string {
	r.fresh()
	r.n++
	label := r.AddDefs(fmt.Sprintf("d%d", r.n), "d", src)
	out, err := r.EvalPackage(fmt.Sprintf("p%d", r.n), fmt.Sprintf("subinclude(%q)\n", label), false)
	if err != nil {
		debugErr(src, err)
		return "ERR"
	}
	return out
}

func (r *AspRunner) DefsErr(src string) (string, error) {
	r.fresh()
	r.n++
	label := r.AddDefs(fmt.Sprintf("d%d", r.n), "d", src)
	return r.EvalPackage(fmt.Sprintf("p%d", r.n), fmt.Sprintf("subinclude(%q)\n", label), false)
}

// ---------------------------------------------------------------- python3

const pyDriver = `
import sys, json, signal, builtins as _b

def _quote(s):
    out = ['"']
    for c in s:
        o = ord(c)
        if c == '"': out.append('\\"')
        elif c == '\\': out.append('\\\\')
        elif c == '\n': out.append('\\n')
        elif c == '\t': out.append('\\t')
        elif c == '\r': out.append('\\r')
        elif o < 32: out.append('\\u%04x' % o)
        else: out.append(c)
    out.append('"')
    return ''.join(out)

def _render(v, depth):
    if depth > 12:
        return '"<deep>"'
    if v is None: return 'null'
    if v is True: return 'true'
    if v is False: return 'false'
    if isinstance(v, int): return str(v)
    if isinstance(v, str): return _quote(v)
    if isinstance(v, (list, tuple)):
        return '[' + ','.join(_render(x, depth + 1) for x in v) + ']'
    if isinstance(v, dict):
        ks = sorted(v.keys(), key=lambda k: k if isinstance(k, str) else repr(k))
        return '{' + ','.join(_quote(k if isinstance(k, str) else repr(k)) + ':' + _render(v[k], depth + 1) for k in ks) + '}'
    if isinstance(v, (_b.range, _b.map, _b.filter, _b.zip, _b.reversed, _b.enumerate)) or type(v).__name__ in ('dict_keys', 'dict_values', 'dict_items', 'list_reverseiterator', 'list_iterator'):
        return _render(list(v), depth)
    if callable(v):
        return _quote('<function %s>' % getattr(v, '__name__', '?'))
    return _quote('<%s>' % type(v).__name__) if not isinstance(v, float) else repr(v)

def _prelude():
    def range(*a): return list(_b.range(*a))
    def zip(*a): return list(_b.zip(*a))
    def enumerate(*a, **k): return list(_b.enumerate(*a, **k))
    def reversed(x): return list(_b.reversed(x))
    def map(f, *a): return list(_b.map(f, *a))
    def filter(f, a): return list(_b.filter(f, a))
    def _cp(x): return list(x) if isinstance(x, list) else x
    def _mod(a, b): return a % b
    return dict(range=range, zip=zip, enumerate=enumerate, reversed=reversed, map=map, filter=filter, _cp=_cp, _mod=_mod)

class _Timeout(Exception): pass
def _alarm(sig, frm): raise _Timeout()
signal.signal(signal.SIGALRM, _alarm)

for line in sys.stdin:
    src = json.loads(line)
    ns = _prelude()
    skip = set(ns)
    try:
        signal.setitimer(signal.ITIMER_REAL, 2.0)
        try:
            exec(compile(src, '<prog>', 'exec'), ns)
        finally:
            signal.setitimer(signal.ITIMER_REAL, 0)
        names = sorted(k for k in ns if k not in skip and not k.startswith('__') and not callable(ns[k]))
        out = '{' + ','.join(_quote(k) + ':' + _render(ns[k], 0) for k in names) + '}'
    except _Timeout:
        out = 'ERR timeout'
    except RecursionError:
        out = 'ERR'
    except BaseException as e:
        out = 'ERR'
    sys.stdout.write(out.replace('\n', '\\n') + '\n')
    sys.stdout.flush()
`

// PyRunner is one python3 child that executes programs line by line.
type PyRunner struct {
	cmd *exec.Cmd
	in  io.WriteCloser
	out *bufio.Reader
}

func NewPyRunner(scratch string) *PyRunner {
	script := filepath.Join(scratch, "c16_pydriver.py")
	if err := os.WriteFile(script, []byte(pyDriver), 0o644); err != nil {
		panic(err)
	}
	cmd := exec.Command("python3", "-S", "-E", script)
	cmd.Env = append(os.Environ(), "PYTHONIOENCODING=utf-8", "PYTHONHASHSEED=0")
	in, err := cmd.StdinPipe()
	if err != nil {
		panic(err)
	}
	out, err := cmd.StdoutPipe()
	if err != nil {
		panic(err)
	}
	cmd.Stderr = os.Stderr
	if err := cmd.Start(); err != nil {
		panic(err)
	}
	return &PyRunner{cmd: cmd, in: in, out: bufio.NewReaderSize(out, 1<<20)}
}

func (p *PyRunner) Run(src string) string {
	b, _ := json.Marshal(src)
	if _, err := p.in.Write(append(b, '\n')); err != nil {
		panic(err)
	}
	line, err := p.out.ReadString('\n')
	if err != nil {
		panic(fmt.Sprintf("python3 driver died: %v", err))
	}
	return strings.TrimRight(line, "\n")
}

func (p *PyRunner) Close() {
	p.in.Close()
	p.cmd.Wait()
}
