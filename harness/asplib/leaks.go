package asplib

// leakKinds scans a rendering made with types=true (frozen containers carry a leading 'F') and reports where
// unfrozen containers are reachable from the top-level variables of a scope:
//
//	"top"        a top-level variable is itself an unfrozen list/dict
//	"list-elem"  an unfrozen container is an element of a frozen list
//	"dict-value" an unfrozen container is a value of a frozen dict
//
// (containers below an unfrozen container are not reported again).
func leakKinds(s string) map[string]bool {
	p := &leakParser{s: s, out: map[string]bool{}}
	p.skipWS()
	if p.peek() == '{' { // the scope itself: name -> value
		p.i++
		for p.peek() != '}' && p.i < len(p.s) {
			p.str()
			p.expect(':')
			p.value("top", true)
			if p.peek() == ',' {
				p.i++
			}
		}
	}
	return p.out
}

type leakParser struct {
	s   string
	i   int
	out map[string]bool
}

func (p *leakParser) peek() byte {
	if p.i < len(p.s) {
		return p.s[p.i]
	}
	return 0
}

func (p *leakParser) skipWS() {
	for p.peek() == ' ' {
		p.i++
	}
}

func (p *leakParser) expect(c byte) {
	if p.peek() == c {
		p.i++
	}
}

func (p *leakParser) str() {
	if p.peek() != '"' {
		return
	}
	p.i++
	for p.i < len(p.s) && p.s[p.i] != '"' {
		if p.s[p.i] == '\\' {
			p.i++
		}
		p.i++
	}
	p.i++
}

// value parses one value; where names the position it stands in, report says whether an unfrozen container here
// is to be reported (false below an unfrozen container).
func (p *leakParser) value(where string, report bool) {
	frozen := false
	if p.peek() == 'F' && p.i+1 < len(p.s) && (p.s[p.i+1] == '[' || p.s[p.i+1] == '{') {
		frozen = true
		p.i++
	}
	switch p.peek() {
	case '[':
		if !frozen && report {
			p.out[where] = true
		}
		p.i++
		for p.peek() != ']' && p.i < len(p.s) {
			p.value("list-elem", report && frozen)
			if p.peek() == ',' {
				p.i++
			}
		}
		p.i++
	case '{':
		if !frozen && report {
			p.out[where] = true
		}
		p.i++
		for p.peek() != '}' && p.i < len(p.s) {
			p.str()
			p.expect(':')
			p.value("dict-value", report && frozen)
			if p.peek() == ',' {
				p.i++
			}
		}
		p.i++
	case '"':
		p.str()
	default:
		for p.i < len(p.s) && p.s[p.i] != ',' && p.s[p.i] != ']' && p.s[p.i] != '}' {
			p.i++
		}
	}
}
