// Surface syntax of generated BUILD-language programs: the Go twin of lean/PlzVerif/Model/AspSyntax.lean.
// One tree is (a) encoded as the S-expression the Lean drivers read, (b) printed as source text for the real
// asp interpreter and for python3, optionally with "repairs" that neutralise one root cause at a time
// (used to classify a disagreement between asp and python3).
package asplib

import (
	"encoding/hex"
	"fmt"
	"strconv"
	"strings"
)

// E is an expression node.
//
//	K: i s T F N n l d p t c x sl m lc dc lam ch if
type E struct {
	K    string
	I    int      // i: value; l, lc: occurrence id
	S    string   // s: value; n: name; c: function; m: method
	A    []*E     // children (d: k,v alternating; x: a,i; sl: a,lo,hi (nil = absent); m: receiver then args;
	//              lc: body,iter,cond(nil); dc: k,v,iter,cond(nil); lam: body; ch: head; if: t,c,e)
	Kw   []string // c, m: keyword of each argument ("" = positional); for m the receiver is not counted
	Vars []string // lc, dc, lam
	U    string   // ch: prefix operator of the head: "", "neg", "not"
	Ops  []ChainOp
}

type ChainOp struct {
	Op string // + - * / // % < > <= >= == != in notin and or | is isnot
	U  string // prefix operator of the operand
	E  *E
}

// S is a statement node.
//
//	K: = []= += []+= un ex def ret for cond pass break continue assert
type S struct {
	K      string
	X      string   // target name / function name
	Xs     []string // un, for: names; def: parameter names
	E      []*E     // = : value; []= : index, value; ret: values; for: iterable; assert: condition; def: defaults (nil = none)
	Body   []*S     // def, for
	Conds  []*E     // cond: conditions
	Blocks [][]*S   // cond: bodies; one more than Conds when there is an else
}

func hx(s string) string {
	if s == "" {
		return "-"
	}
	return hex.EncodeToString([]byte(s))
}

// ---------------------------------------------------------------- S-expression encoding

func optSexp(e *E) string {
	if e == nil {
		return "_"
	}
	return e.Sexp()
}

func namesSexp(xs []string) string {
	return strings.Join(append(append([]string{"(", "v"}, xs...), ")"), " ")
}

func uTok(u string) string {
	if u == "" {
		return "_"
	}
	return u
}

func (e *E) Sexp() string {
	var b strings.Builder
	w := func(parts ...string) { b.WriteString(strings.Join(parts, " ")) }
	switch e.K {
	case "T", "F", "N":
		return e.K
	case "i":
		w("(", "i", strconv.Itoa(e.I), ")")
	case "s":
		w("(", "s", hx(e.S), ")")
	case "n":
		w("(", "n", e.S, ")")
	case "l":
		w("(", "l", strconv.Itoa(e.I))
		for _, a := range e.A {
			w("", a.Sexp())
		}
		w("", ")")
	case "d", "t":
		w("(", e.K)
		for _, a := range e.A {
			w("", a.Sexp())
		}
		w("", ")")
	case "p":
		w("(", "p", e.A[0].Sexp(), ")")
	case "c", "m":
		if e.K == "c" {
			w("(", "c", e.S)
		} else {
			w("(", "m", e.A[0].Sexp(), e.S)
		}
		args := e.A
		if e.K == "m" {
			args = e.A[1:]
		}
		for i, a := range args {
			if e.Kw[i] == "" {
				w("", "(", "a", a.Sexp(), ")")
			} else {
				w("", "(", "k", e.Kw[i], a.Sexp(), ")")
			}
		}
		w("", ")")
	case "x":
		w("(", "x", e.A[0].Sexp(), e.A[1].Sexp(), ")")
	case "sl":
		w("(", "sl", e.A[0].Sexp(), optSexp(e.A[1]), optSexp(e.A[2]), ")")
	case "lc":
		w("(", "lc", strconv.Itoa(e.I), e.A[0].Sexp(), namesSexp(e.Vars), e.A[1].Sexp(), optSexp(e.A[2]), ")")
	case "dc":
		w("(", "dc", e.A[0].Sexp(), e.A[1].Sexp(), namesSexp(e.Vars), e.A[2].Sexp(), optSexp(e.A[3]), ")")
	case "lam":
		w("(", "lam", namesSexp(e.Vars), e.A[0].Sexp(), ")")
	case "ch":
		w("(", "ch", uTok(e.U), e.A[0].Sexp())
		for _, o := range e.Ops {
			w("", "(", o.Op, uTok(o.U), o.E.Sexp(), ")")
		}
		w("", ")")
	case "if":
		w("(", "if", e.A[0].Sexp(), e.A[1].Sexp(), e.A[2].Sexp(), ")")
	default:
		panic("sexp: unknown expr kind " + e.K)
	}
	return b.String()
}

func (s *S) Sexp() string {
	var b strings.Builder
	w := func(parts ...string) { b.WriteString(strings.Join(parts, " ")) }
	body := func(ss []*S) {
		for _, x := range ss {
			w("", x.Sexp())
		}
	}
	switch s.K {
	case "pass", "break", "continue":
		return s.K
	case "=", "+=":
		w("(", s.K, s.X, s.E[0].Sexp(), ")")
	case "[]=", "[]+=":
		w("(", s.K, s.X, s.E[0].Sexp(), s.E[1].Sexp(), ")")
	case "un":
		w("(", "un", namesSexp(s.Xs), s.E[0].Sexp(), ")")
	case "ex":
		w("(", "ex", s.E[0].Sexp(), ")")
	case "def":
		w("(", "def", s.X, "(", "ps")
		for i, p := range s.Xs {
			w("", "(", "p", p, optSexp(s.E[i]), ")")
		}
		w("", ")")
		body(s.Body)
		w("", ")")
	case "ret":
		w("(", "ret")
		for _, e := range s.E {
			w("", e.Sexp())
		}
		w("", ")")
	case "for":
		w("(", "for", namesSexp(s.Xs), s.E[0].Sexp())
		body(s.Body)
		w("", ")")
	case "cond":
		w("(", "cond")
		for i, c := range s.Conds {
			w("", "(", "br", c.Sexp())
			body(s.Blocks[i])
			w("", ")")
		}
		if len(s.Blocks) > len(s.Conds) {
			w("", "(", "else")
			body(s.Blocks[len(s.Conds)])
			w("", ")")
		}
		w("", ")")
	case "assert":
		w("(", "assert", s.E[0].Sexp(), ")")
	default:
		panic("sexp: unknown stmt kind " + s.K)
	}
	return b.String()
}

func ProgSexp(p []*S) string {
	parts := []string{"(", "prog"}
	for _, s := range p {
		parts = append(parts, s.Sexp())
	}
	return strings.Join(append(parts, ")"), " ")
}

// ---------------------------------------------------------------- S-expression decoding (replay)

type sx struct {
	atom string
	kids []*sx
	list bool
}

func parseSx(s string) (*sx, error) {
	toks := strings.Split(s, " ")
	stack := []*sx{{list: true}}
	for _, t := range toks {
		switch t {
		case "(":
			stack = append(stack, &sx{list: true})
		case ")":
			if len(stack) < 2 {
				return nil, fmt.Errorf("unbalanced )")
			}
			top := stack[len(stack)-1]
			stack = stack[:len(stack)-1]
			stack[len(stack)-1].kids = append(stack[len(stack)-1].kids, top)
		default:
			stack[len(stack)-1].kids = append(stack[len(stack)-1].kids, &sx{atom: t})
		}
	}
	if len(stack) != 1 || len(stack[0].kids) != 1 {
		return nil, fmt.Errorf("unbalanced (")
	}
	return stack[0].kids[0], nil
}

type decErr struct{ msg string }

func bad(format string, a ...any) { panic(decErr{fmt.Sprintf(format, a...)}) }

func unhx(s string) string {
	if s == "-" {
		return ""
	}
	b, err := hex.DecodeString(s)
	if err != nil {
		bad("hex")
	}
	return string(b)
}

func vars(x *sx) []string {
	if !x.list || len(x.kids) == 0 || x.kids[0].atom != "v" {
		bad("names")
	}
	var out []string
	for _, k := range x.kids[1:] {
		out = append(out, k.atom)
	}
	return out
}

func uDec(s string) string {
	switch s {
	case "_":
		return ""
	case "neg", "not":
		return s
	}
	bad("unary %s", s)
	return ""
}

func optE(x *sx) *E {
	if !x.list && x.atom == "_" {
		return nil
	}
	return toE(x)
}

var binOps = map[string]bool{"+": true, "-": true, "*": true, "/": true, "//": true, "%": true, "<": true, ">": true,
	"<=": true, ">=": true, "==": true, "!=": true, "in": true, "notin": true, "and": true, "or": true, "|": true,
	"is": true, "isnot": true}

func toE(x *sx) *E {
	if !x.list {
		switch x.atom {
		case "T", "F", "N":
			return &E{K: x.atom}
		}
		bad("atom %q", x.atom)
	}
	if len(x.kids) == 0 || x.kids[0].list {
		bad("empty node")
	}
	k := x.kids[0].atom
	a := x.kids[1:]
	need := func(n int) {
		if len(a) != n {
			bad("%s: %d args", k, len(a))
		}
	}
	args := func(e *E, as []*sx) {
		for _, y := range as {
			if !y.list || len(y.kids) < 2 {
				bad("arg")
			}
			switch y.kids[0].atom {
			case "a":
				e.Kw = append(e.Kw, "")
				e.A = append(e.A, toE(y.kids[1]))
			case "k":
				e.Kw = append(e.Kw, y.kids[1].atom)
				e.A = append(e.A, toE(y.kids[2]))
			default:
				bad("arg kind")
			}
		}
	}
	switch k {
	case "i":
		need(1)
		n, err := strconv.Atoi(a[0].atom)
		if err != nil {
			bad("int")
		}
		return &E{K: "i", I: n}
	case "s":
		need(1)
		return &E{K: "s", S: unhx(a[0].atom)}
	case "n":
		need(1)
		return &E{K: "n", S: a[0].atom}
	case "l":
		id, err := strconv.Atoi(a[0].atom)
		if err != nil {
			bad("list id")
		}
		e := &E{K: "l", I: id}
		for _, y := range a[1:] {
			e.A = append(e.A, toE(y))
		}
		return e
	case "d", "t":
		e := &E{K: k}
		for _, y := range a {
			e.A = append(e.A, toE(y))
		}
		return e
	case "p":
		need(1)
		return &E{K: "p", A: []*E{toE(a[0])}}
	case "c":
		e := &E{K: "c", S: a[0].atom}
		args(e, a[1:])
		return e
	case "m":
		e := &E{K: "m", S: a[1].atom, A: []*E{toE(a[0])}}
		args(e, a[2:])
		return e
	case "x":
		need(2)
		return &E{K: "x", A: []*E{toE(a[0]), toE(a[1])}}
	case "sl":
		need(3)
		return &E{K: "sl", A: []*E{toE(a[0]), optE(a[1]), optE(a[2])}}
	case "lc":
		need(5)
		id, _ := strconv.Atoi(a[0].atom)
		return &E{K: "lc", I: id, Vars: vars(a[2]), A: []*E{toE(a[1]), toE(a[3]), optE(a[4])}}
	case "dc":
		need(5)
		return &E{K: "dc", Vars: vars(a[2]), A: []*E{toE(a[0]), toE(a[1]), toE(a[3]), optE(a[4])}}
	case "lam":
		need(2)
		return &E{K: "lam", Vars: vars(a[0]), A: []*E{toE(a[1])}}
	case "ch":
		e := &E{K: "ch", U: uDec(a[0].atom), A: []*E{toE(a[1])}}
		for _, y := range a[2:] {
			if !y.list || len(y.kids) != 3 || !binOps[y.kids[0].atom] {
				bad("chain op")
			}
			e.Ops = append(e.Ops, ChainOp{Op: y.kids[0].atom, U: uDec(y.kids[1].atom), E: toE(y.kids[2])})
		}
		return e
	case "if":
		need(3)
		return &E{K: "if", A: []*E{toE(a[0]), toE(a[1]), toE(a[2])}}
	}
	bad("expr kind %q", k)
	return nil
}

func toS(x *sx) *S {
	if !x.list {
		switch x.atom {
		case "pass", "break", "continue":
			return &S{K: x.atom}
		}
		bad("stmt atom")
	}
	k := x.kids[0].atom
	a := x.kids[1:]
	stmts := func(as []*sx) []*S {
		out := []*S{}
		for _, y := range as {
			out = append(out, toS(y))
		}
		return out
	}
	switch k {
	case "=", "+=":
		return &S{K: k, X: a[0].atom, E: []*E{toE(a[1])}}
	case "[]=", "[]+=":
		return &S{K: k, X: a[0].atom, E: []*E{toE(a[1]), toE(a[2])}}
	case "un":
		return &S{K: k, Xs: vars(a[0]), E: []*E{toE(a[1])}}
	case "ex", "assert":
		return &S{K: k, E: []*E{toE(a[0])}}
	case "def":
		s := &S{K: k, X: a[0].atom}
		for _, p := range a[1].kids[1:] {
			s.Xs = append(s.Xs, p.kids[1].atom)
			s.E = append(s.E, optE(p.kids[2]))
		}
		s.Body = stmts(a[2:])
		return s
	case "ret":
		s := &S{K: k}
		for _, y := range a {
			s.E = append(s.E, toE(y))
		}
		return s
	case "for":
		return &S{K: k, Xs: vars(a[0]), E: []*E{toE(a[1])}, Body: stmts(a[2:])}
	case "cond":
		s := &S{K: k}
		for _, y := range a {
			switch y.kids[0].atom {
			case "br":
				s.Conds = append(s.Conds, toE(y.kids[1]))
				s.Blocks = append(s.Blocks, stmts(y.kids[2:]))
			case "else":
				s.Blocks = append(s.Blocks, stmts(y.kids[1:]))
			default:
				bad("cond part")
			}
		}
		return s
	}
	bad("stmt kind %q", k)
	return nil
}

// DecodeProg parses "( prog ... )"; ok=false on anything malformed.
func DecodeProg(s string) (p []*S, ok bool) {
	defer func() {
		if r := recover(); r != nil {
			p, ok = nil, false
		}
	}()
	x, err := parseSx(s)
	if err != nil || !x.list || len(x.kids) == 0 || x.kids[0].atom != "prog" {
		return nil, false
	}
	for _, y := range x.kids[1:] {
		p = append(p, toS(y))
	}
	if p == nil {
		p = []*S{}
	}
	return p, true
}

// ---------------------------------------------------------------- well-formedness

func needsParenAsOperand(e *E) bool { return e.K == "ch" || e.K == "if" || e.K == "lam" }

func parIf(e *E, cond bool) *E {
	if cond {
		return &E{K: "p", A: []*E{e}}
	}
	return e
}

// normE inserts the parentheses without which the printed text would not read back as this tree:
// chain operands, subscript/slice/method receivers and the first two parts of an inline if must be atoms.
func normE(e *E) *E {
	if e == nil {
		return nil
	}
	for i, a := range e.A {
		e.A[i] = normE(a)
	}
	for i := range e.Ops {
		e.Ops[i].E = normE(e.Ops[i].E)
	}
	switch e.K {
	case "ch":
		e.A[0] = parIf(e.A[0], needsParenAsOperand(e.A[0]))
		if e.U == "neg" && e.A[0].K == "i" && e.A[0].I > 0 {
			e.A[0] = &E{K: "i", I: -e.A[0].I}
			e.U = ""
		}
		for i := range e.Ops {
			o := &e.Ops[i]
			o.E = parIf(o.E, needsParenAsOperand(o.E))
			if o.U == "neg" && o.E.K == "i" && o.E.I > 0 {
				o.E = &E{K: "i", I: -o.E.I}
				o.U = ""
			}
		}
		if len(e.Ops) == 0 && e.U == "" {
			return e.A[0]
		}
	case "x", "sl", "m":
		e.A[0] = parIf(e.A[0], needsParenAsOperand(e.A[0]) || (e.A[0].K == "i" && e.A[0].I < 0))
	case "if":
		e.A[0] = parIf(e.A[0], e.A[0].K == "if" || e.A[0].K == "lam")
		e.A[1] = parIf(e.A[1], e.A[1].K == "if" || e.A[1].K == "lam")
	case "lc":
		e.A[1] = parIf(e.A[1], e.A[1].K == "if" || e.A[1].K == "lam")
		if e.A[2] != nil {
			e.A[2] = parIf(e.A[2], e.A[2].K == "if" || e.A[2].K == "lam")
		}
	case "dc":
		e.A[2] = parIf(e.A[2], e.A[2].K == "if" || e.A[2].K == "lam")
		if e.A[3] != nil {
			e.A[3] = parIf(e.A[3], e.A[3].K == "if" || e.A[3].K == "lam")
		}
	}
	return e
}

func normS(ss []*S) {
	for _, s := range ss {
		for i, e := range s.E {
			s.E[i] = normE(e)
		}
		for i, c := range s.Conds {
			s.Conds[i] = normE(c)
		}
		normS(s.Body)
		for _, b := range s.Blocks {
			normS(b)
		}
	}
}

// Normalize makes a generated program well-formed (see normE).
func Normalize(p []*S) []*S {
	normS(p)
	return p
}
