package asplib

import "verif/harness/lib"

// reseed replaces the run's generator by one whose state is a scrambled function of the seed: lib.NewRng(k+1)
// is lib.NewRng(k) advanced by one draw, so adjacent seeds would otherwise replay almost the same programs.
func reseed(r *lib.Run) {
	z := r.Seed + 0x9E3779B97F4A7C15
	z = (z ^ (z >> 30)) * 0xBF58476D1CE4E5B9
	z = (z ^ (z >> 27)) * 0x94D049BB133111EB
	z ^= z >> 31
	r.Rng = lib.NewRng(z)
}
