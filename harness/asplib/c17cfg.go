package asplib

import (
	"fmt"
	"strings"

	"verif/harness/lib"
)

// CONFIG scenario (direct oracle only: CONFIG is not part of the Lean model).
//
// Op line:  msc ( files ( pkg <name> <prog> )… )       packages that read (and try to change) values taken from CONFIG
//
// Unlike subincluded files, CONFIG lives in the interpreter itself, so every run needs a fresh interpreter.

func (r *AspRunner) forceReset() { r.used = 1 << 30 }

func (h *c17) configIndependent(fs *FileSet, copyConfig bool) string {
	text := func(p PkgFile) string {
		if copyConfig {
			return deepCopyPrelude + Print(p.Prog, PrintOpts{ConfigCopy: true})
		}
		return Print(p.Prog, PrintOpts{})
	}
	eval := func(only int) []string {
		h.asp.forceReset()
		h.asp.fresh()
		h.seq++
		out := make([]string, len(fs.Pkgs))
		for i, p := range fs.Pkgs {
			if only >= 0 && i != only {
				continue
			}
			sc, err := h.asp.EvalScope(fmt.Sprintf("c%d_pk_%s", h.seq, p.Name), text(p))
			if err != nil {
				debugErr(text(p), err)
				out[i] = "ERR"
				continue
			}
			out[i] = sc.Render(false)
		}
		return out
	}
	all := eval(-1)
	for i, p := range fs.Pkgs {
		if all[i] == "ERR" {
			continue
		}
		alone := eval(i)
		if alone[i] != "ERR" && alone[i] != all[i] {
			return fmt.Sprintf("package %s alone=%s after-others=%s", p.Name, alone[i], all[i])
		}
	}
	return ""
}

func (h *c17) runConfigOp(op string) {
	r := h.r
	fs, ok := DecodeFileSet(strings.TrimPrefix(op, "msc "))
	if !ok || len(fs.Pkgs) < 2 {
		return
	}
	why := h.configIndependent(fs, false)
	if why == "" {
		r.Count("outcome:config-independent")
		return
	}
	r.Count("outcome:config-interference")
	cls := "packages-interfere-unexplained"
	if h.configIndependent(fs, true) == "" {
		cls = "config-list-shared-unfrozen"
	}
	r.OracleFail(cls, op, why)
}

// configLists: the CONFIG entries that are lists in the default configuration.
var configLists = []string{"DEFAULT_MAVEN_REPO", "BUILD_FILE_NAMES", "PLUGIN_REPOS", "PROTO_LANGUAGES", "PROTOC_FLAGS"}

func configFileSet(rng *lib.Rng) *FileSet {
	g := NewG(rng)
	key := Str(lib.Pick(rng, configLists))
	ref := func() *E { return Idx(Nm("CONFIG"), key) }
	var b []*S
	switch rng.Intn(4) {
	case 0:
		b = []*S{Asg("l", ref()), IdxAsg("l", I(0), Str("http://changed.example"))}
	case 1:
		b = []*S{Asg("l", Call("reversed", ref()))}
	case 2:
		b = []*S{Asg("l", Call("sorted", ref()))}
	default:
		b = []*S{Asg("l", Bin(ref(), "+", g.L(Str("x"))))}
	}
	a := []*S{Asg("o", ref()), Asg("n", Call("len", ref()))}
	return &FileSet{Pkgs: []PkgFile{{Name: "b", Prog: Normalize(b)}, {Name: "a", Prog: Normalize(a)}}}
}
