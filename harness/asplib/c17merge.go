package asplib

import (
	"fmt"
	"strings"

	"verif/harness/lib"
)

// CONFIG merge scenario (direct oracle only: CONFIG is modelled separately, Model/AspConfig.lean).
//
// Op line:  msm ( files ( defs <label> <prog> )… ( pkg <name> <prog> )… )
//
// Two or three subincluded files each set CONFIG entries; packages subinclude various subsets of them (several labels
// in one call, or calls back to back, sometimes with a CONFIG write of their own in between) and read the entries.
// Subinclude merges the frozen CONFIG of the file into the package's own: what a package then sees must depend on its
// own subincludes and writes only — the same alone, after the other packages, and before them (the frozen CONFIG of
// a file lives in the interpreter-wide subinclude cache and is shared by all packages that subinclude it).
// The packages are interpreted in the order written, in one interpreter; the generator emits every order.

func configMergeFileSet(rng *lib.Rng) *FileSet {
	nd := 2 + rng.Intn(2)
	fs := &FileSet{}
	labels := make([]string, nd)
	for i := 0; i < nd; i++ {
		labels[i] = fmt.Sprintf("//cm%d:d", i+1)
		key := Str(fmt.Sprintf("K%d", i+1))
		var p []*S
		switch rng.Intn(3) {
		case 0:
			p = append(p, IdxAsg("CONFIG", key, I(10*(i+1)+rng.Intn(5))))
		case 1:
			p = append(p, Ex(Meth(Nm("CONFIG"), "setdefault", key, Str(fmt.Sprintf("v%d", i+1)))))
		default:
			p = append(p, IdxAsg("CONFIG", key, I(10*(i+1))), IdxAsg("CONFIG", Str("SHARED"), I(i+1)))
		}
		if rng.Chance(40) {
			p = append(p, IdxAsg("CONFIG", Str("SHARED"), I(100+i)))
		}
		p = append(p, Asg(fmt.Sprintf("V%d", i+1), I(i+1)))
		fs.Defs = append(fs.Defs, DefFile{Label: labels[i], Prog: Normalize(p)})
	}
	observe := func() []*S {
		var o []*S
		for i := 0; i < nd; i++ {
			o = append(o, Asg(fmt.Sprintf("o%d", i+1), Meth(Nm("CONFIG"), "get", Str(fmt.Sprintf("K%d", i+1)), Str("unset"))))
		}
		return append(o, Asg("osh", Meth(Nm("CONFIG"), "get", Str("SHARED"), Str("unset"))), Asg("oown", Meth(Nm("CONFIG"), "get", Str("OWN"), Str("unset"))))
	}
	np := 2 + rng.Intn(2)
	for j := 0; j < np; j++ {
		// a non-empty subset of the files, in label order or reversed
		var sub []string
		for i := 0; i < nd; i++ {
			if rng.Chance(55) {
				sub = append(sub, labels[i])
			}
		}
		if len(sub) == 0 {
			sub = []string{labels[rng.Intn(nd)]}
		}
		if j == 0 && len(sub) < 2 { // at least one package that merges two files
			sub = append([]string{}, labels[:2]...)
		}
		if rng.Chance(30) {
			for a, b := 0, len(sub)-1; a < b; a, b = a+1, b-1 {
				sub[a], sub[b] = sub[b], sub[a]
			}
		}
		var p []*S
		if rng.Chance(50) { // one call
			args := make([]*E, len(sub))
			for i, l := range sub {
				args[i] = Str(l)
			}
			p = append(p, Ex(Call("subinclude", args...)))
		} else {
			for i, l := range sub {
				p = append(p, Ex(Call("subinclude", Str(l))))
				if i == 0 && len(sub) > 1 && rng.Chance(25) { // a write of its own in between
					p = append(p, IdxAsg("CONFIG", Str("OWN"), I(7+j)))
				}
			}
		}
		if rng.Chance(30) {
			p = append(p, IdxAsg("CONFIG", Str("OWN"), I(70+j)))
		}
		p = append(p, observe()...)
		fs.Pkgs = append(fs.Pkgs, PkgFile{Name: fmt.Sprintf("p%d", j+1), Prog: Normalize(p)})
	}
	return fs
}

func permutations(n int) [][]int {
	if n == 1 {
		return [][]int{{0}}
	}
	var out [][]int
	for _, p := range permutations(n - 1) {
		for i := 0; i <= len(p); i++ {
			q := append(append(append([]int{}, p[:i]...), n-1), p[i:]...)
			out = append(out, q)
		}
	}
	return out
}

func (h *c17) runConfigMergeOp(op string) {
	r := h.r
	fs, ok := DecodeFileSet(strings.TrimPrefix(op, "msm "))
	if !ok || len(fs.Pkgs) < 2 {
		return
	}
	probe := h.run(fs, -1, map[string]bool{})
	for _, o := range probe.own {
		switch {
		case o == "ERR":
			r.Count("outcome:config-merge-package-error")
		case strings.Contains(o, "\"o1\":1") || strings.Contains(o, "\"o1\":\"v") || strings.Contains(o, "\"o2\":2") || strings.Contains(o, "\"o2\":\"v"):
			r.Count("outcome:config-merge-package-sees-merged-key")
		}
	}
	why := h.independent(fs, map[string]bool{})
	if why == "" {
		r.Count("outcome:config-merge-independent")
		return
	}
	r.Count("outcome:config-merge-interference")
	r.OracleFail("config-merge-interference", op, why)
}

// emitConfigMerge runs one generated file set in every order of its packages.
func (h *c17) emitConfigMerge(fs *FileSet) {
	for _, perm := range permutations(len(fs.Pkgs)) {
		o := &FileSet{Defs: fs.Defs}
		for _, i := range perm {
			o.Pkgs = append(o.Pkgs, fs.Pkgs[i])
		}
		h.runOp("msm " + o.Sexp())
	}
}
