package asplib

import (
	"fmt"
	"os"
)

// DebugClassify prints, for one "asp b|d <prog>" op line, what each single repair and all repairs together give.
func DebugClassify(op string) {
	scratch, _ := os.MkdirTemp("", "c16dbg")
	defer os.RemoveAll(scratch)
	h := &harness{asp: NewAspRunner(scratch), py: NewPyRunner(scratch), pyMem: map[string]string{}}
	defer h.py.Close()
	var mode, sx string
	fmt.Sscanf(op, "asp %s", &mode)
	sx = op[len("asp ")+len(mode)+1:]
	prog, ok := DecodeProg(sx)
	if !ok {
		fmt.Println("bad op")
		return
	}
	show := func(name string, set map[string]bool) {
		var ao, po PrintOpts
		for _, rp := range repairs {
			if set[rp.key] {
				if rp.pySide || rp.both {
					rp.apply(&po)
				}
				if !rp.pySide || rp.both {
					rp.apply(&ao)
				}
			}
		}
		fmt.Printf("== %s\nasp: %s\npy:  %s\n", name, h.runAsp(mode, Print(prog, ao)), h.runPy(Print(prog, po)))
	}
	show("original", nil)
	all := map[string]bool{}
	for _, rp := range repairs {
		show(rp.key, map[string]bool{rp.key: true})
		all[rp.key] = true
	}
	show("all", all)
	var ao PrintOpts
	for _, rp := range repairs {
		if !rp.pySide {
			rp.apply(&ao)
		}
	}
	fmt.Println(Print(prog, ao))
}

// DebugSource evaluates raw source text with the real interpreter (both modes) and with python3.
func DebugSource(src string) {
	scratch, _ := os.MkdirTemp("", "c16dbg")
	defer os.RemoveAll(scratch)
	h := &harness{asp: NewAspRunner(scratch), py: NewPyRunner(scratch), pyMem: map[string]string{}}
	defer h.py.Close()
	fmt.Printf("asp b: %s\nasp d: %s\npy:    %s\n", h.runAsp("b", src), h.runAsp("d", src), h.runPy(src))
}
