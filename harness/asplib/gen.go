// Generators of BUILD-language programs: typed random programs, operator chains (random and exhaustive),
// and aliasing scenarios (slices, sorted/reversed, `+` on lists with spare capacity, constant literals in
// functions, repeated calls, augmented assignment).
package asplib

import (
	"sort"
	"strings"
	"fmt"

	"verif/harness/lib"
)

type Type int

const (
	tInt Type = iota
	tStr
	tBool
	tLI  // list of int
	tLS  // list of str
	tLLI // list of list of int
	tD   // dict str -> int
	tAny // scalar of unknown kind (result of and/or chains); never used again
	nTypes
)

// ---------------------------------------------------------------- constructors

func I(n int) *E           { return &E{K: "i", I: n} }
func Str(s string) *E      { return &E{K: "s", S: s} }
func Nm(x string) *E       { return &E{K: "n", S: x} }
func Tr() *E               { return &E{K: "T"} }
func Fa() *E               { return &E{K: "F"} }
func No() *E               { return &E{K: "N"} }
func Par(e *E) *E          { return &E{K: "p", A: []*E{e}} }
func Idx(a, i *E) *E       { return &E{K: "x", A: []*E{a, i}} }
func Sl(a, lo, hi *E) *E   { return &E{K: "sl", A: []*E{a, lo, hi}} }
func If(t, c, e *E) *E     { return &E{K: "if", A: []*E{t, c, e}} }
func Tup(es ...*E) *E      { return &E{K: "t", A: es} }
func Dict(kv ...*E) *E     { return &E{K: "d", A: kv} }
func Lam(vs []string, b *E) *E { return &E{K: "lam", Vars: vs, A: []*E{b}} }

func Call(f string, args ...*E) *E {
	return &E{K: "c", S: f, A: args, Kw: make([]string, len(args))}
}

func CallKw(f string, args []*E, kw []string) *E { return &E{K: "c", S: f, A: args, Kw: kw} }

func Meth(recv *E, m string, args ...*E) *E {
	return &E{K: "m", S: m, A: append([]*E{recv}, args...), Kw: make([]string, len(args))}
}

// Bin is a chain with one operator.
func Bin(l *E, op string, r *E) *E { return &E{K: "ch", A: []*E{l}, Ops: []ChainOp{{Op: op, E: r}}} }

func Neg(e *E) *E { return &E{K: "ch", U: "neg", A: []*E{e}} }
func Not(e *E) *E { return &E{K: "ch", U: "not", A: []*E{e}} }

func Asg(x string, e *E) *S          { return &S{K: "=", X: x, E: []*E{e}} }
func Aug(x string, e *E) *S          { return &S{K: "+=", X: x, E: []*E{e}} }
func IdxAsg(x string, i, e *E) *S    { return &S{K: "[]=", X: x, E: []*E{i, e}} }
func IdxAug(x string, i, e *E) *S    { return &S{K: "[]+=", X: x, E: []*E{i, e}} }
func Ex(e *E) *S                     { return &S{K: "ex", E: []*E{e}} }
func Ret(es ...*E) *S                { return &S{K: "ret", E: es} }
func For(xs []string, it *E, b ...*S) *S { return &S{K: "for", Xs: xs, E: []*E{it}, Body: b} }
func Def(f string, ps []string, dflt []*E, b ...*S) *S {
	if dflt == nil {
		dflt = make([]*E, len(ps))
	}
	return &S{K: "def", X: f, Xs: ps, E: dflt, Body: b}
}
func Cond(c *E, th []*S, el []*S) *S {
	s := &S{K: "cond", Conds: []*E{c}, Blocks: [][]*S{th}}
	if el != nil {
		s.Blocks = append(s.Blocks, el)
	}
	return s
}

// ---------------------------------------------------------------- generator state

type fnSig struct {
	name   string
	params []Type
	ndef   int // trailing parameters with defaults
	ret    Type
}

type G struct {
	r      *lib.Rng
	vars   [nTypes][]string
	funcs  []fnSig
	nid    int
	nvar   int
	inFunc bool
	ascii  bool // only ASCII strings (model core)
	div    bool // allow the true-division operator (asp only)
}

func NewG(r *lib.Rng) *G { return &G{r: r, ascii: true} }

func (g *G) id() int { g.nid++; return g.nid }

func (g *G) L(es ...*E) *E { return &E{K: "l", I: g.id(), A: es} }

func (g *G) Comp(body *E, vs []string, it, cond *E) *E {
	return &E{K: "lc", I: g.id(), Vars: vs, A: []*E{body, it, cond}}
}

func (g *G) fresh(prefix string) string {
	g.nvar++
	return fmt.Sprintf("%s%d", prefix, g.nvar)
}

func (g *G) newVar(t Type) string {
	p := "g"
	if g.inFunc {
		p = "v"
	}
	x := g.fresh(p)
	g.vars[t] = append(g.vars[t], x)
	return x
}

// def assigns e to a new variable of type t (e is built before the name exists, so it cannot mention it).
func (g *G) def(t Type, e *E) *S {
	x := g.newVar(t)
	return Asg(x, e)
}

func (g *G) has(t Type) bool { return len(g.vars[t]) > 0 }
func (g *G) pick(t Type) string {
	return g.vars[t][g.r.Intn(len(g.vars[t]))]
}

var words = []string{"a", "b", "ab", "abc", "x", "y", "xy", "foo", "bar", "lib", "src", "a,b", "a b", "//x:y", "", "A", "Zed", "go", "x.go", "y_test.go"}
var uwords = []string{"é", "héllo", "日本", "naïve", "ß", "a→b", "ü"}

func (g *G) word() string {
	if !g.ascii && g.r.Chance(30) {
		return lib.Pick(g.r, uwords)
	}
	return lib.Pick(g.r, words)
}

func (g *G) smallInt() int {
	switch g.r.Intn(10) {
	case 0:
		return -g.r.Intn(10) - 1
	case 1:
		return 0
	case 2:
		return g.r.Intn(100)
	}
	return g.r.Intn(10)
}

func (g *G) nonZero() int {
	n := g.r.Intn(9) + 1
	if g.r.Chance(30) {
		return -n
	}
	return n
}

// ---------------------------------------------------------------- typed expressions

func (g *G) intAtom(d int) *E {
	for tries := 0; tries < 4; tries++ {
		switch g.r.Intn(12) {
		case 0, 1, 2:
			return I(g.smallInt())
		case 3, 4, 5:
			if g.has(tInt) {
				return Nm(g.pick(tInt))
			}
		case 6:
			if d > 0 {
				return Par(g.arith(d-1, 1+g.r.Intn(2)))
			}
		case 7:
			if g.has(tLI) {
				return Call("len", Nm(g.pick(tLI)))
			}
			if g.has(tStr) {
				return Call("len", Nm(g.pick(tStr)))
			}
		case 8:
			if g.has(tLI) {
				return Idx(Nm(g.pick(tLI)), I(g.r.Intn(2)))
			}
		case 9:
			if g.has(tD) && d > 0 {
				return Meth(Nm(g.pick(tD)), "get", Str(lib.Pick(g.r, []string{"a", "b", "k"})), I(g.smallInt()))
			}
		case 10:
			if d > 0 {
				for _, f := range g.funcs {
					if f.ret == tInt && g.r.Chance(50) {
						return g.callFn(f, d-1)
					}
				}
			}
		case 11:
			if g.has(tLI) && d > 0 {
				return Call(lib.Pick(g.r, []string{"min", "max"}), Bin(Nm(g.pick(tLI)), "+", g.L(I(g.smallInt()))))
			}
		}
	}
	return I(g.smallInt())
}

var arithOps = []string{"+", "-", "*", "+", "-", "*", "//", "%"}

// arith is a flat chain of n operators over int operands (mixed precedence; negative literals; prefix minus).
func (g *G) arith(d, n int) *E {
	e := &E{K: "ch", A: []*E{g.intAtom(d)}}
	if e.A[0].K != "i" && g.r.Chance(15) {
		e.U = "neg"
	}
	for i := 0; i < n; i++ {
		op := lib.Pick(g.r, arithOps)
		if g.div && g.r.Chance(8) {
			op = "/"
		}
		var rhs *E
		u := ""
		if op == "//" || op == "%" || op == "/" {
			if g.r.Chance(85) {
				rhs = I(g.nonZero())
			} else {
				rhs = g.intAtom(d)
			}
		} else {
			rhs = g.intAtom(d)
			if rhs.K != "i" && g.r.Chance(15) {
				u = "neg"
			}
		}
		e.Ops = append(e.Ops, ChainOp{Op: op, U: u, E: rhs})
	}
	if len(e.Ops) == 0 && e.U == "" {
		return e.A[0]
	}
	return e
}

var cmpOps = []string{"<", ">", "<=", ">=", "==", "!="}

// appendChain splices the operands of src (a chain or an atom) onto dst with the joining operator op.
func appendChain(dst *E, op string, u string, src *E) {
	if src.K == "ch" {
		hu := src.U
		if u != "" {
			hu = u
		}
		dst.Ops = append(dst.Ops, ChainOp{Op: op, U: hu, E: src.A[0]})
		dst.Ops = append(dst.Ops, src.Ops...)
		return
	}
	dst.Ops = append(dst.Ops, ChainOp{Op: op, U: u, E: src})
}

func asChain(e *E) *E {
	if e.K == "ch" {
		return e
	}
	return &E{K: "ch", A: []*E{e}}
}

// cmpExpr: arith [cmp arith] | x in list | boolean atom — as one flat chain.
func (g *G) cmpExpr(d int) *E {
	switch g.r.Intn(8) {
	case 0:
		if g.has(tBool) {
			return asChain(Nm(g.pick(tBool)))
		}
	case 1:
		if g.has(tLI) {
			c := asChain(g.arith(d, g.r.Intn(2)))
			c.Ops = append(c.Ops, ChainOp{Op: lib.Pick(g.r, []string{"in", "notin"}), E: Nm(g.pick(tLI))})
			return c
		}
	case 2:
		if g.has(tStr) {
			c := asChain(Str(g.word()))
			c.Ops = append(c.Ops, ChainOp{Op: lib.Pick(g.r, []string{"in", "notin", "==", "!=", "<"}), E: Nm(g.pick(tStr))})
			return c
		}
	case 3:
		return asChain(g.arith(d, g.r.Intn(3)))
	}
	c := asChain(g.arith(d, g.r.Intn(3)))
	appendChain(c, lib.Pick(g.r, cmpOps), "", g.arith(d, g.r.Intn(3)))
	return c
}

// boolChain: or/and/not over comparisons, flattened the way the text reads.
func (g *G) boolChain(d int) *E {
	var out *E
	nOr := 1 + g.r.Intn(2)
	for i := 0; i < nOr; i++ {
		nAnd := 1 + g.r.Intn(2)
		for j := 0; j < nAnd; j++ {
			c := g.cmpExpr(d)
			u := ""
			if g.r.Chance(25) && c.U == "" {
				u = "not"
			}
			if out == nil {
				out = c
				if u != "" {
					out.U = u
				}
				continue
			}
			op := "and"
			if j == 0 {
				op = "or"
			}
			appendChain(out, op, u, c)
		}
	}
	if len(out.Ops) == 0 && out.U == "" {
		return out.A[0]
	}
	return out
}

func (g *G) boolExpr(d int) *E {
	switch g.r.Intn(10) {
	case 0:
		return lib.Pick(g.r, []*E{Tr(), Fa()})
	case 1:
		if g.has(tLI) {
			return Call(lib.Pick(g.r, []string{"any", "all"}), Nm(g.pick(tLI)))
		}
	case 2:
		if g.has(tStr) {
			return Meth(Nm(g.pick(tStr)), lib.Pick(g.r, []string{"startswith", "endswith"}), Str(g.word()))
		}
	case 3:
		if g.has(tD) {
			return Bin(Str(lib.Pick(g.r, []string{"a", "b", "zz"})), lib.Pick(g.r, []string{"in", "notin"}), Nm(g.pick(tD)))
		}
	case 4:
		return Call("bool", g.expr(lib.Pick(g.r, []Type{tInt, tStr, tLI}), d-1))
	}
	return g.boolChain(d)
}

func (g *G) strExpr(d int) *E {
	if d <= 0 {
		if g.has(tStr) && g.r.Bool() {
			return Nm(g.pick(tStr))
		}
		return Str(g.word())
	}
	switch g.r.Intn(14) {
	case 0, 1:
		return Str(g.word())
	case 2, 3:
		if g.has(tStr) {
			return Nm(g.pick(tStr))
		}
	case 4:
		return Bin(g.strExpr(d-1), "+", g.strExpr(d-1))
	case 5:
		return Bin(g.strExpr(d-1), "*", I(g.r.Intn(3)))
	case 6:
		return Call("str", g.intAtom(d-1))
	case 7:
		return Meth(g.strAtom(d-1), lib.Pick(g.r, []string{"upper", "lower"}))
	case 8:
		if g.has(tLS) {
			return Meth(Str(lib.Pick(g.r, []string{",", "-", "", " "})), "join", Nm(g.pick(tLS)))
		}
	case 9:
		if g.has(tLS) {
			return Idx(Nm(g.pick(tLS)), I(g.r.Intn(2)))
		}
	case 10:
		return Meth(g.strAtom(d-1), "replace", Str(lib.Pick(g.r, []string{"a", "b", "x", ","})), Str(g.word()))
	case 11:
		return Meth(g.strAtom(d-1), lib.Pick(g.r, []string{"strip", "lstrip", "rstrip"}), Str(lib.Pick(g.r, []string{"a", "ab", " ", "x/"})))
	case 12:
		return Meth(g.strAtom(d-1), lib.Pick(g.r, []string{"removeprefix", "removesuffix"}), Str(lib.Pick(g.r, []string{"a", "ab", "x", ".go"})))
	case 13:
		return If(g.strExpr(d-1), g.boolExpr(d-1), g.strExpr(d-1))
	}
	return Str(g.word())
}

func (g *G) strAtom(d int) *E {
	if g.has(tStr) && g.r.Bool() {
		return Nm(g.pick(tStr))
	}
	return Str(g.word())
}

func (g *G) intList() *E {
	n := 2 + g.r.Intn(3)
	if g.r.Chance(8) {
		n = g.r.Intn(2)
	}
	es := make([]*E, n)
	for i := range es {
		es[i] = I(g.smallInt())
	}
	return g.L(es...)
}

func (g *G) liExpr(d int) *E {
	if d <= 0 {
		if g.has(tLI) && g.r.Bool() {
			return Nm(g.pick(tLI))
		}
		return g.intList()
	}
	switch g.r.Intn(16) {
	case 0, 1:
		return g.intList()
	case 2, 3, 4:
		if g.has(tLI) {
			return Nm(g.pick(tLI))
		}
	case 5:
		return Bin(g.liExpr(d-1), "+", g.liExpr(d-1))
	case 6:
		if g.has(tLI) {
			return Call("sorted", Nm(g.pick(tLI)))
		}
		return Call("sorted", g.intList())
	case 7:
		if g.has(tLI) {
			return Call("reversed", Nm(g.pick(tLI)))
		}
	case 8:
		if g.has(tLI) {
			x := g.pick(tLI)
			var lo, hi *E
			if g.r.Chance(70) {
				lo = I(g.r.Intn(3))
			}
			if g.r.Chance(60) {
				hi = I(g.r.Intn(4))
			}
			if g.r.Chance(15) {
				hi = I(-1 - g.r.Intn(2))
			}
			return Sl(Nm(x), lo, hi)
		}
	case 9:
		c := g.fresh("c")
		var it *E
		if g.has(tLI) && g.r.Chance(70) {
			it = Nm(g.pick(tLI))
		} else {
			it = Call("range", I(g.r.Intn(5)))
		}
		var cond *E
		if g.r.Chance(60) {
			cond = Bin(Nm(c), lib.Pick(g.r, cmpOps), I(g.smallInt()))
		}
		g.vars[tInt] = append(g.vars[tInt], c)
		body := g.arith(0, g.r.Intn(3))
		g.vars[tInt] = g.vars[tInt][:len(g.vars[tInt])-1]
		return g.Comp(body, []string{c}, it, cond)
	case 10:
		return Bin(g.liExpr(d-1), "*", I(g.r.Intn(3)))
	case 11:
		if g.has(tLLI) {
			return Idx(Nm(g.pick(tLLI)), I(g.r.Intn(2)))
		}
	case 12:
		for _, f := range g.funcs {
			if f.ret == tLI && g.r.Chance(60) {
				return g.callFn(f, d-1)
			}
		}
	case 13:
		if g.has(tD) {
			return Call("sorted", Meth(Nm(g.pick(tD)), "values"))
		}
	case 14:
		return If(g.liExpr(d-1), g.boolExpr(d-1), g.liExpr(d-1))
	case 15:
		if g.has(tLI) {
			return Call("sorted", CallKw("sorted", []*E{Nm(g.pick(tLI)), lib.Pick(g.r, []*E{Tr(), Fa()})}, []string{"", "reverse"}))
		}
	}
	return g.intList()
}

func (g *G) lsExpr(d int) *E {
	switch g.r.Intn(8) {
	case 0, 1:
		if g.has(tLS) {
			return Nm(g.pick(tLS))
		}
	case 2:
		if g.has(tStr) && d > 0 {
			return Meth(g.strAtom(d-1), "split", Str(lib.Pick(g.r, []string{",", " ", "/", "a"})))
		}
	case 3:
		if g.has(tLS) && d > 0 {
			return Call("sorted", Nm(g.pick(tLS)))
		}
	case 4:
		if g.has(tD) {
			return Call("sorted", Meth(Nm(g.pick(tD)), "keys"))
		}
	case 5:
		if g.has(tLS) && d > 0 {
			c := g.fresh("c")
			g.vars[tStr] = append(g.vars[tStr], c)
			body := g.strExpr(1)
			var cond *E
			if g.r.Bool() {
				cond = Meth(Nm(c), lib.Pick(g.r, []string{"startswith", "endswith"}), Str(lib.Pick(g.r, []string{"a", "x", ".go", "b"})))
			}
			g.vars[tStr] = g.vars[tStr][:len(g.vars[tStr])-1]
			return g.Comp(body, []string{c}, Nm(g.pick(tLS)), cond)
		}
	case 6:
		if g.has(tLS) && d > 0 {
			return Bin(Nm(g.pick(tLS)), "+", g.lsExpr(d-1))
		}
	}
	n := g.r.Intn(4)
	es := make([]*E, n)
	for i := range es {
		es[i] = Str(g.word())
	}
	return g.L(es...)
}

func (g *G) lliExpr(d int) *E {
	switch g.r.Intn(5) {
	case 0:
		if g.has(tLLI) {
			return Nm(g.pick(tLLI))
		}
	case 1:
		if g.has(tLI) {
			// inner lists are aliases of existing variables
			return g.L(Nm(g.pick(tLI)), Nm(g.pick(tLI)))
		}
	case 2:
		if g.has(tLLI) && d > 0 {
			return Call("sorted", Nm(g.pick(tLLI)))
		}
	}
	n := 1 + g.r.Intn(3)
	es := make([]*E, n)
	for i := range es {
		es[i] = g.intList()
	}
	return g.L(es...)
}

func (g *G) dictExpr(d int) *E {
	switch g.r.Intn(5) {
	case 0:
		if g.has(tD) {
			return Nm(g.pick(tD))
		}
	case 1:
		if g.has(tD) && d > 0 {
			return Bin(Nm(g.pick(tD)), "|", g.dictExpr(d-1))
		}
	case 2:
		if g.has(tD) {
			return Meth(Nm(g.pick(tD)), "copy")
		}
	}
	n := g.r.Intn(4)
	var kv []*E
	for i := 0; i < n; i++ {
		kv = append(kv, Str(lib.Pick(g.r, []string{"a", "b", "k", "z", "m"})), g.intAtom(0))
	}
	return Dict(kv...)
}

func (g *G) expr(t Type, d int) *E {
	switch t {
	case tInt:
		if d <= 0 {
			return g.intAtom(0)
		}
		if g.r.Chance(10) {
			return If(g.arith(d-1, g.r.Intn(3)), g.boolExpr(d-1), g.arith(d-1, g.r.Intn(3)))
		}
		return g.arith(d-1, g.r.Intn(5))
	case tStr:
		return g.strExpr(d)
	case tBool:
		return g.boolExpr(d)
	case tLI:
		return g.liExpr(d)
	case tLS:
		return g.lsExpr(d)
	case tLLI:
		return g.lliExpr(d)
	case tD:
		return g.dictExpr(d)
	}
	return g.boolChain(d)
}

func (g *G) callFn(f fnSig, d int) *E {
	n := len(f.params)
	if f.ndef > 0 {
		n -= g.r.Intn(f.ndef + 1)
	}
	args := make([]*E, n)
	for i := 0; i < n; i++ {
		args[i] = g.expr(f.params[i], d)
	}
	return Call(f.name, args...)
}

// ---------------------------------------------------------------- statements

var valueTypes = []Type{tInt, tInt, tStr, tBool, tLI, tLI, tLI, tLS, tLLI, tD}

func (g *G) stmt(d int, inLoop bool) []*S {
	for tries := 0; tries < 5; tries++ {
		switch g.r.Intn(17) {
		case 0, 1, 2, 3:
			t := lib.Pick(g.r, valueTypes)
			e := g.expr(t, 2)
			return []*S{g.def(t, e)}
		case 4: // alias
			t := lib.Pick(g.r, []Type{tLI, tLS, tLLI, tD})
			if g.has(t) {
				src := g.pick(t)
				return []*S{g.def(t, Nm(src))}
			}
		case 5: // index assignment
			if g.has(tLI) {
				return []*S{IdxAsg(g.pick(tLI), I(g.r.Intn(2)), g.expr(tInt, 1))}
			}
		case 6:
			if g.has(tLLI) {
				if g.r.Bool() {
					return []*S{IdxAsg(g.pick(tLLI), I(g.r.Intn(2)), g.liExpr(1))}
				}
				x := g.newVar(tLI)
				src := g.pick(tLLI)
				return []*S{Asg(x, Idx(Nm(src), I(g.r.Intn(2)))), IdxAsg(x, I(0), I(40+g.r.Intn(9)))}
			}
		case 7:
			if g.has(tD) {
				return []*S{IdxAsg(g.pick(tD), Str(lib.Pick(g.r, []string{"a", "n", "k"})), g.expr(tInt, 1))}
			}
		case 8: // augmented assignment
			switch g.r.Intn(3) {
			case 0:
				if g.has(tInt) && !g.inFunc {
					return []*S{Aug(g.pick(tInt), g.expr(tInt, 1))}
				}
			case 1:
				if g.has(tLI) && !g.inFunc {
					return []*S{Aug(g.pick(tLI), g.liExpr(1))}
				}
			case 2:
				if g.has(tStr) && !g.inFunc {
					return []*S{Aug(g.pick(tStr), g.strExpr(1))}
				}
			}
		case 9:
			if g.has(tLI) {
				return []*S{IdxAug(g.pick(tLI), I(g.r.Intn(2)), g.expr(tInt, 1))}
			}
		case 10: // for loop
			if d > 0 && g.has(tLI) {
				x := g.fresh("e")
				var it *E
				if g.r.Chance(70) {
					it = Nm(g.pick(tLI))
				} else {
					it = Call("range", I(1+g.r.Intn(4)))
				}
				save := g.vars
				g.vars[tInt] = append(g.vars[tInt], x)
				var body []*S
				for k := 0; k < 1+g.r.Intn(2); k++ {
					body = append(body, g.loopStmt(d-1)...)
				}
				g.vars = save // names bound in the body may not exist afterwards (empty iteration)
				return []*S{For([]string{x}, it, body...)}
			}
		case 11: // if
			if d > 0 {
				c := g.boolExpr(1)
				save := g.vars
				th := g.stmt(d-1, inLoop)
				g.vars = save
				var el []*S
				if g.r.Bool() {
					el = g.stmt(d-1, inLoop)
					g.vars = save
				}
				return []*S{Cond(c, th, el)}
			}
		case 12: // function definition
			if d >= 2 && !g.inFunc && len(g.funcs) < 4 { // top level only: a def inside a branch may never run
				return g.defFn()
			}
		case 13: // call for its value
			if len(g.funcs) > 0 {
				f := lib.Pick(g.r, g.funcs)
				return []*S{g.def(f.ret, g.callFn(f, 1))}
			}
		case 14: // tuple unpacking
			if g.r.Bool() {
				a, b := g.newVar(tInt), g.newVar(tInt)
				return []*S{{K: "un", Xs: []string{a, b}, E: []*E{Tup(g.expr(tInt, 1), g.expr(tInt, 1))}}}
			}
		case 15: // enumerate / zip loops
			if d > 0 && g.has(tLI) {
				i, x := g.fresh("i"), g.fresh("e")
				acc := g.newVar(tLI)
				var it *E
				if g.r.Bool() {
					it = Call("enumerate", Nm(g.pick(tLI)))
				} else {
					l := g.pick(tLI)
					it = Call("zip", Nm(l), Nm(l))
				}
				return []*S{Asg(acc, g.L()), For([]string{i, x}, it, Aug(acc, g.L(Bin(Nm(i), lib.Pick(g.r, []string{"+", "*", "-"}), Nm(x)))))}
			}
		case 16:
			return []*S{g.def(tAny, g.boolChain(1))}
		}
	}
	return []*S{g.def(tInt, g.expr(tInt, 2))}
}

func (g *G) loopStmt(d int) []*S {
	switch g.r.Intn(5) {
	case 0:
		if g.has(tLI) {
			return []*S{IdxAsg(g.pick(tLI), I(0), g.expr(tInt, 1))}
		}
	case 1:
		if !g.inFunc && g.has(tInt) {
			return []*S{Aug(g.pick(tInt), g.expr(tInt, 1))}
		}
	case 2:
		if d > 0 {
			return []*S{Cond(g.boolExpr(1), []*S{{K: lib.Pick(g.r, []string{"continue", "break", "pass"})}}, nil)}
		}
	}
	t := lib.Pick(g.r, []Type{tInt, tLI, tStr})
	return []*S{g.def(t, g.expr(t, 1))}
}

// defFn defines a function over fresh parameter names; its body assigns only fresh local names.
func (g *G) defFn() []*S {
	name := g.fresh("f")
	np := g.r.Intn(3)
	sig := fnSig{name: name, ret: lib.Pick(g.r, []Type{tInt, tLI, tLI, tStr, tLLI})}
	saveVars := g.vars
	g.inFunc = true
	var ps []string
	var dflt []*E
	for i := 0; i < np; i++ {
		t := lib.Pick(g.r, []Type{tInt, tLI, tStr})
		p := g.fresh("p")
		ps = append(ps, p)
		sig.params = append(sig.params, t)
		var dv *E
		if i == np-1 && g.r.Chance(40) {
			sig.ndef = 1
			switch t {
			case tInt:
				dv = I(g.smallInt())
			case tStr:
				dv = Str(g.word())
			default:
				dv = g.intList()
			}
		}
		dflt = append(dflt, dv)
		g.vars[t] = append(g.vars[t], p)
	}
	var body []*S
	for k := 0; k < g.r.Intn(3); k++ {
		body = append(body, g.stmt(1, false)...)
	}
	var ret *E
	if sig.ret == tLI && g.r.Chance(40) {
		ret = g.intList() // a literal: one object per call in Python
	} else if sig.ret == tLLI && g.r.Chance(50) {
		ret = g.L(g.intList(), g.intList())
	} else {
		ret = g.expr(sig.ret, 2)
	}
	body = append(body, Ret(ret))
	g.inFunc = false
	g.vars = saveVars
	g.funcs = append(g.funcs, sig)
	return []*S{Def(name, ps, dflt, body...)}
}

// Program is a random typed program.
func (g *G) Program() []*S {
	var p []*S
	// a few values to work with
	p = append(p, g.def(tInt, I(g.smallInt())))
	p = append(p, g.def(tLI, g.intList()))
	if g.r.Bool() {
		p = append(p, g.def(tStr, Str(g.word())))
	}
	if g.r.Bool() {
		p = append(p, g.def(tLS, g.lsExpr(0)))
	}
	n := 3 + g.r.Intn(8)
	for i := 0; i < n; i++ {
		p = append(p, g.stmt(2, false)...)
	}
	return p
}

// ---------------------------------------------------------------- operator chains

// ChainProgram: a handful of int variables and several chain assignments.
func (g *G) ChainProgram() []*S {
	var p []*S
	for i := 0; i < 3; i++ {
		p = append(p, g.def(tInt, I(g.smallInt())))
	}
	p = append(p, g.def(tLI, g.intList()))
	n := 2 + g.r.Intn(4)
	for i := 0; i < n; i++ {
		if g.r.Chance(65) {
			p = append(p, g.def(tInt, g.arith(1, 2+g.r.Intn(4))))
		} else {
			p = append(p, g.def(tAny, g.boolChain(1)))
		}
	}
	return p
}

// exhaustiveChains enumerates every operator sequence of the given length over a representative operator set,
// with fixed operand values, one program per sequence.
func exhaustiveChains(ops []string, n int, emit func(p []*S)) {
	vals := []int{7, -3, 2, 5, -4, 3, 9}
	seq := make([]int, n)
	var rec func(i int)
	rec = func(i int) {
		if i == n {
			// Python chains comparisons (a < b < c means a < b and b < c); the BUILD language has no such form.
			// Sequences with two comparison operators in one and/or operand are outside the common subset.
			cmps := 0
			for _, o := range seq {
				switch ops[o] {
				case "<", "==":
					cmps++
				case "and", "or":
					cmps = 0
				}
				if cmps > 1 {
					return
				}
			}
			e := &E{K: "ch", A: []*E{I(vals[0])}}
			for k, o := range seq {
				e.Ops = append(e.Ops, ChainOp{Op: ops[o], E: I(vals[(k+1)%len(vals)])})
			}
			emit([]*S{Asg("r", e)})
			return
		}
		for o := range ops {
			seq[i] = o
			rec(i + 1)
		}
	}
	rec(0)
}

// ---------------------------------------------------------------- aliasing scenarios

func (g *G) ints(n int) *E {
	es := make([]*E, n)
	for i := range es {
		es[i] = I(g.r.Intn(20))
	}
	return g.L(es...)
}

// Scenario builds one of the aliasing patterns with random parameters.
func (g *G) Scenario(k int) []*S {
	switch k {
	case 0: // sorted / reversed and the argument afterwards
		f := lib.Pick(g.r, []string{"sorted", "reversed"})
		return []*S{Asg("a", g.ints(2+g.r.Intn(4))), Asg("b", Call(f, Nm("a"))), Asg("c", Bin(Nm("a"), "==", Nm("b")))}
	case 1: // slice, then write through the slice or the original
		p := []*S{Asg("a", g.ints(3+g.r.Intn(3))), Asg("b", Sl(Nm("a"), I(g.r.Intn(2)), I(2+g.r.Intn(2))))}
		if g.r.Bool() {
			p = append(p, IdxAsg("b", I(0), I(99)))
		} else {
			p = append(p, IdxAsg("a", I(1), I(99)))
		}
		return p
	case 2: // slice with spare capacity, then +
		return []*S{Asg("a", g.ints(3+g.r.Intn(3))), Asg("b", Sl(Nm("a"), nil, I(1+g.r.Intn(2)))), Asg("c", Bin(Nm("b"), "+", g.L(I(77))))}
	case 3: // filtered comprehension leaves spare capacity; two extensions share it
		return []*S{Asg("a", g.ints(3+g.r.Intn(4))),
			Asg("c", g.Comp(Nm("x"), []string{"x"}, Nm("a"), Bin(Nm("x"), lib.Pick(g.r, []string{"<", ">", "!="}), I(g.r.Intn(20))))),
			Asg("d", Bin(Nm("c"), "+", g.L(I(55)))), Asg("e", Bin(Nm("c"), "+", g.L(I(66))))}
	case 4: // x + [] is not a copy
		return []*S{Asg("a", g.ints(2+g.r.Intn(3))), Asg("b", Bin(Nm("a"), "+", g.L())), IdxAsg("b", I(0), I(99))}
	case 5: // literal returned from a function, mutated, function called again
		lit := g.ints(2 + g.r.Intn(3))
		if g.r.Chance(30) {
			lit = g.L(g.ints(2), g.ints(1))
			return []*S{Def("f", nil, nil, Ret(lit)), Asg("r1", Call("f")), Asg("t", Idx(Nm("r1"), I(0))), IdxAsg("t", I(0), I(99)), Asg("r2", Call("f"))}
		}
		return []*S{Def("f", nil, nil, Ret(lit)), Asg("r1", Call("f")), IdxAsg("r1", I(0), I(99)), Asg("r2", Call("f"))}
	case 6: // literal inside a dict / as call argument / in a loop
		switch g.r.Intn(3) {
		case 0:
			return []*S{Def("f", nil, nil, Ret(Dict(Str("k"), g.ints(2)))), Asg("d1", Call("f")), Asg("t", Idx(Nm("d1"), Str("k"))), IdxAsg("t", I(0), I(99)), Asg("d2", Call("f"))}
		case 1:
			return []*S{Def("h", []string{"p"}, nil, IdxAsg("p", I(0), I(99)), Ret(Nm("p"))), Def("f", nil, nil, Ret(Call("h", g.ints(2)))), Asg("r1", Call("f")), Asg("r2", Call("f"))}
		default:
			return []*S{Asg("acc", g.L()), For([]string{"i"}, Call("range", I(3)), Asg("t", g.ints(2)), IdxAug("t", I(0), Nm("i")), Aug("acc", g.L(Nm("t"))))}
		}
	case 7: // augmented assignment and aliases
		switch g.r.Intn(3) {
		case 0:
			return []*S{Asg("a", g.ints(2)), Asg("b", Nm("a")), Aug("a", g.L(I(5)))}
		case 1:
			return []*S{Def("f", []string{"p"}, nil, Aug("p", g.L(I(5))), Ret(Nm("p"))), Asg("a", g.ints(2)), Asg("r", Call("f", Nm("a")))}
		default:
			return []*S{Asg("m", g.L(g.ints(2), g.ints(1))), IdxAug("m", I(0), g.L(I(5))), Asg("t", Idx(Nm("m"), I(0)))}
		}
	case 8: // append / extend statements (defs files only)
		switch g.r.Intn(2) {
		case 0:
			return []*S{Asg("a", g.ints(2)), Asg("b", Nm("a")), Ex(Meth(Nm("a"), "append", I(5))), Ex(Meth(Nm("a"), "extend", g.L(I(6), I(7))))}
		default:
			return []*S{Def("f", []string{"p"}, nil, Ex(Meth(Nm("p"), "append", I(5))), Ret(Nm("p"))), Asg("a", g.ints(2)), Asg("r", Call("f", Nm("a")))}
		}
	case 9: // default arguments
		return []*S{Def("f", []string{"x", "l"}, []*E{nil, g.ints(1 + g.r.Intn(2))}, IdxAsg("l", I(0), Nm("x")), Ret(Nm("l"))), Asg("r1", Call("f", I(7))), Asg("r2", Call("f", I(8)))}
	case 10: // nested lists and dict copies share their inner values
		switch g.r.Intn(2) {
		case 0:
			return []*S{Asg("a", g.ints(2)), Asg("m", g.L(Nm("a"), Nm("a"))), Asg("t", Idx(Nm("m"), I(0))), IdxAsg("t", I(0), I(99))}
		default:
			return []*S{Asg("d", Dict(Str("k"), g.ints(2))), Asg("e", Meth(Nm("d"), "copy")), Asg("t", Idx(Nm("e"), Str("k"))), IdxAsg("t", I(0), I(99))}
		}
	case 11: // negative operands of % and //
		a, b := g.smallInt()-5, g.nonZero()
		return []*S{Asg("a", I(a)), Asg("b", I(b)), Asg("m", Bin(Nm("a"), "%", Nm("b"))), Asg("q", Bin(Nm("a"), "//", Nm("b"))),
			Asg("m2", Bin(I(a), "%", I(b))), Asg("r", &E{K: "ch", A: []*E{Nm("a")}, Ops: []ChainOp{{Op: "//", E: Nm("b")}, {Op: "*", E: Nm("b")}, {Op: "+", E: Nm("a")}, {Op: "%", E: Nm("b")}}})}
	case 13: // a sum used twice as the left operand of further sums (its capacity must be exactly its length)
		n := 1 + g.r.Intn(6)
		return []*S{Asg("a", g.ints(n)), Asg("x", Bin(Nm("a"), "+", g.ints(1+g.r.Intn(3)))),
			Asg("y", Bin(Nm("x"), "+", g.L(I(55)))), Asg("z", Bin(Nm("x"), "+", g.L(I(66))))}
	case 14: // repetition and the same
		return []*S{Asg("a", g.ints(1 + g.r.Intn(3))), Asg("x", Bin(Nm("a"), "*", I(1+g.r.Intn(3)))),
			Asg("y", Bin(Nm("x"), "+", g.L(I(55)))), Asg("z", Bin(Nm("x"), "+", g.L(I(66)))), IdxAsg("x", I(0), I(99))}
	case 15: // integers beyond 2^53 through // and % (a float64 cannot hold them exactly); results stay within 64 bits.
		// The parser rejects int literals of 19 characters and more, so the largest values are built by a product.
		big := []int{1 << 53, 1<<53 + 1, 1<<53 + 3, 1<<54 + 2, 1<<56 + 1, 3<<52 + 1, 6004799503160661, 99999999999999999, 72057594037927935}
		a := lib.Pick(g.r, big) - g.r.Intn(3)
		if g.r.Chance(40) {
			a = -a
		}
		var av *E = I(a)
		if g.r.Chance(35) {
			k := 2 + g.r.Intn(60) // |a| * k < 2^63 for every a above
			av = Bin(I(a), "*", I(k))
		}
		b := g.nonZero()
		switch g.r.Intn(4) {
		case 0:
			b = 1
		case 1:
			b = lib.Pick(g.r, big)
			if g.r.Chance(30) {
				b = -b
			}
		}
		return []*S{Asg("a", av), Asg("b", I(b)), Asg("q", Bin(Nm("a"), "//", Nm("b"))), Asg("m", Bin(Nm("a"), "%", Nm("b"))),
			Asg("q2", Bin(I(a), "//", I(b))), Asg("ok", &E{K: "ch", A: []*E{Nm("q")}, Ops: []ChainOp{{Op: "*", E: Nm("b")}, {Op: "+", E: Nm("m")}, {Op: "==", E: Nm("a")}}})}
	case 16: // an operand of `or` / `and` fills the dict whose truthiness decides the operator
		k := I(1 + g.r.Intn(9))
		rv := lib.Pick(g.r, []*E{Tr(), I(3), Fa(), I(0)})
		fill := Def("f", nil, nil, IdxAsg("d", Str("k"), I(1)), Ret(rv))
		var x *E
		switch g.r.Intn(5) {
		case 0: // d or f() and k: `or` is followed by a tighter operator, so d is asked twice
			x = &E{K: "ch", A: []*E{Nm("d")}, Ops: []ChainOp{{Op: "or", E: Call("f")}, {Op: "and", E: k}}}
		case 1:
			// (compared with a value of its own type: True == 1 is false in asp, true in Python - another story)
			x = &E{K: "ch", A: []*E{Nm("d")}, Ops: []ChainOp{{Op: "or", E: Call("f")}, {Op: "==", E: rv}}}
		case 2:
			x = &E{K: "ch", A: []*E{Nm("d")}, Ops: []ChainOp{{Op: "or", U: "not", E: Call("f")}}}
		case 3: // single operator: asked once
			x = Bin(Nm("d"), "or", Call("f"))
		default: // explicit parentheses: asked once
			x = Bin(Nm("d"), "or", Par(&E{K: "ch", A: []*E{Call("f")}, Ops: []ChainOp{{Op: "and", E: k}}}))
		}
		return []*S{Asg("d", Dict()), fill, Asg("x", x), Asg("n", Call("len", Nm("d")))}
	case 12: // mutation while a slice of the same list is being iterated / sorted copies in loops
		return []*S{Asg("a", g.ints(4)), Asg("out", g.L()), For([]string{"x"}, Sl(Nm("a"), I(1), nil), IdxAsg("a", I(2), I(0)), Aug("out", g.L(Nm("x"))))}
	}
	return g.Program()
}

const nScenarios = 17

// SortedKeyProgram: sorted(seq, key=…, reverse=…) over lists in which several distinguishable elements have the same
// key, so that the order of tied elements is visible: strings keyed by their length, pairs keyed by their first
// component, ints keyed by x % 3; also reversed(sorted(…)), sorted over the keys of a dict, a def instead of a lambda.
// long = more than 12 elements (sort.Slice is an insertion sort, hence stable, only up to 12).
func (g *G) SortedKeyProgram(long bool) []*S {
	r := g.r
	n := 3 + r.Intn(8)
	if long {
		n = 13 + r.Intn(14)
	}
	rev := func() *E {
		if r.Chance(55) {
			return Tr()
		}
		return Fa()
	}
	letters := "abcdefghijklmnopqrstuvwxyz"
	var prog []*S
	var seq, key *E
	switch r.Intn(4) {
	case 0: // strings keyed by len
		var ws []*E
		for i := 0; i < n; i++ {
			w := strings.Repeat(string(letters[(i*7+r.Intn(3))%26]), 1+r.Intn(3)) + string(letters[i%26])
			ws = append(ws, Str(w))
		}
		prog = append(prog, Asg("xs", g.L(ws...)))
		seq, key = Nm("xs"), Lam([]string{"w"}, Call("len", Nm("w")))
	case 1: // pairs keyed by their first component
		var ps []*E
		for i := 0; i < n; i++ {
			ps = append(ps, g.L(I(r.Intn(3)), Str(string(letters[i%26]))))
		}
		prog = append(prog, Asg("xs", g.L(ps...)))
		seq, key = Nm("xs"), Lam([]string{"p"}, Idx(Nm("p"), I(0)))
	case 2: // ints keyed by x % 3
		var ns []*E
		for i := 0; i < n; i++ {
			ns = append(ns, I(r.Intn(40)))
		}
		prog = append(prog, Asg("xs", g.L(ns...)))
		seq, key = Nm("xs"), Lam([]string{"x"}, Bin(Nm("x"), "%", I(3)))
	default: // the keys of a dict (sorted by name), keyed by their length
		// (written in sorted key order: asp dicts iterate in sorted order, Python's in insertion order)
		names := map[string]bool{}
		for i := 0; i < n; i++ {
			names[strings.Repeat(string(letters[(i*5)%26]), 1+r.Intn(3))+string(letters[i%26])] = true
		}
		var ks []string
		for k := range names {
			ks = append(ks, k)
		}
		sort.Strings(ks)
		var kv []*E
		for i, k := range ks {
			kv = append(kv, Str(k), I(i))
		}
		prog = append(prog, Asg("d", Dict(kv...)))
		seq, key = Meth(Nm("d"), "keys"), Lam([]string{"k"}, Call("len", Nm("k")))
	}
	if r.Chance(25) { // a def instead of a lambda
		body := key.A[0]
		prog = append(prog, Def("kf", key.Vars, nil, Ret(body)))
		key = Nm("kf")
	}
	call := CallKw("sorted", []*E{seq, key, rev()}, []string{"", "key", "reverse"})
	switch r.Intn(5) {
	case 0:
		prog = append(prog, Asg("r", Call("reversed", call)))
	case 1: // the same list both ways
		prog = append(prog, Asg("r", call), Asg("q", CallKw("sorted", []*E{seq, key, rev()}, []string{"", "key", "reverse"})))
	case 2: // key only
		prog = append(prog, Asg("r", CallKw("sorted", []*E{seq, key}, []string{"", "key"})), Asg("q", call))
	default:
		prog = append(prog, Asg("r", call))
	}
	return prog
}
