// C17 harness: packages that share a subincluded file, interpreted in one interpreter in every order, against
// each package interpreted alone — and against the multi-file asp model (Driver/C17.lean).
//
// Op line:   ms ( files ( defs <label-hex> <prog> )… ( pkg <name> <prog> )… )
// Output:    <name>=<globals>|…|final:<name>=<globals>|…      (own rendering of each package right after it was
//            interpreted, then every package rendered again after all of them ran)
package asplib

import (
	"fmt"
	"os"
	"sort"
	"strings"

	"github.com/thought-machine/please/src/core"
	"github.com/thought-machine/please/src/parse/asp"

	"verif/harness/lib"
)

type DefFile struct {
	Label string // e.g. //d1:d
	Prog  []*S
}

type PkgFile struct {
	Name string
	Prog []*S
}

type FileSet struct {
	Defs []DefFile
	Pkgs []PkgFile
}

func (fs *FileSet) Sexp() string {
	parts := []string{"(", "files"}
	for _, d := range fs.Defs {
		parts = append(parts, "(", "defs", hx(d.Label), ProgSexp(d.Prog), ")")
	}
	for _, p := range fs.Pkgs {
		parts = append(parts, "(", "pkg", p.Name, ProgSexp(p.Prog), ")")
	}
	return strings.Join(append(parts, ")"), " ")
}

func DecodeFileSet(s string) (fs *FileSet, ok bool) {
	defer func() {
		if r := recover(); r != nil {
			fs, ok = nil, false
		}
	}()
	x, err := parseSx(s)
	if err != nil || !x.list || len(x.kids) == 0 || x.kids[0].atom != "files" {
		return nil, false
	}
	fs = &FileSet{}
	prog := func(y *sx) []*S {
		if !y.list || len(y.kids) == 0 || y.kids[0].atom != "prog" {
			bad("prog")
		}
		p := []*S{}
		for _, z := range y.kids[1:] {
			p = append(p, toS(z))
		}
		return p
	}
	for _, y := range x.kids[1:] {
		if !y.list || len(y.kids) != 3 {
			bad("file")
		}
		switch y.kids[0].atom {
		case "defs":
			fs.Defs = append(fs.Defs, DefFile{Label: unhx(y.kids[1].atom), Prog: prog(y.kids[2])})
		case "pkg":
			fs.Pkgs = append(fs.Pkgs, PkgFile{Name: y.kids[1].atom, Prog: prog(y.kids[2])})
		default:
			bad("file kind")
		}
	}
	return fs, true
}

// labelParts splits //pkg:name.
func labelParts(l string) (string, string) {
	l = strings.TrimPrefix(l, "//")
	i := strings.IndexByte(l, ':')
	if i < 0 {
		return l, l
	}
	return l[:i], l[i+1:]
}

// c17Repair is a rewriting of the file texts that removes one root cause.
type c17Repair struct {
	key, class string
	defs       func(o *PrintOpts)
	pkg        func(o *PrintOpts)
	deepCopy   bool // give every package private deep copies of the imported containers
}

// Tried in this order: the narrower repairs first (the deep-copy repair also hides the other two causes).
var c17Repairs = []c17Repair{
	{key: "K", class: "constant-pool-object-shared-across-packages", defs: func(o *PrintOpts) { o.ConstFresh = true }},
	{key: "A", class: "frozen-list-add-appends-in-place", pkg: func(o *PrintOpts) { o.AddCopy = true }},
	{key: "FZ", class: "freeze-keeps-unfrozen-elements", deepCopy: true, defs: func(o *PrintOpts) { o.RetCopy = true }},
}

const deepCopyPrelude = `def _dc(x):
    if isinstance(x, str) or isinstance(x, int) or x == None:
        return x
    s = str(x)
    if s.startswith("["):
        return [_dc(e) for e in x]
    if s.startswith("{"):
        return {k: _dc(x[k]) for k in x.keys()}
    return x
`

// exportedNames: top-level assigned names of a defs program (not functions).
func exportedNames(p []*S) []string {
	seen := map[string]bool{}
	var out []string
	for _, s := range p {
		switch s.K {
		case "=", "+=":
			if !seen[s.X] {
				seen[s.X] = true
				out = append(out, s.X)
			}
		}
	}
	return out
}

type setResult struct {
	own    []string // per package: rendering right after it ran, or ERR
	final  []string // per package: rendering after every package ran ("" when it failed)
	anyErr bool
}

func (r *setResult) line(fs *FileSet) string {
	var a, b []string
	for i, p := range fs.Pkgs {
		a = append(a, p.Name+"="+r.own[i])
		b = append(b, p.Name+"="+r.final[i])
	}
	return strings.Join(a, "|") + "|final:" + strings.Join(b, "|")
}

type c17 struct {
	r   *lib.Run
	asp *AspRunner
	seq int
}

// pkgText prints a package file; with the deep-copy repair every subinclude is followed by private copies.
func pkgText(fs *FileSet, p PkgFile, set map[string]bool) string {
	var o PrintOpts
	deep := false
	for _, rp := range c17Repairs {
		if set[rp.key] {
			if rp.pkg != nil {
				rp.pkg(&o)
			}
			deep = deep || rp.deepCopy
		}
	}
	if !deep {
		return Print(p.Prog, o)
	}
	var b strings.Builder
	b.WriteString(deepCopyPrelude)
	pr := &printer{o: o}
	if o.Mod || o.AddCopy || o.SliceCopy || o.SortCopy {
		b.WriteString(repairPrelude)
	}
	for _, s := range p.Prog {
		pr.stmt(&b, s, "")
		if s.K == "ex" && s.E[0].K == "c" && s.E[0].S == "subinclude" && len(s.E[0].A) == 1 && s.E[0].A[0].K == "s" {
			for _, d := range fs.Defs {
				if d.Label == s.E[0].A[0].S {
					for _, x := range exportedNames(d.Prog) {
						fmt.Fprintf(&b, "%s = _dc(%s)\n", x, x)
					}
				}
			}
		}
	}
	return b.String()
}

func defsText(d DefFile, set map[string]bool) string {
	var o PrintOpts
	for _, rp := range c17Repairs {
		if set[rp.key] && rp.defs != nil {
			rp.defs(&o)
		}
	}
	if o.RetCopy {
		return deepCopyPrelude + Print(d.Prog, o)
	}
	return Print(d.Prog, o)
}

// run interprets the packages of fs (only those selected) in order in one fresh interpreter.
func (h *c17) run(fs *FileSet, only int, set map[string]bool) *setResult {
	// one interpreter serves many runs: every run gets its own copies of the subincluded files under fresh
	// labels (the subinclude cache is keyed by file path), which isolates runs from each other
	h.asp.fresh()
	h.seq++
	relabel := map[string]string{}
	for _, d := range fs.Defs {
		pn, tn := labelParts(d.Label)
		relabel[quoteStr(d.Label)] = quoteStr(h.asp.AddDefs(fmt.Sprintf("r%d_%s", h.seq, pn), tn, defsText(d, set)))
	}
	text := func(p PkgFile) string {
		t := pkgText(fs, p, set)
		for o, n := range relabel {
			t = strings.ReplaceAll(t, o, n)
		}
		return t
	}
	res := &setResult{own: make([]string, len(fs.Pkgs)), final: make([]string, len(fs.Pkgs))}
	scopes := make([]*asp.ScopeForVerif, len(fs.Pkgs))
	for i, p := range fs.Pkgs {
		if only >= 0 && i != only {
			continue
		}
		sc, err := h.asp.EvalScope(fmt.Sprintf("r%d_pk_%s", h.seq, p.Name), text(p))
		if err != nil {
			debugErr(text(p), err)
			res.own[i] = "ERR"
			res.anyErr = true
			continue
		}
		scopes[i] = sc
		res.own[i] = stripRepairNames(sc.Render(false))
	}
	for i := range fs.Pkgs {
		if scopes[i] != nil {
			res.final[i] = stripRepairNames(scopes[i].Render(false))
		}
	}
	return res
}

// stripRepairNames is the identity: the helper functions of the repairs are functions and are not rendered.
func stripRepairNames(s string) string { return s }

// EvalScope interprets a package file and keeps its scope.
func (r *AspRunner) EvalScope(pkgName, src string) (sc *asp.ScopeForVerif, err error) {
	defer func() {
		if e := recover(); e != nil {
			sc, err = nil, fmt.Errorf("panic: %v", e)
		}
	}()
	pkg := core.NewPackage(pkgName)
	pkg.Filename = pkgName + "/BUILD"
	return r.p.EvalScopeForVerif(pkg, []byte(src), core.ParseModeNormal)
}

// independent: the property on the real code for this file set under a set of repairs.
// Returns a description of the first violation, or "".
func (h *c17) independent(fs *FileSet, set map[string]bool) string {
	all := h.run(fs, -1, set)
	for i, p := range fs.Pkgs {
		if all.own[i] == "ERR" {
			continue
		}
		alone := h.run(fs, i, set)
		if alone.own[i] == "ERR" {
			continue
		}
		if alone.own[i] != all.own[i] {
			return fmt.Sprintf("package %s alone=%s after-others=%s", p.Name, alone.own[i], all.own[i])
		}
		if all.final[i] != all.own[i] {
			return fmt.Sprintf("package %s when-parsed=%s after-later-packages=%s", p.Name, all.own[i], all.final[i])
		}
	}
	return ""
}

// refineFreeze narrows the deep-copy explanation by where unfrozen containers are actually reachable from the
// exports of the subincluded files on the real interpreter: the known root cause is "element of a frozen list";
// a value of a frozen dict, or an export that is not frozen at all, is a different defect.
func (h *c17) refineFreeze(fs *FileSet) []string {
	h.asp.fresh()
	h.seq++
	var b strings.Builder
	for _, d := range fs.Defs {
		pn, tn := labelParts(d.Label)
		fmt.Fprintf(&b, "subinclude(%q)\n", h.asp.AddDefs(fmt.Sprintf("r%d_%s", h.seq, pn), tn, defsText(d, nil)))
	}
	sc, err := h.asp.EvalScope(fmt.Sprintf("r%d_probe", h.seq), b.String())
	if err != nil {
		return []string{"freeze-keeps-unfrozen-elements"}
	}
	kinds := leakKinds(sc.Render(true))
	var out []string
	// does a frozen wrapper itself take an assignment?  (X[0] = X[0] on every exported non-empty list)
	for _, d := range fs.Defs {
		for _, x := range exportedNames(d.Prog) {
			probe := b.String() + fmt.Sprintf("_t = %s[0]\n%s[0] = _t\n", x, x)
			h.seq++
			if _, err := h.asp.EvalScope(fmt.Sprintf("r%d_probe_%s", h.seq, x), probe); err == nil {
				out = append(out, "frozen-container-accepts-assignment")
				break
			}
		}
	}
	if kinds["dict-value"] {
		out = append(out, "freeze-dict-keeps-unfrozen-values")
	}
	if kinds["top"] {
		out = append(out, "export-not-frozen")
	}
	if kinds["list-elem"] || len(out) == 0 {
		out = append(out, "freeze-keeps-unfrozen-elements")
	}
	return out
}

func (h *c17) classify(fs *FileSet) []string {
	for _, rp := range c17Repairs {
		if h.independent(fs, map[string]bool{rp.key: true}) == "" {
			if rp.key == "FZ" {
				return h.refineFreeze(fs)
			}
			return []string{rp.class}
		}
	}
	all := map[string]bool{}
	for _, rp := range c17Repairs {
		all[rp.key] = true
	}
	if h.independent(fs, all) != "" {
		return []string{"packages-interfere-unexplained"}
	}
	for _, rp := range c17Repairs {
		delete(all, rp.key)
		if h.independent(fs, all) != "" {
			all[rp.key] = true
		}
	}
	var out []string
	for _, rp := range c17Repairs {
		if all[rp.key] {
			out = append(out, rp.class)
		}
	}
	sort.Strings(out)
	return out
}

func (h *c17) runOp(op string) {
	r := h.r
	if strings.HasPrefix(op, "msc ") {
		h.runConfigOp(op)
		return
	}
	if strings.HasPrefix(op, "msm ") {
		h.runConfigMergeOp(op)
		return
	}
	if !strings.HasPrefix(op, "ms ") {
		r.Emit(op, "bad-op", false)
		return
	}
	fs, ok := DecodeFileSet(strings.TrimPrefix(op, "ms "))
	if !ok {
		r.Emit(op, "bad-op", false)
		return
	}
	res := h.run(fs, -1, nil)
	if res.anyErr {
		// a package that fails half-way keeps its partial effects on shared values; the model's error monad
		// does not: such sets are left to the direct oracle
		r.Count("outcome:some-package-failed(not-modelled)")
	} else {
		r.Emit(op, res.line(fs), len(fs.Pkgs) >= 2)
	}
	if len(fs.Pkgs) < 2 {
		return
	}
	if why := h.independent(fs, nil); why != "" {
		r.Count("outcome:interference")
		for _, cls := range h.classify(fs) {
			r.OracleFail(cls, op, why)
		}
	} else {
		r.Count("outcome:independent")
	}
}

// ---------------------------------------------------------------- generator

type g17 struct {
	r   *lib.Rng
	g   *G
	exp map[string]string // exported name -> kind: flat nested dict dictlist listdict spare slice str int
	fns map[string]string // exported function -> kind
}

// defsFile builds a build_defs file exporting containers of several shapes and functions over them.
func (x *g17) defsFile() []*S {
	g := x.g
	var p []*S
	add := func(name, kind string, e *E) {
		p = append(p, Asg(name, e))
		x.exp[name] = kind
	}
	add("FLAT", "flat", g.ints(3+x.r.Intn(2)))
	add("NESTED", "nested", g.L(g.ints(2+x.r.Intn(2)), g.ints(2), g.ints(1)))
	if x.r.Chance(70) {
		add("DL", "dictlist", Dict(Str("a"), g.ints(2), Str("b"), g.L(g.ints(2), g.ints(2))))
	}
	if x.r.Chance(60) {
		add("LD", "listdict", g.L(Dict(Str("k"), I(1), Str("l"), g.ints(2)), Dict(Str("k"), I(2))))
	}
	if x.r.Chance(60) {
		// a filtered comprehension: whatever the filter drops stays behind the result as spare capacity
		cond := Bin(Nm("e"), lib.Pick(x.r, []string{"<", ">", "!="}), I(x.r.Intn(20)))
		if x.r.Chance(60) {
			cond = Bin(Nm("e"), "!=", Idx(Nm("FLAT"), I(0)))
		}
		add("SPARE", "spare", g.Comp(Nm("e"), []string{"e"}, Nm("FLAT"), cond))
	}
	if x.r.Chance(50) {
		add("SLICE", "slice", Sl(Nm("FLAT"), nil, I(1+x.r.Intn(2))))
	}
	if x.r.Chance(40) {
		add("DEEP", "deep", g.L(g.L(g.ints(2), g.ints(1)), g.L(g.ints(2), g.ints(2))))
	}
	add("NAME", "str", Str(g.word()))
	fn := func(name, kind string, s *S) {
		p = append(p, s)
		x.fns[name] = kind
	}
	if x.r.Chance(70) {
		fn("lit", "lit", Def("lit", nil, nil, Ret(g.ints(2+x.r.Intn(2)))))
	}
	if x.r.Chance(50) {
		fn("litnest", "litnest", Def("litnest", nil, nil, Ret(g.L(g.ints(2), g.ints(1)))))
	}
	if x.r.Chance(50) {
		fn("dflt", "dflt", Def("dflt", []string{"v", "acc"}, []*E{nil, g.ints(1 + x.r.Intn(2))}, IdxAsg("acc", I(0), Nm("v")), Ret(Nm("acc"))))
	}
	if x.r.Chance(50) {
		fn("inner", "inner", Def("inner", []string{"i"}, nil, Ret(Idx(Nm("NESTED"), Nm("i")))))
	}
	if x.r.Chance(40) {
		fn("litdict", "litdict", Def("litdict", nil, nil, Ret(Dict(Str("k"), g.ints(2)))))
	}
	return p
}

func (x *g17) namesOf(kind string) []string {
	var out []string
	for n, k := range x.exp {
		if k == kind {
			out = append(out, n)
		}
	}
	sort.Strings(out)
	return out
}

// listRef: an expression denoting some list reachable from the exports (possibly frozen, possibly not).
// frozenRef: a list that the package sees behind a frozen wrapper (writes and in-place builtins are rejected).
func (x *g17) frozenRef() *E {
	r := x.r
	for tries := 0; tries < 6; tries++ {
		switch r.Intn(4) {
		case 0:
			return Nm("FLAT")
		case 1:
			if x.exp["DL"] != "" {
				return Idx(Nm("DL"), Str("a"))
			}
		case 2:
			if x.exp["SPARE"] != "" {
				return Nm("SPARE")
			}
		case 3:
			if x.exp["SLICE"] != "" {
				return Nm("SLICE")
			}
		}
	}
	return Nm("FLAT")
}

// leakedRef: a list reachable from the exports that is *not* behind a frozen wrapper (elements of frozen lists,
// values handed out by functions of the subincluded file).
func (x *g17) leakedRef() *E {
	r := x.r
	for tries := 0; tries < 8; tries++ {
		switch r.Intn(6) {
		case 0, 1:
			return Idx(Nm("NESTED"), I(r.Intn(2)))
		case 2:
			if x.exp["DL"] != "" {
				return Idx(Idx(Nm("DL"), Str("b")), I(0))
			}
		case 3:
			if x.exp["LD"] != "" {
				return Idx(Idx(Nm("LD"), I(0)), Str("l"))
			}
		case 4:
			if x.exp["DEEP"] != "" {
				return Idx(Idx(Nm("DEEP"), I(r.Intn(2))), I(0))
			}
		case 5:
			for _, f := range []string{"lit", "inner", "dflt"} {
				if x.fns[f] != "" && r.Chance(50) {
					switch f {
					case "lit":
						return Call("lit")
					case "inner":
						return Call("inner", I(r.Intn(2)))
					default:
						return Call("dflt", I(20+r.Intn(9)))
					}
				}
			}
		}
	}
	return Idx(Nm("NESTED"), I(0))
}

// listRef: mostly a leaked list, sometimes a frozen one (whose mutation must fail).
func (x *g17) listRef() *E {
	if x.r.Chance(12) {
		return x.frozenRef()
	}
	return x.leakedRef()
}

// pkgFile: subinclude, a few reads and mutation attempts on what was imported, then observations.
func (x *g17) pkgFile(label string, tag int) []*S {
	r := x.r
	p := []*S{Ex(Call("subinclude", Str(label)))}
	nv := 0
	local := func() string { nv++; return fmt.Sprintf("v%d", nv) }
	n := 1 + r.Intn(4)
	for i := 0; i < n; i++ {
		switch r.Intn(10) {
		case 0, 1, 2: // take a reference and write through it
			v := local()
			p = append(p, Asg(v, x.listRef()), IdxAsg(v, I(r.Intn(2)), I(100*tag+r.Intn(50))))
		case 3: // reorder in place
			v := local()
			p = append(p, Asg(v, Call(lib.Pick(r, []string{"sorted", "reversed"}), x.listRef())))
		case 4: // extend: a new list — or the spare capacity behind a shared one
			v := local()
			src := x.listRef()
			if r.Chance(60) {
				src = x.frozenRef()
			}
			if r.Chance(25) {
				// nothing appended: the "sum" may be the frozen list's own slice
				p = append(p, Asg(v, Bin(src, "+", x.g.L())), IdxAsg(v, I(0), I(100*tag+r.Intn(50))))
			} else {
				p = append(p, Asg(v, Bin(src, "+", x.g.L(I(100*tag+r.Intn(50))))))
			}
		case 5: // dict reached through a list
			if x.exp["LD"] != "" {
				v := local()
				p = append(p, Asg(v, Idx(Nm("LD"), I(r.Intn(2)))), IdxAsg(v, Str(lib.Pick(r, []string{"k", "n"})), I(100*tag+r.Intn(50))))
			}
		case 6: // literal dict from a function
			if x.fns["litdict"] != "" {
				v, w := local(), local()
				p = append(p, Asg(v, Call("litdict")), Asg(w, Idx(Nm(v), Str("k"))), IdxAsg(w, I(0), I(100*tag+r.Intn(50))))
			}
		case 7: // nested literal from a function
			if x.fns["litnest"] != "" {
				v, w := local(), local()
				p = append(p, Asg(v, Call("litnest")), Asg(w, Idx(Nm(v), I(0))), IdxAsg(w, I(0), I(100*tag+r.Intn(50))))
			}
		case 8: // pure reads
			v := local()
			p = append(p, Asg(v, Bin(Call("len", Nm("FLAT")), "+", Idx(Idx(Nm("NESTED"), I(0)), I(0)))))
		case 9: // augmented assignment on a local alias
			v := local()
			p = append(p, Asg(v, x.listRef()), Aug(v, x.g.L(I(100*tag+r.Intn(50)))))
		}
	}
	// observations that do not depend on what this package itself changed are what other packages must not see
	// changed; everything imported is rendered with the package scope anyway
	for f := range x.fns {
		_ = f
	}
	if x.fns["lit"] != "" && r.Chance(60) {
		p = append(p, Asg("o_lit", Call("lit")))
	}
	if x.fns["litnest"] != "" && r.Chance(40) {
		p = append(p, Asg("o_litnest", Call("litnest")))
	}
	if x.fns["dflt"] != "" && r.Chance(40) {
		p = append(p, Asg("o_dflt", Call("dflt", I(7))))
	}
	return p
}

func (x *g17) fileSet(npkg int) *FileSet {
	x.g = NewG(x.r)
	x.exp = map[string]string{}
	x.fns = map[string]string{}
	label := "//d1:d"
	fs := &FileSet{Defs: []DefFile{{Label: label, Prog: Normalize(x.defsFile())}}}
	for i := 0; i < npkg; i++ {
		fs.Pkgs = append(fs.Pkgs, PkgFile{Name: string(rune('a' + i)), Prog: Normalize(x.pkgFile(label, i+1))})
	}
	return fs
}

func MainC17() {
	r := lib.Start()
	defer r.Finish()
	reseed(r)
	r.Rule = "at least two packages sharing one subincluded file, all interpreted without error; distinct by op line"
	scratch := os.Getenv("VERIF_SCRATCH")
	if scratch == "" {
		scratch = r.OutDir
	}
	h := &c17{r: r, asp: NewAspRunner(scratch)}
	if ops := r.ReplayOps(); ops != nil {
		for _, op := range ops {
			h.runOp(op)
		}
		return
	}
	x := &g17{r: r.Rng}
	// values taken from CONFIG (the interpreter's own state: a fresh interpreter per run, so only a few)
	for i := 0; i < r.N(3, 30); i++ {
		r.Count("gen:config")
		h.runOp("msc " + configFileSet(r.Rng).Sexp())
	}
	// CONFIG entries merged in from subincluded files, every order of the packages
	for i := 0; i < r.N(60, 600); i++ {
		r.Count("gen:config-merge")
		h.emitConfigMerge(configMergeFileSet(r.Rng))
	}
	for i := 0; i < r.N(220, 2500); i++ {
		npkg := 2
		if r.Rng.Chance(25) {
			npkg = 3
		}
		fs := x.fileSet(npkg)
		r.Count(fmt.Sprintf("gen:packages=%d", npkg))
		h.runOp("ms " + fs.Sexp())
		// the same packages in the opposite order
		rev := &FileSet{Defs: fs.Defs}
		for j := len(fs.Pkgs) - 1; j >= 0; j-- {
			rev.Pkgs = append(rev.Pkgs, fs.Pkgs[j])
		}
		h.runOp("ms " + rev.Sexp())
		// and each alone (model correspondence of the single-package runs)
		for _, p := range fs.Pkgs {
			h.runOp("ms " + (&FileSet{Defs: fs.Defs, Pkgs: []PkgFile{p}}).Sexp())
		}
	}
}
