// Source-text printer for generated programs, with the repairs used to classify asp/python3 disagreements.
package asplib

import (
	"strconv"
	"strings"

	"github.com/thought-machine/please/src/parse/asp"
)

// PrintOpts selects how a program is rendered as text.
type PrintOpts struct {
	Tree       string // "": chains as written; "asp": fully parenthesised along asp's own grouping; "py": along Python's
	TreeSwallow bool  // like Tree "py", only for chains in which an operator swallows (finding ops-right-operand-swallows-rest)
	TreeLazy   bool   // like Tree "py", only for other chains in which and/or is followed by a tighter operator
	Mod        bool   // a % b  ->  _mod(a, b)            (floor modulo built from the interpreter's own %)
	StableSort bool   // sorted(l, key=k, reverse=r) -> _ssorted(l, k, r)  (a stable insertion sort written in the language itself)
	FloorDiv   bool   // a // b ->  _fdiv(a, b)           (floor division built from the interpreter's integer / and %)
	AddCopy    bool   // a + b  ->  _cp(a) + b            (left operand copied: no spare capacity, no aliasing)
	SliceCopy  bool   // a[i:j] ->  _cp(a[i:j])
	SortCopy   bool   // sorted(x) / reversed(x) -> sorted(_cp(x)) / reversed(_cp(x))
	ConstFresh bool   // constant list literal in expression position -> ([...] + [])
	AugRebind  bool   // x += e -> x = x + (e);  x.append(e) -> x = x + [e]   (python side: emulate asp's rebinding)
	RetCopy    bool   // return e -> return _dc(e)      (functions hand out deep copies; C17)
	FoldCase   bool   // string literals: characters whose upper/lower case is more than one character (ß) -> "b"
	ConfigCopy bool   // CONFIG[k] -> _dc(CONFIG[k])    (private copies of what is read from CONFIG; C17)
}

func (o PrintOpts) needsTree() bool { return o.Mod || o.AddCopy || o.FloorDiv }

// _cp recognises lists by their printed form: isinstance(x, list) is False for a frozen list (a C18 finding).
const repairPrelude = `def _cp(x):
    return [_e for _e in x] if (not isinstance(x, str)) and str(x).startswith("[") else x
def _mod(a, b):
    return ((a % b) + b) % b if isinstance(a, int) else a % b
def _ssorted(l, k, r):
    out = []
    for x in l:
        kx = k(x) if k else x
        n = len([y for y in out if not ((k(y) if k else y) < kx)]) if r else len([y for y in out if not (kx < (k(y) if k else y))])
        out = [y for y in out[:n]] + [x] + [y for y in out[n:]]
    return out
def _fdiv(a, b):
    q = a / b
    return q - 1 if (a % b != 0) and ((a < 0) != (b < 0)) else q
`

// ---------------------------------------------------------------- grouping (the harness's own copies)

// T is a grouped chain.
type T struct {
	Leaf *E
	Head bool // the leaf is the head of the chain (not a hoisted operand Expression)
	Un   string
	Bin  string
	L, R *T
}

var aspOperator = map[string]asp.Operator{"+": asp.Add, "-": asp.Subtract, "*": asp.Multiply, "/": asp.Divide,
	"//": asp.FloorDivide, "%": asp.Modulo, "<": asp.LessThan, ">": asp.GreaterThan, "<=": asp.LessThanOrEqual,
	">=": asp.GreaterThanOrEqual, "==": asp.Equal, "!=": asp.NotEqual, "in": asp.In, "notin": asp.NotIn,
	"and": asp.And, "or": asp.Or, "|": asp.Union, "is": asp.Is, "isnot": asp.IsNot, "neg": asp.Negate, "not": asp.Not}

// aspPrec is the real table: Operator.Precedence() of the code under test.
func aspPrec(op string) int { return aspOperator[op].Precedence() }

func pyPrec(op string) int {
	switch op {
	case "or":
		return -3
	case "and":
		return -2
	case "not":
		return -1
	case "|":
		return 1
	case "+", "-":
		return 2
	case "*", "/", "//", "%":
		return 3
	case "neg":
		return 4
	}
	return 0
}

type flatOp struct {
	Op string // binary operator or "neg"/"not"
	E  *E     // nil for unary
}

func flatten(e *E) []flatOp {
	var out []flatOp
	if e.U != "" {
		out = append(out, flatOp{Op: e.U})
	}
	for _, o := range e.Ops {
		out = append(out, flatOp{Op: o.Op, E: o.E})
		if o.U != "" {
			out = append(out, flatOp{Op: o.U})
		}
	}
	return out
}

func node(t *T, o flatOp) *T {
	if o.E == nil {
		return &T{Un: o.Op, L: t}
	}
	return &T{Bin: o.Op, L: t, R: &T{Leaf: o.E}}
}

// aspGroup: the tree (*scope).interpretOps evaluates (interpreter.go:633).
func aspGroup(t *T, ops []flatOp) *T {
	if len(ops) == 0 {
		return t
	}
	if len(ops) == 1 {
		return node(t, ops[0])
	}
	if aspPrec(ops[0].Op) >= aspPrec(ops[1].Op) {
		return aspGroup(node(t, ops[0]), ops[1:])
	}
	if ops[0].E == nil {
		return &T{Un: ops[0].Op, L: aspGroup(t, ops[1:])}
	}
	return &T{Bin: ops[0].Op, L: t, R: aspGroup(&T{Leaf: ops[0].E}, ops[1:])}
}

// swallows: some operator is followed by a tighter one and later by one that does not bind tighter than itself.
func swallows(ops []flatOp) bool {
	for i := 0; i+1 < len(ops); i++ {
		if aspPrec(ops[i].Op) < aspPrec(ops[i+1].Op) {
			for _, o := range ops[i+2:] {
				if aspPrec(o.Op) <= aspPrec(ops[i].Op) {
					return true
				}
			}
		}
	}
	return false
}

// lazyTight: an `and` / `or` is directly followed by a tighter operator — interpretOps then evaluates the rest of the
// list first and asks for the truthiness of the left value a second time afterwards.
func lazyTight(ops []flatOp) bool {
	for i := 0; i+1 < len(ops); i++ {
		if (ops[i].Op == "and" || ops[i].Op == "or") && aspPrec(ops[i].Op) < aspPrec(ops[i+1].Op) {
			return true
		}
	}
	return false
}

type pyParser struct{ rest []ChainOp }

func (p *pyParser) operand(u string, e *E, head bool) *T {
	switch u {
	case "neg":
		return &T{Un: "neg", L: &T{Leaf: e, Head: head}}
	case "not":
		return &T{Un: "not", L: p.climb(&T{Leaf: e, Head: head}, pyPrec("not")+1)}
	}
	return &T{Leaf: e, Head: head}
}

func (p *pyParser) climb(lhs *T, minPrec int) *T {
	for len(p.rest) > 0 && pyPrec(p.rest[0].Op) >= minPrec {
		o := p.rest[0]
		p.rest = p.rest[1:]
		rhs := p.operand(o.U, o.E, false)
		rhs = p.climb(rhs, pyPrec(o.Op)+1)
		lhs = &T{Bin: o.Op, L: lhs, R: rhs}
	}
	return lhs
}

// pyGroup: precedence climbing.
func pyGroup(e *E) *T {
	p := &pyParser{rest: e.Ops}
	return p.climb(p.operand(e.U, e.A[0], true), -100)
}

func treeEq(a, b *T) bool {
	if a == nil || b == nil {
		return a == b
	}
	return a.Leaf == b.Leaf && a.Un == b.Un && a.Bin == b.Bin && treeEq(a.L, b.L) && treeEq(a.R, b.R)
}

// ---------------------------------------------------------------- printing

func opText(op string) string {
	switch op {
	case "notin":
		return "not in"
	case "isnot":
		return "is not"
	}
	return op
}

func quoteStr(s string) string {
	var b strings.Builder
	b.WriteByte('"')
	for _, r := range s {
		switch r {
		case '"':
			b.WriteString(`\"`)
		case '\\':
			b.WriteString(`\\`)
		case '\n':
			b.WriteString(`\n`)
		case '\t':
			b.WriteString(`\t`)
		default:
			b.WriteRune(r)
		}
	}
	b.WriteByte('"')
	return b.String()
}

func isConstE(e *E) bool {
	switch e.K {
	case "i", "s", "T", "F", "N":
		return true
	case "l":
		for _, a := range e.A {
			if !isConstE(a) {
				return false
			}
		}
		return true
	}
	return false
}

type printer struct {
	o PrintOpts
}

func (p *printer) exprs(es []*E) string {
	parts := make([]string, len(es))
	for i, e := range es {
		parts[i] = p.expr(e, true)
	}
	return strings.Join(parts, ", ")
}

func (p *printer) args(es []*E, kw []string) []string {
	parts := make([]string, len(es))
	for i, e := range es {
		if kw[i] != "" {
			parts[i] = kw[i] + "=" + p.expr(e, true)
		} else {
			parts[i] = p.expr(e, true)
		}
	}
	return parts
}

func (p *printer) tree(t *T) string {
	switch {
	case t.Leaf != nil:
		return p.expr(t.Leaf, !t.Head)
	case t.Un == "neg":
		return "(-" + p.tree(t.L) + ")"
	case t.Un == "not":
		return "(not " + p.tree(t.L) + ")"
	}
	l, r := p.tree(t.L), p.tree(t.R)
	if p.o.Mod && t.Bin == "%" {
		return "_mod(" + l + ", " + r + ")"
	}
	if p.o.FloorDiv && t.Bin == "//" {
		return "_fdiv(" + l + ", " + r + ")"
	}
	if p.o.AddCopy && t.Bin == "+" {
		return "(_cp(" + l + ") " + "+ " + r + ")"
	}
	return "(" + l + " " + opText(t.Bin) + " " + r + ")"
}

// expr prints e; pos says whether e stands where a whole Expression is expected (see AspInterp.lean evalExpr).
func (p *printer) expr(e *E, pos bool) string {
	switch e.K {
	case "i":
		return strconv.Itoa(e.I)
	case "s":
		if p.o.FoldCase {
			return quoteStr(strings.ReplaceAll(e.S, "ß", "b"))
		}
		return quoteStr(e.S)
	case "T":
		return "True"
	case "F":
		return "False"
	case "N":
		return "None"
	case "n":
		return e.S
	case "l":
		s := "[" + p.exprs(e.A) + "]"
		if p.o.ConstFresh && pos && len(e.A) > 0 && isConstE(e) {
			return "(" + s + " + [])"
		}
		return s
	case "d":
		parts := []string{}
		for i := 0; i+1 < len(e.A); i += 2 {
			parts = append(parts, p.expr(e.A[i], true)+": "+p.expr(e.A[i+1], true))
		}
		return "{" + strings.Join(parts, ", ") + "}"
	case "p":
		return "(" + p.expr(e.A[0], true) + ")"
	case "t":
		return "(" + p.exprs(e.A) + ")"
	case "c":
		a := p.args(e.A, e.Kw)
		if p.o.SortCopy && (e.S == "sorted" || e.S == "reversed") && len(a) > 0 && e.Kw[0] == "" {
			a[0] = "_cp(" + a[0] + ")"
		}
		if p.o.StableSort && e.S == "sorted" && len(a) > 0 && e.Kw[0] == "" {
			key, rev := "None", "False"
			for i := 1; i < len(e.A); i++ {
				switch {
				case e.Kw[i] == "key" || e.Kw[i] == "" && i == 1:
					key = p.expr(e.A[i], true)
				case e.Kw[i] == "reverse" || e.Kw[i] == "" && i == 2:
					rev = p.expr(e.A[i], true)
				}
			}
			return "_ssorted(" + a[0] + ", " + key + ", " + rev + ")"
		}
		return e.S + "(" + strings.Join(a, ", ") + ")"
	case "m":
		return p.expr(e.A[0], false) + "." + e.S + "(" + strings.Join(p.args(e.A[1:], e.Kw), ", ") + ")"
	case "x":
		if p.o.ConfigCopy && e.A[0].K == "n" && e.A[0].S == "CONFIG" {
			return "_dc(CONFIG[" + p.expr(e.A[1], true) + "])"
		}
		return p.expr(e.A[0], false) + "[" + p.expr(e.A[1], true) + "]"
	case "sl":
		s := p.expr(e.A[0], false) + "["
		if e.A[1] != nil {
			s += p.expr(e.A[1], true)
		}
		s += ":"
		if e.A[2] != nil {
			s += p.expr(e.A[2], true)
		}
		s += "]"
		if p.o.SliceCopy {
			return "_cp(" + s + ")"
		}
		return s
	case "lc":
		s := "[" + p.expr(e.A[0], true) + " for " + strings.Join(e.Vars, ", ") + " in " + p.expr(e.A[1], true)
		if e.A[2] != nil {
			s += " if " + p.expr(e.A[2], true)
		}
		return s + "]"
	case "dc":
		s := "{" + p.expr(e.A[0], true) + ": " + p.expr(e.A[1], true) + " for " + strings.Join(e.Vars, ", ") + " in " + p.expr(e.A[2], true)
		if e.A[3] != nil {
			s += " if " + p.expr(e.A[3], true)
		}
		return s + "}"
	case "lam":
		return "lambda " + strings.Join(e.Vars, ", ") + ": " + p.expr(e.A[0], true)
	case "ch":
		tree := p.o.Tree
		if tree == "" && (p.o.TreeSwallow || p.o.TreeLazy) {
			fl := flatten(e)
			if sw := swallows(fl); p.o.TreeSwallow && sw || p.o.TreeLazy && !sw && lazyTight(fl) {
				tree = "py"
			}
		}
		if tree == "" && p.o.needsTree() {
			tree = "asp"
		}
		switch tree {
		case "asp":
			return p.tree(aspGroup(&T{Leaf: e.A[0], Head: true}, flatten(e)))
		case "py":
			return p.tree(pyGroup(e))
		}
		var b strings.Builder
		pre := func(u string) {
			switch u {
			case "neg":
				b.WriteString("-")
			case "not":
				b.WriteString("not ")
			}
		}
		pre(e.U)
		b.WriteString(p.expr(e.A[0], false))
		for _, o := range e.Ops {
			b.WriteString(" " + opText(o.Op) + " ")
			pre(o.U)
			b.WriteString(p.expr(o.E, true))
		}
		return b.String()
	case "if":
		return p.expr(e.A[0], false) + " if " + p.expr(e.A[1], true) + " else " + p.expr(e.A[2], true)
	}
	panic("print: unknown expr kind " + e.K)
}

func (p *printer) block(b *strings.Builder, ss []*S, ind string) {
	if len(ss) == 0 {
		b.WriteString(ind + "pass\n")
	}
	for _, s := range ss {
		p.stmt(b, s, ind)
	}
}

func (p *printer) stmt(b *strings.Builder, s *S, ind string) {
	switch s.K {
	case "pass", "break", "continue":
		b.WriteString(ind + s.K + "\n")
	case "=":
		b.WriteString(ind + s.X + " = " + p.expr(s.E[0], true) + "\n")
	case "+=":
		// asp evaluates x += e as x = x + e; the AddCopy repair has to reach that hidden + as well
		if p.o.AugRebind || p.o.AddCopy {
			b.WriteString(ind + s.X + " = " + p.cp(s.X) + " + (" + p.expr(s.E[0], true) + ")\n")
		} else {
			b.WriteString(ind + s.X + " += " + p.expr(s.E[0], true) + "\n")
		}
	case "[]=":
		b.WriteString(ind + s.X + "[" + p.expr(s.E[0], true) + "] = " + p.expr(s.E[1], true) + "\n")
	case "[]+=":
		i := p.expr(s.E[0], true)
		if p.o.AugRebind || p.o.AddCopy {
			b.WriteString(ind + s.X + "[" + i + "] = " + p.cp(s.X+"["+i+"]") + " + (" + p.expr(s.E[1], true) + ")\n")
		} else {
			b.WriteString(ind + s.X + "[" + i + "] += " + p.expr(s.E[1], true) + "\n")
		}
	case "un":
		b.WriteString(ind + strings.Join(s.Xs, ", ") + " = " + p.expr(s.E[0], true) + "\n")
	case "ex":
		e := s.E[0]
		if (p.o.AugRebind || p.o.AddCopy) && e.K == "m" && e.A[0].K == "n" && len(e.A) == 2 && (e.S == "append" || e.S == "extend") {
			x := e.A[0].S
			if e.S == "append" {
				b.WriteString(ind + x + " = " + p.cp(x) + " + [" + p.expr(e.A[1], true) + "]\n")
			} else {
				b.WriteString(ind + x + " = " + p.cp(x) + " + (" + p.expr(e.A[1], true) + ")\n")
			}
			return
		}
		b.WriteString(ind + p.expr(e, true) + "\n")
	case "def":
		ps := make([]string, len(s.Xs))
		for i, x := range s.Xs {
			ps[i] = x
			if s.E[i] != nil {
				ps[i] += "=" + p.expr(s.E[i], true)
			}
		}
		b.WriteString(ind + "def " + s.X + "(" + strings.Join(ps, ", ") + "):\n")
		p.block(b, s.Body, ind+"    ")
	case "ret":
		if len(s.E) == 0 {
			b.WriteString(ind + "return\n")
		} else if p.o.RetCopy && len(s.E) == 1 {
			b.WriteString(ind + "return _dc(" + p.exprs(s.E) + ")\n")
		} else {
			b.WriteString(ind + "return " + p.exprs(s.E) + "\n")
		}
	case "for":
		b.WriteString(ind + "for " + strings.Join(s.Xs, ", ") + " in " + p.expr(s.E[0], true) + ":\n")
		p.block(b, s.Body, ind+"    ")
	case "cond":
		for i, c := range s.Conds {
			kw := "if "
			if i > 0 {
				kw = "elif "
			}
			b.WriteString(ind + kw + p.expr(c, true) + ":\n")
			p.block(b, s.Blocks[i], ind+"    ")
		}
		if len(s.Blocks) > len(s.Conds) {
			b.WriteString(ind + "else:\n")
			p.block(b, s.Blocks[len(s.Conds)], ind+"    ")
		}
	case "assert":
		b.WriteString(ind + "assert " + p.expr(s.E[0], true) + "\n")
	default:
		panic("print: unknown stmt kind " + s.K)
	}
}

// cp wraps the left operand of a + that a statement hides (x += e, x.append(e)) when the AddCopy repair is on.
func (p *printer) cp(x string) string {
	if p.o.AddCopy {
		return "_cp(" + x + ")"
	}
	return x
}

// Print renders a program. With any asp-side repair the helper definitions are prepended.
func Print(prog []*S, o PrintOpts) string {
	var b strings.Builder
	if o.Mod || o.AddCopy || o.SliceCopy || o.SortCopy || o.FloorDiv || o.StableSort {
		b.WriteString(repairPrelude)
	}
	p := &printer{o: o}
	for _, s := range prog {
		p.stmt(&b, s, "")
	}
	return b.String()
}

// ---------------------------------------------------------------- program features (for statistics and class predicates)

type features struct {
	maxChain   int
	swallow    bool
	lazyTight  bool
	keySorts   int
	maxLit     int // longest list / dict literal
	fdivs      int
	negMod     bool // a % with a possibly negative operand is not decided statically; counts `%` occurrences
	mods       int
	slices     int
	sorts      int
	adds       int
	augs       int
	defs       int
	calls      int
	comps      int
	idxAssigns int
	appends    int
	constLists int
	unary      int
	lazy       int
	nonASCII   bool
	sharpS     bool
	caseCalls  int
	size       int
}

func (f *features) walkE(e *E) {
	if e == nil {
		return
	}
	f.size++
	switch e.K {
	case "s":
		for _, r := range e.S {
			if r > 127 {
				f.nonASCII = true
			}
			if r == 'ß' {
				f.sharpS = true
			}
		}
	case "ch":
		fl := flatten(e)
		if len(fl) > f.maxChain {
			f.maxChain = len(fl)
		}
		if swallows(fl) {
			f.swallow = true
		} else if lazyTight(fl) {
			f.lazyTight = true
		}
		if e.U != "" {
			f.unary++
		}
		for _, o := range e.Ops {
			switch o.Op {
			case "%":
				f.mods++
			case "//":
				f.fdivs++
			case "+":
				f.adds++
			case "and", "or":
				f.lazy++
			}
			if o.U != "" {
				f.unary++
			}
			f.walkE(o.E)
		}
	case "sl":
		f.slices++
	case "m":
		if e.S == "append" || e.S == "extend" {
			f.appends++
		}
		if e.S == "upper" || e.S == "lower" {
			f.caseCalls++
		}
	case "c":
		f.calls++
		if e.S == "sorted" || e.S == "reversed" {
			f.sorts++
		}
		if e.S == "sorted" && len(e.A) > 1 {
			f.keySorts++
		}
	case "lc", "dc":
		f.comps++
	case "l":
		if len(e.A) > 0 && isConstE(e) {
			f.constLists++
		}
		if len(e.A) > f.maxLit {
			f.maxLit = len(e.A)
		}
	case "d":
		if len(e.A)/2 > f.maxLit {
			f.maxLit = len(e.A) / 2
		}
	}
	for _, a := range e.A {
		f.walkE(a)
	}
}

func (f *features) walkS(ss []*S) {
	for _, s := range ss {
		f.size++
		switch s.K {
		case "+=", "[]+=":
			f.augs++
		case "[]=":
			f.idxAssigns++
		case "def":
			f.defs++
		}
		for _, e := range s.E {
			f.walkE(e)
		}
		for _, c := range s.Conds {
			f.walkE(c)
		}
		f.walkS(s.Body)
		for _, b := range s.Blocks {
			f.walkS(b)
		}
	}
}

func featuresOf(p []*S) *features {
	f := &features{}
	f.walkS(p)
	return f
}
