// Facts for C27 from src/core/test_results.go: the LineCoverage enum order, the comparison in
// MergeCoverageLines' overwrite branch, and the output rune table.
package main

import (
	"go/ast"
	"go/token"
	"strconv"

	"verif/harness/xlib"
)

func main() {
	f := xlib.Parse("src/core/test_results.go")
	out := xlib.NewOut("C27", f.Path)
	out.Def("enumOrder", "List String", xlib.LeanStrList(f.ConstBlockNames("NotExecutable")))

	fn := f.Func("MergeCoverageLines")
	var cmp *ast.BinaryExpr
	n := 0
	ast.Inspect(fn.Body, func(nd ast.Node) bool {
		if is, ok := nd.(*ast.IfStmt); ok {
			if be, ok := is.Cond.(*ast.BinaryExpr); ok {
				// the overwrite branch: a comparison between two index expressions
				_, l := be.X.(*ast.IndexExpr)
				_, r := be.Y.(*ast.IndexExpr)
				if l && r {
					cmp = be
					n++
				}
			}
		}
		return true
	})
	if n != 1 {
		xlib.Unreadable("expected exactly one element comparison in MergeCoverageLines, found %d", n)
	}
	switch cmp.Op {
	case token.GTR, token.GEQ, token.LSS, token.LEQ, token.NEQ, token.EQL:
	default:
		xlib.Unreadable("unexpected comparison operator %s", cmp.Op)
	}
	out.Def("mergeCmp", "String", xlib.LeanStr(cmp.Op.String()))
	// role of each operand: "param<k>" when it indexes the k-th parameter, "local" otherwise
	// (robust to renaming; the overwrite must compare the incoming vector against the accumulated copy)
	params := []string{}
	for _, fl := range fn.Type.Params.List {
		for _, nm := range fl.Names {
			params = append(params, nm.Name)
		}
	}
	role := func(e ast.Expr) string {
		id, ok := e.(*ast.IndexExpr).X.(*ast.Ident)
		if !ok {
			return "other"
		}
		for k, p := range params {
			if p == id.Name {
				return "param" + strconv.Itoa(k)
			}
		}
		return "local"
	}
	out.Def("mergeNew", "String", xlib.LeanStr(role(cmp.X)))
	out.Def("mergeOld", "String", xlib.LeanStr(role(cmp.Y)))

	var runes []rune
	if cl, ok := f.VarValue("lineCoverageOutput").(*ast.CompositeLit); ok {
		for _, e := range cl.Elts {
			if bl, ok := e.(*ast.BasicLit); ok && bl.Kind == token.CHAR {
				s, _ := strconv.Unquote(bl.Value)
				runes = append(runes, []rune(s)[0])
			}
		}
	}
	out.Def("outputRunes", "List Char", xlib.LeanCharList(runes))
	out.Write()
}
