// Facts for C14 from src/cache/dir_cache.go: the shape of an entry name as shouldClean recognises it (lengths,
// position and value of the padding character, the directory/file test, the suffix test), the keys markDir
// protects, how getFullPath assembles the entry and temporary names, and the skeleton of clean(): what the walk
// counts for marked and unmarked entries, the high-water test, and the order and tests of the eviction loop.
package main

import (
	"go/ast"
	"go/token"
	"strconv"
	"strings"

	"verif/harness/xlib"
)

func callName(c *ast.CallExpr) string {
	switch f := c.Fun.(type) {
	case *ast.SelectorExpr:
		if id, ok := f.X.(*ast.Ident); ok {
			return id.Name + "." + f.Sel.Name
		}
		return "?." + f.Sel.Name
	case *ast.Ident:
		return f.Name
	}
	return "?"
}

func ident(e ast.Expr) string {
	if id, ok := e.(*ast.Ident); ok {
		return id.Name
	}
	return ""
}

func paramNames(fn *ast.FuncDecl) []string {
	var out []string
	for _, fl := range fn.Type.Params.List {
		for _, n := range fl.Names {
			out = append(out, n.Name)
		}
	}
	return out
}

func recv(fn *ast.FuncDecl) string {
	if fn.Recv != nil && len(fn.Recv.List) > 0 && len(fn.Recv.List[0].Names) > 0 {
		return fn.Recv.List[0].Names[0].Name
	}
	return "cache"
}

func bytesOf(s string) string {
	xs := make([]int, len(s))
	for i := 0; i < len(s); i++ {
		xs[i] = int(s[i])
	}
	return xlib.LeanNatList(xs)
}

func unparen(e ast.Expr) ast.Expr {
	for {
		p, ok := e.(*ast.ParenExpr)
		if !ok {
			return e
		}
		e = p.X
	}
}

func main() {
	f := xlib.Parse("src/cache/dir_cache.go")
	out := xlib.NewOut("C14", f.Path)

	// ---- shouldClean
	sc := f.Func("dirCache.shouldClean")
	scP := paramNames(sc) // name, isDir
	rc := recv(sc)
	modeTest, suffixTest, trims := "", "", false
	var groups []string // "28,29@27=61" : lengths @ index = char code
	for _, st := range sc.Body.List {
		switch x := st.(type) {
		case *ast.IfStmt:
			for cur := x; cur != nil; {
				cond := f.Src(cur.Cond)
				retFalse := len(cur.Body.List) == 1 && f.Src(cur.Body.List[0]) == "return false"
				if retFalse {
					switch {
					case cond == rc+".Compress == "+scP[1] || cond == scP[1]+" == "+rc+".Compress":
						modeTest = "reject-when-compress-eq-isdir"
					case cond == "!strings.HasSuffix("+scP[0]+", "+rc+".Suffix)":
						suffixTest = "reject-without-suffix"
					default:
						modeTest += "?" + cond
					}
				}
				next, _ := cur.Else.(*ast.IfStmt)
				cur = next
			}
		case *ast.AssignStmt:
			if f.Src(x) == scP[0]+" = strings.TrimSuffix("+scP[0]+", "+rc+".Suffix)" {
				trims = true
			}
		case *ast.ReturnStmt:
			if len(x.Results) != 1 {
				xlib.Unreadable("shouldClean: unexpected return")
			}
			// disjunction of  (len(name)==a || len(name)==b ...) && name[i] == 'c'
			var disj []ast.Expr
			var flatOr func(e ast.Expr, acc *[]ast.Expr)
			flatOr = func(e ast.Expr, acc *[]ast.Expr) {
				e = unparen(e)
				if be, ok := e.(*ast.BinaryExpr); ok && be.Op == token.LOR {
					flatOr(be.X, acc)
					flatOr(be.Y, acc)
					return
				}
				*acc = append(*acc, e)
			}
			flatOr(x.Results[0], &disj)
			for _, d := range disj {
				be, ok := unparen(d).(*ast.BinaryExpr)
				if !ok || be.Op != token.LAND {
					xlib.Unreadable("shouldClean: disjunct is not a conjunction: %s", f.Src(d))
				}
				var lens []ast.Expr
				flatOr(be.X, &lens)
				var ls []string
				for _, l := range lens {
					lb, ok := unparen(l).(*ast.BinaryExpr)
					if !ok || lb.Op != token.EQL || f.Src(lb.X) != "len("+scP[0]+")" {
						xlib.Unreadable("shouldClean: not a length test: %s", f.Src(l))
					}
					ls = append(ls, f.Src(lb.Y))
				}
				ib, ok := unparen(be.Y).(*ast.BinaryExpr)
				if !ok || ib.Op != token.EQL {
					xlib.Unreadable("shouldClean: not a character test: %s", f.Src(be.Y))
				}
				ix, ok := ib.X.(*ast.IndexExpr)
				bl, ok2 := ib.Y.(*ast.BasicLit)
				if !ok || !ok2 || ident(ix.X) != scP[0] || bl.Kind != token.CHAR {
					xlib.Unreadable("shouldClean: not name[i] == 'c': %s", f.Src(be.Y))
				}
				ch, _ := strconv.Unquote(bl.Value)
				groups = append(groups, strings.Join(ls, ",")+"@"+f.Src(ix.Index)+"="+strconv.Itoa(int([]rune(ch)[0])))
			}
		}
	}
	out.Def("modeTest", "String", xlib.LeanStr(modeTest))
	out.Def("suffixTest", "String", xlib.LeanStr(suffixTest))
	out.Def("trimsSuffix", "Bool", xlib.LeanBool(trims))
	// each group: (accepted lengths, index of the padding character, its code)
	var gl []string
	for _, g := range groups {
		a, b, _ := strings.Cut(g, "@")
		i, c, _ := strings.Cut(b, "=")
		gl = append(gl, "(["+a+"], "+i+", "+c+")")
	}
	out.Def("nameShapes", "List (List Nat × Nat × Nat)", "["+strings.Join(gl, ", ")+"]")

	// ---- newDirCache: the suffix of compressed caches
	nd := f.Func("newDirCache")
	suffix := ""
	ast.Inspect(nd.Body, func(n ast.Node) bool {
		if is, ok := n.(*ast.IfStmt); ok && strings.HasSuffix(f.Src(is.Cond), ".Compress") {
			for _, st := range is.Body.List {
				if as, ok := st.(*ast.AssignStmt); ok && len(as.Lhs) == 1 && strings.HasSuffix(f.Src(as.Lhs[0]), ".Suffix") {
					if bl, ok := as.Rhs[0].(*ast.BasicLit); ok {
						suffix, _ = strconv.Unquote(bl.Value)
					}
				}
			}
		}
		return true
	})
	out.Def("compressedSuffix", "String", xlib.LeanStr(suffix))
	out.Def("compressedSuffixBytes", "List Nat", bytesOf(suffix))

	// ---- markDir: which keys are protected
	md := f.Func("dirCache.markDir")
	mdP := paramNames(md)
	var keys []string
	ast.Inspect(md.Body, func(n ast.Node) bool {
		as, ok := n.(*ast.AssignStmt)
		if !ok || len(as.Lhs) != 1 {
			return true
		}
		ix, ok := as.Lhs[0].(*ast.IndexExpr)
		if !ok || !strings.HasSuffix(f.Src(ix.X), ".added") {
			return true
		}
		switch k := ix.Index.(type) {
		case *ast.Ident:
			if k.Name == mdP[0] {
				keys = append(keys, "path")
			} else {
				keys = append(keys, "other")
			}
		case *ast.BinaryExpr:
			if bl, ok := k.Y.(*ast.BasicLit); ok && k.Op == token.ADD && ident(k.X) == mdP[0] {
				s, _ := strconv.Unquote(bl.Value)
				keys = append(keys, "path+"+s)
			} else {
				keys = append(keys, "other")
			}
		default:
			keys = append(keys, "other")
		}
		return true
	})
	out.Def("markKeys", "List String", xlib.LeanStrList(keys))

	// ---- getFullPath and Store's temporary suffix
	gp := f.Func("dirCache.getFullPath")
	gpP := paramNames(gp)
	var parts []string
	var flat func(e ast.Expr)
	flat = func(e ast.Expr) {
		if be, ok := e.(*ast.BinaryExpr); ok && be.Op == token.ADD {
			flat(be.X)
			flat(be.Y)
			return
		}
		switch x := e.(type) {
		case *ast.CallExpr:
			if callName(x) == "filepath.Join" {
				last := ""
				if len(x.Args) > 0 {
					last = f.Src(x.Args[len(x.Args)-1])
				}
				if strings.Contains(last, "URLEncoding.EncodeToString("+gpP[1]+")") {
					parts = append(parts, "join-b64key")
				} else {
					parts = append(parts, "join-other")
				}
				return
			}
		case *ast.Ident:
			for i, p := range gpP {
				if p == x.Name {
					parts = append(parts, "param"+strconv.Itoa(i))
					return
				}
			}
		case *ast.SelectorExpr:
			if ident(x.X) == recv(gp) {
				parts = append(parts, "field-"+x.Sel.Name)
				return
			}
		}
		parts = append(parts, "other")
	}
	for _, st := range gp.Body.List {
		if rs, ok := st.(*ast.ReturnStmt); ok && len(rs.Results) == 1 {
			flat(rs.Results[0])
		}
	}
	out.Def("pathParts", "List String", xlib.LeanStrList(parts))
	store := f.Func("dirCache.Store")
	tmpSuffix := ""
	var storeMarks []string
	roles := map[string]string{}
	ast.Inspect(store.Body, func(n ast.Node) bool {
		switch x := n.(type) {
		case *ast.AssignStmt:
			if len(x.Rhs) == 1 {
				if c, ok := x.Rhs[0].(*ast.CallExpr); ok {
					switch callName(c) {
					case recv(store) + ".getPath":
						roles[ident(x.Lhs[0])] = "final"
					case recv(store) + ".getFullPath":
						if len(c.Args) == 4 {
							if bl, ok := c.Args[3].(*ast.BasicLit); ok {
								s, _ := strconv.Unquote(bl.Value)
								if s == "" {
									roles[ident(x.Lhs[0])] = "final"
								} else {
									roles[ident(x.Lhs[0])] = "tmp"
									tmpSuffix = s
								}
							}
						}
					}
				}
			}
		case *ast.CallExpr:
			if callName(x) == recv(store)+".markDir" && len(x.Args) == 2 {
				r := roles[ident(x.Args[0])]
				if r == "" {
					r = "other"
				}
				storeMarks = append(storeMarks, r)
			}
		}
		return true
	})
	// the order of Store's calls: the entry must be marked BEFORE anything is removed or written
	var storeCalls []string
	ast.Inspect(store.Body, func(n ast.Node) bool {
		c, ok := n.(*ast.CallExpr)
		if !ok {
			return true
		}
		arg := func(i int) string {
			if i < len(c.Args) {
				if r := roles[ident(c.Args[i])]; r != "" {
					return r
				}
			}
			return "other"
		}
		switch callName(c) {
		case recv(store) + ".markDir":
			storeCalls = append(storeCalls, "mark-"+arg(0))
		case "fs.RemoveAll", "os.RemoveAll":
			storeCalls = append(storeCalls, "remove-"+arg(0))
		case recv(store) + ".storeFiles":
			storeCalls = append(storeCalls, "store")
		case "os.Rename":
			storeCalls = append(storeCalls, "rename-"+arg(0)+"-"+arg(1))
		}
		return true
	})
	out.Def("storeCalls", "List String", xlib.LeanStrList(storeCalls))
	// retrieveFiles: exists test, then markDir of the entry, then the restoring
	rfn := f.Func("dirCache.retrieveFiles")
	rfP := paramNames(rfn)
	var retrCalls []string
	ast.Inspect(rfn.Body, func(n ast.Node) bool {
		c, ok := n.(*ast.CallExpr)
		if !ok {
			return true
		}
		switch name := callName(c); {
		case strings.HasSuffix(name, ".PathExists") && len(c.Args) == 1 && ident(c.Args[0]) == rfP[1]:
			retrCalls = append(retrCalls, "exists-entry")
		case name == recv(rfn)+".markDir" && len(c.Args) == 2 && ident(c.Args[0]) == rfP[1]:
			retrCalls = append(retrCalls, "mark-entry")
		case name == recv(rfn)+".retrieveCompressed" || name == "fs.RecursiveLink":
			retrCalls = append(retrCalls, "restore")
		}
		return true
	})
	out.Def("retrieveCalls", "List String", xlib.LeanStrList(retrCalls))
	out.Def("tmpSuffix", "String", xlib.LeanStr(tmpSuffix))
	out.Def("tmpSuffixBytes", "List Nat", bytesOf(tmpSuffix))
	out.Def("storeMarks", "List String", xlib.LeanStrList(storeMarks))

	// ---- clean
	cl := f.Func("dirCache.clean")
	clP := paramNames(cl) // high, low
	crc := recv(cl)
	// the walk callback: what is added to the total for a marked / an unmarked recognised entry
	markedAdds, unmarkedAdds, skipsPlainDirs := "", "", false
	walkedVar := ""
	highTest, lowTest := "", ""
	var loop []string
	failureContinues := 0
	ast.Inspect(cl.Body, func(n ast.Node) bool {
		switch x := n.(type) {
		case *ast.IfStmt:
			if x.Init != nil && strings.Contains(f.Src(x.Init), crc+".isMarked(") {
				init := x.Init.(*ast.AssignStmt)
				sizeVar := ident(init.Lhs[0])
				inLoop := sizeVar == "_"
				if !inLoop {
					for _, st := range x.Body.List {
						if as, ok := st.(*ast.AssignStmt); ok && as.Tok == token.ADD_ASSIGN && ident(as.Rhs[0]) == sizeVar {
							markedAdds = "recorded-size"
						}
					}
				}
			}
			if c, ok := x.Cond.(*ast.BinaryExpr); ok && ident(c.Y) == clP[0] && len(x.Body.List) == 1 {
				if _, ok := x.Body.List[0].(*ast.ReturnStmt); ok {
					highTest = "return-if-total-" + c.Op.String() + "-high"
				}
			}
		case *ast.AssignStmt:
			// `<v>, err := findSize(path)` names the walked size; `<total> += <v>` is the unmarked branch
			if x.Tok == token.DEFINE && len(x.Rhs) == 1 && len(x.Lhs) >= 1 {
				if c, ok := x.Rhs[0].(*ast.CallExpr); ok && callName(c) == "findSize" {
					walkedVar = ident(x.Lhs[0])
				}
			}
			if x.Tok == token.ADD_ASSIGN && len(x.Rhs) == 1 && walkedVar != "" && ident(x.Rhs[0]) == walkedVar {
				unmarkedAdds = "walked-size"
			}
		case *ast.ReturnStmt:
			if len(x.Results) == 1 && f.Src(x.Results[0]) == "filepath.SkipDir" {
				skipsPlainDirs = true
			}
		case *ast.RangeStmt:
			ev := ident(x.Value)
			for _, st := range x.Body.List {
				switch y := st.(type) {
				case *ast.IfStmt:
					src := ""
					if y.Init != nil {
						src = f.Src(y.Init)
					}
					body := ""
					if len(y.Body.List) > 0 {
						body = f.Src(y.Body.List[len(y.Body.List)-1])
					}
					switch {
					case strings.Contains(src, crc+".isMarked("+ev+".Path)") && body == "continue":
						loop = append(loop, "skip-if-marked")
					case strings.Contains(src, "os.Rename("+ev+".Path, "):
						loop = append(loop, "rename-aside")
						if body == "continue" {
							failureContinues++
						}
					case strings.Contains(src, ".renameUnlessMarked("+ev+".Path, "):
						// test and rename in one call; `else if !renamed { continue }` is the skip of a marked entry
						loop = append(loop, "rename-unless-marked")
						if body == "continue" {
							failureContinues++
						}
						if ei, ok := y.Else.(*ast.IfStmt); ok && strings.HasPrefix(f.Src(ei.Cond), "!") && len(ei.Body.List) > 0 && f.Src(ei.Body.List[len(ei.Body.List)-1]) == "continue" {
							loop = append(loop, "skip-if-not-renamed")
						}
					case strings.Contains(src, "RemoveAll("):
						loop = append(loop, "remove-renamed")
						if body == "continue" {
							failureContinues++
						}
					default:
						if c, ok := y.Cond.(*ast.BinaryExpr); ok && ident(c.Y) == clP[1] && body == "break" {
							loop = append(loop, "break-if-total-below-low")
							lowTest = c.Op.String()
						} else {
							loop = append(loop, "other-if")
						}
					}
				case *ast.AssignStmt:
					switch {
					case y.Tok == token.SUB_ASSIGN && f.Src(y.Rhs[0]) == ev+".Size":
						loop = append(loop, "subtract-size")
					case y.Tok == token.DEFINE && f.Src(y.Rhs[0]) == ev+".Path + \"=\"":
						loop = append(loop, "aside-name-is-path-plus-eq")
					default:
						loop = append(loop, "other-assign")
					}
				case *ast.ExprStmt:
					// logging only
				default:
					loop = append(loop, "other")
				}
			}
		}
		return true
	})
	out.Def("markedAdds", "String", xlib.LeanStr(markedAdds))
	out.Def("unmarkedAdds", "String", xlib.LeanStr(unmarkedAdds))
	out.Def("plainWalkSkipsEntryDirs", "Bool", xlib.LeanBool(skipsPlainDirs))
	out.Def("highTest", "String", xlib.LeanStr(highTest))
	out.Def("lowTest", "String", xlib.LeanStr(lowTest))
	out.Def("evictLoop", "List String", xlib.LeanStrList(loop))
	out.Def("failedEvictionsContinue", "Nat", strconv.Itoa(failureContinues))
	// renameUnlessMarked (if it exists): the mutex is taken, released by defer, cache.added[path] is tested and only then
	// the rename happens - the test and the rename cannot be separated by a markDir
	underLock := false
	for _, d := range f.AST.Decls {
		fd, ok := d.(*ast.FuncDecl)
		if !ok || fd.Name.Name != "renameUnlessMarked" || fd.Body == nil {
			continue
		}
		ps := paramNames(fd)
		var seq []string
		ast.Inspect(fd.Body, func(n ast.Node) bool {
			switch x := n.(type) {
			case *ast.DeferStmt:
				if strings.HasSuffix(callName(x.Call), ".Unlock") {
					seq = append(seq, "defer-unlock")
				}
				return false
			case *ast.CallExpr:
				switch name := callName(x); {
				case strings.HasSuffix(name, ".Lock"):
					seq = append(seq, "lock")
				case name == "os.Rename" && len(x.Args) == 2 && len(ps) == 2 && ident(x.Args[0]) == ps[0] && ident(x.Args[1]) == ps[1]:
					seq = append(seq, "rename")
				}
			case *ast.IndexExpr:
				if strings.HasSuffix(f.Src(x.X), ".added") && len(ps) > 0 && ident(x.Index) == ps[0] {
					seq = append(seq, "test-mark")
				}
			}
			return true
		})
		underLock = strings.Join(seq, ",") == "lock,defer-unlock,test-mark,rename"
	}
	out.Def("testAndRenameUnderLock", "Bool", xlib.LeanBool(underLock))
	// the grace period only affects the order of eviction, which no theorem depends on
	grace := 0
	if bl, ok := f.VarValue("accessTimeGracePeriod").(*ast.BasicLit); ok {
		grace, _ = strconv.Atoi(bl.Value)
	}
	out.Def("gracePeriod", "Nat", strconv.Itoa(grace))
	out.Write()
}
