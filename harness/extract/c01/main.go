// Facts for C01/C02/C03 from src/build/incrementality.go and build_step.go:
//   - which stamp components needsBuilding compares (and in which order), whether it checks output existence,
//     and what it returns at the end;
//   - whether moveOutput keeps the old output when old and new path hashes are equal;
//   - what sourceHash writes per source and per tool path;
//   - the layout of the xattr record (slices taken in readRuleHashFromXattrs).
package main

import (
	"go/ast"
	"go/token"
	"strings"

	"verif/harness/xlib"
)

func returnsBool(f *xlib.File, body *ast.BlockStmt, want string) bool {
	ok := false
	for _, st := range body.List {
		if r, isRet := st.(*ast.ReturnStmt); isRet && len(r.Results) >= 1 {
			if f.Src(r.Results[0]) == want {
				ok = true
			}
		}
	}
	return ok
}

func main() {
	inc := xlib.Parse("src/build/incrementality.go")
	bs := xlib.Parse("src/build/build_step.go")
	out := xlib.NewOut("C01", inc.Path, bs.Path)

	// ---- needsBuilding
	nb := inc.Func("needsBuilding")
	var cmp []string
	outputsChecked := false
	metadataChecked := false
	ast.Inspect(nb.Body, func(n ast.Node) bool {
		switch x := n.(type) {
		case *ast.IfStmt:
			// `if [err != nil ||] !bytes.Equal(oldHashes.F, …) { … return true }`
			ast.Inspect(x.Cond, func(c ast.Node) bool {
				if u, ok := c.(*ast.UnaryExpr); ok && u.Op == token.NOT {
					if call, ok := u.X.(*ast.CallExpr); ok && inc.Src(call.Fun) == "bytes.Equal" && len(call.Args) == 2 {
						if sel, ok := call.Args[0].(*ast.SelectorExpr); ok && returnsBool(inc, x.Body, "true") {
							cmp = append(cmp, sel.Sel.Name)
						}
					}
					if call, ok := u.X.(*ast.CallExpr); ok && strings.HasSuffix(inc.Src(call.Fun), "PathExists") && returnsBool(inc, x.Body, "true") {
						outputsChecked = true
					}
					if call, ok := u.X.(*ast.CallExpr); ok && strings.HasSuffix(inc.Src(call.Fun), "FileExists") && returnsBool(inc, x.Body, "true") {
						metadataChecked = true
					}
				}
				return true
			})
		}
		return true
	})
	final := ""
	if last, ok := nb.Body.List[len(nb.Body.List)-1].(*ast.ReturnStmt); ok && len(last.Results) == 1 {
		final = inc.Src(last.Results[0])
	}
	if len(cmp) == 0 || final == "" {
		xlib.Unreadable("needsBuilding: no hash comparisons / final return found")
	}
	out.Def("needsBuildingCompares", "List String", xlib.LeanStrList(cmp))
	out.Def("needsBuildingChecksOutputs", "Bool", xlib.LeanBool(outputsChecked))
	out.Def("needsBuildingChecksMetadata", "Bool", xlib.LeanBool(metadataChecked))
	out.Def("needsBuildingFinal", "String", xlib.LeanStr(final))

	// ---- moveOutput: equal hashes ⇒ return false (keep) before anything is removed.
	// Roles, not names: which local holds the hash of which PARAMETER (tmpOutput = 3rd, realOutput = 4th parameter),
	// found through the `x, err := ….Hash(<param>, …)` definitions.
	mo := bs.Func("moveOutput")
	var params []string
	for _, fl := range mo.Type.Params.List {
		for _, nm := range fl.Names {
			params = append(params, nm.Name)
		}
	}
	hashOf := map[string]int{} // local variable -> index of the parameter it is the hash of
	ast.Inspect(mo.Body, func(n ast.Node) bool {
		as, ok := n.(*ast.AssignStmt)
		if !ok || len(as.Rhs) != 1 || len(as.Lhs) < 1 {
			return true
		}
		call, ok := as.Rhs[0].(*ast.CallExpr)
		if !ok || !strings.HasSuffix(bs.Src(call.Fun), ".Hash") || len(call.Args) < 1 {
			return true
		}
		if id, ok := call.Args[0].(*ast.Ident); ok {
			for i, p := range params {
				if p == id.Name {
					if lhs, ok := as.Lhs[0].(*ast.Ident); ok {
						hashOf[lhs.Name] = i
					}
				}
			}
		}
		return true
	})
	keep := false
	removeSeen := false
	ast.Inspect(mo.Body, func(n ast.Node) bool {
		if call, ok := n.(*ast.CallExpr); ok && strings.HasSuffix(bs.Src(call.Fun), "RemoveAll") {
			removeSeen = true
		}
		if is, ok := n.(*ast.IfStmt); ok {
			if call, ok := is.Cond.(*ast.CallExpr); ok && bs.Src(call.Fun) == "bytes.Equal" && !removeSeen && len(call.Args) == 2 {
				a, aok := hashOf[bs.Src(call.Args[0])]
				b, bok := hashOf[bs.Src(call.Args[1])]
				// the two operands are the hashes of two DIFFERENT path parameters (new temp output vs existing output)
				if aok && bok && a != b && returnsBool(bs, is.Body, "false") {
					keep = true
				}
			}
		}
		return true
	})
	out.Def("moveOutputKeepsOldOnEqualHash", "Bool", xlib.LeanBool(keep))

	// ---- sourceHash: what is written per source / per tool path
	sh := inc.Func("sourceHash")
	var loops [][]string
	for _, st := range sh.Body.List {
		rs, ok := st.(*ast.RangeStmt)
		if !ok {
			continue
		}
		var writes []string
		ast.Inspect(rs.Body, func(n ast.Node) bool {
			if call, ok := n.(*ast.CallExpr); ok && strings.HasSuffix(inc.Src(call.Fun), ".Write") && len(call.Args) == 1 {
				arg := inc.Src(call.Args[0])
				switch {
				case strings.HasPrefix(arg, "[]byte("):
					writes = append(writes, "name")
				default:
					writes = append(writes, "hash")
				}
			}
			return true
		})
		loops = append(loops, writes)
	}
	if len(loops) < 2 {
		xlib.Unreadable("sourceHash: expected a sources loop and a tools loop")
	}
	out.Def("sourceHashPerSource", "List String", xlib.LeanStrList(loops[0]))
	out.Def("sourceHashPerTool", "List String", xlib.LeanStrList(loops[1]))

	// ---- xattr record layout: slice expressions in readRuleHashFromXattrs, as source text in order
	rr := inc.Func("readRuleHashFromXattrs")
	var slices []string
	ast.Inspect(rr.Body, func(n ast.Node) bool {
		if kv, ok := n.(*ast.KeyValueExpr); ok {
			if se, ok := kv.Value.(*ast.SliceExpr); ok {
				lo, hi := "0", ""
				if se.Low != nil {
					lo = inc.Src(se.Low)
				}
				if se.High != nil {
					hi = inc.Src(se.High)
				}
				slices = append(slices, inc.Src(kv.Key)+"="+strings.ReplaceAll(lo, " ", "")+":"+strings.ReplaceAll(hi, " ", ""))
			}
		}
		return true
	})
	out.Def("xattrSlices", "List String", xlib.LeanStrList(slices))
	out.Write()
}
