// Facts for C31 (concurrent plz invocations) read from the source on every run:
//
//   - src/build/build_step.go buildTarget: the order in which the lock is taken / released relative to
//     needsBuilding … moveOutputs … calculateAndCheckRuleHash, whether the release is deferred, and what is locked;
//   - src/build/build_step.go prepareDirectories / moveOutput: which directory is removed, and that an output is
//     put in place by RemoveAll + os.Rename (never written in place);
//   - src/core/lock.go: the flock(2) flags of the per-target lock, of both repo lock modes and of the release,
//     and the two Flock calls of acquireFileLock (non-blocking probe, then blocking wait);
//   - src/core/build_target.go: BuildLockFile / TestLockFile are siblings of the directory that is removed;
//   - every non-test file under src/: who takes the repo lock in which mode (plz build / plz test go through
//     please.go runPlease), and whether the --nolock flag is read anywhere;
//   - src/test/test_step.go test: the same bracket around needToRun … RemoveTestOutputs … the test run.
package main

import (
	"go/ast"
	"go/parser"
	"go/token"
	"os"
	"path/filepath"
	"regexp"
	"sort"
	"strconv"
	"strings"

	"verif/harness/xlib"
)

// calleeName returns the last identifier of a call's function expression (pkg.F -> F, x.m -> m, f -> f).
func calleeName(c *ast.CallExpr) string {
	switch f := c.Fun.(type) {
	case *ast.Ident:
		return f.Name
	case *ast.SelectorExpr:
		return f.Sel.Name
	}
	return ""
}

// callOrder lists, in source order, the first occurrence of every call in `body` whose callee is in `want`;
// a call that is the operand of a defer statement is recorded as "defer <name>".
func callOrder(body ast.Node, want map[string]bool) []string {
	var out []string
	seen := map[string]bool{}
	deferred := map[*ast.CallExpr]bool{}
	ast.Inspect(body, func(n ast.Node) bool {
		switch x := n.(type) {
		case *ast.DeferStmt:
			deferred[x.Call] = true
		case *ast.CallExpr:
			nm := calleeName(x)
			if want[nm] {
				if deferred[x] {
					nm = "defer " + nm
				}
				if !seen[nm] {
					seen[nm] = true
					out = append(out, nm)
				}
			}
		}
		return true
	})
	return out
}

// callSeq is callOrder without de-duplication: every occurrence, in source order.
func callSeq(body ast.Node, want map[string]bool) []string {
	var out []string
	deferred := map[*ast.CallExpr]bool{}
	ast.Inspect(body, func(n ast.Node) bool {
		switch x := n.(type) {
		case *ast.DeferStmt:
			deferred[x.Call] = true
		case *ast.CallExpr:
			if nm := calleeName(x); want[nm] {
				if deferred[x] {
					nm = "defer " + nm
				}
				out = append(out, nm)
			}
		}
		return true
	})
	return out
}

// firstCall returns the first call to `name` in body (nil if none).
func firstCall(body ast.Node, name string) *ast.CallExpr {
	var res *ast.CallExpr
	ast.Inspect(body, func(n ast.Node) bool {
		if c, ok := n.(*ast.CallExpr); ok && res == nil && calleeName(c) == name {
			res = c
		}
		return res == nil
	})
	return res
}

func allCalls(body ast.Node, name string) []*ast.CallExpr {
	var res []*ast.CallExpr
	ast.Inspect(body, func(n ast.Node) bool {
		if c, ok := n.(*ast.CallExpr); ok && calleeName(c) == name {
			res = append(res, c)
		}
		return true
	})
	return res
}

// roleSrc renders e with the receiver of fd written as "recv" and its k-th parameter as "param<k>", so that the
// recorded fact does not depend on how locals are named.
func roleSrc(f *xlib.File, e ast.Expr, fd *ast.FuncDecl) string {
	src := f.Src(e)
	ren := map[string]string{}
	if fd.Recv != nil {
		for _, fl := range fd.Recv.List {
			for _, nm := range fl.Names {
				ren[nm.Name] = "recv"
			}
		}
	}
	k := 0
	for _, fl := range fd.Type.Params.List {
		for _, nm := range fl.Names {
			ren[nm.Name] = "param" + strconv.Itoa(k)
			k++
		}
	}
	for from, to := range ren {
		src = regexp.MustCompile(`\b`+regexp.QuoteMeta(from)+`\b`).ReplaceAllString(src, to)
	}
	return src
}

// hashRole names a local of fd by the argument of the `Hash` call whose result is assigned to it:
// `x, err := h.Hash(p, …)` makes x "hashOf(<role of p>)"; anything else stays "local:<name>".
func hashRole(f *xlib.File, fd *ast.FuncDecl, name string) string {
	role := "local:" + name
	ast.Inspect(fd.Body, func(n ast.Node) bool {
		as, ok := n.(*ast.AssignStmt)
		if !ok || len(as.Lhs) == 0 || len(as.Rhs) != 1 {
			return true
		}
		id, ok := as.Lhs[0].(*ast.Ident)
		if !ok || id.Name != name {
			return true
		}
		if c, ok := as.Rhs[0].(*ast.CallExpr); ok && calleeName(c) == "Hash" && len(c.Args) > 0 {
			role = "hashOf(" + roleSrc(f, c.Args[0], fd) + ")"
		}
		return true
	})
	return role
}

// methodOf renders a call argument of the form x.M(...) as "M" (the object it is called on is a local name).
func methodOf(f *xlib.File, e ast.Expr) string {
	if c, ok := e.(*ast.CallExpr); ok {
		if se, ok := c.Fun.(*ast.SelectorExpr); ok {
			return se.Sel.Name
		}
	}
	return f.Src(e)
}

func set(xs ...string) map[string]bool {
	m := map[string]bool{}
	for _, x := range xs {
		m[x] = true
	}
	return m
}

func constString(f *xlib.File, name string) string {
	bl, ok := f.VarValue(name).(*ast.BasicLit)
	if !ok || bl.Kind != token.STRING {
		xlib.Unreadable("%s is not a string constant in %s", name, f.Path)
	}
	s, err := strconv.Unquote(bl.Value)
	if err != nil {
		xlib.Unreadable("%s: %v", name, err)
	}
	return s
}

// singleReturn renders the expression of a function that consists of one return statement.
func singleReturn(f *xlib.File, fn string) string {
	fd := f.Func(fn)
	if fd.Body == nil || len(fd.Body.List) != 1 {
		xlib.Unreadable("%s is no longer a single return statement", fn)
	}
	rs, ok := fd.Body.List[0].(*ast.ReturnStmt)
	if !ok || len(rs.Results) != 1 {
		xlib.Unreadable("%s is no longer a single return statement", fn)
	}
	return roleSrc(f, rs.Results[0], fd)
}

// flagOf renders the flock flag a lock.go wrapper passes on (the last argument of its single inner call).
func flagOf(f *xlib.File, fn, inner string) string {
	c := firstCall(f.Func(fn).Body, inner)
	if c == nil || len(c.Args) == 0 {
		xlib.Unreadable("%s no longer calls %s", fn, inner)
	}
	return f.Src(c.Args[len(c.Args)-1])
}

func main() {
	out := xlib.NewOut("C31", "src/build/build_step.go", "src/core/lock.go", "src/core/build_target.go", "src/please.go", "src/test/test_step.go")

	// ---- buildTarget: position of the lock relative to the build step
	bs := xlib.Parse("src/build/build_step.go")
	bt := bs.Func("buildTarget")
	order := callOrder(bt.Body, set("AcquireExclusiveFileLock", "AcquireSharedFileLock", "ReleaseFileLock", "needsBuilding",
		"prepareDirectories", "prepareSources", "build", "StoreTargetMetadata", "moveOutputs", "calculateAndCheckRuleHash"))
	if len(order) == 0 {
		xlib.Unreadable("no known calls found in buildTarget")
	}
	out.Def("buildTargetCalls", "List String", xlib.LeanStrList(order))
	out.Def("buildTargetCallSeq", "List String", xlib.LeanStrList(callSeq(bt.Body, set("AcquireExclusiveFileLock", "ReleaseFileLock",
		"needsBuilding", "prepareDirectories", "build", "StoreTargetMetadata", "moveOutputs", "calculateAndCheckRuleHash"))))
	lockArg := ""
	if c := firstCall(bt.Body, "AcquireExclusiveFileLock"); c != nil && len(c.Args) == 1 {
		lockArg = methodOf(bs, c.Args[0])
	}
	out.Def("buildLockArg", "String", xlib.LeanStr(lockArg))

	// prepareDirectories: which directories are (re)created, and which of them are removed first
	var prep []string
	for _, c := range allCalls(bs.Func("prepareDirectories").Body, "prepareDirectory") {
		if len(c.Args) == 2 {
			prep = append(prep, methodOf(bs, c.Args[0])+":"+bs.Src(c.Args[1]))
		}
	}
	out.Def("prepareDirectoriesArgs", "List String", xlib.LeanStrList(prep))

	// moveOutput: how an output gets into place
	mo := callOrder(bs.Func("moveOutput").Body, set("Hash", "PathExists", "Equal", "RemoveAll", "MoveHash", "Rename", "RecursiveCopy", "WriteFile", "Create"))
	out.Def("moveOutputCalls", "List String", xlib.LeanStrList(mo))
	renameArgs := ""
	if c := firstCall(bs.Func("moveOutput").Body, "Rename"); c != nil && len(c.Args) == 2 {
		mfd := bs.Func("moveOutput")
		renameArgs = bs.Src(c.Fun) + "(" + roleSrc(bs, c.Args[0], mfd) + ", " + roleSrc(bs, c.Args[1], mfd) + ")"
	}
	out.Def("moveOutputRename", "String", xlib.LeanStr(renameArgs))
	// the condition under which moveOutput leaves the existing file where it is (`return false, nil`)
	keepCond := ""
	mofd := bs.Func("moveOutput")
	ast.Inspect(mofd.Body, func(n ast.Node) bool {
		is, ok := n.(*ast.IfStmt)
		if !ok || keepCond != "" {
			return true
		}
		for _, st := range is.Body.List {
			if rs, ok := st.(*ast.ReturnStmt); ok && len(rs.Results) == 2 && bs.Src(rs.Results[0]) == "false" && bs.Src(rs.Results[1]) == "nil" {
				// a bare call on two locals; each local is named by WHAT IT IS THE HASH OF (the parameter passed to the
				// Hash call that defines it), not by its identifier: bytes.Equal(hashOf(param3), hashOf(param2)) is
				// "hash of the existing output vs hash of the new one"; comparing a hash with itself would show up
				keepCond = roleSrc(bs, is.Cond, mofd)
				if c, ok := is.Cond.(*ast.CallExpr); ok && len(c.Args) == 2 {
					a0, ok0 := c.Args[0].(*ast.Ident)
					a1, ok1 := c.Args[1].(*ast.Ident)
					if ok0 && ok1 {
						keepCond = bs.Src(c.Fun) + "(" + hashRole(bs, mofd, a0.Name) + ", " + hashRole(bs, mofd, a1.Name) + ")"
					}
				}
			}
		}
		return true
	})
	out.Def("moveOutputKeepCond", "String", xlib.LeanStr(keepCond))

	// ---- lock.go: flock flags
	lk := xlib.Parse("src/core/lock.go")
	out.Def("targetLockFlag", "String", xlib.LeanStr(flagOf(lk, "AcquireExclusiveFileLock", "acquireOpenFileLock")))
	out.Def("repoSharedFlag", "String", xlib.LeanStr(flagOf(lk, "AcquireSharedRepoLock", "acquireRepoLock")))
	out.Def("repoExclusiveFlag", "String", xlib.LeanStr(flagOf(lk, "AcquireExclusiveRepoLock", "acquireRepoLock")))
	var flocks []string
	for _, c := range allCalls(lk.Func("acquireFileLock").Body, "Flock") {
		if len(c.Args) == 2 {
			flocks = append(flocks, roleSrc(lk, c.Args[1], lk.Func("acquireFileLock")))
		}
	}
	out.Def("acquireFlockFlags", "List String", xlib.LeanStrList(flocks))
	var unflocks []string
	for _, c := range allCalls(lk.Func("ReleaseFileLock").Body, "Flock") {
		if len(c.Args) == 2 {
			unflocks = append(unflocks, lk.Src(c.Args[1]))
		}
	}
	out.Def("releaseFlockFlags", "List String", xlib.LeanStrList(unflocks))
	// acquireOpenFileLock must pass its mode on to acquireFileLock unchanged
	passOn := ""
	if c := firstCall(lk.Func("acquireOpenFileLock").Body, "acquireFileLock"); c != nil && len(c.Args) >= 2 {
		passOn = lk.Src(c.Args[1])
	}
	params := []string{}
	for _, fl := range lk.Func("acquireOpenFileLock").Type.Params.List {
		for _, nm := range fl.Names {
			params = append(params, nm.Name)
		}
	}
	out.Def("openFileLockPassesMode", "Bool", xlib.LeanBool(len(params) == 2 && passOn == params[1]))
	out.Def("repoLockFile", "String", xlib.LeanStr(constString(lk, "repoLockFilePath")))

	// ---- build_target.go: the lock files are siblings of the directories that get removed
	tg := xlib.Parse("src/core/build_target.go")
	out.Def("buildLockFileExpr", "String", xlib.LeanStr(singleReturn(tg, "BuildTarget.BuildLockFile")))
	out.Def("testLockFileExpr", "String", xlib.LeanStr(singleReturn(tg, "BuildTarget.TestLockFile")))
	out.Def("lockFileSuffix", "String", xlib.LeanStr(constString(tg, "lockFileSuffix")))
	out.Def("buildDirSuffix", "String", xlib.LeanStr(constString(tg, "buildDirSuffix")))

	// ---- who takes the repo lock, in which mode; is --nolock read anywhere
	var repoCalls []string
	noLockReads := 0
	root := filepath.Join(xlib.Repo(), "src")
	var files []string
	filepath.Walk(root, func(p string, info os.FileInfo, err error) error {
		if err != nil {
			return nil
		}
		if info.IsDir() {
			// hidden directories (cache fixtures left by test runs), test data and build output are not sources of plz
			if b := info.Name(); p != root && (strings.HasPrefix(b, ".") || b == "test_data" || b == "plz-out") {
				return filepath.SkipDir
			}
			return nil
		}
		if strings.HasSuffix(p, ".go") && !strings.HasSuffix(p, "_test.go") {
			files = append(files, p)
		}
		return nil
	})
	sort.Strings(files)
	for _, p := range files {
		fset := token.NewFileSet()
		af, err := parser.ParseFile(fset, p, nil, 0)
		if err != nil {
			continue // not a compilable source of the binary (the build itself would reject it)
		}
		rel, _ := filepath.Rel(xlib.Repo(), p)
		for _, d := range af.Decls {
			fd, ok := d.(*ast.FuncDecl)
			if !ok || fd.Body == nil {
				continue
			}
			if rel == "src/core/lock.go" {
				continue // the definitions themselves
			}
			for _, nm := range callOrder(fd.Body, set("AcquireSharedRepoLock", "AcquireExclusiveRepoLock")) {
				repoCalls = append(repoCalls, rel+":"+fd.Name.Name+":"+nm)
			}
		}
		ast.Inspect(af, func(n ast.Node) bool {
			if se, ok := n.(*ast.SelectorExpr); ok && se.Sel.Name == "NoLock" {
				noLockReads++
			}
			return true
		})
	}
	out.Def("repoLockCalls", "List String", xlib.LeanStrList(repoCalls))
	out.Def("noLockFlagReads", "Nat", strconv.Itoa(noLockReads))
	// the mode plz build / plz test run under: the first repo-lock call of runPlease
	pl := xlib.Parse("src/please.go")
	rp := callOrder(pl.Func("runPlease").Body, set("AcquireSharedRepoLock", "AcquireExclusiveRepoLock", "ReleaseRepoLock", "Run"))
	out.Def("runPleaseCalls", "List String", xlib.LeanStrList(rp))

	// ---- test step: the same bracket
	ts := xlib.Parse("src/test/test_step.go")
	tf := ts.Func("test")
	torder := callOrder(tf.Body, set("AcquireExclusiveFileLock", "ReleaseFileLock", "needToRun", "RemoveTestOutputs", "doFlakeRun"))
	out.Def("testStepCalls", "List String", xlib.LeanStrList(torder))
	tArg := ""
	if c := firstCall(tf.Body, "AcquireExclusiveFileLock"); c != nil && len(c.Args) == 1 {
		tArg = methodOf(ts, c.Args[0])
	}
	out.Def("testLockArg", "String", xlib.LeanStr(tArg))
	out.Write()
}
