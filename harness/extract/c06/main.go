// Facts for C06 from src/core/cycle_detector.go: the shape of the `visit` closure inside
// cycleDetector.Check (guard chain order, which set is marked before / after the dependency loop, what is
// iterated, the closing test and the extension of a returned partial cycle) and of the top-level loop.
// Identifiers are reported by ROLE (pre = the set marked before the loop, post = the set marked after it,
// target = the closure's parameter, ...), never by name, so renaming locals does not change the facts.
package main

import (
	"go/ast"
	"go/token"
	"sort"
	"strings"

	"verif/harness/xlib"
)

type ex struct {
	f                        *xlib.File
	visit, target            string
	guards                   []string // e.g. "stopped:nil", "in:complete:nil", "in:partial:self"
	preLoop, postLoop        []string // "mark:M" / "unmark:M"
	loopMethod               string
	recurseOnLoopVar         bool
	closeLast, closeUsesDone bool
	closeRet, prepend        bool
	extRet                   bool
	fallthroughNil           bool
}

func ident(e ast.Expr) string {
	if id, ok := e.(*ast.Ident); ok {
		return id.Name
	}
	return ""
}

func boolLit(e ast.Expr) (bool, bool) {
	switch ident(e) {
	case "true":
		return true, true
	case "false":
		return false, true
	}
	return false, false
}

// mapIndexOf returns M for an expression M[key] with key == want.
func mapIndexOf(e ast.Expr, want string) string {
	ix, ok := e.(*ast.IndexExpr)
	if !ok || ident(ix.Index) != want {
		return ""
	}
	return ident(ix.X)
}

// presentInit matches `_, p := M[key]` and returns (M, p).
func presentInit(s ast.Stmt, key string) (string, string) {
	as, ok := s.(*ast.AssignStmt)
	if !ok || len(as.Lhs) != 2 || len(as.Rhs) != 1 || ident(as.Lhs[0]) != "_" {
		return "", ""
	}
	return mapIndexOf(as.Rhs[0], key), ident(as.Lhs[1])
}

func (x *ex) retKind(s ast.Stmt) string {
	r, ok := s.(*ast.ReturnStmt)
	if !ok || len(r.Results) != 2 {
		return "?"
	}
	b, okb := boolLit(r.Results[1])
	if !okb || b {
		return "?"
	}
	if ident(r.Results[0]) == "nil" {
		return "nil"
	}
	if cl, ok := r.Results[0].(*ast.CompositeLit); ok && len(cl.Elts) == 1 && ident(cl.Elts[0]) == x.target {
		return "self"
	}
	return "?"
}

func (x *ex) guardChain(is *ast.IfStmt) {
	for is != nil {
		if len(is.Body.List) != 1 {
			xlib.Unreadable("guard branch of visit is not a single return (line %d)", x.f.Line(is))
		}
		rk := x.retKind(is.Body.List[0])
		if rk == "?" {
			xlib.Unreadable("unexpected return in guard chain of visit (line %d)", x.f.Line(is))
		}
		if is.Init == nil {
			if sel, ok := is.Cond.(*ast.SelectorExpr); ok && sel.Sel.Name == "stopped" {
				x.guards = append(x.guards, "stopped:"+rk)
			} else {
				xlib.Unreadable("unexpected guard condition %s", x.f.Src(is.Cond))
			}
		} else {
			m, p := presentInit(is.Init, x.target)
			if m == "" || ident(is.Cond) != p {
				xlib.Unreadable("unexpected guard %s; %s", x.f.Src(is.Init), x.f.Src(is.Cond))
			}
			x.guards = append(x.guards, "in:"+m+":"+rk)
		}
		switch e := is.Else.(type) {
		case nil:
			is = nil
		case *ast.IfStmt:
			is = e
		default:
			xlib.Unreadable("guard chain of visit ends in a plain else")
		}
	}
}

func (x *ex) loop(rs *ast.RangeStmt) {
	call, ok := rs.X.(*ast.CallExpr)
	if !ok {
		xlib.Unreadable("visit ranges over %s", x.f.Src(rs.X))
	}
	sel, ok := call.Fun.(*ast.SelectorExpr)
	if !ok || ident(sel.X) != x.target || len(call.Args) != 0 {
		xlib.Unreadable("visit ranges over %s", x.f.Src(rs.X))
	}
	x.loopMethod = sel.Sel.Name
	dep := ident(rs.Value)
	if len(rs.Body.List) != 1 {
		xlib.Unreadable("dependency loop body has %d statements", len(rs.Body.List))
	}
	is, ok := rs.Body.List[0].(*ast.IfStmt)
	if !ok || is.Init == nil || is.Else != nil {
		xlib.Unreadable("dependency loop body is not `if cycle, done := visit(dep); cycle != nil {…}`")
	}
	as, ok := is.Init.(*ast.AssignStmt)
	if !ok || len(as.Lhs) != 2 || len(as.Rhs) != 1 {
		xlib.Unreadable("dependency loop init: %s", x.f.Src(is.Init))
	}
	cyc, done := ident(as.Lhs[0]), ident(as.Lhs[1])
	rc, ok := as.Rhs[0].(*ast.CallExpr)
	if !ok || ident(rc.Fun) != x.visit || len(rc.Args) != 1 {
		xlib.Unreadable("dependency loop does not call visit: %s", x.f.Src(as.Rhs[0]))
	}
	x.recurseOnLoopVar = ident(rc.Args[0]) == dep && dep != ""
	if be, ok := is.Cond.(*ast.BinaryExpr); !ok || be.Op != token.NEQ || ident(be.X) != cyc || ident(be.Y) != "nil" {
		xlib.Unreadable("dependency loop condition: %s", x.f.Src(is.Cond))
	}
	if len(is.Body.List) != 2 {
		xlib.Unreadable("cycle branch has %d statements, expected closing test + extension", len(is.Body.List))
	}
	// closing test
	ci, ok := is.Body.List[0].(*ast.IfStmt)
	if !ok || ci.Init != nil || ci.Else != nil || len(ci.Body.List) != 1 {
		xlib.Unreadable("closing test shape")
	}
	eqOf := func(e ast.Expr) bool { // target == cycle[i]
		be, ok := e.(*ast.BinaryExpr)
		if !ok || be.Op != token.EQL {
			return false
		}
		a, b := be.X, be.Y
		if ident(a) != x.target {
			a, b = b, a
		}
		ix, ok := b.(*ast.IndexExpr)
		if ident(a) != x.target || !ok || ident(ix.X) != cyc {
			return false
		}
		if bl, ok := ix.Index.(*ast.BasicLit); ok && bl.Value == "0" {
			x.closeLast = false
			return true
		}
		if sub, ok := ix.Index.(*ast.BinaryExpr); ok && sub.Op == token.SUB {
			if l, ok := sub.X.(*ast.CallExpr); ok && ident(l.Fun) == "len" && len(l.Args) == 1 && ident(l.Args[0]) == cyc {
				if bl, ok := sub.Y.(*ast.BasicLit); ok && bl.Value == "1" {
					x.closeLast = true
					return true
				}
			}
		}
		return false
	}
	if be, ok := ci.Cond.(*ast.BinaryExpr); ok && be.Op == token.LOR {
		switch {
		case ident(be.X) == done && eqOf(be.Y), ident(be.Y) == done && eqOf(be.X):
			x.closeUsesDone = true
		default:
			xlib.Unreadable("closing test: %s", x.f.Src(ci.Cond))
		}
	} else if !eqOf(ci.Cond) {
		xlib.Unreadable("closing test: %s", x.f.Src(ci.Cond))
	}
	cr, ok := ci.Body.List[0].(*ast.ReturnStmt)
	if !ok || len(cr.Results) != 2 || ident(cr.Results[0]) != cyc {
		xlib.Unreadable("closing return")
	}
	var okb bool
	if x.closeRet, okb = boolLit(cr.Results[1]); !okb {
		xlib.Unreadable("closing return flag: %s", x.f.Src(cr.Results[1]))
	}
	// extension
	er, ok := is.Body.List[1].(*ast.ReturnStmt)
	if !ok || len(er.Results) != 2 {
		xlib.Unreadable("extension return")
	}
	if x.extRet, okb = boolLit(er.Results[1]); !okb {
		xlib.Unreadable("extension return flag")
	}
	ap, ok := er.Results[0].(*ast.CallExpr)
	if !ok || ident(ap.Fun) != "append" || len(ap.Args) != 2 {
		xlib.Unreadable("extension is not an append: %s", x.f.Src(er.Results[0]))
	}
	if cl, ok := ap.Args[0].(*ast.CompositeLit); ok && len(cl.Elts) == 1 && ident(cl.Elts[0]) == x.target &&
		ident(ap.Args[1]) == cyc && ap.Ellipsis != token.NoPos {
		x.prepend = true
	} else if ident(ap.Args[0]) == cyc && ident(ap.Args[1]) == x.target && ap.Ellipsis == token.NoPos {
		x.prepend = false
	} else {
		xlib.Unreadable("extension append shape: %s", x.f.Src(er.Results[0]))
	}
}

func (x *ex) mark(s ast.Stmt) string {
	switch st := s.(type) {
	case *ast.AssignStmt:
		if len(st.Lhs) == 1 && st.Tok == token.ASSIGN {
			if m := mapIndexOf(st.Lhs[0], x.target); m != "" {
				return "mark:" + m
			}
		}
	case *ast.ExprStmt:
		if c, ok := st.X.(*ast.CallExpr); ok && ident(c.Fun) == "delete" && len(c.Args) == 2 && ident(c.Args[1]) == x.target {
			return "unmark:" + ident(c.Args[0])
		}
	}
	return ""
}

func main() {
	f := xlib.Parse("src/core/cycle_detector.go")
	fn := f.Func("cycleDetector.Check")
	x := &ex{f: f}
	// the closure: `visit = func(target *BuildTarget) ([]*BuildTarget, bool) {…}`
	var lit *ast.FuncLit
	for _, s := range fn.Body.List {
		if as, ok := s.(*ast.AssignStmt); ok && len(as.Lhs) == 1 && len(as.Rhs) == 1 {
			if fl, ok := as.Rhs[0].(*ast.FuncLit); ok {
				if lit != nil {
					xlib.Unreadable("more than one closure in Check")
				}
				lit, x.visit = fl, ident(as.Lhs[0])
			}
		}
	}
	if lit == nil || len(lit.Type.Params.List) != 1 || len(lit.Type.Params.List[0].Names) != 1 ||
		lit.Type.Results == nil || len(lit.Type.Results.List) != 2 {
		xlib.Unreadable("visit closure not found in Check")
	}
	x.target = lit.Type.Params.List[0].Names[0].Name
	seenLoop := false
	for i, s := range lit.Body.List {
		switch st := s.(type) {
		case *ast.IfStmt:
			if i != 0 {
				xlib.Unreadable("if statement at position %d of visit", i)
			}
			x.guardChain(st)
		case *ast.RangeStmt:
			if seenLoop {
				xlib.Unreadable("two loops in visit")
			}
			seenLoop = true
			x.loop(st)
		case *ast.ReturnStmt:
			if i != len(lit.Body.List)-1 || x.retKind(st) != "nil" {
				xlib.Unreadable("unexpected return in visit")
			}
			x.fallthroughNil = true
		default:
			m := x.mark(s)
			if m == "" {
				xlib.Unreadable("unexpected statement in visit: %s", f.Src(s))
			}
			if seenLoop {
				x.postLoop = append(x.postLoop, m)
			} else {
				x.preLoop = append(x.preLoop, m)
			}
		}
	}
	if !seenLoop {
		xlib.Unreadable("no dependency loop in visit")
	}
	// roles of the two sets
	pre, post := "", ""
	for _, m := range x.preLoop {
		if len(m) > 5 && m[:5] == "mark:" {
			pre = m[5:]
		}
	}
	for _, m := range x.postLoop {
		if len(m) > 5 && m[:5] == "mark:" {
			post = m[5:]
		}
	}
	role := func(s string) string {
		out := ""
		for _, part := range splitColon(s) {
			switch {
			case part == pre && pre != "":
				part = "pre"
			case part == post && post != "":
				part = "post"
			}
			if out != "" {
				out += ":"
			}
			out += part
		}
		return out
	}
	mapRoles := func(xs []string) []string {
		out := []string{}
		for _, s := range xs {
			out = append(out, role(s))
		}
		return out
	}
	guards := mapRoles(x.guards)
	completeFirst := false
	for _, g := range guards {
		if g == "in:post:nil" {
			completeFirst = true
			break
		}
		if g == "in:pre:self" {
			break
		}
	}
	postLoop := mapRoles(x.postLoop)
	sort.Strings(postLoop) // delete(partial, t) and complete[t] = … are independent statements

	// top-level loop of Check
	topRange, topSkip, topVisitsLoopVar, topReturnsResult := "", false, false, false
	for _, s := range fn.Body.List {
		rs, ok := s.(*ast.RangeStmt)
		if !ok {
			continue
		}
		if topRange != "" {
			xlib.Unreadable("two top-level loops in Check")
		}
		if c, ok := rs.X.(*ast.CallExpr); ok {
			if sel, ok := c.Fun.(*ast.SelectorExpr); ok {
				topRange = sel.Sel.Name
			}
		}
		tv := ident(rs.Value)
		var visitIf *ast.IfStmt
		for _, bs := range rs.Body.List {
			is, ok := bs.(*ast.IfStmt)
			if !ok {
				xlib.Unreadable("unexpected statement in top-level loop: %s", f.Src(bs))
			}
			if is.Init == nil { // `if c.stopped {…}`
				if sel, ok := is.Cond.(*ast.SelectorExpr); !ok || sel.Sel.Name != "stopped" {
					xlib.Unreadable("unexpected condition in top-level loop: %s", f.Src(is.Cond))
				}
				continue
			}
			if m, p := presentInit(is.Init, tv); m != "" {
				un, ok := is.Cond.(*ast.UnaryExpr)
				if !ok || un.Op != token.NOT || ident(un.X) != p || m != post || len(is.Body.List) != 1 {
					xlib.Unreadable("top-level skip test: %s; %s", f.Src(is.Init), f.Src(is.Cond))
				}
				topSkip = true
				visitIf, _ = is.Body.List[0].(*ast.IfStmt)
			} else {
				visitIf = is
			}
		}
		if visitIf == nil || visitIf.Init == nil {
			xlib.Unreadable("top-level loop does not call visit")
		}
		as, ok := visitIf.Init.(*ast.AssignStmt)
		if !ok || len(as.Lhs) != 2 || len(as.Rhs) != 1 {
			xlib.Unreadable("top-level visit call: %s", f.Src(visitIf.Init))
		}
		cyc := ident(as.Lhs[0])
		if c, ok := as.Rhs[0].(*ast.CallExpr); ok && ident(c.Fun) == x.visit && len(c.Args) == 1 {
			topVisitsLoopVar = ident(c.Args[0]) == tv && tv != ""
		}
		if be, ok := visitIf.Cond.(*ast.BinaryExpr); !ok || be.Op != token.NEQ || ident(be.X) != cyc || ident(be.Y) != "nil" {
			xlib.Unreadable("top-level cycle test: %s", f.Src(visitIf.Cond))
		}
		for _, bs := range visitIf.Body.List {
			if r, ok := bs.(*ast.ReturnStmt); ok && len(r.Results) == 1 {
				if u, ok := r.Results[0].(*ast.UnaryExpr); ok && u.Op == token.AND {
					if cl, ok := u.X.(*ast.CompositeLit); ok && len(cl.Elts) == 1 {
						if kv, ok := cl.Elts[0].(*ast.KeyValueExpr); ok && ident(kv.Key) == "Cycle" && ident(kv.Value) == cyc {
							topReturnsResult = true
						}
					}
				}
			}
		}
	}
	if topRange == "" {
		xlib.Unreadable("no top-level loop in Check")
	}
	// what persists between two Check() calls: a set that is a fresh local map of Check does not; a set that is (an alias
	// of) a field of the detector does
	recvName := ""
	if fn.Recv != nil && len(fn.Recv.List) == 1 && len(fn.Recv.List[0].Names) == 1 {
		recvName = fn.Recv.List[0].Names[0].Name
	}
	freshMap := func(e ast.Expr) bool {
		switch v := e.(type) {
		case *ast.CompositeLit:
			_, isMap := v.Type.(*ast.MapType)
			return isMap && len(v.Elts) == 0
		case *ast.CallExpr:
			if ident(v.Fun) == "make" && len(v.Args) >= 1 {
				_, isMap := v.Args[0].(*ast.MapType)
				return isMap
			}
		}
		return false
	}
	persists := func(name string) bool {
		if name == "" {
			return true
		}
		defined := false
		fresh := true
		for _, st := range fn.Body.List {
			switch as := st.(type) {
			case *ast.AssignStmt:
				for i, l := range as.Lhs {
					if ident(l) == name && i < len(as.Rhs) {
						defined = true
						if !freshMap(as.Rhs[i]) {
							fresh = false
						}
					}
				}
			case *ast.DeclStmt:
				if gd, ok := as.Decl.(*ast.GenDecl); ok {
					for _, sp := range gd.Specs {
						if vs, ok := sp.(*ast.ValueSpec); ok {
							for i, n := range vs.Names {
								if n.Name == name {
									defined = true
									if i >= len(vs.Values) || !freshMap(vs.Values[i]) {
										fresh = false
									}
								}
							}
						}
					}
				}
			}
		}
		return !defined || !fresh
	}
	var writes []string
	ast.Inspect(fn.Body, func(n ast.Node) bool {
		if as, ok := n.(*ast.AssignStmt); ok {
			for _, l := range as.Lhs {
				if sel, ok := l.(*ast.SelectorExpr); ok && ident(sel.X) == recvName && recvName != "" {
					writes = append(writes, sel.Sel.Name)
				}
			}
		}
		return true
	})
	var mapFields []string
	for _, d := range f.AST.Decls {
		gd, ok := d.(*ast.GenDecl)
		if !ok || gd.Tok != token.TYPE {
			continue
		}
		for _, sp := range gd.Specs {
			ts, ok := sp.(*ast.TypeSpec)
			if !ok || ts.Name.Name != "cycleDetector" {
				continue
			}
			if stt, ok := ts.Type.(*ast.StructType); ok {
				for _, fl := range stt.Fields.List {
					switch fl.Type.(type) {
					case *ast.MapType, *ast.ArrayType:
						for _, nm := range fl.Names {
							mapFields = append(mapFields, nm.Name)
						}
					}
				}
			}
		}
	}

	out := xlib.NewOut("C06", f.Path)
	// what the two accessors return: Dependencies() everything resolved, BuildDependencies() with a filter on how the
	// dependency was declared (statement by statement, receiver = T)
	bt := xlib.Parse("src/core/build_target.go")
	for _, nm := range []string{"Dependencies", "BuildDependencies"} {
		fd := bt.Func("BuildTarget." + nm)
		recv := fd.Recv.List[0].Names[0].Name
		def := "accessorDependencies"
		if nm == "BuildDependencies" {
			def = "accessorBuildDependencies"
		}
		out.Def(def, "List String", xlib.LeanStrList(stmts(bt, fd, map[string]string{recv: "T"})))
	}
	out.Def("persistPre", "Bool", xlib.LeanBool(persists(pre)))
	out.Def("persistPost", "Bool", xlib.LeanBool(persists(post)))
	out.Def("detectorCollectionFields", "List String", xlib.LeanStrList(mapFields))
	out.Def("checkWritesFields", "List String", xlib.LeanStrList(writes))
	out.Def("guards", "List String", xlib.LeanStrList(guards))
	out.Def("completeFirst", "Bool", xlib.LeanBool(completeFirst))
	out.Def("preLoop", "List String", xlib.LeanStrList(mapRoles(x.preLoop)))
	out.Def("postLoop", "List String", xlib.LeanStrList(postLoop))
	out.Def("loopMethod", "String", xlib.LeanStr(x.loopMethod))
	out.Def("recurseOnLoopVar", "Bool", xlib.LeanBool(x.recurseOnLoopVar))
	out.Def("closeLast", "Bool", xlib.LeanBool(x.closeLast))
	out.Def("closeUsesDone", "Bool", xlib.LeanBool(x.closeUsesDone))
	out.Def("closeRet", "Bool", xlib.LeanBool(x.closeRet))
	out.Def("prepend", "Bool", xlib.LeanBool(x.prepend))
	out.Def("extRet", "Bool", xlib.LeanBool(x.extRet))
	out.Def("fallthroughNil", "Bool", xlib.LeanBool(x.fallthroughNil))
	out.Def("topRange", "String", xlib.LeanStr(topRange))
	out.Def("topSkip", "Bool", xlib.LeanBool(topSkip))
	out.Def("topVisitsLoopVar", "Bool", xlib.LeanBool(topVisitsLoopVar))
	out.Def("topReturnsResult", "Bool", xlib.LeanBool(topReturnsResult))
	out.Write()
}

func paramNames(fn *ast.FuncDecl) []string {
	var out []string
	for _, fl := range fn.Type.Params.List {
		for _, nm := range fl.Names {
			out = append(out, nm.Name)
		}
	}
	return out
}

func norm(f *xlib.File, n ast.Node, roles map[string]string) string {
	s := f.Src(n)
	var b strings.Builder
	cur := ""
	flush := func() {
		if r, ok := roles[cur]; ok {
			b.WriteString(r)
		} else {
			b.WriteString(cur)
		}
		cur = ""
	}
	for _, c := range s {
		if c == '_' || (c >= 'a' && c <= 'z') || (c >= 'A' && c <= 'Z') || (c >= '0' && c <= '9') {
			cur += string(c)
		} else {
			flush()
			b.WriteRune(c)
		}
	}
	flush()
	return b.String()
}

// withLocals extends roles with positional names v1, v2, … for every identifier declared inside fn (by :=,
// range or if-init), in source order, so that renaming a local does not change the facts.
// withLocals extends roles with positional names v1, v2, … for every identifier declared inside fn (by :=,
// range or if-init), in source order, so that renaming a local does not change the facts.
func withLocals(fn *ast.FuncDecl, roles map[string]string) map[string]string {
	return withLocalsNode(fn.Body, roles)
}

// withLocalsNode numbers the locals declared inside one statement (numbering restarts per statement, so a rename
// in one loop does not shift the names in another).
// withLocalsNode numbers the locals declared inside one statement (numbering restarts per statement, so a rename
// in one loop does not shift the names in another).
func withLocalsNode(body ast.Node, roles map[string]string) map[string]string {
	out := map[string]string{}
	for k, v := range roles {
		out[k] = v
	}
	k := 0
	decl := func(e ast.Expr) {
		if id, ok := e.(*ast.Ident); ok && id.Name != "_" {
			if _, seen := out[id.Name]; !seen {
				k++
				out[id.Name] = "v" + string(rune('0'+k/10)) + string(rune('0'+k%10))
			}
		}
	}
	ast.Inspect(body, func(n ast.Node) bool {
		switch x := n.(type) {
		case *ast.AssignStmt:
			if x.Tok == token.DEFINE {
				for _, l := range x.Lhs {
					decl(l)
				}
			}
		case *ast.RangeStmt:
			if x.Tok == token.DEFINE {
				if x.Key != nil {
					decl(x.Key)
				}
				if x.Value != nil {
					decl(x.Value)
				}
			}
		}
		return true
	})
	return out
}

// callsTo lists, in source order, the normalised calls to function `name` inside n.
func isLogCall(s ast.Stmt) bool {
	es, ok := s.(*ast.ExprStmt)
	if !ok {
		return false
	}
	c, ok := es.X.(*ast.CallExpr)
	if !ok {
		return false
	}
	sel, ok := c.Fun.(*ast.SelectorExpr)
	return ok && ident(sel.X) == "log"
}

func stmts(f *xlib.File, fn *ast.FuncDecl, roles0 map[string]string) []string {
	// locals declared at the top level of the function body get stable names F1, F2, … (they are used across
	// statements); locals of nested blocks are numbered per statement
	roles := map[string]string{}
	for k, v := range roles0 {
		roles[k] = v
	}
	k := 0
	name := func(e ast.Expr) {
		if id, ok := e.(*ast.Ident); ok && id.Name != "_" {
			if _, seen := roles[id.Name]; !seen {
				k++
				roles[id.Name] = "F" + string(rune('0'+k))
			}
		}
	}
	for _, s := range fn.Body.List {
		switch st := s.(type) {
		case *ast.AssignStmt:
			if st.Tok == token.DEFINE {
				for _, l := range st.Lhs {
					name(l)
				}
			}
		case *ast.DeclStmt:
			if gd, ok := st.Decl.(*ast.GenDecl); ok {
				for _, sp := range gd.Specs {
					if vs, ok := sp.(*ast.ValueSpec); ok {
						for _, n := range vs.Names {
							name(n)
						}
					}
				}
			}
		}
	}
	var out []string
	for _, s := range fn.Body.List {
		if isLogCall(s) {
			continue
		}
		out = append(out, norm(f, s, withLocalsNode(s, roles)))
	}
	return out
}

func splitColon(s string) []string {
	var out []string
	cur := ""
	for _, r := range s {
		if r == ':' {
			out = append(out, cur)
			cur = ""
		} else {
			cur += string(r)
		}
	}
	return append(out, cur)
}
