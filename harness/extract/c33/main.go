// Facts for C33 from src/core/build_label.go (BuildLabel.CanSee) and src/core/build_target.go
// (BuildTarget.CheckDependencyVisibility): the sequence of tests and their outcomes, with receiver,
// parameters and locals replaced by roles so that renaming them changes nothing.
package main

import (
	"go/ast"
	"go/token"
	"regexp"
	"strings"

	"verif/harness/xlib"
)

func recvName(fn *ast.FuncDecl) string {
	if fn.Recv != nil && len(fn.Recv.List) > 0 && len(fn.Recv.List[0].Names) > 0 {
		return fn.Recv.List[0].Names[0].Name
	}
	return ""
}

func paramNames(fn *ast.FuncDecl) []string {
	var ps []string
	for _, fl := range fn.Type.Params.List {
		for _, nm := range fl.Names {
			ps = append(ps, nm.Name)
		}
	}
	return ps
}

type renamer struct{ m map[string]string }

func (r renamer) apply(s string) string {
	for k, v := range r.m {
		s = regexp.MustCompile(`\b`+regexp.QuoteMeta(k)+`\b`).ReplaceAllString(s, v)
	}
	return strings.Join(strings.Fields(s), " ")
}

// outcome of an if body: "true", "false", "error", "continue" (no return).
func outcome(f *xlib.File, b *ast.BlockStmt) string {
	res := "continue"
	ast.Inspect(b, func(nd ast.Node) bool {
		if r, ok := nd.(*ast.ReturnStmt); ok && len(r.Results) == 1 {
			s := f.Src(r.Results[0])
			switch {
			case s == "true" || s == "false" || s == "nil":
				res = s
			default:
				res = "error"
			}
			return false
		}
		return true
	})
	return res
}

func main() {
	bl := xlib.Parse("src/core/build_label.go")
	bt := xlib.Parse("src/core/build_target.go")
	out := xlib.NewOut("C33", bl.Path, bt.Path, "src/parse/asp/builtins.go", "src/parse/asp/config.go", "src/parse/asp/targets.go")

	// ---- BuildLabel.CanSee
	cs := bl.Func("BuildLabel.CanSee")
	ps := paramNames(cs)
	if len(ps) != 2 {
		xlib.Unreadable("CanSee: expected (state, dep)")
	}
	rn := renamer{map[string]string{recvName(cs): "SELF", ps[0]: "STATE", ps[1]: "DEP"}}
	// the local that holds SELF.Parent()
	ast.Inspect(cs.Body, func(nd ast.Node) bool {
		if as, ok := nd.(*ast.AssignStmt); ok && len(as.Lhs) == 1 && len(as.Rhs) == 1 {
			if c, ok := as.Rhs[0].(*ast.CallExpr); ok {
				if s, ok := c.Fun.(*ast.SelectorExpr); ok && s.Sel.Name == "Parent" {
					if id, ok := as.Lhs[0].(*ast.Ident); ok {
						rn.m[id.Name] = "PARENT"
					}
				}
			}
		}
		return true
	})
	var steps []string
	var walkIf func(is *ast.IfStmt)
	walkIf = func(is *ast.IfStmt) {
		steps = append(steps, "if "+rn.apply(bl.Src(is.Cond))+" -> "+outcome(bl, is.Body))
		if e, ok := is.Else.(*ast.IfStmt); ok {
			walkIf(e)
		}
	}
	for _, st := range cs.Body.List {
		switch x := st.(type) {
		case *ast.IfStmt:
			walkIf(x)
		case *ast.RangeStmt:
			v := ""
			if id, ok := x.Value.(*ast.Ident); ok {
				v = id.Name
			}
			r2 := renamer{map[string]string{}}
			for k, val := range rn.m {
				r2.m[k] = val
			}
			r2.m[v] = "V"
			for _, s2 := range x.Body.List {
				if is, ok := s2.(*ast.IfStmt); ok {
					steps = append(steps, "for V in "+rn.apply(bl.Src(x.X))+": if "+r2.apply(bl.Src(is.Cond))+" -> "+outcome(bl, is.Body))
				}
			}
		case *ast.ReturnStmt:
			steps = append(steps, "return "+rn.apply(bl.Src(x.Results[0])))
		}
	}
	out.Def("canSeeSteps", "List String", xlib.LeanStrList(steps))
	out.Def("canSeeMentionsSubrepo", "Bool", xlib.LeanBool(strings.Contains(bl.Src(cs.Body), "Subrepo")))
	tcs := bt.Func("BuildTarget.CanSee")
	out.Def("targetCanSeeDelegates", "Bool", xlib.LeanBool(strings.Contains(bt.Src(tcs.Body), ".Label.CanSee(")))

	// ---- BuildTarget.CheckDependencyVisibility
	cd := bt.Func("BuildTarget.CheckDependencyVisibility")
	rc := renamer{map[string]string{recvName(cd): "SELF", paramNames(cd)[0]: "STATE"}}
	var csteps []string
	var loop *ast.RangeStmt
	for _, st := range cd.Body.List {
		if r, ok := st.(*ast.RangeStmt); ok {
			loop = r
		}
	}
	if loop == nil {
		xlib.Unreadable("CheckDependencyVisibility: no loop over the dependencies")
	}
	csteps = append(csteps, "for D in "+rc.apply(bt.Src(loop.X)))
	for _, st := range loop.Body.List {
		switch x := st.(type) {
		case *ast.AssignStmt:
			if id, ok := x.Lhs[0].(*ast.Ident); ok && x.Tok == token.DEFINE {
				rc.m[id.Name] = "DEP"
				if v, ok := loop.Value.(*ast.Ident); ok {
					rc.m[v.Name] = "D"
				}
				csteps = append(csteps, "DEP := "+rc.apply(bt.Src(x.Rhs[0])))
			}
		case *ast.IfStmt:
			var walk func(is *ast.IfStmt)
			walk = func(is *ast.IfStmt) {
				o := outcome(bt, is.Body)
				// a nested if inside the body (the experimental exemption)
				nested := ""
				for _, s2 := range is.Body.List {
					if in, ok := s2.(*ast.IfStmt); ok {
						nested = " { if " + rc.apply(bt.Src(in.Cond)) + " -> " + outcome(bt, in.Body)
						if eb, ok := in.Else.(*ast.BlockStmt); ok {
							nested += " else -> " + outcome(bt, eb)
						}
						nested += " }"
						o = "nested"
					}
				}
				csteps = append(csteps, "if "+rc.apply(bt.Src(is.Cond))+" -> "+o+nested)
				if e, ok := is.Else.(*ast.IfStmt); ok {
					walk(e)
				}
			}
			walk(x)
		}
	}
	if r, ok := cd.Body.List[len(cd.Body.List)-1].(*ast.ReturnStmt); ok {
		csteps = append(csteps, "return "+bt.Src(r.Results[0]))
	}
	out.Def("checkSteps", "List String", xlib.LeanStrList(csteps))

	// ---- the declared restriction: defaultFromConfig's "not set" test and which buildRule arguments go through it
	bi := xlib.Parse("src/parse/asp/builtins.go")
	dfc := bi.Func("defaultFromConfig")
	dps := paramNames(dfc)
	if len(dps) != 3 {
		xlib.Unreadable("defaultFromConfig: expected (config, arg, name)")
	}
	rd := renamer{map[string]string{dps[0]: "CONFIG", dps[1]: "ARG", dps[2]: "NAME"}}
	unset := ""
	if is, ok := dfc.Body.List[0].(*ast.IfStmt); ok {
		unset = rd.apply(bi.Src(is.Cond))
	}
	switch {
	case unset == "ARG == nil || ARG == None":
	case strings.Contains(unset, "IsTruthy"):
	default:
		xlib.Unreadable("defaultFromConfig: unknown not-set test %q", unset)
	}
	out.Def("defaultUnsetTest", "String", xlib.LeanStr(unset))
	var through []string
	br := bi.Func("buildRule")
	ast.Inspect(br.Body, func(nd ast.Node) bool {
		as, ok := nd.(*ast.AssignStmt)
		if !ok || len(as.Rhs) != 1 {
			return true
		}
		c, ok := as.Rhs[0].(*ast.CallExpr)
		if !ok || bi.Src(c.Fun) != "defaultFromConfig" || len(c.Args) != 3 {
			return true
		}
		lhs, a1 := bi.Src(as.Lhs[0]), bi.Src(c.Args[1])
		key := bi.Src(c.Args[2])
		if lhs != a1 {
			through = append(through, "MISMATCH "+lhs+" <- "+a1)
		} else {
			through = append(through, strings.TrimSuffix(strings.TrimPrefix(lhs, "args["), "]")+"="+strings.Trim(key, "\""))
		}
		return true
	})
	aligned := true
	for _, x := range through {
		if strings.HasPrefix(x, "MISMATCH") {
			aligned = false
		}
	}
	out.Def("buildRuleDefaults", "List String", xlib.LeanStrList(through))
	out.Def("buildRuleDefaultsAligned", "Bool", xlib.LeanBool(aligned))
	cf := xlib.Parse("src/parse/asp/config.go")
	var baseDefaults []string
	ast.Inspect(cf.AST, func(nd ast.Node) bool {
		as, ok := nd.(*ast.AssignStmt)
		if !ok || len(as.Lhs) != 1 || len(as.Rhs) != 1 {
			return true
		}
		l := cf.Src(as.Lhs[0])
		if l == `base["DEFAULT_VISIBILITY"]` || l == `base["DEFAULT_TESTONLY"]` {
			baseDefaults = append(baseDefaults, strings.TrimSuffix(strings.TrimPrefix(l, `base["`), `"]`)+"="+cf.Src(as.Rhs[0]))
		}
		return true
	})
	out.Def("configDefaults", "List String", xlib.LeanStrList(baseDefaults))
	tg := xlib.Parse("src/parse/asp/targets.go")
	pt := tg.Func("populateTarget")
	visCond := ""
	ast.Inspect(pt.Body, func(nd ast.Node) bool {
		if is, ok := nd.(*ast.IfStmt); ok && is.Init != nil && strings.Contains(tg.Src(is.Init), "visibilityBuildRuleArgIdx") && visCond == "" {
			init := ""
			if is.Init != nil {
				init = tg.Src(is.Init) + "; "
			}
			visCond = init + tg.Src(is.Cond)
		}
		return true
	})
	out.Def("populateVisibilityCond", "String", xlib.LeanStr(visCond))
	out.Write()
}
