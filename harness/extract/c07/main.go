// Facts for C07 (together with extract/c08, whose write schema and per-accessor sort flags C07 also uses):
// every `range` over a Go map in the functions the rule hash is computed through, classified as
//
//	sorted   the loop only collects the keys into a slice that is sorted before it is used
//	max      the loop only keeps the entry with the greatest key (order-insensitive: getCommand's fallback)
//	lookup   the loop body only tests membership / copies into another map (order-insensitive)
//	UNSORTED anything else: iteration order can leak into the result
//
// Map-typed expressions are recognised syntactically: fields of BuildTarget / TestFields / DebugFields declared with
// a map type, and parameters / locals declared with a map type in the scanned function.
package main

import (
	"fmt"
	"go/ast"
	"go/token"
	"os"
	"path/filepath"
	"sort"
	"strings"

	"verif/harness/xlib"
)

// functions whose result feeds ruleHash (file -> names)
var scanned = map[string][]string{
	"src/build/incrementality.go": {"ruleHash", "hashMap", "hashBool", "hashOptionalBool", "RuleHash"},
	"src/core/build_target.go": {"BuildTarget.DeclaredDependencies", "BuildTarget.DeclaredOutputNames", "BuildTarget.DeclaredNamedOutputs",
		"BuildTarget.DeclaredOutputs", "BuildTarget.allBuildInputs", "BuildTarget.AllData", "BuildTarget.getCommand",
		"BuildTarget.GetCommand", "BuildTarget.GetTestCommand", "BuildTarget.IsTest"},
	"src/core/build_label.go": {"BuildLabel.String", "BuildLabel.Less"},
}

func mapFields(f *xlib.File, structs ...string) map[string]bool {
	out := map[string]bool{}
	for _, d := range f.AST.Decls {
		gd, ok := d.(*ast.GenDecl)
		if !ok || gd.Tok != token.TYPE {
			continue
		}
		for _, s := range gd.Specs {
			ts := s.(*ast.TypeSpec)
			st, ok := ts.Type.(*ast.StructType)
			if !ok {
				continue
			}
			want := false
			for _, n := range structs {
				want = want || n == ts.Name.Name
			}
			if !want {
				continue
			}
			for _, fl := range st.Fields.List {
				if _, ok := fl.Type.(*ast.MapType); ok {
					for _, n := range fl.Names {
						out[n.Name] = true
					}
				}
			}
		}
	}
	return out
}

type finding struct{ fn, expr, class string }

func main() {
	core := xlib.Parse("src/core/build_target.go")
	fields := mapFields(core, "BuildTarget", "TestFields", "DebugFields")
	if !fields["Provides"] || !fields["NamedSources"] || !fields["Env"] {
		xlib.Unreadable("BuildTarget no longer declares the expected map fields")
	}
	var fs []finding
	files := make([]string, 0, len(scanned))
	for k := range scanned {
		files = append(files, k)
	}
	sort.Strings(files)
	for _, file := range files {
		f := xlib.Parse(file)
		for _, name := range scanned[file] {
			fn := f.Func(name)
			// locals / params with a map type, and locals assigned from a map-valued accessor
			maps := map[string]bool{}
			for _, fl := range fn.Type.Params.List {
				if _, ok := fl.Type.(*ast.MapType); ok {
					for _, n := range fl.Names {
						maps[n.Name] = true
					}
				}
			}
			ast.Inspect(fn.Body, func(n ast.Node) bool {
				as, ok := n.(*ast.AssignStmt)
				if !ok || len(as.Lhs) != 1 || len(as.Rhs) != 1 {
					return true
				}
				id, ok := as.Lhs[0].(*ast.Ident)
				if !ok {
					return true
				}
				switch r := as.Rhs[0].(type) {
				case *ast.CallExpr:
					if sel, ok := r.Fun.(*ast.SelectorExpr); ok && (sel.Sel.Name == "DeclaredNamedOutputs" || sel.Sel.Name == "AllNamedTools") {
						maps[id.Name] = true
					}
					if fnId, ok := r.Fun.(*ast.Ident); ok && fnId.Name == "make" && len(r.Args) > 0 {
						if _, ok := r.Args[0].(*ast.MapType); ok {
							maps[id.Name] = true
						}
					}
				case *ast.CompositeLit:
					if _, ok := r.Type.(*ast.MapType); ok {
						maps[id.Name] = true
					}
				}
				return true
			})
			isMap := func(e ast.Expr) bool {
				switch x := e.(type) {
				case *ast.Ident:
					return maps[x.Name]
				case *ast.SelectorExpr:
					return fields[x.Sel.Name]
				}
				return false
			}
			// walk statement lists so that "what follows the loop" is visible
			var walk func(list []ast.Stmt)
			walk = func(list []ast.Stmt) {
				for i, s := range list {
					switch st := s.(type) {
					case *ast.RangeStmt:
						if isMap(st.X) {
							fs = append(fs, finding{name, f.Src(st.X), classify(f, st, list[i+1:])})
						}
						walk(st.Body.List)
					case *ast.IfStmt:
						walk(st.Body.List)
						if b, ok := st.Else.(*ast.BlockStmt); ok {
							walk(b.List)
						}
					case *ast.ForStmt:
						walk(st.Body.List)
					case *ast.BlockStmt:
						walk(st.List)
					}
				}
			}
			walk(fn.Body.List)
		}
	}
	// UnprefixedHashes: does it strip the prefixes inside target.Hashes (slice expression shares the backing
	// array) or on a copy?
	aliases := false
	{
		uh := core.Func("BuildTarget.UnprefixedHashes")
		recv := uh.Recv.List[0].Names[0].Name
		as, ok := uh.Body.List[0].(*ast.AssignStmt)
		if !ok || len(as.Lhs) != 1 || len(as.Rhs) != 1 {
			xlib.Unreadable("UnprefixedHashes: first statement is not an assignment")
		}
		switch strings.ReplaceAll(core.Src(as.Rhs[0]), recv+".", "target.") {
		case "target.Hashes[:]", "target.Hashes":
			aliases = true
		case "slices.Clone(target.Hashes)", "append([]string(nil), target.Hashes...)", "append([]string{}, target.Hashes...)":
			aliases = false
		default:
			xlib.Unreadable("UnprefixedHashes: unrecognised initialisation %s", core.Src(as.Rhs[0]))
		}
		local := as.Lhs[0].(*ast.Ident).Name
		writes := false
		ast.Inspect(uh.Body, func(n ast.Node) bool {
			if a, ok := n.(*ast.AssignStmt); ok && len(a.Lhs) == 1 {
				if ix, ok := a.Lhs[0].(*ast.IndexExpr); ok {
					if id, ok := ix.X.(*ast.Ident); ok && id.Name == local {
						writes = true
					}
				}
			}
			return true
		})
		if !writes {
			xlib.Unreadable("UnprefixedHashes: no element assignment found")
		}
	}
	// dependency-list accessors: sorted after the fill loop, or returned in insertion (= declaration) order
	type acc struct{ fn, order string }
	var accs []acc
	for _, name := range []string{"BuildTarget.DeclaredDependencies", "BuildTarget.DeclaredDependenciesStrict", "BuildTarget.BuildDependencies", "BuildTarget.ExportedDependencies"} {
		fd := core.Func(name)
		lastRange, sortPos := token.NoPos, token.NoPos
		for _, st := range fd.Body.List {
			switch x := st.(type) {
			case *ast.RangeStmt:
				lastRange = x.Pos()
			case *ast.ExprStmt:
				src := core.Src(x)
				if strings.HasPrefix(src, "sort.Sort(") || strings.HasPrefix(src, "sort.Stable(") || strings.HasPrefix(src, "slices.SortFunc(") {
					sortPos = x.Pos()
				}
			}
		}
		if lastRange == token.NoPos {
			xlib.Unreadable("%s: no loop over the dependencies", name)
		}
		order := "insertion-order"
		if sortPos > lastRange {
			order = "sorted"
		}
		accs = append(accs, acc{name, order})
	}
	var b strings.Builder
	b.WriteString("def depOrderAccessors : List (String × String) := [")
	for i, a := range accs {
		if i > 0 {
			b.WriteString(", ")
		}
		fmt.Fprintf(&b, "(%s, %s)", xlib.LeanStr(a.fn), xlib.LeanStr(a.order))
	}
	b.WriteString("]\n")
	fmt.Fprintf(&b, "def unprefixedAliases : Bool := %s\n", xlib.LeanBool(aliases))
	b.WriteString("def mapRanges : List (String × String × String) := [\n")
	for i, x := range fs {
		fmt.Fprintf(&b, "  (%s, %s, %s)", xlib.LeanStr(x.fn), xlib.LeanStr(x.expr), xlib.LeanStr(x.class))
		if i+1 < len(fs) {
			b.WriteString(",")
		}
		b.WriteString("\n")
	}
	b.WriteString("]\n")
	write("C07", "src/build/incrementality.go, src/core/build_target.go, src/core/build_label.go", b.String())
}

// classify one range over a map.
func classify(f *xlib.File, r *ast.RangeStmt, after []ast.Stmt) string {
	key, _ := r.Key.(*ast.Ident)
	val, _ := r.Value.(*ast.Ident)
	body := r.Body.List
	// sorted: for k := range m { keys = append(keys, k) } ... sort.Strings(keys) before keys is read again
	if key != nil && val == nil && len(body) == 1 {
		if as, ok := body[0].(*ast.AssignStmt); ok && len(as.Lhs) == 1 && len(as.Rhs) == 1 {
			if c, ok := as.Rhs[0].(*ast.CallExpr); ok && len(c.Args) == 2 {
				if fn, ok := c.Fun.(*ast.Ident); ok && fn.Name == "append" {
					dst, _ := as.Lhs[0].(*ast.Ident)
					a0, _ := c.Args[0].(*ast.Ident)
					a1, _ := c.Args[1].(*ast.Ident)
					if dst != nil && a0 != nil && a1 != nil && dst.Name == a0.Name && a1.Name == key.Name {
						for _, s := range after {
							src := f.Src(s)
							if src == "sort.Strings("+dst.Name+")" || src == "sort.Sort("+dst.Name+")" || src == "slices.Sort("+dst.Name+")" {
								return "sorted"
							}
							if mentionsIdent(s, dst.Name) {
								return "UNSORTED" // used before it is sorted
							}
						}
						return "UNSORTED"
					}
				}
			}
		}
	}
	// max: for k, v := range m { if k > best { best = k; bestV = v } }
	if key != nil && val != nil && len(body) == 1 {
		if is, ok := body[0].(*ast.IfStmt); ok && is.Else == nil && is.Init == nil {
			// exactly `key > best`: keep the entry with the greatest key
			if be, ok := is.Cond.(*ast.BinaryExpr); ok && be.Op == token.GTR {
				l, _ := be.X.(*ast.Ident)
				rr, _ := be.Y.(*ast.Ident)
				if l != nil && rr != nil && l.Name == key.Name && rr.Name != key.Name && len(is.Body.List) == 2 {
					ok := true
					for _, s := range is.Body.List {
						as, isAs := s.(*ast.AssignStmt)
						ok = ok && isAs && len(as.Lhs) == 1 && len(as.Rhs) == 1
						if ok {
							id, isId := as.Rhs[0].(*ast.Ident)
							ok = isId && (id.Name == key.Name || id.Name == val.Name)
						}
					}
					if ok {
						return "max"
					}
				}
			}
		}
	}
	return "UNSORTED"
}

func mentionsIdent(n ast.Node, name string) bool {
	found := false
	ast.Inspect(n, func(x ast.Node) bool {
		if id, ok := x.(*ast.Ident); ok && id.Name == name {
			found = true
		}
		return !found
	})
	return found
}

func write(name, sources, body string) {
	s := "-- REGENERATED from " + sources + " by /verif/harness/extract/" + strings.ToLower(name) +
		" on every run. Do not edit.\nnamespace PlzVerif.Generated." + name + "\n" + body +
		"end PlzVerif.Generated." + name + "\n"
	dir := os.Getenv("VERIF_GENERATED")
	if dir == "" {
		dir = "/verif/lean/PlzVerif/Generated"
	}
	os.MkdirAll(dir, 0o755)
	p := filepath.Join(dir, name+".lean")
	if old, err := os.ReadFile(p); err == nil && string(old) == s {
		return
	}
	if err := os.WriteFile(p, []byte(s), 0o644); err != nil {
		panic(err)
	}
}
