// Facts for C02 from src/core/utils.go CollapseHash: the block comparison that selects the branch and the
// block offsets (in units of sha1.Size) XORed together in each branch.
package main

import (
	"go/ast"
	"go/token"
	"sort"
	"strconv"
	"strings"

	"verif/harness/xlib"
)

// offset of an index expression `i`, `i+sha1.Size`, `i+2*sha1.Size` in units of sha1.Size
func blockOf(f *xlib.File, e ast.Expr) int {
	s := strings.ReplaceAll(f.Src(e), " ", "")
	switch {
	case s == "i":
		return 0
	case s == "i+sha1.Size":
		return 1
	case strings.HasPrefix(s, "i+") && strings.HasSuffix(s, "*sha1.Size"):
		n, err := strconv.Atoi(strings.TrimSuffix(strings.TrimPrefix(s, "i+"), "*sha1.Size"))
		if err == nil {
			return n
		}
	}
	xlib.Unreadable("CollapseHash: unexpected index expression %s", s)
	return -1
}

func xorBlocks(f *xlib.File, e ast.Expr, acc *[]int) {
	switch x := e.(type) {
	case *ast.BinaryExpr:
		if x.Op != token.XOR {
			xlib.Unreadable("CollapseHash: operator %s", x.Op)
		}
		xorBlocks(f, x.X, acc)
		xorBlocks(f, x.Y, acc)
	case *ast.IndexExpr:
		*acc = append(*acc, blockOf(f, x.Index))
	case *ast.ParenExpr:
		xorBlocks(f, x.X, acc)
	default:
		xlib.Unreadable("CollapseHash: operand %s", f.Src(e))
	}
}

func branchBlocks(f *xlib.File, b *ast.BlockStmt) []int {
	var out []int
	ast.Inspect(b, func(n ast.Node) bool {
		if as, ok := n.(*ast.AssignStmt); ok && len(as.Rhs) == 1 {
			if _, isIdx := as.Lhs[0].(*ast.IndexExpr); isIdx {
				xorBlocks(f, as.Rhs[0], &out)
			}
		}
		return true
	})
	sort.Ints(out)
	return out
}

func main() {
	f := xlib.Parse("src/core/utils.go")
	fn := f.Func("CollapseHash")
	out := xlib.NewOut("C02", f.Path)
	var ifs *ast.IfStmt
	for _, st := range fn.Body.List {
		if x, ok := st.(*ast.IfStmt); ok {
			ifs = x
		}
	}
	if ifs == nil || ifs.Else == nil {
		xlib.Unreadable("CollapseHash: if/else not found")
	}
	cond := strings.ReplaceAll(f.Src(ifs.Cond), " ", "")
	out.Def("collapseCond", "String", xlib.LeanStr(cond))
	out.Def("collapseEqualBranch", "List Nat", xlib.LeanNatList(branchBlocks(f, ifs.Body)))
	out.Def("collapseElseBranch", "List Nat", xlib.LeanNatList(branchBlocks(f, ifs.Else.(*ast.BlockStmt))))
	out.Write()
}
