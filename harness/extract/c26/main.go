// Facts for C26:
//
//	src/core/test_results.go  the conditions of Success/Skip/Failures/Errors, of the five counters and of
//	                          AllSucceeded (conjuncts sorted, loop variable renamed), Add's matching rule;
//	src/test/test_step.go     the shape of doFlakeRun's loop (bounds, Add before the break, what the break tests);
//	src/test/xml_results.go   appendResult's priority chain and the order of the flaky/rerun loops, whether
//	                          jUnitXMLTestSuite can hold nested <testsuite> elements, the format sniffing prefixes;
//	src/test/go_results.go    which go-junit-report results the switch handles and what they set.
package main

import (
	"go/ast"
	"go/token"
	"reflect"
	"sort"
	"strconv"
	"strings"

	"verif/harness/xlib"
)

// normCond renders a condition with the identifier `v` renamed to `as` and its && conjuncts sorted.
func normCond(f *xlib.File, e ast.Expr, v, as string) string {
	var conj []string
	var split func(e ast.Expr)
	split = func(e ast.Expr) {
		if p, ok := e.(*ast.ParenExpr); ok {
			if b, ok := p.X.(*ast.BinaryExpr); ok && b.Op != token.LAND {
				s := "(" + f.Src(p.X) + ")" // a disjunction (or comparison) in parentheses is one conjunct
				if v != "" {
					s = renameIdent(s, v, as)
				}
				conj = append(conj, s)
				return
			}
			split(p.X)
			return
		}
		if b, ok := e.(*ast.BinaryExpr); ok && b.Op == token.LAND {
			split(b.X)
			split(b.Y)
			return
		}
		s := f.Src(e)
		if v != "" {
			s = renameIdent(s, v, as)
		}
		conj = append(conj, s)
	}
	split(e)
	sort.Strings(conj)
	return strings.Join(conj, " && ")
}

func renameIdent(s, v, as string) string {
	var b strings.Builder
	isId := func(c byte) bool {
		return c == '_' || c >= 'a' && c <= 'z' || c >= 'A' && c <= 'Z' || c >= '0' && c <= '9'
	}
	for i := 0; i < len(s); {
		if strings.HasPrefix(s[i:], v) && (i == 0 || !isId(s[i-1]) && s[i-1] != '.') && (i+len(v) == len(s) || !isId(s[i+len(v)])) {
			b.WriteString(as)
			i += len(v)
		} else {
			b.WriteByte(s[i])
			i++
		}
	}
	return b.String()
}

// loopIf returns the range variable and the single if statement of `for _, v := range X { if cond {...} }`.
func loopIf(f *xlib.File, fn *ast.FuncDecl) (string, *ast.IfStmt) {
	for _, s := range fn.Body.List {
		if r, ok := s.(*ast.RangeStmt); ok && len(r.Body.List) >= 1 {
			if is, ok := r.Body.List[0].(*ast.IfStmt); ok {
				v := ""
				if id, ok := r.Value.(*ast.Ident); ok {
					v = id.Name
				}
				return v, is
			}
		}
	}
	xlib.Unreadable("%s: expected a range loop with an if statement", fn.Name.Name)
	return "", nil
}

func main() {
	f := xlib.Parse("src/core/test_results.go")
	out := xlib.NewOut("C26", f.Path, "src/test/test_step.go", "src/test/xml_results.go", "src/test/go_results.go", "src/test/results.go")

	for _, x := range [][2]string{{"TestCase.Success", "successCond"}, {"TestCase.Skip", "skipCond"},
		{"TestCase.Failures", "failureCond"}, {"TestCase.Errors", "errorCond"}} {
		v, is := loopIf(f, f.Func(x[0]))
		out.Def(x[1], "String", xlib.LeanStr(normCond(f, is.Cond, v, "E")))
	}
	for _, x := range [][2]string{{"TestSuite.Passes", "passCond"}, {"TestSuite.Errors", "errorsCond"},
		{"TestSuite.Failures", "failuresCond"}, {"TestSuite.Skips", "skipsCond"}, {"TestSuite.FlakyPasses", "flakyCond"}} {
		fn := f.Func(x[0])
		v, is := loopIf(f, fn)
		// the if must only increment the counter
		if len(is.Body.List) != 1 || is.Else != nil {
			xlib.Unreadable("%s: counter body not understood", x[0])
		}
		if _, ok := is.Body.List[0].(*ast.IncDecStmt); !ok {
			xlib.Unreadable("%s: counter body not understood", x[0])
		}
		out.Def(x[1], "String", xlib.LeanStr(normCond(f, is.Cond, v, "C")))
	}
	{
		fn := f.Func("TestCases.AllSucceeded")
		v, is := loopIf(f, fn)
		ret := ""
		if len(is.Body.List) == 1 {
			ret = f.Src(is.Body.List[0])
		}
		last := f.Src(fn.Body.List[len(fn.Body.List)-1])
		out.Def("allSucceededCond", "String", xlib.LeanStr(normCond(f, is.Cond, v, "C")+" => "+ret+"; "+last))
	}
	{
		fn := f.Func("TestSuite.Tests")
		out.Def("testsExpr", "String", xlib.LeanStr(f.Src(fn.Body.List[0])))
	}
	{
		// How does Add decide that an incoming case is "the same" as an existing one?  Either a condition that
		// compares fields of the two cases one by one (kind "separate"), or a derived key: a helper returning a
		// concatenation of fields and literals (kind "concat", with the fields in order and the separator), or a
		// tuple/struct of fields (kind "separate" again).
		add := f.Func("TestSuite.Add")
		kind, sep := "", ""
		var fields []string
		fieldOf := func(e ast.Expr) string {
			if se, ok := e.(*ast.SelectorExpr); ok {
				return se.Sel.Name
			}
			return ""
		}
		var fromCond func(e ast.Expr) bool
		fromCond = func(e ast.Expr) bool {
			switch x := e.(type) {
			case *ast.ParenExpr:
				return fromCond(x.X)
			case *ast.BinaryExpr:
				if x.Op == token.LAND {
					return fromCond(x.X) && fromCond(x.Y)
				}
				if x.Op == token.EQL && fieldOf(x.X) != "" && fieldOf(x.X) == fieldOf(x.Y) {
					fields = append(fields, fieldOf(x.X))
					return true
				}
			}
			return false
		}
		var fromKeyExpr func(e ast.Expr) bool
		fromKeyExpr = func(e ast.Expr) bool {
			switch x := e.(type) {
			case *ast.ParenExpr:
				return fromKeyExpr(x.X)
			case *ast.BinaryExpr:
				if x.Op == token.ADD {
					return fromKeyExpr(x.X) && fromKeyExpr(x.Y)
				}
			case *ast.BasicLit:
				if x.Kind == token.STRING {
					v, _ := strconv.Unquote(x.Value)
					sep += v
					return true
				}
			case *ast.SelectorExpr:
				fields = append(fields, x.Sel.Name)
				return true
			}
			return false
		}
		// (1) a helper (or Add itself) with an if whose condition compares fields pairwise
		callees := []*ast.FuncDecl{add}
		ast.Inspect(add.Body, func(n ast.Node) bool {
			if c, ok := n.(*ast.CallExpr); ok {
				name := ""
				switch fx := c.Fun.(type) {
				case *ast.Ident:
					name = fx.Name
				case *ast.SelectorExpr:
					name = fx.Sel.Name
				}
				for _, d := range f.AST.Decls {
					if fd, ok := d.(*ast.FuncDecl); ok && fd.Name.Name == name && fd.Body != nil {
						callees = append(callees, fd)
					}
				}
			}
			return true
		})
		for _, fd := range callees {
			if kind != "" {
				break
			}
			ast.Inspect(fd.Body, func(n ast.Node) bool {
				if is, ok := n.(*ast.IfStmt); ok && kind == "" {
					fields = nil
					if fromCond(is.Cond) && len(fields) > 0 {
						kind = "separate"
					}
				}
				return true
			})
		}
		// (2) a key helper: a function whose single statement returns a concatenation / composite of fields
		if kind == "" {
			for _, fd := range callees[1:] {
				if len(fd.Body.List) != 1 {
					continue
				}
				ret, ok := fd.Body.List[0].(*ast.ReturnStmt)
				if !ok || len(ret.Results) != 1 {
					continue
				}
				fields, sep = nil, ""
				if cl, ok := ret.Results[0].(*ast.CompositeLit); ok {
					for _, e := range cl.Elts {
						if kv, ok := e.(*ast.KeyValueExpr); ok {
							e = kv.Value
						}
						if fieldOf(e) == "" {
							fields = nil
							break
						}
						fields = append(fields, fieldOf(e))
					}
					if len(fields) > 0 {
						kind = "separate"
						break
					}
				} else if fromKeyExpr(ret.Results[0]) && len(fields) > 0 {
					kind = "concat"
					break
				}
			}
		}
		if kind == "" {
			xlib.Unreadable("TestSuite.Add: cannot tell how an incoming case is matched against the existing ones")
		}
		if kind == "separate" {
			sort.Strings(fields)
			sep = ""
		}
		out.Def("addMatchKind", "String", xlib.LeanStr(kind))
		out.Def("addMatchFields", "List String", xlib.LeanStrList(fields))
		out.Def("addMatchSep", "String", xlib.LeanStr(sep))
		shape := ""
		ast.Inspect(add.Body, func(n ast.Node) bool {
			if is, ok := n.(*ast.IfStmt); ok && shape == "" {
				k := func(b *ast.BlockStmt) string {
					if b == nil {
						return "?"
					}
					for _, st := range b.List {
						s := f.Src(st)
						switch {
						case strings.Contains(s, ".Executions = append(") && strings.Contains(s, ".Executions...)"):
							return "append-executions"
						case strings.Contains(s, ".TestCases = append("):
							return "append-case"
						}
					}
					return "?"
				}
				eb, _ := is.Else.(*ast.BlockStmt)
				shape = "found ? " + k(is.Body) + " : " + k(eb)
			}
			return true
		})
		out.Def("addShape", "String", xlib.LeanStr(shape))
	}

	// doFlakeRun
	ts := xlib.Parse("src/test/test_step.go")
	fr := ts.Func("doFlakeRun")
	var loop *ast.ForStmt
	for _, s := range fr.Body.List {
		if l, ok := s.(*ast.ForStmt); ok {
			loop = l
		}
	}
	if loop == nil || loop.Init == nil || loop.Cond == nil || loop.Post == nil {
		xlib.Unreadable("doFlakeRun: counting loop not found")
	}
	cv := ""
	if as, ok := loop.Init.(*ast.AssignStmt); ok && len(as.Lhs) == 1 {
		cv = ts.Src(as.Lhs[0])
	}
	out.Def("flakeLoopInit", "String", xlib.LeanStr(renameIdent(ts.Src(loop.Init), cv, "I")))
	cond := renameIdent(ts.Src(loop.Cond), cv, "I")
	cond = strings.NewReplacer("int(target.Test.Flakiness)", "FLAKINESS", "target.Test.Flakiness", "FLAKINESS").Replace(cond)
	out.Def("flakeLoopCond", "String", xlib.LeanStr(cond))
	out.Def("flakeLoopPost", "String", xlib.LeanStr(renameIdent(ts.Src(loop.Post), cv, "I")))
	runVar := ""
	var steps []string
	for _, s := range loop.Body.List {
		src := ts.Src(s)
		switch x := s.(type) {
		case *ast.AssignStmt:
			if len(x.Rhs) == 1 {
				if c, ok := x.Rhs[0].(*ast.CallExpr); ok && ts.Src(c.Fun) == "doTest" {
					runVar = ts.Src(x.Lhs[0])
					steps = append(steps, "run")
				}
			}
		case *ast.ExprStmt:
			if strings.HasSuffix(strings.Split(src, "(")[0], ".Add") {
				steps = append(steps, "add:"+renameIdent(strings.SplitN(src, "(", 2)[1], runVar, "RUN"))
			}
		case *ast.IfStmt:
			hasBreak := false
			for _, b := range x.Body.List {
				if br, ok := b.(*ast.BranchStmt); ok && br.Tok == token.BREAK {
					hasBreak = true
				}
			}
			if hasBreak {
				steps = append(steps, "break-if:"+renameIdent(ts.Src(x.Cond), runVar, "RUN"))
			}
		}
	}
	out.Def("flakeLoopSteps", "List String", xlib.LeanStrList(steps))

	// xml_results.go
	xr := xlib.Parse("src/test/xml_results.go")
	ar := xr.Func("appendResult")
	var chain, loops []string
	for _, s := range ar.Body.List {
		is, ok := s.(*ast.IfStmt)
		if !ok {
			continue
		}
		if len(chain) == 0 && is.Else != nil {
			var cur ast.Stmt = is
			for cur != nil {
				i2, ok := cur.(*ast.IfStmt)
				if !ok {
					if b, ok := cur.(*ast.BlockStmt); ok && len(b.List) == 1 {
						chain = append(chain, "else:"+strings.Split(xr.Src(b.List[0]), "(")[0])
					}
					break
				}
				chain = append(chain, normCond(xr, i2.Cond, "", "")+":"+strings.Split(xr.Src(i2.Body.List[0]), "(")[0])
				cur = i2.Else
			}
			continue
		}
		// if len(test.X) > 0 { for _, flake := range test.X { appendY(...) } }
		ast.Inspect(is.Body, func(n ast.Node) bool {
			if r, ok := n.(*ast.RangeStmt); ok && len(r.Body.List) == 1 {
				loops = append(loops, xr.Src(r.X)+":"+strings.Split(xr.Src(r.Body.List[0]), "(")[0])
			}
			return true
		})
	}
	out.Def("appendChain", "List String", xlib.LeanStrList(chain))
	out.Def("appendLoops", "List String", xlib.LeanStrList(loops))
	// what each append* helper sets
	var sets []string
	for _, n := range []string{"appendFailure", "appendError", "appendSkipped", "appendSuccess", "appendFlakyFailure", "appendFlakyError", "appendRerunFailure", "appendRerunError"} {
		fn := xr.Func(n)
		fields := []string{}
		ast.Inspect(fn.Body, func(nd ast.Node) bool {
			if cl, ok := nd.(*ast.CompositeLit); ok && strings.HasSuffix(xr.Src(cl.Type), "core.TestExecution") {
				for _, e := range cl.Elts {
					if kv, ok := e.(*ast.KeyValueExpr); ok {
						k := xr.Src(kv.Key)
						if k == "Failure" || k == "Error" || k == "Skip" {
							fields = append(fields, k)
						}
					}
				}
			}
			return true
		})
		sets = append(sets, n+":"+strings.Join(fields, "+"))
	}
	out.Def("appendSets", "List String", xlib.LeanStrList(sets))
	// struct jUnitXMLTestSuite: xml tags of its fields
	nested := false
	var caseTags []string
	for _, d := range xr.AST.Decls {
		gd, ok := d.(*ast.GenDecl)
		if !ok || gd.Tok != token.TYPE {
			continue
		}
		for _, sp := range gd.Specs {
			tsp := sp.(*ast.TypeSpec)
			st, ok := tsp.Type.(*ast.StructType)
			if !ok {
				continue
			}
			for _, fl := range st.Fields.List {
				if fl.Tag == nil {
					continue
				}
				tag, _ := strconv.Unquote(fl.Tag.Value)
				x := strings.Split(reflect.StructTag(tag).Get("xml"), ",")[0]
				if tsp.Name.Name == "jUnitXMLTestSuite" && x == "testsuite" && len(fl.Names) > 0 && fl.Names[0].Name != "XMLName" {
					nested = true
				}
				if tsp.Name.Name == "jUnitXMLTest" && len(fl.Names) > 0 {
					switch fl.Names[0].Name {
					case "Error", "FlakyError", "RerunError", "Failure", "FlakyFailure", "RerunFailure", "Skipped":
						caseTags = append(caseTags, fl.Names[0].Name+"="+x)
					}
				}
			}
		}
	}
	sort.Strings(caseTags)
	// HOW toCoreTestSuite reaches the nested suites: "recursive" = a range directly over <param>.TestSuites whose body
	// calls toCoreTestSuite on the range variable; "none" = TestSuites is not mentioned; anything else (worklists,
	// indexes, helper calls) is "other:<shape>" and is not accepted by FactsOK.
	tcs := xr.Func("toCoreTestSuite")
	traversal := "none"
	if strings.Contains(xr.Src(tcs.Body), ".TestSuites") {
		traversal = "other"
		param := tcs.Type.Params.List[0].Names[0].Name
		nRanges := 0
		ast.Inspect(tcs.Body, func(n ast.Node) bool {
			r, ok := n.(*ast.RangeStmt)
			if !ok {
				return true
			}
			nRanges++
			v, _ := r.Value.(*ast.Ident)
			if xr.Src(r.X) != param+".TestSuites" || v == nil {
				if strings.Contains(xr.Src(r), "TestSuites") || strings.Contains(xr.Src(r.X), "pending") {
					traversal = "other:range over " + xr.Src(r.X)
				}
				return true
			}
			rec := false
			ast.Inspect(r.Body, func(m ast.Node) bool {
				if c, ok := m.(*ast.CallExpr); ok && xr.Src(c.Fun) == "toCoreTestSuite" && len(c.Args) == 1 && xr.Src(c.Args[0]) == v.Name {
					rec = true
				}
				return true
			})
			// the recursive result's cases must be appended, and the loop must not touch anything else of the walk
			if rec && strings.Contains(xr.Src(r.Body), ".TestCases...)") && len(r.Body.List) == 1 {
				traversal = "recursive"
			} else {
				traversal = "other:range body " + xr.Src(r.Body)
			}
			return false
		})
		// every mention of TestSuites must be that one range
		if traversal == "recursive" && strings.Count(xr.Src(tcs.Body), "TestSuites") != 1 {
			traversal = "other:TestSuites used more than once"
		}
	}
	out.Def("nestedTraversal", "String", xlib.LeanStr(traversal))
	out.Def("nestedSuiteField", "Bool", xlib.LeanBool(nested))
	out.Def("caseTags", "List String", xlib.LeanStrList(caseTags))
	// the synthetic case built for a bare top-level <testcase>: which fields of core.TestCase are set
	pj := xr.Func("parseJUnitXMLTestResults")
	bareFields := []string{}
	foundBare := false
	ast.Inspect(pj.Body, func(n ast.Node) bool {
		cc, ok := n.(*ast.CaseClause)
		if !ok || len(cc.List) != 1 || xr.Src(cc.List[0]) != `"testcase"` {
			return true
		}
		foundBare = true
		for _, st := range cc.Body {
			ast.Inspect(st, func(m ast.Node) bool {
				if cl, ok := m.(*ast.CompositeLit); ok && strings.HasSuffix(xr.Src(cl.Type), "core.TestCase") {
					for _, e := range cl.Elts {
						if kv, ok := e.(*ast.KeyValueExpr); ok {
							bareFields = append(bareFields, xr.Src(kv.Key))
						}
					}
				}
				if as, ok := m.(*ast.AssignStmt); ok && len(as.Lhs) == 1 {
					l := xr.Src(as.Lhs[0])
					for _, k := range []string{"Name", "ClassName"} {
						if strings.HasSuffix(l, "."+k) && strings.HasPrefix(l, "testCase.") {
							bareFields = append(bareFields, k)
						}
					}
				}
				return true
			})
		}
		return false
	})
	if !foundBare {
		xlib.Unreadable("parseJUnitXMLTestResults: no clause for a bare <testcase>")
	}
	sort.Strings(bareFields)
	out.Def("bareCaseFields", "List String", xlib.LeanStrList(bareFields))
	lk := xr.Func("looksLikeJUnitXMLTestResults")
	var prefixes []string
	ast.Inspect(lk.Body, func(n ast.Node) bool {
		if cl, ok := n.(*ast.CompositeLit); ok {
			s := ""
			for _, e := range cl.Elts {
				if bl, ok := e.(*ast.BasicLit); ok && bl.Kind == token.CHAR {
					c, _ := strconv.Unquote(bl.Value)
					s += c
				}
			}
			if s != "" {
				prefixes = append(prefixes, s)
			}
		}
		return true
	})
	out.Def("xmlPrefixes", "List String", xlib.LeanStrList(prefixes))

	// go_results.go: the switch on test.Result
	gr := xlib.Parse("src/test/go_results.go")
	pg := gr.Func("parseGoTestResults")
	var handled, goSets []string
	hasDefault := false
	ast.Inspect(pg.Body, func(n ast.Node) bool {
		sw, ok := n.(*ast.SwitchStmt)
		if !ok || !strings.HasSuffix(gr.Src(sw.Tag), ".Result") {
			return true
		}
		for _, c := range sw.Body.List {
			cc := c.(*ast.CaseClause)
			names := []string{}
			if cc.List == nil {
				hasDefault = true
				names = append(names, "default")
			}
			for _, e := range cc.List {
				names = append(names, strings.TrimPrefix(gr.Src(e), "gtr."))
			}
			for _, name := range names {
				handled = append(handled, name)
				set := []string{}
				for _, b := range cc.Body {
					if as, ok := b.(*ast.AssignStmt); ok {
						l := gr.Src(as.Lhs[0])
						for _, k := range []string{"Failure", "Error", "Skip"} {
							if strings.HasSuffix(l, "."+k) {
								set = append(set, k)
							}
						}
					}
				}
				goSets = append(goSets, "("+xlib.LeanStr(name)+", "+xlib.LeanStr(strings.Join(set, "+"))+")")
			}
		}
		return false
	})
	if len(handled) == 0 {
		xlib.Unreadable("parseGoTestResults: switch on the test result not found")
	}
	_ = hasDefault
	out.Def("goHandled", "List String", xlib.LeanStrList(handled))
	out.Def("goSets", "List (String × String)", "["+strings.Join(goSets, ", ")+"]")
	out.Write()
}
