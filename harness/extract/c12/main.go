// Facts for C12 from src/cache/dir_cache.go: the order of the three phases of Store and which of the two paths
// (entry / temporary) each touches, the order inside ensureStoreReady and storeFile, what retrieveFiles /
// retrieve do with a missing entry, no requested outputs, and a not-exist error from the archive read, and
// how getFullPath assembles a name.  Roles are derived from how a variable was assigned (getPath → entry,
// getFullPath with a non-empty suffix literal → temporary) and from parameter positions, never from names.
package main

import (
	"go/ast"
	"go/token"
	"strconv"
	"strings"

	"verif/harness/xlib"
)

func callName(c *ast.CallExpr) string {
	switch f := c.Fun.(type) {
	case *ast.SelectorExpr:
		if id, ok := f.X.(*ast.Ident); ok {
			return id.Name + "." + f.Sel.Name
		}
		return "?." + f.Sel.Name
	case *ast.Ident:
		return f.Name
	}
	return "?"
}

func paramNames(fn *ast.FuncDecl) []string {
	var out []string
	for _, fl := range fn.Type.Params.List {
		for _, n := range fl.Names {
			out = append(out, n.Name)
		}
	}
	return out
}

func indexOf(xs []string, x string) int {
	for i, y := range xs {
		if x == y {
			return i
		}
	}
	return -1
}

func ident(e ast.Expr) string {
	if id, ok := e.(*ast.Ident); ok {
		return id.Name
	}
	return ""
}

func main() {
	f := xlib.Parse("src/cache/dir_cache.go")
	out := xlib.NewOut("C12", f.Path)
	recv := func(fn *ast.FuncDecl) string {
		if fn.Recv != nil && len(fn.Recv.List) > 0 && len(fn.Recv.List[0].Names) > 0 {
			return fn.Recv.List[0].Names[0].Name
		}
		return "cache"
	}

	// ---- Store
	store := f.Func("dirCache.Store")
	rc := recv(store)
	roles := map[string]string{}
	tmpSuffix := ""
	ast.Inspect(store.Body, func(n ast.Node) bool {
		as, ok := n.(*ast.AssignStmt)
		if !ok || len(as.Lhs) != 1 || len(as.Rhs) != 1 {
			return true
		}
		c, ok := as.Rhs[0].(*ast.CallExpr)
		if !ok {
			return true
		}
		switch callName(c) {
		case rc + ".getPath":
			roles[ident(as.Lhs[0])] = "final"
		case rc + ".getFullPath":
			if len(c.Args) == 4 {
				if bl, ok := c.Args[3].(*ast.BasicLit); ok && bl.Kind == token.STRING {
					s, _ := strconv.Unquote(bl.Value)
					if s == "" {
						roles[ident(as.Lhs[0])] = "final"
					} else {
						roles[ident(as.Lhs[0])] = "tmp"
						tmpSuffix = s
					}
				}
			}
		}
		return true
	})
	role := func(e ast.Expr) string {
		if r, ok := roles[ident(e)]; ok {
			return r
		}
		return "other"
	}
	// where storeFiles sends the files: the parameter it hands to storeCompressed / storeFile
	sf := f.Func("dirCache.storeFiles")
	sfParams := paramNames(sf)
	destIdx := map[int]bool{}
	ast.Inspect(sf.Body, func(n ast.Node) bool {
		c, ok := n.(*ast.CallExpr)
		if !ok {
			return true
		}
		switch callName(c) {
		case recv(sf) + ".storeCompressed":
			if len(c.Args) == 3 {
				destIdx[indexOf(sfParams, ident(c.Args[1]))] = true
			}
		case recv(sf) + ".storeFile":
			if len(c.Args) == 3 {
				destIdx[indexOf(sfParams, ident(c.Args[2]))] = true
			}
		}
		return true
	})
	if len(destIdx) != 1 || destIdx[-1] {
		xlib.Unreadable("storeFiles: cannot tell which parameter is the destination (%v)", destIdx)
	}
	dest := -1
	for k := range destIdx {
		dest = k
	}
	var order []string
	ast.Inspect(store.Body, func(n ast.Node) bool {
		c, ok := n.(*ast.CallExpr)
		if !ok {
			return true
		}
		switch callName(c) {
		case "fs.RemoveAll", "os.RemoveAll":
			if len(c.Args) == 1 {
				order = append(order, "remove-"+role(c.Args[0]))
			}
		case rc + ".storeFiles":
			if dest < len(c.Args) {
				order = append(order, "store-"+role(c.Args[dest]))
			}
		case "os.Rename":
			if len(c.Args) == 2 {
				order = append(order, "rename-"+role(c.Args[0])+"-"+role(c.Args[1]))
			}
		}
		return true
	})
	out.Def("storeOrder", "List String", xlib.LeanStrList(order))
	out.Def("tmpSuffix", "String", xlib.LeanStr(tmpSuffix))

	// ---- ensureStoreReady: MkdirAll(dir(filename)) then RemoveAll(filename)
	esr := f.Func("dirCache.ensureStoreReady")
	esrP := paramNames(esr)
	dirVars := map[string]bool{}
	var ready []string
	ast.Inspect(esr.Body, func(n ast.Node) bool {
		switch x := n.(type) {
		case *ast.AssignStmt:
			if len(x.Rhs) == 1 {
				if c, ok := x.Rhs[0].(*ast.CallExpr); ok && callName(c) == "filepath.Dir" && len(c.Args) == 1 && indexOf(esrP, ident(c.Args[0])) == 0 {
					dirVars[ident(x.Lhs[0])] = true
				}
			}
		case *ast.CallExpr:
			arg := func() string {
				if len(x.Args) == 0 {
					return "other"
				}
				if dirVars[ident(x.Args[0])] {
					return "parent"
				}
				if indexOf(esrP, ident(x.Args[0])) == 0 {
					return "path"
				}
				return "other"
			}
			switch callName(x) {
			case "os.MkdirAll":
				ready = append(ready, "mkdirall-"+arg())
			case "fs.RemoveAll", "os.RemoveAll":
				ready = append(ready, "removeall-"+arg())
			}
		}
		return true
	})
	out.Def("readyOrder", "List String", xlib.LeanStrList(ready))

	// ---- storeFile: ensureStoreReady(dest) then RecursiveLink(src, dest), dest = Join(<param 2>, <param 1>)
	sfile := f.Func("dirCache.storeFile")
	sfileP := paramNames(sfile)
	destVars := map[string]bool{}
	var sfo []string
	ast.Inspect(sfile.Body, func(n ast.Node) bool {
		switch x := n.(type) {
		case *ast.AssignStmt:
			if len(x.Rhs) == 1 {
				if c, ok := x.Rhs[0].(*ast.CallExpr); ok && callName(c) == "filepath.Join" && len(c.Args) == 2 &&
					indexOf(sfileP, ident(c.Args[0])) == 2 && indexOf(sfileP, ident(c.Args[1])) == 1 {
					destVars[ident(x.Lhs[0])] = true
				}
			}
		case *ast.CallExpr:
			switch callName(x) {
			case recv(sfile) + ".ensureStoreReady":
				if len(x.Args) == 1 && destVars[ident(x.Args[0])] {
					sfo = append(sfo, "ready-dest")
				} else {
					sfo = append(sfo, "ready-other")
				}
			case "fs.RecursiveLink":
				if len(x.Args) == 2 && destVars[ident(x.Args[1])] {
					sfo = append(sfo, "link-to-dest")
				} else {
					sfo = append(sfo, "link-other")
				}
			case "fs.RecursiveCopy", "fs.CopyFile", "fs.RecursiveCopyOrLinkFile":
				sfo = append(sfo, "copy")
			}
		}
		return true
	})
	out.Def("storeFileOrder", "List String", xlib.LeanStrList(sfo))

	// ---- storeCompressed: a failed storeCompressed2 removes the (temporary) tarball
	sc := f.Func("dirCache.storeCompressed")
	scP := paramNames(sc)
	removes := false
	ast.Inspect(sc.Body, func(n ast.Node) bool {
		if is, ok := n.(*ast.IfStmt); ok && is.Init != nil && strings.Contains(f.Src(is.Init), "storeCompressed2") {
			ast.Inspect(is.Body, func(m ast.Node) bool {
				if c, ok := m.(*ast.CallExpr); ok && (callName(c) == "fs.RemoveAll" || callName(c) == "os.RemoveAll" || callName(c) == "os.Remove") &&
					len(c.Args) == 1 && indexOf(scP, ident(c.Args[0])) == 1 {
					removes = true
				}
				return true
			})
		}
		return true
	})
	out.Def("failedTarballRemoved", "Bool", xlib.LeanBool(removes))

	// ---- retrieveFiles / retrieve
	rf := f.Func("dirCache.retrieveFiles")
	rfP := paramNames(rf)
	existsFirst, emptyHit, compTrueErr := false, false, false
	if len(rf.Body.List) > 0 {
		if is, ok := rf.Body.List[0].(*ast.IfStmt); ok {
			cond := f.Src(is.Cond)
			if strings.HasPrefix(cond, "!") && strings.Contains(cond, "PathExists("+rfP[1]+")") && len(is.Body.List) > 0 {
				if rs, ok := is.Body.List[len(is.Body.List)-1].(*ast.ReturnStmt); ok && len(rs.Results) == 2 &&
					f.Src(rs.Results[0]) == "false" && f.Src(rs.Results[1]) == "nil" {
					existsFirst = true
				}
			}
		}
	}
	ast.Inspect(rf.Body, func(n ast.Node) bool {
		is, ok := n.(*ast.IfStmt)
		if !ok {
			return true
		}
		cond := f.Src(is.Cond)
		if len(is.Body.List) == 0 {
			return true
		}
		rs, ok := is.Body.List[len(is.Body.List)-1].(*ast.ReturnStmt)
		if !ok || len(rs.Results) != 2 {
			return true
		}
		if cond == "len("+rfP[2]+") == 0" && f.Src(rs.Results[0]) == "true" && f.Src(rs.Results[1]) == "nil" {
			emptyHit = true
		}
		if strings.HasSuffix(cond, ".Compress") && f.Src(rs.Results[0]) == "true" {
			if c, ok := rs.Results[1].(*ast.CallExpr); ok && strings.HasSuffix(callName(c), ".retrieveCompressed") {
				compTrueErr = true
			}
		}
		return true
	})
	// retrieve: which errors of retrieveFiles are turned into a miss before `found` is looked at.
	//   err != nil && !os.IsNotExist(err)  -> every error except not-exist      (the pinned tree)
	//   err != nil && os.IsNotExist(err)   -> only not-exist errors
	//   err != nil                         -> every error
	rt := f.Func("dirCache.retrieve")
	isNilTest := func(e ast.Expr) bool {
		be, ok := e.(*ast.BinaryExpr)
		return ok && be.Op == token.NEQ && ident(be.Y) == "nil" && ident(be.X) != ""
	}
	isNotExistCall := func(e ast.Expr) bool {
		c, ok := e.(*ast.CallExpr)
		return ok && callName(c) == "os.IsNotExist" && len(c.Args) == 1
	}
	returnsFalse := func(b *ast.BlockStmt) bool {
		if len(b.List) == 0 {
			return false
		}
		rs, ok := b.List[len(b.List)-1].(*ast.ReturnStmt)
		return ok && len(rs.Results) == 1 && f.Src(rs.Results[0]) == "false"
	}
	seen, otherCaught, notExistCaught := 0, false, false
	ast.Inspect(rt.Body, func(n ast.Node) bool {
		is, ok := n.(*ast.IfStmt)
		if !ok || !returnsFalse(is.Body) {
			return true
		}
		switch c := is.Cond.(type) {
		case *ast.BinaryExpr:
			if c.Op == token.LAND && isNilTest(c.X) {
				if u, ok := c.Y.(*ast.UnaryExpr); ok && u.Op == token.NOT && isNotExistCall(u.X) {
					seen, otherCaught = seen+1, true
				} else if isNotExistCall(c.Y) {
					seen, notExistCaught = seen+1, true
				}
			} else if isNilTest(c) {
				seen, otherCaught, notExistCaught = seen+1, true, true
			}
		}
		return true
	})
	if seen != 1 {
		xlib.Unreadable("retrieve: expected exactly one error test that returns false, found %d", seen)
	}
	out.Def("retrieveChecksExistsFirst", "Bool", xlib.LeanBool(existsFirst))
	out.Def("emptyOutsIsHit", "Bool", xlib.LeanBool(emptyHit))
	// compressed caches: retrieveFiles says `true, err`, so only what retrieve catches becomes a miss
	out.Def("enoentIsMiss", "Bool", xlib.LeanBool(!compTrueErr || notExistCaught))
	out.Def("damagedIsMiss", "Bool", xlib.LeanBool(!compTrueErr || otherCaught))

	// ---- retrieveCompressed: for EVERY header, unconditionally (a top-level statement of the loop body),
	//      out, err := cache.ensureRetrieveReady(target, hdr.Name), and `out` is what MkdirAll / Symlink / OpenFile get
	rc2 := f.Func("dirCache.retrieveCompressed")
	prepEvery, destUsed, truncates := false, 0, false
	ast.Inspect(rc2.Body, func(n ast.Node) bool {
		fs2, ok := n.(*ast.ForStmt)
		if !ok {
			return true
		}
		hdrVar, outVar := "", ""
		for _, st := range fs2.Body.List {
			as, ok := st.(*ast.AssignStmt)
			if !ok || len(as.Rhs) != 1 {
				continue
			}
			c, ok := as.Rhs[0].(*ast.CallExpr)
			if !ok {
				continue
			}
			if strings.HasSuffix(callName(c), ".Next") && len(as.Lhs) == 2 {
				hdrVar = ident(as.Lhs[0])
			}
			if callName(c) == recv(rc2)+".ensureRetrieveReady" && len(c.Args) == 2 && hdrVar != "" && f.Src(c.Args[1]) == hdrVar+".Name" && len(as.Lhs) == 2 {
				outVar = ident(as.Lhs[0])
				prepEvery = true
			}
		}
		if outVar != "" {
			ast.Inspect(fs2.Body, func(m ast.Node) bool {
				if c, ok := m.(*ast.CallExpr); ok {
					switch callName(c) {
					case "os.MkdirAll":
						if len(c.Args) >= 1 && ident(c.Args[0]) == outVar {
							destUsed++
						}
					case "os.Symlink":
						if len(c.Args) == 2 && ident(c.Args[1]) == outVar {
							destUsed++
						}
					case "os.OpenFile":
						if len(c.Args) == 3 && ident(c.Args[0]) == outVar {
							destUsed++
							truncates = strings.Contains(f.Src(c.Args[1]), "O_TRUNC")
						}
					}
				}
				return true
			})
		}
		return false
	})
	out.Def("retrievePreparesEveryEntry", "Bool", xlib.LeanBool(prepEvery && destUsed == 3))
	out.Def("retrieveOpenTruncates", "Bool", xlib.LeanBool(truncates))
	// ---- ensureRetrieveReady: parent created when the name has a slash, then the destination unlinked UNCONDITIONALLY:
	//      the RemoveAll is a top-level statement and nothing before it returns without an error
	err2 := f.Func("dirCache.ensureRetrieveReady")
	var readySeq []string
	earlyOK := false
	for _, st := range err2.Body.List {
		switch x := st.(type) {
		case *ast.IfStmt:
			src := ""
			if x.Init != nil {
				src = f.Src(x.Init)
			}
			switch {
			case strings.Contains(src, "RemoveAll("):
				readySeq = append(readySeq, "unlink-dest")
			case strings.Contains(f.Src(x.Cond), "ContainsRune(") && strings.Contains(f.Src(x.Cond), "'/'"):
				readySeq = append(readySeq, "mkdir-parent-if-slash")
			default:
				readySeq = append(readySeq, "other-if")
			}
			if len(readySeq) > 0 && readySeq[len(readySeq)-1] != "unlink-dest" {
				// a return with a nil error inside a statement that precedes the unlink skips it
				ast.Inspect(x.Body, func(m ast.Node) bool {
					if r, ok := m.(*ast.ReturnStmt); ok && len(r.Results) == 2 && f.Src(r.Results[1]) == "nil" {
						seen := false
						for _, q := range readySeq {
							seen = seen || q == "unlink-dest"
						}
						if !seen {
							earlyOK = true
						}
					}
					return true
				})
			}
		case *ast.ReturnStmt:
			readySeq = append(readySeq, "return")
		case *ast.AssignStmt:
			readySeq = append(readySeq, "assign")
		default:
			readySeq = append(readySeq, "other")
		}
	}
	out.Def("retrieveReadySeq", "List String", xlib.LeanStrList(readySeq))
	out.Def("retrieveReadyReturnsBeforeUnlink", "Bool", xlib.LeanBool(earlyOK))
	// ---- retrieveFiles (plain): every requested output is prepared the same way before it is linked back
	rf2 := f.Func("dirCache.retrieveFiles")
	plainPrep := false
	ast.Inspect(rf2.Body, func(n ast.Node) bool {
		rs, ok := n.(*ast.RangeStmt)
		if !ok {
			return true
		}
		for _, st := range rs.Body.List {
			if as, ok := st.(*ast.AssignStmt); ok && len(as.Rhs) == 1 {
				if c, ok := as.Rhs[0].(*ast.CallExpr); ok && callName(c) == recv(rf2)+".ensureRetrieveReady" && len(c.Args) == 2 && ident(c.Args[1]) == ident(rs.Value) {
					plainPrep = true
				}
			}
		}
		return false
	})
	out.Def("plainRetrievePreparesEveryOut", "Bool", xlib.LeanBool(plainPrep))

	// ---- getFullPath: Join(dir, pkg, name, b64(key)) + extra + suffix + cache.Suffix
	gp := f.Func("dirCache.getFullPath")
	gpP := paramNames(gp)
	var parts []string
	var flat func(e ast.Expr)
	flat = func(e ast.Expr) {
		if be, ok := e.(*ast.BinaryExpr); ok && be.Op == token.ADD {
			flat(be.X)
			flat(be.Y)
			return
		}
		switch x := e.(type) {
		case *ast.CallExpr:
			if callName(x) == "filepath.Join" {
				last := ""
				if len(x.Args) > 0 {
					last = f.Src(x.Args[len(x.Args)-1])
				}
				if strings.Contains(last, "URLEncoding.EncodeToString("+gpP[1]+")") {
					parts = append(parts, "join-b64key")
				} else {
					parts = append(parts, "join-other")
				}
				return
			}
		case *ast.Ident:
			if i := indexOf(gpP, x.Name); i >= 0 {
				parts = append(parts, "param"+strconv.Itoa(i))
				return
			}
		case *ast.SelectorExpr:
			if ident(x.X) == recv(gp) {
				parts = append(parts, "field-"+x.Sel.Name)
				return
			}
		}
		parts = append(parts, "other")
	}
	for _, st := range gp.Body.List {
		if rs, ok := st.(*ast.ReturnStmt); ok && len(rs.Results) == 1 {
			flat(rs.Results[0])
		}
	}
	out.Def("pathParts", "List String", xlib.LeanStrList(parts))
	out.Write()
}
