// Facts for C23 from src/query/deps.go, reverse_deps.go and somepath.go: level bookkeeping of `deps`
// (cut-off test, which branch prints, level increment of each recursive call, when `done` is marked),
// queue discipline and depth bookkeeping of `findRevdeps` (FIFO ends, depth increment condition, the
// limit gate, the `depth > 0` report test, what is reported, what is pushed), the shape of `isSameTarget`,
// and the guard chain / marking / path construction of `somePath`.
// Parameters and receivers are identified by POSITION, locals by the statement that defines them.
package main

import (
	"go/ast"
	"go/token"
	"strings"

	"verif/harness/xlib"
)

func ident(e ast.Expr) string {
	if id, ok := e.(*ast.Ident); ok {
		return id.Name
	}
	return ""
}

func paramNames(fn *ast.FuncDecl) []string {
	var out []string
	for _, fl := range fn.Type.Params.List {
		for _, nm := range fl.Names {
			out = append(out, nm.Name)
		}
	}
	return out
}

// selCall matches X.Sel(args…) and returns (X, Sel, args).
func selCall(e ast.Expr) (ast.Expr, string, []ast.Expr) {
	c, ok := e.(*ast.CallExpr)
	if !ok {
		return nil, "", nil
	}
	s, ok := c.Fun.(*ast.SelectorExpr)
	if !ok {
		return nil, "", nil
	}
	return s.X, s.Sel.Name, c.Args
}

// norm renders a node with the given identifiers replaced by role names.
func norm(f *xlib.File, n ast.Node, roles map[string]string) string {
	s := f.Src(n)
	// token-wise replacement
	var b strings.Builder
	cur := ""
	flush := func() {
		if r, ok := roles[cur]; ok {
			b.WriteString(r)
		} else {
			b.WriteString(cur)
		}
		cur = ""
	}
	for _, c := range s {
		if c == '_' || (c >= 'a' && c <= 'z') || (c >= 'A' && c <= 'Z') || (c >= '0' && c <= '9') {
			cur += string(c)
		} else {
			flush()
			b.WriteRune(c)
		}
	}
	flush()
	return b.String()
}

func levelInc(e ast.Expr, cur string) int {
	if ident(e) == cur {
		return 0
	}
	if be, ok := e.(*ast.BinaryExpr); ok && be.Op == token.ADD && ident(be.X) == cur {
		if bl, ok := be.Y.(*ast.BasicLit); ok && len(bl.Value) == 1 && bl.Value[0] >= '0' && bl.Value[0] <= '9' {
			return int(bl.Value[0] - '0')
		}
	}
	return -1
}

func main() {
	out := xlib.NewOut("C23", "src/query/deps.go", "src/query/reverse_deps.go", "src/query/somepath.go")

	// ------------------------------------------------------------ deps
	df := xlib.Parse("src/query/deps.go")
	dfn := df.Func("deps")
	dp := paramNames(dfn)
	if len(dp) != 8 {
		xlib.Unreadable("deps has %d parameters, expected 8", len(dp))
	}
	pTarget, pDone, pLimit, pCur, pHidden := dp[2], dp[3], dp[4], dp[5], dp[6]
	droles := map[string]string{pTarget: "TARGET", pDone: "DONE", pLimit: "LIMIT", pCur: "CUR", pHidden: "HIDDEN", dp[1]: "STATE"}
	if len(dfn.Body.List) != 2 {
		xlib.Unreadable("deps body has %d statements, expected cut-off test + loop", len(dfn.Body.List))
	}
	cut, ok := dfn.Body.List[0].(*ast.IfStmt)
	if !ok || cut.Init != nil || cut.Else != nil || len(cut.Body.List) != 1 {
		xlib.Unreadable("deps: cut-off test shape")
	}
	if _, ok := cut.Body.List[0].(*ast.ReturnStmt); !ok {
		xlib.Unreadable("deps: cut-off test does not return")
	}
	out.Def("depsCutoff", "String", xlib.LeanStr(norm(df, cut.Cond, droles)))
	outer, ok := dfn.Body.List[1].(*ast.RangeStmt)
	if !ok {
		xlib.Unreadable("deps: no outer loop")
	}
	ox, om, _ := selCall(outer.X)
	if ident(ox) != pTarget {
		xlib.Unreadable("deps: outer loop ranges over %s", df.Src(outer.X))
	}
	declared := ident(outer.Value)
	if len(outer.Body.List) != 2 {
		xlib.Unreadable("deps: outer loop body")
	}
	depAs, ok := outer.Body.List[0].(*ast.AssignStmt) // dep := state.Graph.TargetOrDie(l)
	if !ok || len(depAs.Lhs) != 1 {
		xlib.Unreadable("deps: outer loop first statement")
	}
	depName := ident(depAs.Lhs[0])
	inner, ok := outer.Body.List[1].(*ast.RangeStmt)
	if !ok {
		xlib.Unreadable("deps: no inner loop")
	}
	ix, im, iargs := selCall(inner.X)
	if ident(ix) != depName || len(iargs) != 1 || ident(iargs[0]) != pTarget {
		xlib.Unreadable("deps: inner loop ranges over %s", df.Src(inner.X))
	}
	provided := ident(inner.Value)
	_ = declared
	out.Def("depsIterates", "List String", xlib.LeanStrList([]string{om, im}))
	if len(inner.Body.List) != 3 {
		xlib.Unreadable("deps: inner loop body has %d statements", len(inner.Body.List))
	}
	droles[provided] = "PROVIDED"
	droles[depName] = "DECLARED"
	skip, ok := inner.Body.List[0].(*ast.IfStmt)
	if !ok || len(skip.Body.List) != 1 {
		xlib.Unreadable("deps: skip test")
	}
	if bs, ok := skip.Body.List[0].(*ast.BranchStmt); !ok || bs.Tok != token.CONTINUE {
		xlib.Unreadable("deps: skip test does not continue")
	}
	out.Def("depsSkip", "String", xlib.LeanStr(norm(df, skip.Cond, droles)))
	out.Def("depsMark", "String", xlib.LeanStr(norm(df, inner.Body.List[1], droles)))
	br, ok := inner.Body.List[2].(*ast.IfStmt)
	if !ok || br.Init == nil {
		xlib.Unreadable("deps: branch statement")
	}
	bas, ok := br.Init.(*ast.AssignStmt)
	if !ok || len(bas.Lhs) != 1 {
		xlib.Unreadable("deps: branch init")
	}
	droles[ident(bas.Lhs[0])] = "DEP"
	out.Def("depsDepIs", "String", xlib.LeanStr(norm(df, bas.Rhs[0], droles)))
	var conds []string
	var incs []int
	var prints []bool
	var printLevels []int
	var adjustConds []string
	var adjustIncs, adjustBranch []int
	for cur := ast.Stmt(br); cur != nil; {
		var body *ast.BlockStmt
		switch s := cur.(type) {
		case *ast.IfStmt:
			conds = append(conds, norm(df, s.Cond, droles))
			body = s.Body
			cur = s.Else
		case *ast.BlockStmt:
			conds = append(conds, "else")
			body = s
			cur = nil
		}
		inc, printed, plevel, calls := -1, false, -1, 0
		// a branch may compute the level of its recursive call in a local: `L := CUR + n; if COND { L = CUR + m }`
		localBase := map[string]int{}
		for _, st := range body.List {
			switch x := st.(type) {
			case *ast.AssignStmt:
				if x.Tok == token.DEFINE && len(x.Lhs) == 1 && len(x.Rhs) == 1 {
					if v := levelInc(x.Rhs[0], pCur); v >= 0 {
						localBase[ident(x.Lhs[0])] = v
					}
				}
			case *ast.IfStmt:
				if x.Init == nil && x.Else == nil && len(x.Body.List) == 1 {
					if as, ok := x.Body.List[0].(*ast.AssignStmt); ok && as.Tok == token.ASSIGN && len(as.Lhs) == 1 && len(as.Rhs) == 1 {
						if _, isLocal := localBase[ident(as.Lhs[0])]; isLocal {
							if v := levelInc(as.Rhs[0], pCur); v >= 0 {
								adjustConds = append(adjustConds, norm(df, x.Cond, droles))
								adjustIncs = append(adjustIncs, v)
								adjustBranch = append(adjustBranch, len(conds)-1)
							}
						}
					}
				}
			}
		}
		ast.Inspect(body, func(n ast.Node) bool {
			c, ok := n.(*ast.CallExpr)
			if !ok {
				return true
			}
			switch ident(c.Fun) {
			case dfn.Name.Name:
				calls++
				if len(c.Args) == 8 && norm(df, c.Args[2], droles) == "DEP" && norm(df, c.Args[3], droles) == "DONE" && norm(df, c.Args[4], droles) == "LIMIT" {
					inc = levelInc(c.Args[5], pCur)
					if v, ok := localBase[ident(c.Args[5])]; ok {
						inc = v
					}
				}
			case "printTarget":
				printed = true
				if len(c.Args) == 3 && norm(df, c.Args[1], droles) == "DEP" {
					plevel = levelInc(c.Args[2], pCur)
				}
			}
			return true
		})
		if calls != 1 || inc < 0 {
			xlib.Unreadable("deps: branch %q does not make exactly one recognisable recursive call", conds[len(conds)-1])
		}
		incs = append(incs, inc)
		prints = append(prints, printed)
		printLevels = append(printLevels, plevel)
	}
	if len(conds) != 3 {
		xlib.Unreadable("deps: %d branches, expected 3", len(conds))
	}
	out.Def("depsBranchConds", "List String", xlib.LeanStrList(conds))
	out.Def("depsBranchIncs", "List Nat", xlib.LeanNatList(incs))
	// conditional overrides of a branch's level (branch index, condition, increment)
	out.Def("depsAdjustBranch", "List Nat", xlib.LeanNatList(adjustBranch))
	out.Def("depsAdjustConds", "List String", xlib.LeanStrList(adjustConds))
	out.Def("depsAdjustIncs", "List Nat", xlib.LeanNatList(adjustIncs))
	pb := []string{}
	for i, p := range prints {
		if p {
			pb = append(pb, "print@+"+string(rune('0'+printLevels[i])))
		} else {
			pb = append(pb, "silent")
		}
	}
	out.Def("depsBranchPrints", "List String", xlib.LeanStrList(pb))

	// ------------------------------------------------------------ revdeps
	rf := xlib.Parse("src/query/reverse_deps.go")
	push := rf.Func("openSet.Push")
	pushEnd, pushGuard := "", ""
	ast.Inspect(push.Body, func(n ast.Node) bool {
		switch x := n.(type) {
		case *ast.IfStmt:
			if x.Init != nil {
				pushGuard = rf.Src(x.Cond)
				if u, ok := x.Cond.(*ast.UnaryExpr); ok && u.Op == token.NOT {
					pushGuard = "!present"
				}
			}
		case *ast.CallExpr:
			if _, m, _ := selCall(x); m == "PushBack" || m == "PushFront" {
				pushEnd = m
			}
		}
		return true
	})
	pop := rf.Func("openSet.Pop")
	popEnd := ""
	ast.Inspect(pop.Body, func(n ast.Node) bool {
		if _, m, _ := selCall0(n); m == "Front" || m == "Back" {
			popEnd = m
		}
		return true
	})
	if pushEnd == "" || popEnd == "" || pushGuard == "" {
		xlib.Unreadable("openSet.Push/Pop shape")
	}
	out.Def("revPush", "List String", xlib.LeanStrList([]string{pushGuard, pushEnd, popEnd}))

	fr := rf.Func("revdeps.findRevdeps")
	recv := fr.Recv.List[0].Names[0].Name
	var loop *ast.ForStmt
	for _, s := range fr.Body.List {
		if fs, ok := s.(*ast.ForStmt); ok {
			loop = fs
		}
	}
	if loop == nil || loop.Init == nil {
		xlib.Unreadable("findRevdeps: no pop loop")
	}
	next := ident(loop.Init.(*ast.AssignStmt).Lhs[0])
	var inner2 *ast.RangeStmt
	for _, s := range loop.Body.List {
		if rs, ok := s.(*ast.RangeStmt); ok {
			inner2 = rs // the last range loop in the body: `for _, t := range ts`
		}
	}
	if inner2 == nil {
		xlib.Unreadable("findRevdeps: no inner loop")
	}
	tvar := ident(inner2.Value)
	rroles := map[string]string{recv: "R", next: "NEXT", tvar: "T"}
	if len(inner2.Body.List) != 3 {
		xlib.Unreadable("findRevdeps: inner loop has %d statements", len(inner2.Body.List))
	}
	das, ok := inner2.Body.List[0].(*ast.AssignStmt)
	if !ok || len(das.Lhs) != 1 {
		xlib.Unreadable("findRevdeps: depth initialisation")
	}
	rroles[ident(das.Lhs[0])] = "DEPTH"
	out.Def("revDepthInit", "String", xlib.LeanStr(norm(rf, das.Rhs[0], rroles)))
	incIf, ok := inner2.Body.List[1].(*ast.IfStmt)
	if !ok || len(incIf.Body.List) != 1 {
		xlib.Unreadable("findRevdeps: depth increment")
	}
	out.Def("revIncCond", "String", xlib.LeanStr(norm(rf, incIf.Cond, rroles)))
	out.Def("revIncStmt", "String", xlib.LeanStr(norm(rf, incIf.Body.List[0], rroles)))
	gate, ok := inner2.Body.List[2].(*ast.IfStmt)
	if !ok || gate.Else != nil || len(gate.Body.List) != 2 {
		xlib.Unreadable("findRevdeps: limit gate")
	}
	out.Def("revGate", "String", xlib.LeanStr(norm(rf, gate.Cond, rroles)))
	rep, ok := gate.Body.List[0].(*ast.IfStmt)
	if !ok || rep.Else != nil || len(rep.Body.List) != 1 {
		xlib.Unreadable("findRevdeps: report test")
	}
	out.Def("revReportCond", "String", xlib.LeanStr(norm(rf, rep.Cond, rroles)))
	which, ok := rep.Body.List[0].(*ast.IfStmt)
	if !ok {
		xlib.Unreadable("findRevdeps: report branches")
	}
	var rconds, rwhat []string
	for cur := ast.Stmt(which); cur != nil; {
		s, ok := cur.(*ast.IfStmt)
		if !ok {
			xlib.Unreadable("findRevdeps: report ends in plain else")
		}
		c := norm(rf, s.Cond, rroles)
		if s.Init != nil {
			as := s.Init.(*ast.AssignStmt)
			rroles[ident(as.Lhs[0])] = "PARENT"
			c = "PARENT := " + norm(rf, as.Rhs[0], rroles) + "; " + norm(rf, s.Cond, rroles)
		}
		rconds = append(rconds, c)
		if len(s.Body.List) != 1 {
			xlib.Unreadable("findRevdeps: report branch body")
		}
		as, ok := s.Body.List[0].(*ast.AssignStmt)
		if !ok {
			xlib.Unreadable("findRevdeps: report branch body")
		}
		rwhat = append(rwhat, norm(rf, as.Lhs[0], rroles))
		cur = s.Else
	}
	out.Def("revReportBranches", "List String", xlib.LeanStrList(rconds))
	out.Def("revReportWhat", "List String", xlib.LeanStrList(rwhat))
	out.Def("revPushCall", "String", xlib.LeanStr(norm(rf, gate.Body.List[1], rroles)))
	ist := rf.Func("isSameTarget")
	ip := paramNames(ist)
	iroles := map[string]string{ip[0]: "GRAPH", ip[1]: "LHS", ip[2]: "RHS"}
	var istmts []string
	for _, s := range ist.Body.List {
		istmts = append(istmts, norm(rf, s, iroles))
	}
	out.Def("isSameTarget", "List String", xlib.LeanStrList(istmts))
	// the initialisation in FindRevdeps: root pushed at depth 0; hidden children pushed when !hidden && !label.IsHidden()
	ff := rf.Func("FindRevdeps")
	var initDepths []string
	childCond := ""
	ast.Inspect(ff.Body, func(n ast.Node) bool {
		switch x := n.(type) {
		case *ast.KeyValueExpr:
			if ident(x.Key) == "depth" {
				initDepths = append(initDepths, rf.Src(x.Value))
			}
		case *ast.IfStmt:
			if be, ok := x.Cond.(*ast.BinaryExpr); ok && be.Op == token.LAND {
				childCond = norm(rf, x.Cond, map[string]string{paramNames(ff)[2]: "HIDDEN"})
			}
		}
		return true
	})
	out.Def("revInitDepths", "List String", xlib.LeanStrList(initDepths))
	out.Def("revChildCond", "String", xlib.LeanStr(childCond))

	// buildRevdeps (what the reverse map is), the initialisation in FindRevdeps (roots at depth 0, the child filter), the
	// lookup in findRevdeps and the entry point Deps (one shared done map, start level 0): statement by statement
	brv := rf.Func("buildRevdeps")
	bp := paramNames(brv)
	out.Def("buildRevdeps", "List String", xlib.LeanStrList(stmts(rf, brv, map[string]string{bp[0]: "GRAPH", bp[1]: "SUBREPOS"})))
	fp := paramNames(ff)
	out.Def("findRevdepsEntry", "List String", xlib.LeanStrList(stmts(rf, ff, map[string]string{fp[0]: "STATE", fp[1]: "ROOTS", fp[2]: "HIDDEN", fp[3]: "FOLLOW", fp[4]: "SUBREPOS", fp[5]: "DEPTH"})))
	var lookups []string
	for _, st := range loop.Body.List {
		if as, ok := st.(*ast.AssignStmt); ok && as.Tok == token.DEFINE {
			lookups = append(lookups, norm(rf, as, rroles))
		}
	}
	out.Def("revLookup", "List String", xlib.LeanStrList(lookups))
	de := df.Func("Deps")
	dep := paramNames(de)
	var dstm []string
	for _, st := range stmts(df, de, map[string]string{dep[0]: "OUT", dep[1]: "STATE", dep[2]: "ROOTS", dep[3]: "HIDDEN", dep[4]: "LIMIT", dep[5]: "DOT"}) {
		if !strings.HasPrefix(st, "if DOT") { // the dot-format header / footer
			dstm = append(dstm, st)
		}
	}
	out.Def("depsEntry", "List String", xlib.LeanStrList(dstm))

	// ------------------------------------------------------------ somepath
	sf := xlib.Parse("src/query/somepath.go")
	sp := sf.Func("somePath")
	spn := paramNames(sp)
	if len(spn) != 5 {
		xlib.Unreadable("somePath has %d parameters", len(spn))
	}
	sroles := map[string]string{spn[0]: "GRAPH", spn[1]: "T1", spn[2]: "T2", spn[3]: "SEEN", spn[4]: "EXCEPT"}
	chain, ok := sp.Body.List[0].(*ast.IfStmt)
	if !ok {
		xlib.Unreadable("somePath: guard chain")
	}
	var guards []string
	for cur := ast.Stmt(chain); cur != nil; {
		s, ok := cur.(*ast.IfStmt)
		if !ok {
			xlib.Unreadable("somePath: guard chain ends in else")
		}
		c := norm(sf, s.Cond, sroles)
		if s.Init != nil {
			as := s.Init.(*ast.AssignStmt)
			loc := ident(as.Lhs[len(as.Lhs)-1])
			c = norm(sf, as.Rhs[0], sroles) + " present"
			if ident(s.Cond) != loc {
				c = "?"
			}
		}
		if len(s.Body.List) != 1 {
			xlib.Unreadable("somePath: guard body")
		}
		guards = append(guards, c+" => "+norm(sf, s.Body.List[0], sroles))
		cur = s.Else
	}
	out.Def("spGuards", "List String", xlib.LeanStrList(guards))
	if len(sp.Body.List) < 4 {
		xlib.Unreadable("somePath: body too short")
	}
	out.Def("spMark", "String", xlib.LeanStr(norm(sf, sp.Body.List[1], sroles)))
	sl, ok := sp.Body.List[2].(*ast.RangeStmt)
	if !ok {
		xlib.Unreadable("somePath: no dependency loop")
	}
	_, slm, _ := selCall(sl.X)
	inm, recOn, prepend := "", "", ""
	ast.Inspect(sl.Body, func(n ast.Node) bool {
		switch x := n.(type) {
		case *ast.RangeStmt:
			_, inm, _ = selCall(x.X)
		case *ast.CallExpr:
			if ident(x.Fun) == sp.Name.Name && len(x.Args) == 5 {
				_, recOn, _ = selCall(x.Args[1])
				if norm(sf, x.Args[2], sroles) != "T2" || norm(sf, x.Args[3], sroles) != "SEEN" {
					recOn = "?"
				}
			}
			if ident(x.Fun) == "append" && len(x.Args) == 2 {
				if _, ok := x.Args[0].(*ast.CompositeLit); ok && x.Ellipsis != token.NoPos {
					prepend = norm(sf, x.Args[0], sroles)
				}
			}
		}
		return true
	})
	out.Def("spLoop", "List String", xlib.LeanStrList([]string{slm, inm, recOn, prepend}))
	last, ok := sp.Body.List[len(sp.Body.List)-1].(*ast.ReturnStmt)
	if !ok || len(last.Results) != 1 || ident(last.Results[0]) != "nil" {
		xlib.Unreadable("somePath: does not end in return nil")
	}
	// SomePath (method): forward, then backward
	sm := sf.Func("somepath.SomePath")
	smn := paramNames(sm)
	mroles := map[string]string{smn[0]: "A", smn[1]: "B"}
	var order []string
	ast.Inspect(sm.Body, func(n ast.Node) bool {
		if c, ok := n.(*ast.CallExpr); ok {
			if _, m, args := selCall(c); m == "somePath" && len(args) == 2 {
				order = append(order, norm(sf, args[0], mroles)+norm(sf, args[1], mroles))
			}
		}
		return true
	})
	out.Def("spBothOrder", "List String", xlib.LeanStrList(order))
	mm := sf.Func("somepath.somePath")
	mmn := paramNames(mm)
	memoKey := ""
	ast.Inspect(mm.Body, func(n ast.Node) bool {
		if ix, ok := n.(*ast.IndexExpr); ok {
			if s, ok := ix.X.(*ast.SelectorExpr); ok && s.Sel.Name == "memo" {
				memoKey = norm(sf, ix.Index, map[string]string{mmn[0]: "T1", mmn[1]: "T2"})
			}
		}
		return true
	})
	out.Def("spMemoKey", "String", xlib.LeanStr(memoKey))
	out.Write()
}

// withLocals extends roles with positional names v1, v2, … for every identifier declared inside fn (by :=,
// range or if-init), in source order, so that renaming a local does not change the facts.
func withLocals(fn *ast.FuncDecl, roles map[string]string) map[string]string {
	return withLocalsNode(fn.Body, roles)
}

// withLocalsNode numbers the locals declared inside one statement (numbering restarts per statement, so a rename
// in one loop does not shift the names in another).
// withLocalsNode numbers the locals declared inside one statement (numbering restarts per statement, so a rename
// in one loop does not shift the names in another).
func withLocalsNode(body ast.Node, roles map[string]string) map[string]string {
	out := map[string]string{}
	for k, v := range roles {
		out[k] = v
	}
	k := 0
	decl := func(e ast.Expr) {
		if id, ok := e.(*ast.Ident); ok && id.Name != "_" {
			if _, seen := out[id.Name]; !seen {
				k++
				out[id.Name] = "v" + string(rune('0'+k/10)) + string(rune('0'+k%10))
			}
		}
	}
	ast.Inspect(body, func(n ast.Node) bool {
		switch x := n.(type) {
		case *ast.AssignStmt:
			if x.Tok == token.DEFINE {
				for _, l := range x.Lhs {
					decl(l)
				}
			}
		case *ast.RangeStmt:
			if x.Tok == token.DEFINE {
				if x.Key != nil {
					decl(x.Key)
				}
				if x.Value != nil {
					decl(x.Value)
				}
			}
		}
		return true
	})
	return out
}

// callsTo lists, in source order, the normalised calls to function `name` inside n.
func isLogCall(s ast.Stmt) bool {
	es, ok := s.(*ast.ExprStmt)
	if !ok {
		return false
	}
	c, ok := es.X.(*ast.CallExpr)
	if !ok {
		return false
	}
	sel, ok := c.Fun.(*ast.SelectorExpr)
	return ok && ident(sel.X) == "log"
}

func stmts(f *xlib.File, fn *ast.FuncDecl, roles0 map[string]string) []string {
	// locals declared at the top level of the function body get stable names F1, F2, … (they are used across
	// statements); locals of nested blocks are numbered per statement
	roles := map[string]string{}
	for k, v := range roles0 {
		roles[k] = v
	}
	k := 0
	name := func(e ast.Expr) {
		if id, ok := e.(*ast.Ident); ok && id.Name != "_" {
			if _, seen := roles[id.Name]; !seen {
				k++
				roles[id.Name] = "F" + string(rune('0'+k))
			}
		}
	}
	for _, s := range fn.Body.List {
		switch st := s.(type) {
		case *ast.AssignStmt:
			if st.Tok == token.DEFINE {
				for _, l := range st.Lhs {
					name(l)
				}
			}
		case *ast.DeclStmt:
			if gd, ok := st.Decl.(*ast.GenDecl); ok {
				for _, sp := range gd.Specs {
					if vs, ok := sp.(*ast.ValueSpec); ok {
						for _, n := range vs.Names {
							name(n)
						}
					}
				}
			}
		}
	}
	var out []string
	for _, s := range fn.Body.List {
		if isLogCall(s) {
			continue
		}
		out = append(out, norm(f, s, withLocalsNode(s, roles)))
	}
	return out
}

func selCall0(n ast.Node) (ast.Expr, string, []ast.Expr) {
	if e, ok := n.(ast.Expr); ok {
		return selCall(e)
	}
	return nil, "", nil
}
