// Facts for C28 from src/remote/utils.go (dirBuilder.dir / walk) and src/remote/action.go (buildEnv, buildAction):
//   - walk: the child digests are filled in before sorting; the three sort.Slice calls (which list, which field,
//     which operator); the three de-duplication loops (which list, field, operator, which `last` variable they
//     use and where it is initialised);
//   - dir: the hasChild guard, the recursion on the parent;
//   - buildEnv: the sort after the range over the map, its key;
//   - buildAction: the fields the Action digest is composed from.
package main

import (
	"go/ast"
	"go/token"
	"strconv"
	"strings"

	"verif/harness/xlib"
)

func lastSel(f *xlib.File, e ast.Expr) string {
	// dir.Files -> "Files"; files (a local bound to dir.Files) is resolved by the caller
	if s, ok := e.(*ast.SelectorExpr); ok {
		return s.Sel.Name
	}
	return f.Src(e)
}

func main() {
	f := xlib.Parse("src/remote/utils.go")
	out := xlib.NewOut("C28", f.Path, "src/remote/action.go")
	w := f.Func("dirBuilder.walk")

	// locals bound to fields of the directory: files := dir.Files
	alias := map[string]string{}
	var steps []string                  // coarse order of the phases of walk
	var sorts, dedups, lastUse []string // per list
	lastDecls := 0
	lastInit := "?"
	for _, s := range w.Body.List {
		switch x := s.(type) {
		case *ast.AssignStmt:
			if len(x.Lhs) == 1 && len(x.Rhs) == 1 {
				if id, ok := x.Lhs[0].(*ast.Ident); ok {
					if sel, ok := x.Rhs[0].(*ast.SelectorExpr); ok && x.Tok == token.DEFINE {
						alias[id.Name] = sel.Sel.Name
					}
					if bl, ok := x.Rhs[0].(*ast.BasicLit); ok && x.Tok == token.DEFINE && bl.Kind == token.STRING {
						lastDecls++
						lastInit = bl.Value
						alias["$last"] = id.Name
					}
				}
			}
		case *ast.RangeStmt:
			src := f.Src(x.X)
			if a, ok := alias[src]; ok {
				src = a
			} else {
				src = lastSel(f, x.X)
			}
			body := f.Src(x.Body)
			switch {
			case strings.Contains(body, ".walk("):
				// child digests: if d.Digest == nil { d.Digest = b.walk(...) }
				cond := ""
				ast.Inspect(x.Body, func(n ast.Node) bool {
					if is, ok := n.(*ast.IfStmt); ok && cond == "" {
						cond = f.Src(is.Cond)
						cond = strings.ReplaceAll(cond, x.Value.(*ast.Ident).Name+".", "")
					}
					return true
				})
				steps = append(steps, "fill:"+src+":"+cond)
			default:
				// de-duplication loop: if x.F != last { append; last = x.F }
				var is *ast.IfStmt
				if len(x.Body.List) == 1 {
					is, _ = x.Body.List[0].(*ast.IfStmt)
				}
				if is == nil {
					xlib.Unreadable("walk: loop over %s not understood", src)
				}
				be, ok := is.Cond.(*ast.BinaryExpr)
				if !ok {
					xlib.Unreadable("walk: condition of the loop over %s not understood", src)
				}
				v := x.Value.(*ast.Ident).Name
				field := strings.TrimPrefix(f.Src(be.X), v+".")
				lastVar := f.Src(be.Y)
				appended, updated := false, false
				for _, b := range is.Body.List {
					bs := f.Src(b)
					if strings.Contains(bs, "append(") && strings.Contains(bs, v) {
						appended = true
					}
					if bs == lastVar+" = "+v+"."+field {
						updated = true
					}
				}
				if !appended || !updated || is.Else != nil {
					xlib.Unreadable("walk: body of the loop over %s not understood", src)
				}
				dedups = append(dedups, src+":"+field+":"+be.Op.String())
				lastUse = append(lastUse, lastVar)
				steps = append(steps, "dedup:"+src)
			}
		case *ast.ExprStmt:
			c, ok := x.X.(*ast.CallExpr)
			if !ok {
				continue
			}
			if fn := f.Src(c.Fun); (fn == "sort.Slice" || fn == "sort.SliceStable") && len(c.Args) == 2 {
				src := f.Src(c.Args[0])
				if a, ok := alias[src]; ok {
					src = a
				}
				fl, ok := c.Args[1].(*ast.FuncLit)
				if !ok || len(fl.Body.List) != 1 {
					xlib.Unreadable("walk: sort comparator not understood")
				}
				ret, ok := fl.Body.List[0].(*ast.ReturnStmt)
				if !ok || len(ret.Results) != 1 {
					xlib.Unreadable("walk: sort comparator not understood")
				}
				be, ok := ret.Results[0].(*ast.BinaryExpr)
				if !ok {
					xlib.Unreadable("walk: sort comparator not understood")
				}
				// xs[i].Name < xs[j].Name with i, j the comparator's parameters in this order
				ps := []string{}
				for _, p := range fl.Type.Params.List {
					for _, n := range p.Names {
						ps = append(ps, n.Name)
					}
				}
				lx, ly := f.Src(be.X), f.Src(be.Y)
				arg := f.Src(c.Args[0])
				field := ""
				if len(ps) == 2 && strings.HasPrefix(lx, arg+"["+ps[0]+"].") && strings.HasPrefix(ly, arg+"["+ps[1]+"].") &&
					strings.TrimPrefix(lx, arg+"["+ps[0]+"].") == strings.TrimPrefix(ly, arg+"["+ps[1]+"].") {
					field = strings.TrimPrefix(lx, arg+"["+ps[0]+"].")
				} else {
					xlib.Unreadable("walk: sort comparator operands not understood: %s", f.Src(be))
				}
				stable := ""
				if fn == "sort.SliceStable" {
					stable = ":stable"
				}
				sorts = append(sorts, src+":"+field+":"+be.Op.String()+stable)
				steps = append(steps, "sort:"+src)
			}
		}
	}
	out.Def("walkSteps", "List String", xlib.LeanStrList(steps))
	out.Def("sorts", "List String", xlib.LeanStrList(sorts))
	out.Def("dedups", "List String", xlib.LeanStrList(dedups))
	out.Def("lastDecls", "Nat", strconv.Itoa(lastDecls))
	out.Def("lastInit", "String", xlib.LeanStr(lastInit))
	shared := lastDecls == 1 && len(lastUse) > 0
	for _, l := range lastUse {
		if l != alias["$last"] {
			shared = false
		}
	}
	if !shared {
		// every loop must then have its own variable declared right before it; anything else is not understood
		seen := map[string]bool{}
		for _, l := range lastUse {
			if seen[l] {
				xlib.Unreadable("walk: the de-duplication loops share some but not all `last` variables")
			}
			seen[l] = true
		}
		if lastDecls != len(lastUse) {
			xlib.Unreadable("walk: %d `last` declarations for %d loops", lastDecls, len(lastUse))
		}
	}
	out.Def("sharedLast", "Bool", xlib.LeanBool(shared))

	// dir(): guard and recursion
	d := f.Func("dirBuilder.dir")
	guard, recurses, rootEarly := "", false, false
	ast.Inspect(d.Body, func(n ast.Node) bool {
		switch x := n.(type) {
		case *ast.IfStmt:
			s := f.Src(x.Cond)
			if strings.Contains(s, "hasChild(") {
				guard = s
				for _, p := range d.Type.Params.List {
					for i, nm := range p.Names {
						_ = i
						guard = strings.ReplaceAll(guard, nm.Name, "P"+nm.Name[:1])
					}
				}
			}
			if strings.Contains(s, `== "."`) && len(x.Body.List) == 1 && strings.HasPrefix(f.Src(x.Body.List[0]), "return") {
				rootEarly = true
			}
		case *ast.CallExpr:
			if strings.HasSuffix(f.Src(x.Fun), ".dir") {
				recurses = true
			}
		}
		return true
	})
	out.Def("dirGuard", "String", xlib.LeanStr(guard))
	out.Def("dirRecursesOnParent", "Bool", xlib.LeanBool(recurses))
	out.Def("dirRootEarlyReturn", "Bool", xlib.LeanBool(rootEarly))
	hc := f.Func("hasChild")
	hcCmp := ""
	ast.Inspect(hc.Body, func(n ast.Node) bool {
		if is, ok := n.(*ast.IfStmt); ok {
			if be, ok := is.Cond.(*ast.BinaryExpr); ok {
				hcCmp = lastSel(f, be.X) + be.Op.String()
			}
		}
		return true
	})
	out.Def("hasChildCmp", "String", xlib.LeanStr(hcCmp))

	// buildEnv: sort after the loop, by name
	a := xlib.Parse("src/remote/action.go")
	be := a.Func("Client.buildEnv")
	envSteps := []string{}
	for _, s := range be.Body.List {
		switch x := s.(type) {
		case *ast.RangeStmt:
			envSteps = append(envSteps, "range")
		case *ast.ExprStmt:
			if c, ok := x.X.(*ast.CallExpr); ok {
				fn := a.Src(c.Fun)
				if strings.HasPrefix(fn, "slices.Sort") || strings.HasPrefix(fn, "sort.") {
					key := ""
					ast.Inspect(c, func(n ast.Node) bool {
						if cc, ok := n.(*ast.CallExpr); ok && a.Src(cc.Fun) == "strings.Compare" && len(cc.Args) == 2 {
							key = lastSel(a, cc.Args[0]) + "," + lastSel(a, cc.Args[1])
							l, _ := cc.Args[0].(*ast.SelectorExpr)
							r, _ := cc.Args[1].(*ast.SelectorExpr)
							if l != nil && r != nil {
								key += ":" + a.Src(l.X) + "," + a.Src(r.X)
							}
						}
						return true
					})
					// comparator parameters in order
					if fl, ok := c.Args[len(c.Args)-1].(*ast.FuncLit); ok {
						ps := []string{}
						for _, p := range fl.Type.Params.List {
							for _, n := range p.Names {
								ps = append(ps, n.Name)
							}
						}
						key += ":" + strings.Join(ps, ",")
					}
					envSteps = append(envSteps, "sort:"+key)
				}
			}
		case *ast.ReturnStmt:
			envSteps = append(envSteps, "return")
		}
	}
	// normalise the comparator variable names: "Name,Name:a,b:a,b" -> ascending when the two orders agree
	for i, s := range envSteps {
		if strings.HasPrefix(s, "sort:") {
			p := strings.Split(strings.TrimPrefix(s, "sort:"), ":")
			if len(p) == 3 && p[1] == p[2] {
				envSteps[i] = "sort:" + p[0] + ":ascending"
			} else if len(p) == 3 {
				envSteps[i] = "sort:" + p[0] + ":other"
			}
		}
	}
	out.Def("envSteps", "List String", xlib.LeanStrList(envSteps))

	// buildAction: fields of the Action message
	ba := a.Func("Client.buildAction")
	var fields []string
	ast.Inspect(ba.Body, func(n ast.Node) bool {
		if cl, ok := n.(*ast.CompositeLit); ok && strings.HasSuffix(a.Src(cl.Type), "pb.Action") {
			for _, e := range cl.Elts {
				if kv, ok := e.(*ast.KeyValueExpr); ok {
					fields = append(fields, a.Src(kv.Key))
				}
			}
		}
		return true
	})
	out.Def("actionFields", "List String", xlib.LeanStrList(fields))
	out.Write()
}
