// Facts for C24 from src/query/changes.go (changedTargets, diffGraphs, targetChanged, sourceHash) and
// src/core/build_target.go (HasSource, HasAbsoluteSource): statements normalised with parameters named by POSITION and
// locals by order of declaration.
package main

import (
	"go/ast"
	"go/token"
	"strings"

	"verif/harness/xlib"
)

func ident(e ast.Expr) string {
	if id, ok := e.(*ast.Ident); ok {
		return id.Name
	}
	return ""
}

func paramNames(fn *ast.FuncDecl) []string {
	var out []string
	for _, fl := range fn.Type.Params.List {
		for _, nm := range fl.Names {
			out = append(out, nm.Name)
		}
	}
	return out
}

func norm(f *xlib.File, n ast.Node, roles map[string]string) string {
	s := f.Src(n)
	var b strings.Builder
	cur := ""
	flush := func() {
		if r, ok := roles[cur]; ok {
			b.WriteString(r)
		} else {
			b.WriteString(cur)
		}
		cur = ""
	}
	for _, c := range s {
		if c == '_' || (c >= 'a' && c <= 'z') || (c >= 'A' && c <= 'Z') || (c >= '0' && c <= '9') {
			cur += string(c)
		} else {
			flush()
			b.WriteRune(c)
		}
	}
	flush()
	return b.String()
}

// withLocals extends roles with positional names v1, v2, … for every identifier declared inside fn (by :=,
// range or if-init), in source order, so that renaming a local does not change the facts.
func withLocals(fn *ast.FuncDecl, roles map[string]string) map[string]string {
	return withLocalsNode(fn.Body, roles)
}

// withLocalsNode numbers the locals declared inside one statement (numbering restarts per statement, so a rename
// in one loop does not shift the names in another).
func withLocalsNode(body ast.Node, roles map[string]string) map[string]string {
	out := map[string]string{}
	for k, v := range roles {
		out[k] = v
	}
	k := 0
	decl := func(e ast.Expr) {
		if id, ok := e.(*ast.Ident); ok && id.Name != "_" {
			if _, seen := out[id.Name]; !seen {
				k++
				out[id.Name] = "v" + string(rune('0'+k/10)) + string(rune('0'+k%10))
			}
		}
	}
	ast.Inspect(body, func(n ast.Node) bool {
		switch x := n.(type) {
		case *ast.AssignStmt:
			if x.Tok == token.DEFINE {
				for _, l := range x.Lhs {
					decl(l)
				}
			}
		case *ast.RangeStmt:
			if x.Tok == token.DEFINE {
				if x.Key != nil {
					decl(x.Key)
				}
				if x.Value != nil {
					decl(x.Value)
				}
			}
		}
		return true
	})
	return out
}

// callsTo lists, in source order, the normalised calls to function `name` inside n.
func callsTo(f *xlib.File, n ast.Node, name string, roles map[string]string) []string {
	var out []string
	ast.Inspect(n, func(x ast.Node) bool {
		if c, ok := x.(*ast.CallExpr); ok && ident(c.Fun) == name {
			out = append(out, norm(f, c, roles))
		}
		return true
	})
	return out
}

func isLogCall(s ast.Stmt) bool {
	es, ok := s.(*ast.ExprStmt)
	if !ok {
		return false
	}
	c, ok := es.X.(*ast.CallExpr)
	if !ok {
		return false
	}
	sel, ok := c.Fun.(*ast.SelectorExpr)
	return ok && ident(sel.X) == "log"
}

func stmts(f *xlib.File, fn *ast.FuncDecl, roles0 map[string]string) []string {
	// locals declared at the top level of the function body get stable names F1, F2, … (they are used across
	// statements); locals of nested blocks are numbered per statement
	roles := map[string]string{}
	for k, v := range roles0 {
		roles[k] = v
	}
	k := 0
	name := func(e ast.Expr) {
		if id, ok := e.(*ast.Ident); ok && id.Name != "_" {
			if _, seen := roles[id.Name]; !seen {
				k++
				roles[id.Name] = "F" + string(rune('0'+k))
			}
		}
	}
	for _, s := range fn.Body.List {
		switch st := s.(type) {
		case *ast.AssignStmt:
			if st.Tok == token.DEFINE {
				for _, l := range st.Lhs {
					name(l)
				}
			}
		case *ast.DeclStmt:
			if gd, ok := st.Decl.(*ast.GenDecl); ok {
				for _, sp := range gd.Specs {
					if vs, ok := sp.(*ast.ValueSpec); ok {
						for _, n := range vs.Names {
							name(n)
						}
					}
				}
			}
		}
	}
	var out []string
	for _, s := range fn.Body.List {
		if isLogCall(s) {
			continue
		}
		out = append(out, norm(f, s, withLocalsNode(s, roles)))
	}
	return out
}

func main() {
	f := xlib.Parse("src/query/changes.go")
	bt := xlib.Parse("src/core/build_target.go")
	out := xlib.NewOut("C24", f.Path, bt.Path)
	ct := f.Func("changedTargets")
	p := paramNames(ct)
	if len(p) != 5 {
		xlib.Unreadable("changedTargets has %d parameters", len(p))
	}
	out.Def("changedTargets", "List String", xlib.LeanStrList(stmts(f, ct, map[string]string{p[0]: "STATE", p[1]: "FILES", p[2]: "CHANGED", p[3]: "LEVEL", p[4]: "SUBREPOS"})))
	// does the loop that collects the labels of the directly changed targets (the seeds handed to FindRevdeps) test
	// ShouldInclude?  It is the range statement over the `changed` parameter.
	seedsFiltered, seedLoops := false, 0
	for _, st := range ct.Body.List {
		rs, ok := st.(*ast.RangeStmt)
		if !ok || ident(rs.X) != p[2] {
			continue
		}
		seedLoops++
		ast.Inspect(rs.Body, func(n ast.Node) bool {
			if c, ok := n.(*ast.CallExpr); ok {
				if sel, ok := c.Fun.(*ast.SelectorExpr); ok && sel.Sel.Name == "ShouldInclude" {
					seedsFiltered = true
				}
			}
			return true
		})
	}
	if seedLoops != 1 {
		xlib.Unreadable("changedTargets: %d loops over the changed set, expected 1", seedLoops)
	}
	out.Def("seedsFiltered", "Bool", xlib.LeanBool(seedsFiltered))
	dg := f.Func("diffGraphs")
	dp := paramNames(dg)
	out.Def("diffGraphs", "List String", xlib.LeanStrList(stmts(f, dg, map[string]string{dp[0]: "BEFORE", dp[1]: "AFTER"})))
	tc := f.Func("targetChanged")
	tp := paramNames(tc)
	out.Def("targetChanged", "List String", xlib.LeanStrList(stmts(f, tc, map[string]string{tp[0]: "S1", tp[1]: "S2", tp[2]: "T1", tp[3]: "T2"})))
	sh := f.Func("sourceHash")
	sp := paramNames(sh)
	out.Def("sourceHash", "List String", xlib.LeanStrList(stmts(f, sh, map[string]string{sp[0]: "STATE", sp[1]: "T"})))
	ch := f.Func("Changes")
	cp := paramNames(ch)
	out.Def("changesEntry", "List String", xlib.LeanStrList(stmts(f, ch, map[string]string{cp[0]: "STATE", cp[1]: "FILES", cp[2]: "LEVEL", cp[3]: "SUBREPOS"})))
	hs := bt.Func("BuildTarget.HasSource")
	hp := paramNames(hs)
	recv := hs.Recv.List[0].Names[0].Name
	out.Def("hasSource", "List String", xlib.LeanStrList(stmts(bt, hs, map[string]string{recv: "T", hp[0]: "SOURCE"})))
	ha := bt.Func("BuildTarget.HasAbsoluteSource")
	ap := paramNames(ha)
	recv2 := ha.Recv.List[0].Names[0].Name
	out.Def("hasAbsoluteSource", "List String", xlib.LeanStrList(stmts(bt, ha, map[string]string{recv2: "T", ap[0]: "SOURCE"})))
	_ = callsTo
	_ = strings.Join
	out.Write()
}
