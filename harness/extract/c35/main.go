// Facts for C35 (declared output hashes are enforced exactly):
//   - UnprefixedHashes (src/core/build_target.go): which index function / separator / slice / trim, and whether it
//     writes through an alias of target.Hashes;
//   - checkRuleHashes / checkRuleHashesOfType / outputHash / targetHasher (src/build/build_step.go): empty-list guard,
//     the first comparison against the already computed hash, the combine expression, where the checkers come from,
//     the length filter (operator, multiplier, Size() operand), the string comparison, the discarded hashing error,
//     the guard around writing file names, forced recalculation, the single-file condition, memoisation;
//   - calculateAndCheckRuleHash: order OutputHash → checkRuleHashes → writeRuleHash, the VerifyHashes gate;
//   - buildTarget: order of build / StoreTargetMetadata / moveOutputs / calculateAndCheckRuleHash / storeInCache, the
//     error return after the check, the filegroup check sitting inside `if changed`;
//   - retrieveArtifacts: what happens on a verification error; Build: RemoveOutputs on error;
//   - state.go / config.go: where the checkers come from, hasher table, defaults, whether the config hash covers them;
//   - incrementality.go: the rule hash covers target.Hashes.
// Facts are recorded by role/shape (operators, call names, order), not by local variable names.
package main

import (
	"go/ast"
	"go/token"
	"strconv"
	"strings"

	"verif/harness/xlib"
)

func callName(f *xlib.File, c *ast.CallExpr) string {
	s := f.Src(c.Fun)
	if i := strings.LastIndex(s, "."); i >= 0 {
		return s[i+1:]
	}
	return s
}

// callsInOrder returns the names (last selector component) of all calls in n whose name is in want, in source order.
func callsInOrder(f *xlib.File, n ast.Node, want map[string]bool) []string {
	var out []string
	ast.Inspect(n, func(x ast.Node) bool {
		if c, ok := x.(*ast.CallExpr); ok {
			if nm := callName(f, c); want[nm] {
				out = append(out, nm)
			}
		}
		return true
	})
	return out
}

func containsCall(f *xlib.File, n ast.Node, name string) bool {
	return len(callsInOrder(f, n, map[string]bool{name: true})) > 0
}

// returnsNonNilError: the block has a return statement whose last result is not the literal nil.
func returnsErr(f *xlib.File, b *ast.BlockStmt) bool {
	for _, st := range b.List {
		if r, ok := st.(*ast.ReturnStmt); ok && len(r.Results) > 0 && f.Src(r.Results[len(r.Results)-1]) != "nil" {
			return true
		}
	}
	return false
}

func set(xs ...string) map[string]bool {
	m := map[string]bool{}
	for _, x := range xs {
		m[x] = true
	}
	return m
}

func main() {
	bt := xlib.Parse("src/core/build_target.go")
	bs := xlib.Parse("src/build/build_step.go")
	st := xlib.Parse("src/core/state.go")
	cf := xlib.Parse("src/core/config.go")
	inc := xlib.Parse("src/build/incrementality.go")
	out := xlib.NewOut("C35", bt.Path, bs.Path, st.Path, cf.Path, inc.Path)

	// ---------------------------------------------------------------- UnprefixedHashes
	uh := bt.Func("BuildTarget.UnprefixedHashes")
	indexFn, sep, sliceLow, sliceHigh, wrap, guard := "", "", "", "-", "", ""
	aliasInit, writesThrough, local, indexVar, copyFn := false, false, "", "index", ""
	ast.Inspect(uh.Body, func(n ast.Node) bool {
		switch x := n.(type) {
		case *ast.AssignStmt:
			if len(x.Lhs) == 1 && len(x.Rhs) == 1 {
				if se, ok := x.Rhs[0].(*ast.SliceExpr); ok && x.Tok == token.DEFINE {
					if sel, ok := se.X.(*ast.SelectorExpr); ok && sel.Sel.Name == "Hashes" {
						aliasInit = true // a slice expression of the field shares its backing array
						local = bt.Src(x.Lhs[0])
					}
				}
				if sel, ok := x.Rhs[0].(*ast.SelectorExpr); ok && x.Tok == token.DEFINE && sel.Sel.Name == "Hashes" {
					aliasInit = true
					local = bt.Src(x.Lhs[0])
				}
				// a copy: slices.Clone(target.Hashes), append([]string(nil), target.Hashes...), make+copy …
				if c, ok := x.Rhs[0].(*ast.CallExpr); ok && x.Tok == token.DEFINE && local == "" && strings.Contains(bt.Src(c), ".Hashes") {
					local = bt.Src(x.Lhs[0])
					copyFn = bt.Src(c.Fun)
				}
				if ix, ok := x.Lhs[0].(*ast.IndexExpr); ok && x.Tok == token.ASSIGN && bt.Src(ix.X) == local && local != "" {
					writesThrough = true
					// value: [wrap(] h[low:high] [)]
					v := x.Rhs[0]
					if c, ok := v.(*ast.CallExpr); ok && len(c.Args) == 1 {
						wrap = bt.Src(c.Fun)
						v = c.Args[0]
					}
					if se, ok := v.(*ast.SliceExpr); ok {
						if se.Low != nil {
							sliceLow = strings.ReplaceAll(bt.Src(se.Low), " ", "")
						}
						if se.High != nil {
							sliceHigh = strings.ReplaceAll(bt.Src(se.High), " ", "")
						}
					}
				}
			}
		case *ast.IfStmt:
			if as, ok := x.Init.(*ast.AssignStmt); ok && len(as.Rhs) == 1 {
				if c, ok := as.Rhs[0].(*ast.CallExpr); ok && strings.HasPrefix(bt.Src(c.Fun), "strings.") && len(c.Args) == 2 {
					indexFn = bt.Src(c.Fun)
					sep = bt.Src(c.Args[1])
					// normalise the guard: replace the index variable by "i"
					guard = strings.ReplaceAll(strings.ReplaceAll(bt.Src(x.Cond), bt.Src(as.Lhs[0]), "i"), " ", "")
					indexVar = bt.Src(as.Lhs[0])
				}
			}
		}
		return true
	})
	if indexFn == "" || !writesThrough && !aliasInit && wrap == "" {
		xlib.Unreadable("UnprefixedHashes: shape not recognised")
	}
	returnsLocal := false
	if r, ok := uh.Body.List[len(uh.Body.List)-1].(*ast.ReturnStmt); ok && len(r.Results) == 1 && bt.Src(r.Results[0]) == local {
		returnsLocal = true
	}
	sliceLow = strings.ReplaceAll(sliceLow, indexVar, "i")
	out.Def("unprefixIndexFn", "String", xlib.LeanStr(indexFn))
	out.Def("unprefixSep", "String", xlib.LeanStr(sep))
	out.Def("unprefixGuard", "String", xlib.LeanStr(guard))
	out.Def("unprefixSliceLow", "String", xlib.LeanStr(sliceLow))
	out.Def("unprefixSliceHigh", "String", xlib.LeanStr(sliceHigh))
	out.Def("unprefixWrap", "String", xlib.LeanStr(wrap))
	out.Def("unprefixAliases", "Bool", xlib.LeanBool(aliasInit && writesThrough && returnsLocal))
	out.Def("unprefixCopies", "String", xlib.LeanStr(copyFn))
	out.Def("unprefixReturnsLocal", "Bool", xlib.LeanBool(writesThrough && returnsLocal))

	// ---------------------------------------------------------------- checkRuleHashes
	cr := bs.Func("checkRuleHashes")
	emptyGuard := false
	usesUnprefixed := false
	firstCompare := false
	combine, hashers, outputsSrc := "", "", ""
	validReturnsNil := false
	hexOfParam := false
	seenOfType := false
	hashParam := ""
	if pl := cr.Type.Params.List; len(pl) > 0 {
		last := pl[len(pl)-1]
		if len(last.Names) > 0 {
			hashParam = last.Names[len(last.Names)-1].Name
		}
	}
	hexVar := ""
	for _, s := range cr.Body.List {
		switch x := s.(type) {
		case *ast.IfStmt:
			c := strings.ReplaceAll(bs.Src(x.Cond), " ", "")
			if c == "len(target.Hashes)==0" && len(x.Body.List) == 1 && bs.Src(x.Body.List[0]) == "return nil" {
				emptyGuard = true
			}
			if id, ok := x.Cond.(*ast.Ident); ok && seenOfType && len(x.Body.List) == 1 && bs.Src(x.Body.List[0]) == "return nil" {
				_ = id
				validReturnsNil = true
			}
		case *ast.AssignStmt:
			if len(x.Rhs) == 1 {
				r := bs.Src(x.Rhs[0])
				if strings.HasSuffix(r, ".UnprefixedHashes()") {
					usesUnprefixed = true
				}
				if r == "hex.EncodeToString("+hashParam+")" {
					hexOfParam = true
					hexVar = bs.Src(x.Lhs[0])
				}
				if strings.HasSuffix(r, ".FullOutputs()") {
					outputsSrc = "FullOutputs"
				}
				if be, ok := x.Rhs[0].(*ast.BinaryExpr); ok && strings.HasPrefix(bs.Src(be.X), "len(") {
					combine = "len(outputs) " + be.Op.String() + " " + bs.Src(be.Y)
				}
				if c, ok := x.Rhs[0].(*ast.CallExpr); ok && callName(bs, c) == "checkRuleHashesOfType" {
					seenOfType = true
					if len(c.Args) >= 4 {
						hashers = bs.Src(c.Args[3])
					}
				}
			}
		case *ast.RangeStmt:
			// for _, h := range hashes { if h == hashStr { return nil } }   — before checkRuleHashesOfType
			if !seenOfType && len(x.Body.List) == 1 {
				if is, ok := x.Body.List[0].(*ast.IfStmt); ok {
					if be, ok := is.Cond.(*ast.BinaryExpr); ok && be.Op == token.EQL {
						a, b := bs.Src(be.X), bs.Src(be.Y)
						v := bs.Src(x.Value)
						if ((a == v && b == hexVar) || (b == v && a == hexVar)) && hexVar != "" &&
							len(is.Body.List) == 1 && bs.Src(is.Body.List[0]) == "return nil" {
							firstCompare = true
						}
					}
				}
			}
		}
	}
	if !seenOfType {
		xlib.Unreadable("checkRuleHashes: call to checkRuleHashesOfType not found")
	}
	out.Def("checkEmptyGuard", "Bool", xlib.LeanBool(emptyGuard))
	out.Def("checkUsesUnprefixed", "Bool", xlib.LeanBool(usesUnprefixed))
	out.Def("checkFirstCompare", "Bool", xlib.LeanBool(firstCompare && hexOfParam))
	out.Def("checkCombine", "String", xlib.LeanStr(combine))
	out.Def("checkHashers", "String", xlib.LeanStr(hashers))
	out.Def("checkOutputs", "String", xlib.LeanStr(outputsSrc))
	out.Def("checkValidReturnsNil", "Bool", xlib.LeanBool(validReturnsNil))

	// ---------------------------------------------------------------- checkRuleHashesOfType
	ot := bs.Func("checkRuleHashesOfType")
	lenOp, lenMult, lenSizeOperand := "", -1, false
	cmpOp, errIgnored, combinerSrc, retTrue := "", false, "", false
	ast.Inspect(ot.Body, func(n ast.Node) bool {
		switch x := n.(type) {
		case *ast.IfStmt:
			if be, ok := x.Cond.(*ast.BinaryExpr); ok {
				l, r := be.X, be.Y
				op := be.Op
				if !strings.HasPrefix(bs.Src(l), "len(") && strings.HasPrefix(bs.Src(r), "len(") {
					l, r = r, l
					switch op { // mirror
					case token.LSS:
						op = token.GTR
					case token.GTR:
						op = token.LSS
					case token.LEQ:
						op = token.GEQ
					case token.GEQ:
						op = token.LEQ
					}
				}
				if strings.HasPrefix(bs.Src(l), "len(") && lenOp == "" {
					lenOp = op.String()
					lenMult = 1
					if m, ok := r.(*ast.BinaryExpr); ok && m.Op == token.MUL {
						a, b := m.X, m.Y
						if _, isLit := a.(*ast.BasicLit); isLit {
							a, b = b, a
						}
						if lit, ok := b.(*ast.BasicLit); ok {
							lenMult, _ = strconv.Atoi(lit.Value)
						}
						lenSizeOperand = strings.HasSuffix(bs.Src(a), ".Size()")
					} else {
						lenSizeOperand = strings.HasSuffix(bs.Src(r), ".Size()")
					}
				} else if (be.Op == token.EQL || be.Op == token.NEQ) && cmpOp == "" && lenOp != "" {
					cmpOp = be.Op.String()
					if returnsBoolTrue(bs, x.Body) {
						retTrue = true
					}
				}
			}
			if id, ok := x.Cond.(*ast.Ident); ok && len(x.Body.List) == 1 {
				_ = id
				if as, ok := x.Body.List[0].(*ast.AssignStmt); ok && len(as.Rhs) == 1 {
					combinerSrc = lastSel(bs.Src(as.Rhs[0]))
				}
			}
		case *ast.AssignStmt:
			if len(x.Rhs) == 1 && len(x.Lhs) == 2 {
				if c, ok := x.Rhs[0].(*ast.CallExpr); ok && callName(bs, c) == "outputHash" && bs.Src(x.Lhs[1]) == "_" {
					errIgnored = true
				}
			}
		}
		return true
	})
	if lenOp == "" {
		lenOp = "none"
	}
	out.Def("ofTypeLenOp", "String", xlib.LeanStr(lenOp))
	out.Def("ofTypeLenMult", "Nat", strconv.Itoa(max(lenMult, 0)))
	out.Def("ofTypeLenSizeOperand", "Bool", xlib.LeanBool(lenSizeOperand))
	out.Def("ofTypeCompareOp", "String", xlib.LeanStr(cmpOp))
	out.Def("ofTypeMatchReturnsTrue", "Bool", xlib.LeanBool(retTrue))
	out.Def("ofTypeHashErrIgnored", "Bool", xlib.LeanBool(errIgnored))
	out.Def("ofTypeCombiner", "String", xlib.LeanStr(combinerSrc))

	// ---------------------------------------------------------------- outputHash / targetHasher
	oh := bs.Func("outputHash")
	nameGuard, recalcArg := "", ""
	ast.Inspect(oh.Body, func(n ast.Node) bool {
		if is, ok := n.(*ast.IfStmt); ok {
			body := bs.Src(is.Body)
			if strings.Contains(body, "[]byte(filename)") || strings.Contains(body, "Write([]byte(") {
				nameGuard = strings.ReplaceAll(bs.Src(is.Cond), " ", "")
			}
		}
		if rs, ok := n.(*ast.RangeStmt); ok {
			ast.Inspect(rs.Body, func(m ast.Node) bool {
				if c, ok := m.(*ast.CallExpr); ok && callName(bs, c) == "Hash" && len(c.Args) == 4 {
					recalcArg = bs.Src(c.Args[1])
				}
				return true
			})
		}
		return true
	})
	out.Def("outputHashNameGuard", "String", xlib.LeanStr(nameGuard))
	out.Def("outputHashRecalcArg", "String", xlib.LeanStr(recalcArg))
	th := bs.Func("targetHasher.outputHash")
	singleCond := ""
	for _, s := range th.Body.List {
		if is, ok := s.(*ast.IfStmt); ok {
			singleCond = strings.ReplaceAll(bs.Src(is.Cond), " ", "")
			// the single branch must pass a nil combiner
			if r, ok := is.Body.List[0].(*ast.ReturnStmt); ok {
				if c, ok := r.Results[0].(*ast.CallExpr); ok && len(c.Args) == 4 && bs.Src(c.Args[3]) != "nil" {
					singleCond += "[combiner:" + bs.Src(c.Args[3]) + "]"
				}
			}
		}
	}
	out.Def("targetHasherSingleCond", "String", xlib.LeanStr(singleCond))
	out.Def("targetHasherMemoises", "Bool", xlib.LeanBool(containsCall(bs, bs.Func("targetHasher.OutputHash").Body, "SetHash")))

	// ---------------------------------------------------------------- calculateAndCheckRuleHash
	cc := bs.Func("calculateAndCheckRuleHash")
	out.Def("calcOrder", "List String", xlib.LeanStrList(callsInOrder(bs, cc.Body, set("OutputHash", "checkRuleHashes", "writeRuleHash"))))
	gate, hashesOnly, gateReturnsErr, stampGuard := "", "", false, ""
	for _, s := range cc.Body.List {
		is, ok := s.(*ast.IfStmt)
		if !ok {
			continue
		}
		if containsCall(bs, is, "writeRuleHash") {
			stampGuard = strings.ReplaceAll(bs.Src(is.Cond), " ", "")
		}
		if is.Init == nil || !containsCall(bs, is.Init, "checkRuleHashes") {
			continue
		}
		// if err = checkRuleHashes(...); err != nil { if A { log } else { if B { return nil, err }; log } }
		ast.Inspect(is.Body, func(n ast.Node) bool {
			if inner, ok := n.(*ast.IfStmt); ok {
				if returnsErr(bs, inner.Body) {
					gate = bs.Src(inner.Cond)
					gateReturnsErr = true
				} else if inner.Else != nil && hashesOnly == "" {
					hashesOnly = bs.Src(inner.Cond)
				}
			}
			return true
		})
	}
	out.Def("calcGate", "String", xlib.LeanStr(gate))
	out.Def("calcGateReturnsErr", "Bool", xlib.LeanBool(gateReturnsErr))
	out.Def("calcHashesOnlyCond", "String", xlib.LeanStr(hashesOnly))
	out.Def("calcStampGuard", "String", xlib.LeanStr(stampGuard))

	// ---------------------------------------------------------------- buildTarget
	bf := bs.Func("buildTarget")
	out.Def("buildTargetOrder", "List String", xlib.LeanStrList(callsInOrder(bs, bf.Body,
		set("needsBuilding", "buildFilegroup", "retrieveArtifacts", "build", "StoreTargetMetadata", "moveOutputs", "calculateAndCheckRuleHash", "storeInCache", "writeRuleHash"))))
	checkErrReturns, fgInsideChanged, fgCoversDeclared, fgCond := false, false, false, ""
	ast.Inspect(bf.Body, func(n ast.Node) bool {
		is, ok := n.(*ast.IfStmt)
		if !ok {
			return true
		}
		if is.Init != nil && containsCall(bs, is.Init, "calculateAndCheckRuleHash") && returnsErr(bs, is.Body) {
			// the one at the top level of the function (not in the filegroup branch)
			for _, top := range bf.Body.List {
				if top == ast.Stmt(is) {
					checkErrReturns = true
				}
			}
		}
		// the filegroup branch: the innermost `if` (without init) around its calculateAndCheckRuleHash call
		if is.Init == nil && containsCall(bs, is.Body, "calculateAndCheckRuleHash") && !containsCall(bs, is.Body, "buildFilegroup") &&
			!containsCall(bs, is.Body, "moveOutputs") {
			cond := strings.ReplaceAll(bs.Src(is.Cond), " ", "")
			if id, ok := is.Cond.(*ast.Ident); ok && id.Name == "changed" {
				fgInsideChanged = true
			}
			fgCond = cond
			// `changed || len(target.Hashes) > 0` (either order): every target that declares hashes is checked
			if be, ok := is.Cond.(*ast.BinaryExpr); ok && be.Op == token.LOR {
				for _, side := range []ast.Expr{be.X, be.Y} {
					c := strings.ReplaceAll(bs.Src(side), " ", "")
					if c == "len(target.Hashes)>0" || c == "len(target.Hashes)!=0" {
						fgCoversDeclared = true
					}
				}
			}
		}
		return true
	})
	out.Def("buildCheckErrReturns", "Bool", xlib.LeanBool(checkErrReturns))
	out.Def("fgCheckInsideChanged", "Bool", xlib.LeanBool(fgInsideChanged))
	out.Def("fgCheckCond", "String", xlib.LeanStr(fgCond))
	out.Def("fgCheckCoversDeclared", "Bool", xlib.LeanBool(fgCoversDeclared))
	// storeInCache must not sit in a defer / before the check: position of the first top-level statement containing it
	idxCheck, idxStore, idxMove := -1, -1, -1
	for i, top := range bf.Body.List {
		if containsCall(bs, top, "storeInCache") && idxStore < 0 {
			idxStore = i
		}
		if is, ok := top.(*ast.IfStmt); ok && is.Init != nil && containsCall(bs, is.Init, "calculateAndCheckRuleHash") {
			idxCheck = i
		}
		if as, ok := top.(*ast.AssignStmt); ok && containsCall(bs, as, "moveOutputs") {
			idxMove = i
		}
	}
	out.Def("buildMoveBeforeCheck", "Bool", xlib.LeanBool(idxMove >= 0 && idxMove < idxCheck))
	out.Def("buildStoreAfterCheck", "Bool", xlib.LeanBool(idxCheck >= 0 && idxStore > idxCheck))

	// ---------------------------------------------------------------- retrieveArtifacts / Build
	ra := bs.Func("retrieveArtifacts")
	var onFail []string
	ast.Inspect(ra.Body, func(n ast.Node) bool {
		is, ok := n.(*ast.IfStmt)
		if !ok || len(onFail) > 0 {
			return true
		}
		if strings.ReplaceAll(bs.Src(is.Cond), " ", "") == "err!=nil" && containsCall(bs, is.Body, "RemoveOutputs") || (ok && isErrCheckAfterCalc(bs, ra, is)) {
			for _, s := range is.Body.List {
				switch y := s.(type) {
				case *ast.ExprStmt:
					if c, ok := y.X.(*ast.CallExpr); ok {
						if nm := callName(bs, c); nm == "RemoveOutputs" {
							onFail = append(onFail, nm)
						}
					}
				case *ast.ReturnStmt:
					onFail = append(onFail, "return "+bs.Src(y.Results[0]))
				}
			}
		}
		return true
	})
	out.Def("retrieveOnFail", "List String", xlib.LeanStrList(onFail))
	out.Def("retrieveOrder", "List String", xlib.LeanStrList(callsInOrder(bs, ra.Body, set("retrieveFromCache", "calculateAndCheckRuleHash", "RemoveOutputs"))))
	bd := bs.Func("Build")
	errRemoves := false
	ast.Inspect(bd.Body, func(n ast.Node) bool {
		if is, ok := n.(*ast.IfStmt); ok && is.Init != nil && containsCall(bs, is.Init, "buildTarget") {
			for _, s := range is.Body.List { // directly in the error branch, not inside the errStop case
				if inner, ok := s.(*ast.IfStmt); ok && inner.Init != nil && containsCall(bs, inner.Init, "RemoveOutputs") {
					errRemoves = true
				}
				if es, ok := s.(*ast.ExprStmt); ok && containsCall(bs, es, "RemoveOutputs") {
					errRemoves = true
				}
			}
		}
		return true
	})
	out.Def("buildErrRemovesOutputs", "Bool", xlib.LeanBool(errRemoves))

	// ---------------------------------------------------------------- state.go / config.go / incrementality.go
	ohc := st.Func("BuildState.OutputHashCheckers")
	checkersSrc, lookup := "", ""
	ast.Inspect(ohc.Body, func(n ast.Node) bool {
		if rs, ok := n.(*ast.RangeStmt); ok {
			checkersSrc = lastSel(st.Src(rs.X))
			ast.Inspect(rs.Body, func(m ast.Node) bool {
				if c, ok := m.(*ast.CallExpr); ok && callName(st, c) == "Hasher" {
					lookup = "Hasher"
				}
				return true
			})
		}
		return true
	})
	out.Def("checkersSource", "String", xlib.LeanStr(checkersSrc))
	out.Def("checkersLookup", "String", xlib.LeanStr(lookup))
	var hasherNames []string
	pathHasherFrom := ""
	ast.Inspect(st.Func("NewBuildState").Body, func(n ast.Node) bool {
		if kv, ok := n.(*ast.KeyValueExpr); ok && st.Src(kv.Key) == "hashers" {
			if cl, ok := kv.Value.(*ast.CompositeLit); ok {
				for _, e := range cl.Elts {
					if p, ok := e.(*ast.KeyValueExpr); ok {
						k, _ := strconv.Unquote(st.Src(p.Key))
						ctor := ""
						if c, ok := p.Value.(*ast.CallExpr); ok && len(c.Args) >= 3 {
							ctor = st.Src(c.Args[2])
						}
						hasherNames = append(hasherNames, k+"="+ctor)
					}
				}
			}
		}
		if as, ok := n.(*ast.AssignStmt); ok && len(as.Lhs) == 1 && st.Src(as.Lhs[0]) == "state.PathHasher" {
			pathHasherFrom = lastSel(strings.TrimSuffix(st.Src(as.Rhs[0]), ")"))
		}
		return true
	})
	out.Def("hasherTable", "List String", xlib.LeanStrList(hasherNames))
	out.Def("pathHasherFrom", "String", xlib.LeanStr(pathHasherFrom))
	var defCheckers []string
	defFn := ""
	for _, d := range cf.AST.Decls {
		fd, ok := d.(*ast.FuncDecl)
		if !ok {
			continue
		}
		ast.Inspect(fd, func(n ast.Node) bool {
			if c, ok := n.(*ast.CallExpr); ok && callName(cf, c) == "setDefault" && len(c.Args) >= 1 && strings.HasSuffix(cf.Src(c.Args[0]), "Build.HashCheckers") {
				for _, a := range c.Args[1:] {
					s, _ := strconv.Unquote(cf.Src(a))
					defCheckers = append(defCheckers, s)
				}
			}
			if as, ok := n.(*ast.AssignStmt); ok && len(as.Lhs) == 1 && strings.HasSuffix(cf.Src(as.Lhs[0]), "Build.HashFunction") {
				defFn, _ = strconv.Unquote(cf.Src(as.Rhs[0]))
			}
			return true
		})
	}
	out.Def("defaultHashCheckers", "List String", xlib.LeanStrList(defCheckers))
	out.Def("defaultHashFunction", "String", xlib.LeanStr(defFn))
	ch := cf.Src(cf.Func("Configuration.Hash").Body)
	out.Def("configHashCoversHashCheckers", "Bool", xlib.LeanBool(strings.Contains(ch, "HashCheckers")))
	rh := inc.Func("ruleHash")
	ruleCoversHashes := false
	ast.Inspect(rh.Body, func(n ast.Node) bool {
		if rs, ok := n.(*ast.RangeStmt); ok && strings.HasSuffix(inc.Src(rs.X), ".Hashes") && containsCall(inc, rs.Body, "Write") {
			ruleCoversHashes = true
		}
		return true
	})
	out.Def("ruleHashCoversHashes", "Bool", xlib.LeanBool(ruleCoversHashes))
	// the checkers are written into the rule hash of (at least) every target that declares hashes: a range over
	// …Build.HashCheckers with a Write in its body, either unconditional or under `len(target.Hashes) > 0` / `!= 0`
	ruleCoversCheckers := false
	var walk func(n ast.Node, guarded bool)
	walk = func(n ast.Node, guardOK bool) {
		ast.Inspect(n, func(x ast.Node) bool {
			switch y := x.(type) {
			case *ast.IfStmt:
				c := strings.ReplaceAll(inc.Src(y.Cond), " ", "")
				ok := guardOK && (c == "len(target.Hashes)>0" || c == "len(target.Hashes)!=0")
				walk(y.Body, ok)
				return false
			case *ast.RangeStmt:
				if guardOK && strings.HasSuffix(inc.Src(y.X), "Build.HashCheckers") && containsCall(inc, y.Body, "Write") {
					ruleCoversCheckers = true
				}
			}
			return true
		})
	}
	for _, st := range rh.Body.List { // top-level statements only: not inside `if runtime` or other conditions
		switch y := st.(type) {
		case *ast.IfStmt:
			c := strings.ReplaceAll(inc.Src(y.Cond), " ", "")
			if c == "len(target.Hashes)>0" || c == "len(target.Hashes)!=0" {
				walk(y.Body, true)
			}
		case *ast.RangeStmt:
			walk(y, true)
		}
	}
	out.Def("ruleHashCoversHashCheckers", "Bool", xlib.LeanBool(ruleCoversCheckers))
	out.Write()
}

func lastSel(s string) string {
	if i := strings.LastIndex(s, "."); i >= 0 {
		return s[i+1:]
	}
	return s
}

func returnsBoolTrue(f *xlib.File, b *ast.BlockStmt) bool {
	found := false
	ast.Inspect(b, func(n ast.Node) bool {
		if r, ok := n.(*ast.ReturnStmt); ok && len(r.Results) > 0 && f.Src(r.Results[len(r.Results)-1]) == "true" {
			found = true
		}
		return true
	})
	return found
}

// isErrCheckAfterCalc: `else`-less if statement `if err != nil` that directly follows the assignment from
// calculateAndCheckRuleHash in retrieveArtifacts.
func isErrCheckAfterCalc(f *xlib.File, fn *ast.FuncDecl, is *ast.IfStmt) bool {
	found := false
	ast.Inspect(fn.Body, func(n ast.Node) bool {
		b, ok := n.(*ast.BlockStmt)
		if !ok {
			return true
		}
		for i, s := range b.List {
			if as, ok := s.(*ast.AssignStmt); ok && containsCall(f, as, "calculateAndCheckRuleHash") && i+1 < len(b.List) && b.List[i+1] == ast.Stmt(is) {
				found = strings.ReplaceAll(f.Src(is.Cond), " ", "") == "err!=nil"
			}
		}
		return true
	})
	return found
}
