// Facts for C04 (and C05) from src/core/build_target.go, src/core/state.go, src/build/build_step.go,
// src/plz/plz.go: the state enum order, IsBuilt, the CAS pairs of SyncUpdateState, and *skeletons* of the
// scheduling functions.  A skeleton is the function body reduced to the statements that mention a scheduling
// primitive (state reads/writes, CAS, FinishBuild/WaitForBuild, counters, queues, results), with the receiver,
// parameters and every local renamed to roles (recv, p0.., l0..) and white space removed — robust to renaming
// and to edits of unrelated statements (logging, metrics, limiter), sensitive to reordering, dropping or
// changing any scheduling step or condition.
package main

import (
	"bytes"
	"fmt"
	"go/ast"
	"go/printer"
	"go/token"
	"regexp"
	"sort"
	"strings"

	"verif/harness/xlib"
)

var words = regexp.MustCompile(`\b(SyncUpdateState|SetState|State|FinishBuild|WaitForBuild|LogBuildResult|LogBuildError|addPendingBuild|taskDone|TaskDone|Stop|queueAsync|queueTargetAsync|queueTarget|queueResolvedTarget|AddInt64|numPending|numDone|close|pendingActions|pendingParses|closeOnce|buildTarget|Build|IsBuilt|NeedBuild|asyncError|resolveDependencies|DeclaredDependencies|Dependencies|errStop|finishedBuilding|waitOnChan|CompareAndSwapInt32|StoreInt32|LoadInt32|KeepGoing|checkForCycles|cycleDetector|completeAction|pendingPackages|packageWaits|pendingTargets|waitOnChan|AddOrGet|PackageParsed|ParseFailed|IsFailure|FailedTargets|GetOrSet|Parses|parse\.Parse|TargetFailed)\b`)

type sk struct {
	f *xlib.File
}

func (s *sk) src(n ast.Node) string {
	var b bytes.Buffer
	printer.Fprint(&b, s.f.Fset, n)
	return strings.Join(strings.Fields(b.String()), "")
}

func (s *sk) rel(n ast.Node) bool { return n != nil && words.MatchString(s.srcSp(n)) }

func (s *sk) srcSp(n ast.Node) string {
	var b bytes.Buffer
	printer.Fprint(&b, s.f.Fset, n)
	return b.String()
}

// rename gives the receiver, the parameters and every local of fn role names.
func rename(fn *ast.FuncDecl) {
	names := map[*ast.Object]string{}
	if fn.Recv != nil {
		for _, fl := range fn.Recv.List {
			for _, nm := range fl.Names {
				if nm.Obj != nil {
					names[nm.Obj] = "recv"
				}
			}
		}
	}
	i := 0
	for _, fl := range fn.Type.Params.List {
		for _, nm := range fl.Names {
			if nm.Obj != nil {
				names[nm.Obj] = fmt.Sprintf("p%d", i)
			}
			i++
		}
	}
	// local closures keep their names: they are the vocabulary of the function (queueAsync, completeAction)
	keep := map[*ast.Object]bool{}
	ast.Inspect(fn, func(n ast.Node) bool {
		if a, ok := n.(*ast.AssignStmt); ok && a.Tok == token.DEFINE && len(a.Lhs) == 1 && len(a.Rhs) == 1 {
			if _, ok := a.Rhs[0].(*ast.FuncLit); ok {
				if id, ok := a.Lhs[0].(*ast.Ident); ok && id.Obj != nil {
					keep[id.Obj] = true
				}
			}
		}
		return true
	})
	k := 0
	ast.Inspect(fn, func(n ast.Node) bool {
		id, ok := n.(*ast.Ident)
		if !ok || id.Obj == nil || id.Name == "_" {
			return true
		}
		if id.Obj.Kind != ast.Var || keep[id.Obj] {
			return true
		}
		pos := id.Obj.Pos()
		if pos < fn.Pos() || pos > fn.End() {
			return true // package-level
		}
		if _, ok := names[id.Obj]; !ok {
			names[id.Obj] = fmt.Sprintf("l%d", k)
			k++
		}
		return true
	})
	ast.Inspect(fn, func(n ast.Node) bool {
		if id, ok := n.(*ast.Ident); ok && id.Obj != nil {
			if nm, ok := names[id.Obj]; ok {
				id.Name = nm
			}
		}
		return true
	})
}

// stmts renders the relevant statements of a list.
func (s *sk) stmts(list []ast.Stmt, headerRel bool) string {
	var parts []string
	var rets []int
	any := headerRel
	for _, st := range list {
		if _, ok := st.(*ast.ReturnStmt); ok {
			rets = append(rets, len(parts))
			parts = append(parts, s.shallow(st))
			if s.rel(st) {
				any = true
			}
			continue
		}
		if t := s.stmt(st); t != "" {
			parts = append(parts, t)
			any = true
		}
	}
	if !any {
		return ""
	}
	return strings.Join(parts, ";")
}

func (s *sk) block(b *ast.BlockStmt, headerRel bool) string {
	if b == nil {
		return ""
	}
	return s.stmts(b.List, headerRel)
}

// funcLits renders the relevant closures inside an expression or simple statement.
func (s *sk) funcLits(n ast.Node) string {
	var out []string
	ast.Inspect(n, func(x ast.Node) bool {
		if fl, ok := x.(*ast.FuncLit); ok {
			if b := s.block(fl.Body, false); b != "" {
				out = append(out, "func{"+b+"}")
			}
			return false
		}
		return true
	})
	return strings.Join(out, "")
}

// shallow renders a simple statement with closure bodies replaced by their skeletons.
func (s *sk) shallow(n ast.Node) string {
	has := false
	ast.Inspect(n, func(x ast.Node) bool {
		if _, ok := x.(*ast.FuncLit); ok {
			has = true
		}
		return !has
	})
	if !has {
		return s.src(n)
	}
	// print with the closures cut out
	txt := s.src(n)
	ast.Inspect(n, func(x ast.Node) bool {
		if fl, ok := x.(*ast.FuncLit); ok {
			txt = strings.Replace(txt, s.src(fl), "func{"+s.block(fl.Body, false)+"}", 1)
			return false
		}
		return true
	})
	return txt
}

func (s *sk) stmt(st ast.Stmt) string {
	switch t := st.(type) {
	case *ast.IfStmt:
		hdr := ""
		if t.Init != nil {
			hdr = s.shallow(t.Init) + ";"
		}
		hdr += s.src(t.Cond)
		hr := s.rel(t.Cond) || (t.Init != nil && s.rel(t.Init))
		body := s.block(t.Body, hr)
		els := ""
		if t.Else != nil {
			switch e := t.Else.(type) {
			case *ast.BlockStmt:
				els = s.block(e, hr)
			default:
				els = s.stmt(e)
			}
		}
		if !hr && body == "" && els == "" {
			return ""
		}
		out := "if(" + hdr + "){" + body + "}"
		if els != "" {
			out += "else{" + els + "}"
		}
		return out
	case *ast.ForStmt:
		hdr := ""
		if t.Init != nil {
			hdr += s.src(t.Init)
		}
		hdr += ";"
		if t.Cond != nil {
			hdr += s.src(t.Cond)
		}
		hdr += ";"
		if t.Post != nil {
			hdr += s.src(t.Post)
		}
		hr := (t.Cond != nil && s.rel(t.Cond))
		body := s.block(t.Body, hr)
		if !hr && body == "" {
			return ""
		}
		return "for(" + hdr + "){" + body + "}"
	case *ast.RangeStmt:
		hr := s.rel(t.X)
		body := s.block(t.Body, hr)
		if !hr && body == "" {
			return ""
		}
		return "range(" + s.src(t.X) + "){" + body + "}"
	case *ast.BlockStmt:
		return s.block(t, false)
	case *ast.SwitchStmt:
		var cs []string
		for _, c := range t.Body.List {
			cc := c.(*ast.CaseClause)
			b := s.stmts(cc.Body, false)
			if b != "" {
				var es []string
				for _, e := range cc.List {
					es = append(es, s.src(e))
				}
				cs = append(cs, "case("+strings.Join(es, ",")+"){"+b+"}")
			}
		}
		if len(cs) == 0 {
			return ""
		}
		tag := ""
		if t.Tag != nil {
			tag = s.src(t.Tag)
		}
		return "switch(" + tag + "){" + strings.Join(cs, "") + "}"
	case *ast.SelectStmt:
		var cs []string
		for _, c := range t.Body.List {
			cc := c.(*ast.CommClause)
			b := s.stmts(cc.Body, false)
			hdr := "default"
			if cc.Comm != nil {
				hdr = s.src(cc.Comm)
			}
			if b != "" || (cc.Comm != nil && s.rel(cc.Comm)) {
				cs = append(cs, "comm("+hdr+"){"+b+"}")
			}
		}
		if len(cs) == 0 {
			return ""
		}
		return "select{" + strings.Join(cs, "") + "}"
	case *ast.GoStmt:
		if !s.rel(t) {
			return ""
		}
		return "go " + s.shallow(t.Call)
	case *ast.DeferStmt:
		if !s.rel(t) {
			return ""
		}
		return "defer " + s.shallow(t.Call)
	case *ast.LabeledStmt:
		return s.stmt(t.Stmt)
	default:
		if !s.rel(st) {
			return ""
		}
		return s.shallow(st)
	}
}

func skeleton(f *xlib.File, name string) string {
	fn := f.Func(name)
	rename(fn)
	s := &sk{f: f}
	return s.block(fn.Body, false)
}


// optFunc is File.Func for a function that may be absent (older trees): nil instead of FACTS-UNREADABLE.
func optFunc(f *xlib.File, recv, name string) *ast.FuncDecl {
	for _, d := range f.AST.Decls {
		fd, ok := d.(*ast.FuncDecl)
		if !ok || fd.Name.Name != name || fd.Body == nil {
			continue
		}
		r := ""
		if fd.Recv != nil && len(fd.Recv.List) > 0 {
			t := fd.Recv.List[0].Type
			if s, ok := t.(*ast.StarExpr); ok {
				t = s.X
			}
			if id, ok := t.(*ast.Ident); ok {
				r = id.Name
			}
		}
		if r == recv {
			return fd
		}
	}
	return nil
}

// walkGuarded visits every simple statement of a body together with the conditions it is nested under: an `if`
// contributes its condition (init included) to the then-branch and the negated condition to the else-branch, a
// `select` the communication of the clause ("default" with the other communications for the default clause).
// Loops, blocks and switches contribute nothing.
type guard struct {
	init ast.Stmt
	cond ast.Expr // nil for a select clause
	neg  bool
	comm string
}

func walkGuarded(list []ast.Stmt, gs []guard, visit func(st ast.Stmt, gs []guard)) {
	for _, st := range list {
		switch t := st.(type) {
		case *ast.IfStmt:
			then := append(append([]guard{}, gs...), guard{init: t.Init, cond: t.Cond})
			walkGuarded(t.Body.List, then, visit)
			if t.Else != nil {
				els := append(append([]guard{}, gs...), guard{init: t.Init, cond: t.Cond, neg: true})
				switch e := t.Else.(type) {
				case *ast.BlockStmt:
					walkGuarded(e.List, els, visit)
				default:
					walkGuarded([]ast.Stmt{e}, els, visit)
				}
			}
		case *ast.ForStmt:
			walkGuarded(t.Body.List, gs, visit)
		case *ast.RangeStmt:
			walkGuarded(t.Body.List, gs, visit)
		case *ast.BlockStmt:
			walkGuarded(t.List, gs, visit)
		case *ast.LabeledStmt:
			walkGuarded([]ast.Stmt{t.Stmt}, gs, visit)
		case *ast.SwitchStmt:
			for _, c := range t.Body.List {
				walkGuarded(c.(*ast.CaseClause).Body, gs, visit)
			}
		case *ast.SelectStmt:
			var comms []string
			for _, c := range t.Body.List {
				if cc := c.(*ast.CommClause); cc.Comm != nil {
					comms = append(comms, "?")
				}
			}
			for _, c := range t.Body.List {
				cc := c.(*ast.CommClause)
				g := guard{}
				if cc.Comm == nil {
					g.comm = "default"
				} else {
					g.comm = "comm"
				}
				g.init = cc.Comm
				walkGuarded(cc.Body, append(append([]guard{}, gs...), g), visit)
			}
			_ = comms
		default:
			visit(st, gs)
		}
	}
}

// activeSetFacts reads forwardResults' bookkeeping of the targets being worked on (it arms the idle-time cycle
// check only while that set is empty): the key type of the set, under which conditions a result adds to / deletes
// from it and by which key, and under which condition the cycle check is started.
func activeSetFacts(st *xlib.File) []string {
	fn := st.Func("BuildState.forwardResults")
	s := &sk{f: st}
	var set *ast.Object
	key := ""
	ast.Inspect(fn.Body, func(n ast.Node) bool {
		a, ok := n.(*ast.AssignStmt)
		if !ok || set != nil || len(a.Lhs) != 1 || len(a.Rhs) != 1 {
			return true
		}
		if cl, ok := a.Rhs[0].(*ast.CompositeLit); ok {
			if mt, ok := cl.Type.(*ast.MapType); ok {
				if id, ok := a.Lhs[0].(*ast.Ident); ok && id.Obj != nil {
					set, key = id.Obj, s.src(mt.Key)
				}
			}
		}
		return true
	})
	if set == nil {
		xlib.Unreadable("forwardResults: no map of active targets")
	}
	isSet := func(e ast.Expr) bool { id, ok := e.(*ast.Ident); return ok && id.Obj == set }
	// what an expression denotes: the result's label, the result's target pointer, or something else
	fromTarget := map[*ast.Object]bool{}
	ast.Inspect(fn.Body, func(n ast.Node) bool {
		if a, ok := n.(*ast.AssignStmt); ok && len(a.Lhs) == 1 && len(a.Rhs) == 1 {
			if sel, ok := a.Rhs[0].(*ast.SelectorExpr); ok && sel.Sel.Name == "target" {
				if id, ok := a.Lhs[0].(*ast.Ident); ok && id.Obj != nil {
					fromTarget[id.Obj] = true
				}
			}
		}
		return true
	})
	denotes := func(e ast.Expr) string {
		switch t := e.(type) {
		case *ast.SelectorExpr:
			if t.Sel.Name == "Label" || t.Sel.Name == "target" {
				return "." + t.Sel.Name
			}
		case *ast.Ident:
			if t.Obj != nil && fromTarget[t.Obj] {
				return ".target"
			}
		}
		return s.src(e)
	}
	norm := func(g guard) string {
		if g.cond == nil {
			return g.comm
		}
		neg := ""
		if g.neg {
			neg = "!"
		}
		c := s.src(g.cond)
		if strings.HasSuffix(c, ".Status.IsActive()") {
			return neg + "IsActive"
		}
		if b, ok := g.cond.(*ast.BinaryExpr); ok {
			if id, ok := b.Y.(*ast.Ident); ok && id.Name == "nil" && denotes(b.X) == ".target" && (b.Op == token.NEQ || b.Op == token.EQL) {
				if (b.Op == token.NEQ) != g.neg {
					return "target!=nil"
				}
				return "target==nil"
			}
			if call, ok := b.X.(*ast.CallExpr); ok && len(call.Args) == 1 && isSet(call.Args[0]) && s.src(call.Fun) == "len" && s.src(b.Y) == "0" && b.Op == token.EQL {
				return neg + "empty"
			}
		}
		return neg + "(" + c + ")"
	}
	gstr := func(gs []guard) string {
		p := make([]string, len(gs))
		for i, g := range gs {
			p[i] = norm(g)
		}
		sort.Strings(p)
		return strings.Join(p, ",")
	}
	facts := []string{"key:" + key}
	walkGuarded(fn.Body.List, nil, func(stm ast.Stmt, gs []guard) {
		switch t := stm.(type) {
		case *ast.AssignStmt:
			if len(t.Lhs) == 1 {
				if ix, ok := t.Lhs[0].(*ast.IndexExpr); ok && isSet(ix.X) {
					facts = append(facts, "add:"+gstr(gs)+":"+denotes(ix.Index))
				}
			}
		case *ast.ExprStmt:
			if c, ok := t.X.(*ast.CallExpr); ok && s.src(c.Fun) == "delete" && len(c.Args) == 2 && isSet(c.Args[0]) {
				facts = append(facts, "del:"+gstr(gs)+":"+denotes(c.Args[1]))
			}
		case *ast.GoStmt:
			if strings.HasSuffix(s.src(t.Call.Fun), ".checkForCycles") {
				facts = append(facts, "check:"+gstr(gs))
			}
		}
	})
	return facts
}

// wakeFacts: who closes the `pendingTargets` channel of a target (what wakes WaitForBuiltTarget) and under which
// condition; what build.Build does after it has put a target into the Failed state; and when WaitForBuiltTarget
// returns without waiting.
func wakeFacts(st, bs *xlib.File) []string {
	var facts []string
	s := &sk{f: st}
	for _, d := range st.AST.Decls {
		fd, ok := d.(*ast.FuncDecl)
		if !ok || fd.Body == nil {
			continue
		}
		// channels obtained from pendingTargets.Get(<x>.Label) / Get(<label parameter>)
		chans := map[*ast.Object]bool{}
		ast.Inspect(fd.Body, func(n ast.Node) bool {
			if a, ok := n.(*ast.AssignStmt); ok && len(a.Lhs) == 1 && len(a.Rhs) == 1 {
				if c, ok := a.Rhs[0].(*ast.CallExpr); ok && strings.HasSuffix(s.src(c.Fun), ".pendingTargets.Get") {
					if id, ok := a.Lhs[0].(*ast.Ident); ok && id.Obj != nil {
						chans[id.Obj] = true
					}
				}
			}
			return true
		})
		if len(chans) == 0 {
			continue
		}
		isCh := func(e ast.Expr) bool { id, ok := e.(*ast.Ident); return ok && id.Obj != nil && chans[id.Obj] }
		walkGuarded(fd.Body.List, nil, func(stm ast.Stmt, gs []guard) {
			es, ok := stm.(*ast.ExprStmt)
			if !ok {
				return
			}
			c, ok := es.X.(*ast.CallExpr)
			if !ok || s.src(c.Fun) != "close" || len(c.Args) != 1 || !isCh(c.Args[0]) {
				return
			}
			var p []string
			for _, g := range gs {
				if g.cond == nil {
					if g.comm == "default" {
						p = append(p, "unless-closed")
					} else {
						p = append(p, "comm")
					}
					continue
				}
				if b, ok := g.cond.(*ast.BinaryExpr); ok && isCh(b.X) && b.Op == token.NEQ && !g.neg {
					continue // `ch != nil`: there is a channel to close
				}
				txt := s.src(g.cond)
				// parameters by position
				for i, fl := range fd.Type.Params.List {
					for _, nm := range fl.Names {
						txt = regexp.MustCompile(`\b`+regexp.QuoteMeta(nm.Name)+`\b`).ReplaceAllString(txt, fmt.Sprintf("p%d", i))
					}
				}
				if g.neg {
					txt = "!(" + txt + ")"
				}
				p = append(p, txt)
			}
			facts = append(facts, "close:"+fd.Name.Name+":"+strings.Join(p, ","))
		})
	}
	// build.Build: the calls on the state / the target that follow SetState(core.Failed) in its block
	{
		fn := bs.Func("Build")
		b := &sk{f: bs}
		found := false
		ast.Inspect(fn.Body, func(n ast.Node) bool {
			blk, ok := n.(*ast.BlockStmt)
			if !ok || found {
				return true
			}
			for i, stm := range blk.List {
				if strings.HasSuffix(b.src(stm), ".SetState(core.Failed)") {
					found = true
					var calls []string
					for _, later := range blk.List[i+1:] {
						if es, ok := later.(*ast.ExprStmt); ok {
							if c, ok := es.X.(*ast.CallExpr); ok {
								if sel, ok := c.Fun.(*ast.SelectorExpr); ok {
									calls = append(calls, sel.Sel.Name)
								}
							}
						}
					}
					facts = append(facts, "failed-then:"+strings.Join(calls, ","))
				}
			}
			return true
		})
		if !found {
			xlib.Unreadable("build.Build: no SetState(core.Failed)")
		}
	}
	// WaitForBuiltTarget: the condition of the leading `if … { return t }`
	{
		fn := st.Func("BuildState.WaitForBuiltTarget")
		if len(fn.Body.List) == 0 {
			xlib.Unreadable("WaitForBuiltTarget: empty")
		}
		first, ok := fn.Body.List[0].(*ast.IfStmt)
		if !ok || first.Init == nil {
			xlib.Unreadable("WaitForBuiltTarget: does not start with `if t := …; cond { return t }`")
		}
		v := ""
		if a, ok := first.Init.(*ast.AssignStmt); ok && len(a.Lhs) == 1 {
			v = s.src(a.Lhs[0])
		}
		cond := regexp.MustCompile(`\b`+regexp.QuoteMeta(v)+`\b`).ReplaceAllString(s.src(first.Cond), "t")
		facts = append(facts, "return-at-once:"+cond)
	}
	return facts
}

func main() {
	bt := xlib.Parse("src/core/build_target.go")
	out := xlib.NewOut("C04", bt.Path, "src/core/state.go", "src/build/build_step.go", "src/plz/plz.go", "src/output/targets.go")
	out.Def("enumOrder", "List String", xlib.LeanStrList(bt.ConstBlockNames("Inactive")))
	for _, m := range []string{"IsBuilt", "State", "SetState", "SyncUpdateState", "FinishBuild", "WaitForBuild"} {
		recv := "BuildTarget."
		if m == "IsBuilt" {
			recv = "BuildTargetState."
		}
		fn := bt.Func(recv + m)
		rename(fn)
		s := &sk{f: bt}
		var parts []string
		for _, st := range fn.Body.List {
			parts = append(parts, s.src(st))
		}
		out.Def("bt"+m, "String", xlib.LeanStr(strings.Join(parts, ";")))
	}
	st := xlib.Parse("src/core/state.go")
	// the CAS pairs, in source order, with the function they occur in
	var cas []string
	for _, d := range st.AST.Decls {
		fd, ok := d.(*ast.FuncDecl)
		if !ok || fd.Body == nil {
			continue
		}
		ast.Inspect(fd.Body, func(n ast.Node) bool {
			c, ok := n.(*ast.CallExpr)
			if !ok {
				return true
			}
			if sel, ok := c.Fun.(*ast.SelectorExpr); ok && sel.Sel.Name == "SyncUpdateState" && len(c.Args) == 2 {
				a, ok1 := c.Args[0].(*ast.Ident)
				b, ok2 := c.Args[1].(*ast.Ident)
				if !ok1 || !ok2 {
					xlib.Unreadable("SyncUpdateState with non-constant arguments in %s", fd.Name.Name)
				}
				cas = append(cas, fmt.Sprintf("(%s, %s, %s)", xlib.LeanStr(fd.Name.Name), xlib.LeanStr(a.Name), xlib.LeanStr(b.Name)))
			}
			return true
		})
	}
	out.Def("casPairs", "List (String × String × String)", "["+strings.Join(cas, ", ")+"]")
	for _, m := range []string{"queueResolvedTarget", "queueTargetAsync", "addPendingBuild", "taskDone", "Stop", "asyncError", "checkForCycles"} {
		out.Def("sk_"+m, "String", xlib.LeanStr(skeleton(st, "BuildState."+m)))
	}
	// the dependency wait loop of queueTargetAsync, statement by statement: which state tests come before and
	// after WaitForBuild and what they do (the model's wait step is instantiated from this)
	{
		fn := st.Func("BuildState.queueTargetAsync") // already role-renamed by skeleton()
		s := &sk{f: st}
		var loop *ast.RangeStmt
		ast.Inspect(fn.Body, func(n ast.Node) bool {
			if rs, ok := n.(*ast.RangeStmt); ok && strings.HasSuffix(s.src(rs.X), ".Dependencies()") {
				loop = rs
			}
			return true
		})
		if loop == nil {
			xlib.Unreadable("queueTargetAsync: no loop over target.Dependencies()")
		}
		elem := ""
		if id, ok := loop.Value.(*ast.Ident); ok {
			elem = id.Name
		}
		var items []string
		for _, b := range loop.Body.List {
			txt := strings.ReplaceAll(s.src(b), elem+".", "dep.")
			switch t := b.(type) {
			case *ast.ExprStmt:
				if strings.Contains(txt, "WaitForBuild(") {
					items = append(items, "wait")
					continue
				}
			case *ast.IfStmt:
				cond := strings.ReplaceAll(s.src(t.Cond), elem+".", "dep.")
				body := s.src(t.Body)
				switch {
				case strings.Contains(body, "continue") && !strings.Contains(body, "SetState"):
					items = append(items, "if "+cond+" continue")
					continue
				case strings.Contains(body, "SetState(DependencyFailed)") && strings.Contains(body, "FinishBuild()") && strings.Contains(body, "return"):
					items = append(items, "if "+cond+" fail")
					continue
				}
			}
			if words.MatchString(s.srcSp(b)) {
				items = append(items, "other "+txt)
			}
		}
		out.Def("waitLoop", "List String", xlib.LeanStrList(items))
		// the state a dependency may be in to be passed over without waiting (absent in the pinned code)
		skip := "none"
		for _, it := range items {
			if it == "wait" {
				break
			}
			if strings.HasPrefix(it, "if dep.State()>=") && strings.HasSuffix(it, " continue") {
				skip = "some " + xlib.LeanStr(strings.TrimSuffix(strings.TrimPrefix(it, "if dep.State()>="), " continue"))
				break
			}
		}
		out.Def("waitSkip", "Option String", skip)
	}
	// parse phase (C05): who waits for a package and who releases the waiters
	for _, m := range []string{"addPendingParse", "LogParseResult", "SyncParsePackage", "WaitForPackage"} {
		out.Def("sk_"+m, "String", xlib.LeanStr(skeleton(st, "BuildState."+m)))
	}
	// C05 liveness mechanisms outside the task counting: the set of active targets that arms the cycle check, and the
	// wake-up of the goroutines waiting for a target (subincludes) on success AND on failure
	for _, m := range []string{"LogBuildResult", "WaitForBuiltTarget"} {
		out.Def("sk_"+m, "String", xlib.LeanStr(skeleton(st, "BuildState."+m)))
	}
	if optFunc(st, "BuildState", "TargetFailed") != nil {
		out.Def("sk_TargetFailed", "String", xlib.LeanStr(skeleton(st, "BuildState.TargetFailed")))
	} else {
		out.Def("sk_TargetFailed", "String", xlib.LeanStr("absent"))
	}
	{
		saved := words
		words = regexp.MustCompile(`\b(IsActive|delete|len|internalResults|checkForCycles|cycleCheckDuration|Reset|target|Label)\b`)
		out.Def("sk_forwardResults", "String", xlib.LeanStr(skeleton(xlib.Parse("src/core/state.go"), "BuildState.forwardResults")))
		words = saved
	}
	out.Def("activeSet", "List String", xlib.LeanStrList(activeSetFacts(xlib.Parse("src/core/state.go"))))
	out.Def("wakeFacts", "List String", xlib.LeanStrList(wakeFacts(xlib.Parse("src/core/state.go"), xlib.Parse("src/build/build_step.go"))))
	// the initial value of numPending and the sizes of the task queues
	{
		var facts []string
		ast.Inspect(st.AST, func(n ast.Node) bool {
			kv, ok := n.(*ast.KeyValueExpr)
			if !ok {
				return true
			}
			if id, ok := kv.Key.(*ast.Ident); ok && (id.Name == "numPending" || id.Name == "pendingParses" || id.Name == "pendingActions") {
				s := &sk{f: st}
				facts = append(facts, id.Name+":"+s.src(kv.Value))
			}
			return true
		})
		out.Def("initFacts", "List String", xlib.LeanStrList(facts))
	}
	ot := xlib.Parse("src/output/targets.go")
	out.Def("sk_handleOutput", "String", xlib.LeanStr(skeleton(ot, "buildingTargets.handleOutput")))
	bs := xlib.Parse("src/build/build_step.go")
	out.Def("sk_Build", "String", xlib.LeanStr(skeleton(bs, "Build")))
	// buildTarget: only its state changes and terminal reports (every successful return is preceded by a built state)
	{
		saved := words
		words = regexp.MustCompile(`\b(SetState|TargetBuilt|TargetCached|TargetBuildFailed|TargetBuildStopped|errStop|EnsureDownloaded)\b`)
		out.Def("sk_buildTarget", "String", xlib.LeanStr(skeleton(bs, "buildTarget")))
		words = saved
	}
	pz := xlib.Parse("src/plz/plz.go")
	out.Def("sk_Run", "String", xlib.LeanStr(skeleton(pz, "Run")))
	_ = token.NoPos
	out.Write()
}
