// Facts for C04 (and C05) from src/core/build_target.go, src/core/state.go, src/build/build_step.go,
// src/plz/plz.go: the state enum order, IsBuilt, the CAS pairs of SyncUpdateState, and *skeletons* of the
// scheduling functions.  A skeleton is the function body reduced to the statements that mention a scheduling
// primitive (state reads/writes, CAS, FinishBuild/WaitForBuild, counters, queues, results), with the receiver,
// parameters and every local renamed to roles (recv, p0.., l0..) and white space removed — robust to renaming
// and to edits of unrelated statements (logging, metrics, limiter), sensitive to reordering, dropping or
// changing any scheduling step or condition.
package main

import (
	"bytes"
	"fmt"
	"go/ast"
	"go/printer"
	"go/token"
	"regexp"
	"strings"

	"verif/harness/xlib"
)

var words = regexp.MustCompile(`\b(SyncUpdateState|SetState|State|FinishBuild|WaitForBuild|LogBuildResult|LogBuildError|addPendingBuild|taskDone|TaskDone|Stop|queueAsync|queueTargetAsync|queueTarget|queueResolvedTarget|AddInt64|numPending|numDone|close|pendingActions|pendingParses|closeOnce|buildTarget|Build|IsBuilt|NeedBuild|asyncError|resolveDependencies|DeclaredDependencies|Dependencies|errStop|finishedBuilding|waitOnChan|CompareAndSwapInt32|StoreInt32|LoadInt32|KeepGoing|checkForCycles|cycleDetector|completeAction|pendingPackages|packageWaits|pendingTargets|waitOnChan|AddOrGet|PackageParsed|ParseFailed|IsFailure|FailedTargets|GetOrSet|Parses|parse\.Parse)\b`)

type sk struct {
	f *xlib.File
}

func (s *sk) src(n ast.Node) string {
	var b bytes.Buffer
	printer.Fprint(&b, s.f.Fset, n)
	return strings.Join(strings.Fields(b.String()), "")
}

func (s *sk) rel(n ast.Node) bool { return n != nil && words.MatchString(s.srcSp(n)) }

func (s *sk) srcSp(n ast.Node) string {
	var b bytes.Buffer
	printer.Fprint(&b, s.f.Fset, n)
	return b.String()
}

// rename gives the receiver, the parameters and every local of fn role names.
func rename(fn *ast.FuncDecl) {
	names := map[*ast.Object]string{}
	if fn.Recv != nil {
		for _, fl := range fn.Recv.List {
			for _, nm := range fl.Names {
				if nm.Obj != nil {
					names[nm.Obj] = "recv"
				}
			}
		}
	}
	i := 0
	for _, fl := range fn.Type.Params.List {
		for _, nm := range fl.Names {
			if nm.Obj != nil {
				names[nm.Obj] = fmt.Sprintf("p%d", i)
			}
			i++
		}
	}
	// local closures keep their names: they are the vocabulary of the function (queueAsync, completeAction)
	keep := map[*ast.Object]bool{}
	ast.Inspect(fn, func(n ast.Node) bool {
		if a, ok := n.(*ast.AssignStmt); ok && a.Tok == token.DEFINE && len(a.Lhs) == 1 && len(a.Rhs) == 1 {
			if _, ok := a.Rhs[0].(*ast.FuncLit); ok {
				if id, ok := a.Lhs[0].(*ast.Ident); ok && id.Obj != nil {
					keep[id.Obj] = true
				}
			}
		}
		return true
	})
	k := 0
	ast.Inspect(fn, func(n ast.Node) bool {
		id, ok := n.(*ast.Ident)
		if !ok || id.Obj == nil || id.Name == "_" {
			return true
		}
		if id.Obj.Kind != ast.Var || keep[id.Obj] {
			return true
		}
		pos := id.Obj.Pos()
		if pos < fn.Pos() || pos > fn.End() {
			return true // package-level
		}
		if _, ok := names[id.Obj]; !ok {
			names[id.Obj] = fmt.Sprintf("l%d", k)
			k++
		}
		return true
	})
	ast.Inspect(fn, func(n ast.Node) bool {
		if id, ok := n.(*ast.Ident); ok && id.Obj != nil {
			if nm, ok := names[id.Obj]; ok {
				id.Name = nm
			}
		}
		return true
	})
}

// stmts renders the relevant statements of a list.
func (s *sk) stmts(list []ast.Stmt, headerRel bool) string {
	var parts []string
	var rets []int
	any := headerRel
	for _, st := range list {
		if _, ok := st.(*ast.ReturnStmt); ok {
			rets = append(rets, len(parts))
			parts = append(parts, s.shallow(st))
			if s.rel(st) {
				any = true
			}
			continue
		}
		if t := s.stmt(st); t != "" {
			parts = append(parts, t)
			any = true
		}
	}
	if !any {
		return ""
	}
	return strings.Join(parts, ";")
}

func (s *sk) block(b *ast.BlockStmt, headerRel bool) string {
	if b == nil {
		return ""
	}
	return s.stmts(b.List, headerRel)
}

// funcLits renders the relevant closures inside an expression or simple statement.
func (s *sk) funcLits(n ast.Node) string {
	var out []string
	ast.Inspect(n, func(x ast.Node) bool {
		if fl, ok := x.(*ast.FuncLit); ok {
			if b := s.block(fl.Body, false); b != "" {
				out = append(out, "func{"+b+"}")
			}
			return false
		}
		return true
	})
	return strings.Join(out, "")
}

// shallow renders a simple statement with closure bodies replaced by their skeletons.
func (s *sk) shallow(n ast.Node) string {
	has := false
	ast.Inspect(n, func(x ast.Node) bool {
		if _, ok := x.(*ast.FuncLit); ok {
			has = true
		}
		return !has
	})
	if !has {
		return s.src(n)
	}
	// print with the closures cut out
	txt := s.src(n)
	ast.Inspect(n, func(x ast.Node) bool {
		if fl, ok := x.(*ast.FuncLit); ok {
			txt = strings.Replace(txt, s.src(fl), "func{"+s.block(fl.Body, false)+"}", 1)
			return false
		}
		return true
	})
	return txt
}

func (s *sk) stmt(st ast.Stmt) string {
	switch t := st.(type) {
	case *ast.IfStmt:
		hdr := ""
		if t.Init != nil {
			hdr = s.shallow(t.Init) + ";"
		}
		hdr += s.src(t.Cond)
		hr := s.rel(t.Cond) || (t.Init != nil && s.rel(t.Init))
		body := s.block(t.Body, hr)
		els := ""
		if t.Else != nil {
			switch e := t.Else.(type) {
			case *ast.BlockStmt:
				els = s.block(e, hr)
			default:
				els = s.stmt(e)
			}
		}
		if !hr && body == "" && els == "" {
			return ""
		}
		out := "if(" + hdr + "){" + body + "}"
		if els != "" {
			out += "else{" + els + "}"
		}
		return out
	case *ast.ForStmt:
		hdr := ""
		if t.Init != nil {
			hdr += s.src(t.Init)
		}
		hdr += ";"
		if t.Cond != nil {
			hdr += s.src(t.Cond)
		}
		hdr += ";"
		if t.Post != nil {
			hdr += s.src(t.Post)
		}
		hr := (t.Cond != nil && s.rel(t.Cond))
		body := s.block(t.Body, hr)
		if !hr && body == "" {
			return ""
		}
		return "for(" + hdr + "){" + body + "}"
	case *ast.RangeStmt:
		hr := s.rel(t.X)
		body := s.block(t.Body, hr)
		if !hr && body == "" {
			return ""
		}
		return "range(" + s.src(t.X) + "){" + body + "}"
	case *ast.BlockStmt:
		return s.block(t, false)
	case *ast.SwitchStmt:
		var cs []string
		for _, c := range t.Body.List {
			cc := c.(*ast.CaseClause)
			b := s.stmts(cc.Body, false)
			if b != "" {
				var es []string
				for _, e := range cc.List {
					es = append(es, s.src(e))
				}
				cs = append(cs, "case("+strings.Join(es, ",")+"){"+b+"}")
			}
		}
		if len(cs) == 0 {
			return ""
		}
		tag := ""
		if t.Tag != nil {
			tag = s.src(t.Tag)
		}
		return "switch(" + tag + "){" + strings.Join(cs, "") + "}"
	case *ast.SelectStmt:
		var cs []string
		for _, c := range t.Body.List {
			cc := c.(*ast.CommClause)
			b := s.stmts(cc.Body, false)
			hdr := "default"
			if cc.Comm != nil {
				hdr = s.src(cc.Comm)
			}
			if b != "" || (cc.Comm != nil && s.rel(cc.Comm)) {
				cs = append(cs, "comm("+hdr+"){"+b+"}")
			}
		}
		if len(cs) == 0 {
			return ""
		}
		return "select{" + strings.Join(cs, "") + "}"
	case *ast.GoStmt:
		if !s.rel(t) {
			return ""
		}
		return "go " + s.shallow(t.Call)
	case *ast.DeferStmt:
		if !s.rel(t) {
			return ""
		}
		return "defer " + s.shallow(t.Call)
	case *ast.LabeledStmt:
		return s.stmt(t.Stmt)
	default:
		if !s.rel(st) {
			return ""
		}
		return s.shallow(st)
	}
}

func skeleton(f *xlib.File, name string) string {
	fn := f.Func(name)
	rename(fn)
	s := &sk{f: f}
	return s.block(fn.Body, false)
}

func main() {
	bt := xlib.Parse("src/core/build_target.go")
	out := xlib.NewOut("C04", bt.Path, "src/core/state.go", "src/build/build_step.go", "src/plz/plz.go", "src/output/targets.go")
	out.Def("enumOrder", "List String", xlib.LeanStrList(bt.ConstBlockNames("Inactive")))
	for _, m := range []string{"IsBuilt", "State", "SetState", "SyncUpdateState", "FinishBuild", "WaitForBuild"} {
		recv := "BuildTarget."
		if m == "IsBuilt" {
			recv = "BuildTargetState."
		}
		fn := bt.Func(recv + m)
		rename(fn)
		s := &sk{f: bt}
		var parts []string
		for _, st := range fn.Body.List {
			parts = append(parts, s.src(st))
		}
		out.Def("bt"+m, "String", xlib.LeanStr(strings.Join(parts, ";")))
	}
	st := xlib.Parse("src/core/state.go")
	// the CAS pairs, in source order, with the function they occur in
	var cas []string
	for _, d := range st.AST.Decls {
		fd, ok := d.(*ast.FuncDecl)
		if !ok || fd.Body == nil {
			continue
		}
		ast.Inspect(fd.Body, func(n ast.Node) bool {
			c, ok := n.(*ast.CallExpr)
			if !ok {
				return true
			}
			if sel, ok := c.Fun.(*ast.SelectorExpr); ok && sel.Sel.Name == "SyncUpdateState" && len(c.Args) == 2 {
				a, ok1 := c.Args[0].(*ast.Ident)
				b, ok2 := c.Args[1].(*ast.Ident)
				if !ok1 || !ok2 {
					xlib.Unreadable("SyncUpdateState with non-constant arguments in %s", fd.Name.Name)
				}
				cas = append(cas, fmt.Sprintf("(%s, %s, %s)", xlib.LeanStr(fd.Name.Name), xlib.LeanStr(a.Name), xlib.LeanStr(b.Name)))
			}
			return true
		})
	}
	out.Def("casPairs", "List (String × String × String)", "["+strings.Join(cas, ", ")+"]")
	for _, m := range []string{"queueResolvedTarget", "queueTargetAsync", "addPendingBuild", "taskDone", "Stop", "asyncError", "checkForCycles"} {
		out.Def("sk_"+m, "String", xlib.LeanStr(skeleton(st, "BuildState."+m)))
	}
	// the dependency wait loop of queueTargetAsync, statement by statement: which state tests come before and
	// after WaitForBuild and what they do (the model's wait step is instantiated from this)
	{
		fn := st.Func("BuildState.queueTargetAsync") // already role-renamed by skeleton()
		s := &sk{f: st}
		var loop *ast.RangeStmt
		ast.Inspect(fn.Body, func(n ast.Node) bool {
			if rs, ok := n.(*ast.RangeStmt); ok && strings.HasSuffix(s.src(rs.X), ".Dependencies()") {
				loop = rs
			}
			return true
		})
		if loop == nil {
			xlib.Unreadable("queueTargetAsync: no loop over target.Dependencies()")
		}
		elem := ""
		if id, ok := loop.Value.(*ast.Ident); ok {
			elem = id.Name
		}
		var items []string
		for _, b := range loop.Body.List {
			txt := strings.ReplaceAll(s.src(b), elem+".", "dep.")
			switch t := b.(type) {
			case *ast.ExprStmt:
				if strings.Contains(txt, "WaitForBuild(") {
					items = append(items, "wait")
					continue
				}
			case *ast.IfStmt:
				cond := strings.ReplaceAll(s.src(t.Cond), elem+".", "dep.")
				body := s.src(t.Body)
				switch {
				case strings.Contains(body, "continue") && !strings.Contains(body, "SetState"):
					items = append(items, "if "+cond+" continue")
					continue
				case strings.Contains(body, "SetState(DependencyFailed)") && strings.Contains(body, "FinishBuild()") && strings.Contains(body, "return"):
					items = append(items, "if "+cond+" fail")
					continue
				}
			}
			if words.MatchString(s.srcSp(b)) {
				items = append(items, "other "+txt)
			}
		}
		out.Def("waitLoop", "List String", xlib.LeanStrList(items))
		// the state a dependency may be in to be passed over without waiting (absent in the pinned code)
		skip := "none"
		for _, it := range items {
			if it == "wait" {
				break
			}
			if strings.HasPrefix(it, "if dep.State()>=") && strings.HasSuffix(it, " continue") {
				skip = "some " + xlib.LeanStr(strings.TrimSuffix(strings.TrimPrefix(it, "if dep.State()>="), " continue"))
				break
			}
		}
		out.Def("waitSkip", "Option String", skip)
	}
	// parse phase (C05): who waits for a package and who releases the waiters
	for _, m := range []string{"addPendingParse", "LogParseResult", "SyncParsePackage", "WaitForPackage"} {
		out.Def("sk_"+m, "String", xlib.LeanStr(skeleton(st, "BuildState."+m)))
	}
	// the initial value of numPending and the sizes of the task queues
	{
		var facts []string
		ast.Inspect(st.AST, func(n ast.Node) bool {
			kv, ok := n.(*ast.KeyValueExpr)
			if !ok {
				return true
			}
			if id, ok := kv.Key.(*ast.Ident); ok && (id.Name == "numPending" || id.Name == "pendingParses" || id.Name == "pendingActions") {
				s := &sk{f: st}
				facts = append(facts, id.Name+":"+s.src(kv.Value))
			}
			return true
		})
		out.Def("initFacts", "List String", xlib.LeanStrList(facts))
	}
	ot := xlib.Parse("src/output/targets.go")
	out.Def("sk_handleOutput", "String", xlib.LeanStr(skeleton(ot, "buildingTargets.handleOutput")))
	bs := xlib.Parse("src/build/build_step.go")
	out.Def("sk_Build", "String", xlib.LeanStr(skeleton(bs, "Build")))
	// buildTarget: only its state changes and terminal reports (every successful return is preceded by a built state)
	{
		saved := words
		words = regexp.MustCompile(`\b(SetState|TargetBuilt|TargetCached|TargetBuildFailed|TargetBuildStopped|errStop|EnsureDownloaded)\b`)
		out.Def("sk_buildTarget", "String", xlib.LeanStr(skeleton(bs, "buildTarget")))
		words = saved
	}
	pz := xlib.Parse("src/plz/plz.go")
	out.Def("sk_Run", "String", xlib.LeanStr(skeleton(pz, "Run")))
	_ = token.NoPos
	out.Write()
}
